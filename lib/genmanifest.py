"""Regenerate MANIFEST.json from lib/props.py (claimed checks) and the list of
properties not claimed yet."""
import json
import os
import subprocess
import sys
sys.path.insert(0, os.path.dirname(os.path.abspath(__file__)))
import props

VERIF = os.path.dirname(os.path.dirname(os.path.abspath(__file__)))
ids = [json.loads(l)["id"] for l in open(os.path.join(VERIF, "properties.jsonl"))]
try:
    hooks = [l.strip() for l in open(os.path.join(VERIF, "hooks.txt")) if l.strip() and not l.startswith("#")]
except OSError:
    hooks = []
enabled = set(l.strip() for l in open(os.path.join(VERIF, "props", "ENABLED")) if l.strip())
for pid in list(props.PROPS):
    if pid not in enabled:
        props.PROPS[pid] = dict(unclaimed="check under construction (harness exists, not yet validated on the repaired tree)")
checks = []
for pid in ids:
    P = props.PROPS.get(pid)
    if not P or P.get("unclaimed"):
        continue
    checks.append(dict(
        property_id=pid,
        quick_cmd="bin/check %s --tier quick" % pid,
        thorough_cmd="bin/check %s --tier thorough" % pid,
        evidence_file="/verif/evidence/%s.json" % pid,
        replay_cmd_template="bin/check %s --replay {path}" % pid,
        engine="vf",
        level_claimed=dict(category="exploration", text=P["level_text"], design_ref=P.get("design_ref", "DESIGN.md section 4 " + pid)),
        level_note=P["level_note"],
        technique=P["technique"],
    ))
na = []
for pid in ids:
    P = props.PROPS.get(pid)
    if P and not P.get("unclaimed"):
        continue
    reason = (P or {}).get("unclaimed") or props.NOT_CLAIMED.get(pid, "check not implemented yet (see DESIGN.md section 4 for the planned monitor)")
    na.append(dict(property_id=pid, reason=reason))
m = dict(
    version=1,
    setup_cmd="python3 lib/build.py asan",
    hooks=dict(guard="MPT_VERIF",
               enable="lib/build.py builds the tree out-of-tree with the project's CMake files and -DMPT_VERIF plus -fsanitize=address,undefined",
               baseline_off_cmd="bin/baseline-off",
               source_commits=hooks, add_only=True),
    engines=[dict(name="vf", path="lib/check.py", serves_properties=[c["property_id"] for c in checks],
                  kind_free_text="runtime monitoring: sanitizer builds of the real libraries driven by generated workloads; "
                                 "reference-model monitors inside per-property harnesses (harness/), sharded sequential runner "
                                 "with crash isolation (lib/run.py)")],
    checks=checks,
    notes="All checks rebuild from $VERIF_REPO (default /repo) keyed by a content hash of the tree; exit 2 = inconclusive.",
    not_applicable=na,
)
with open(os.path.join(VERIF, "MANIFEST.json"), "w") as fh:
    json.dump(m, fh, indent=1)
    fh.write("\n")
print("MANIFEST.json: %d checks, %d not claimed" % (len(checks), len(na)))
