"""Per-property configuration, one file per property under /verif/props/.

Each props/CNN.py defines PROP = dict(legs=[...], rule=..., assumptions=[...],
technique=..., level_text=..., level_note=...).  A property without a file (or
with PROP["unclaimed"] = reason) is listed under not_applicable in MANIFEST.json.
"""
import importlib.util
import os
import sys

VERIF = os.path.dirname(os.path.dirname(os.path.abspath(__file__)))
PDIR = os.path.join(VERIF, "props")
sys.path.insert(0, PDIR)

NOT_CLAIMED = {}
PROPS = {}
for f in sorted(os.listdir(PDIR)):
    if not (f.startswith("C") and f.endswith(".py")):
        continue
    spec = importlib.util.spec_from_file_location("prop_" + f[:-3], os.path.join(PDIR, f))
    mod = importlib.util.module_from_spec(spec)
    spec.loader.exec_module(mod)
    PROPS[f[:-3]] = mod.PROP
