"""bin/check: decide one property on the current tree.

exit 0  property held on everything explored (KNOWN-FINDING lines possible)
exit 1  VIOLATION property=<id> replay=<path>   (one line per distinct key)
exit 2  inconclusive: build/harness failure, coverage floor missed
"""
import argparse
import json
import os
import re
import shutil
import sys
import time

sys.path.insert(0, os.path.dirname(os.path.abspath(__file__)))
import build  # noqa: E402
import run    # noqa: E402
import props  # noqa: E402

VERIF = build.VERIF
EVID = os.path.join(VERIF, "evidence")
REPLAY = os.path.join(EVID, "replay")
FINDINGS = os.path.join(VERIF, "known_findings.txt")


def load_findings(pid):
    """-> {key: text} of 'finding:' lines for this property"""
    out = {}
    try:
        with open(FINDINGS) as fh:
            for line in fh:
                line = line.strip()
                m = re.match(r"finding:\s+property=(\S+)\s+key=(\S+)\s*(?:::\s*(.*))?$", line)
                if m and m.group(1) == pid:
                    out[m.group(2)] = m.group(3) or ""
    except OSError:
        pass
    return out


def slug(s):
    return re.sub(r"[^A-Za-z0-9_.-]+", "_", s)[:80]


def main(argv=None):
    ap = argparse.ArgumentParser()
    ap.add_argument("pid")
    ap.add_argument("--tier", default=os.environ.get("VERIF_TIER", "quick"), choices=["quick", "thorough"])
    ap.add_argument("--seed", type=int, default=None)
    ap.add_argument("--replay")
    ap.add_argument("--leg", action="append", help="run only these legs (development)")
    ap.add_argument("--keep", action="store_true", help="keep the work directory")
    ap.add_argument("--no-evidence", action="store_true", help="do not rewrite the evidence file (self-test runs)")
    ap.add_argument("--memcheck-only", action="store_true", help="development: run only the valgrind legs of the thorough tier")
    a = ap.parse_args(argv)
    pid = a.pid
    if pid not in props.PROPS:
        print("unknown property " + pid, file=sys.stderr)
        return 2
    P = props.PROPS[pid]
    seed = a.seed if a.seed is not None else int(os.environ.get("VERIF_SEED", "1") or 1)
    tier = a.tier
    repo = build.repo_path()
    t0 = time.time()
    known = load_findings(pid)

    if a.replay:
        with open(a.replay) as fh:
            rp = json.load(fh)
        tier, seed = rp["tier"], rp["seed"]
        if rp.get("fuzz_input_hex") is not None:
            # violation found by a libFuzzer leg: run the target on the stored input
            import subprocess
            import tempfile
            L = [x for x in P["legs"] if x["name"] == rp["leg"]][0]
            exe = build.build_fuzzer(build.ensure_lib("fuzz", repo), L, repo)
            with tempfile.NamedTemporaryFile(suffix=".input") as tf:
                tf.write(bytes.fromhex(rp["fuzz_input_hex"]))
                tf.flush()
                env = dict(os.environ, ASAN_OPTIONS="detect_leaks=0:handle_abort=1", VF_FUZZ_LOG="1")
                if known:
                    env["VF_KNOWN"] = ",".join(known)
                r = subprocess.run([exe, tf.name], env=env, stdout=subprocess.PIPE, stderr=subprocess.STDOUT)
            sys.stderr.write(r.stdout.decode(errors="replace")[-8000:])
            if r.returncode != 0:
                print("VIOLATION property=%s replay=%s" % (pid, a.replay))
                return 1
            print("replay of fuzz input: no violation")
            return 0

    work = os.path.join(VERIF, ".work", "%s-%s-%d" % (pid, tier, os.getpid()))
    shutil.rmtree(work, ignore_errors=True)
    os.makedirs(work)
    try:
        try:
            bdir = build.ensure_lib("asan", repo)
        except build.BuildError as e:
            print("INCONCLUSIVE: library build failed:\n%s" % e, file=sys.stderr)
            return 2
        legs = []
        for L in P["legs"]:
            if a.leg and L["name"] not in a.leg:
                continue
            if L.get("kind") == "fuzz":
                runs = L.get("runs", {}).get(tier, 0)
                if a.replay or not runs or os.environ.get("VERIF_NO_FUZZ"):
                    continue
                try:
                    fdir = build.ensure_lib("fuzz", repo)
                    exe = build.build_fuzzer(fdir, L, repo)
                except build.BuildError as e:
                    print("INCONCLUSIVE: fuzz target %s does not build:\n%s" % (L["name"], e), file=sys.stderr)
                    return 2
                lw = os.path.join(work, L["name"])
                os.makedirs(lw)
                corpus = os.path.join(VERIF, L["corpus"]) if L.get("corpus") else None
                legs.append((L, run.FuzzLeg(exe, L["name"], seed, lw, repo, runs, jobs=L.get("jobs", 16),
                                            max_len=L.get("max_len", 4096), corpus=corpus, known=list(known))))
                continue
            if a.replay and L["name"] != rp["leg"]:
                continue
            if tier == "quick" and L.get("thorough_only"):
                continue
            try:
                exe = build.build_harness(bdir, L, "asan", repo)
            except build.BuildError as e:
                print("INCONCLUSIVE: harness %s does not build against this tree:\n%s" % (L["name"], e), file=sys.stderr)
                return 2
            lw = os.path.join(work, L["name"])
            os.makedirs(lw)
            env = dict(L.get("env", {}))
            env["VERIF_REPO"] = repo
            env["VERIF_DIR"] = VERIF
            legs.append((L, run.Leg(exe, L["name"], tier, seed, lw, repo,
                                    batch=L.get("batch", 256), lsan=L.get("lsan", False),
                                    timeout=L.get("timeout", 45 if tier == "quick" else 240),
                                    known=list(known), extra_env=env)))

        # valgrind memcheck passes (thorough tier): reduced workload on an uninstrumented build,
        # looking for uses of uninitialised values, which the compiler sanitizers cannot see
        if tier == "thorough" and not a.replay and not os.environ.get("VERIF_NO_MEMCHECK"):
            mlegs = [L for L in P["legs"] if L.get("memcheck") and (not a.leg or L["name"] in a.leg)]
            if mlegs:
                try:
                    pdir = build.ensure_lib("plain", repo)
                except build.BuildError as e:
                    print("INCONCLUSIVE: plain library build failed:\n%s" % e, file=sys.stderr)
                    return 2
                for L in mlegs:
                    try:
                        exe = build.build_harness(pdir, L, "plain", repo)
                    except build.BuildError as e:
                        print("INCONCLUSIVE: harness %s does not build without sanitizers:\n%s" % (L["name"], e), file=sys.stderr)
                        return 2
                    lw = os.path.join(work, L["name"] + "@memcheck")
                    os.makedirs(lw)
                    env = dict(L.get("env", {}))
                    env["VERIF_REPO"] = repo
                    env["VERIF_DIR"] = VERIF
                    ML = dict(L)
                    ML["name"] = L["name"] + "@memcheck"
                    ML["floors"] = {}
                    ML["memcheck_cases"] = int(L["memcheck"])
                    legs.append((ML, run.Leg(exe, ML["name"], tier, seed, lw, repo, batch=L.get("batch", 256) if L.get("batch", 256) == 1 else 64,
                                             lsan=False, timeout=1800, known=list(known), extra_env=env, memcheck=True)))

        if a.replay:
            L, leg = legs[0]
            r, c = leg.replay(rp["case"])
            sys.stderr.write(r["err"][-20000:])
            if r["san"]:
                sys.stderr.write(r["san"][:6000])
            if c:
                print("replayed: key=%s :: %s" % c)
                if c[0] in known:
                    print("KNOWN-FINDING: property=%s %s" % (pid, c[0]))
                    return 0
                print("VIOLATION property=%s replay=%s" % (pid, a.replay))
                return 1
            print("replay of %s case %d: no violation" % (rp["leg"], rp["case"]))
            return 0

        if a.memcheck_only:
            legs = [(L, leg) for L, leg in legs if L.get("memcheck_cases")]
        for L, leg in legs:
            if L.get("memcheck_cases"):
                total = leg.count_cases()
                leg.stride = max(1, total // max(1, L["memcheck_cases"]))
            leg.run()

        # ---- merge
        violations = []
        inconclusive = []
        counters = {}
        samples = []
        evaluations = 0
        fps = set()
        per_leg = {}
        for L, leg in legs:
            violations += leg.violations
            inconclusive += leg.inconclusive
            evaluations += leg.evaluations
            f = leg.fingerprints()
            per_leg[L["name"]] = dict(cases=leg.total, evaluations=leg.evaluations,
                                      nontrivial=leg.nontrivial, distinct_nontrivial=len(f),
                                      processes=leg.invocations)
            fps |= set((hash(L["name"]) & 0xffff, x) for x in f)
            for k, v in leg.counters.items():
                counters[k] = counters.get(k, 0) + v if not k.startswith("max:") else max(counters.get(k, 0), v)
            for s in leg.samples:
                if len(samples) < 8:
                    samples.append({"leg": L["name"], "case": s})
            # coverage floors
            for k, need in L.get("floors", {}).items():
                have = leg.counters.get(k, 0)
                if have < need and not leg.violations:
                    inconclusive.append("%s: coverage floor missed: %s = %d < %d" % (L["name"], k, have, need))
            expected = leg.total if leg.stride == 1 else (leg.total + leg.stride - 1) // leg.stride
            if leg.stride > 1:
                per_leg[L["name"]]["stride"] = leg.stride
            if leg.evaluations < expected and not leg.violations and not leg.inconclusive:
                inconclusive.append("%s: only %d of %d cases evaluated" % (L["name"], leg.evaluations, expected))

        # ---- verdict
        bykey = {}
        for v in violations:
            bykey.setdefault(v["key"], []).append(v)
        new_keys = []
        known_hits = {}
        os.makedirs(REPLAY, exist_ok=True)
        for key, vs in sorted(bykey.items()):
            vs.sort(key=lambda v: v["case"])
            if key in known:
                known_hits[key] = len(vs)
                continue
            v = dict(vs[0])
            v["property"] = pid
            v["occurrences"] = len(vs)
            v["other_cases"] = [x["case"] for x in vs[1:20]]
            path = os.path.join(REPLAY, "%s-%s.json" % (pid, slug(key)))
            with open(path, "w") as fh:
                json.dump(v, fh, indent=1)
            new_keys.append((key, path, v))
        for k, v in counters.items():
            if k.startswith("known:") and v > 0:
                kk = k[len("known:"):]
                # counter names are truncated to 55 chars
                for full in known:
                    if full.startswith(kk):
                        known_hits[full] = known_hits.get(full, 0) + v

        wall = time.time() - t0
        cov = dict(evaluations=evaluations, distinct_nontrivial=len(fps), rule=P["rule"],
                   samples=samples or ["(no sample recorded)"],
                   legs=per_leg, counters=dict(sorted(counters.items())),
                   known_finding_hits=known_hits,
                   violation_keys=[k for k, _, _ in new_keys],
                   inconclusive=inconclusive[:20])
        if P.get("exhaustive_note"):
            cov["exhaustive_subspaces"] = P["exhaustive_note"]
        ev = dict(property_id=pid, tier=tier, seed=seed, level="exploration", coverage=cov,
                  assumptions=P["assumptions"], wall_s=round(wall, 2), violations=len(new_keys),
                  tree_hash=os.path.basename(bdir), repo=repo)
        if not a.no_evidence:
            os.makedirs(EVID, exist_ok=True)
            tmp = os.path.join(EVID, ".%s.json.tmp" % pid)
            with open(tmp, "w") as fh:
                json.dump(ev, fh, indent=1)
            os.rename(tmp, os.path.join(EVID, pid + ".json"))

        print("%s %s seed=%d: %d cases evaluated, %d distinct non-trivial, %d monitor counters, %.1fs"
              % (pid, tier, seed, evaluations, len(fps), len(counters), wall))
        for key, n in sorted(known_hits.items()):
            print("KNOWN-FINDING: property=%s %s :: %s (%d hits)" % (pid, key, known.get(key, ""), n))
        if new_keys:
            for key, path, v in new_keys:
                print("violation key=%s case=%d leg=%s occurrences=%d :: %s"
                      % (key, v["case"], v["leg"], v["occurrences"], v["detail"][:300]))
                print("VIOLATION property=%s replay=%s" % (pid, path))
            return 1
        if inconclusive:
            for m in inconclusive[:20]:
                print("INCONCLUSIVE: " + m, file=sys.stderr)
            return 2
        if evaluations == 0 or len(fps) < 2:
            print("INCONCLUSIVE: nothing observed", file=sys.stderr)
            return 2
        return 0
    finally:
        if not a.keep:
            shutil.rmtree(work, ignore_errors=True)


if __name__ == "__main__":
    sys.exit(main())
