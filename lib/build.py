"""Build cache: sanitizer builds of the tree under test and of the harnesses.

Every check calls ensure_lib() first.  The cache key is a content hash of the
whole tree in $VERIF_REPO (default /repo) without .git/ and _build/, so a
changed byte anywhere forces a rebuild and an unchanged tree is built once for
all checks.  Nothing is written into the tree under test.
"""
import fcntl
import hashlib
import os
import shutil
import subprocess
import sys
import time

VERIF = os.path.dirname(os.path.dirname(os.path.abspath(__file__)))
CACHE = os.path.join(VERIF, ".build")
GUARD = "MPT_VERIF"

SAN = ("-fsanitize=address,undefined,float-cast-overflow "
       "-fno-sanitize=alignment,nonnull-attribute,vptr -fno-sanitize-recover=all")
FLAVOURS = {
    # name: (cc, cxx, flags, targets)
    "asan": ("gcc", "g++", "-O1 -g -fno-omit-frame-pointer %s -D%s" % (SAN, GUARD),
             ["mptcore", "mptio", "mptplot", "mptloader", "mpt++"]),
    "plain": ("gcc", "g++", "-O1 -g -fno-omit-frame-pointer -D%s" % GUARD,
              ["mptcore", "mptio", "mptplot", "mptloader", "mpt++"]),
    "fuzz": ("clang-14", "clang++-14",
             "-O1 -g -fno-omit-frame-pointer -fsanitize=fuzzer-no-link,address,undefined "
             "-fno-sanitize=alignment,nonnull-attribute,object-size,function,pointer-overflow,null,bounds "
             "-fno-sanitize-recover=all -D%s" % GUARD,
             ["mptcore", "mptio", "mptplot"]),
}
LIBDIRS = {"mptcore": "mptcore", "mptio": "mptio", "mptplot": "mptplot",
           "mptloader": "mptloader", "mpt++": "mpt++"}
INCLUDES = ["mptcore", "mptio", "mptplot", "mptloader", "mpt++", "."]


class BuildError(Exception):
    pass


def repo_path():
    return os.path.abspath(os.environ.get("VERIF_REPO", "/repo"))


def tree_hash(repo):
    h = hashlib.sha256()
    for root, dirs, files in os.walk(repo):
        dirs[:] = sorted(d for d in dirs
                         if not (root == repo and d in (".git", "_build")))
        for f in sorted(files):
            p = os.path.join(root, f)
            if os.path.islink(p):
                h.update(b"L" + os.path.relpath(p, repo).encode() + b"\0" +
                         os.readlink(p).encode() + b"\0")
                continue
            try:
                with open(p, "rb") as fh:
                    data = fh.read()
            except OSError:
                continue
            h.update(b"F" + os.path.relpath(p, repo).encode() + b"\0" +
                     str(len(data)).encode() + b"\0")
            h.update(data)
    return h.hexdigest()[:20]


def _run(cmd, cwd=None, logf=None):
    r = subprocess.run(cmd, cwd=cwd, stdout=subprocess.PIPE, stderr=subprocess.STDOUT)
    if logf:
        with open(logf, "ab") as fh:
            fh.write((" ".join(cmd) + "\n").encode())
            fh.write(r.stdout)
    if r.returncode != 0:
        raise BuildError("command failed (%d): %s\n%s" %
                         (r.returncode, " ".join(cmd), r.stdout.decode(errors="replace")[-4000:]))
    return r.stdout


def _prune(flavour, keep_dir, keep=16):
    try:
        ents = [os.path.join(CACHE, d) for d in os.listdir(CACHE)
                if d.startswith(flavour + "-")]
    except OSError:
        return
    ents = [e for e in ents if os.path.isdir(e) and e != keep_dir]
    ents.sort(key=lambda e: os.path.getmtime(e), reverse=True)
    for e in ents[keep - 1:]:
        shutil.rmtree(e, ignore_errors=True)


def lib_dir(flavour="asan", repo=None):
    """cache directory for the current content of the tree (may not exist yet)"""
    repo = repo or repo_path()
    cc, cxx, flags, targets = FLAVOURS[flavour]
    th = tree_hash(repo)
    th = hashlib.sha256((th + "|" + cc + "|" + cxx + "|" + flags + "|" + " ".join(targets)).encode()).hexdigest()[:20]
    return os.path.join(CACHE, "%s-%s" % (flavour, th))


def ensure_lib(flavour="asan", repo=None):
    """Return the build directory holding the libraries of the current tree."""
    repo = repo or repo_path()
    cc, cxx, flags, targets = FLAVOURS[flavour]
    os.makedirs(CACHE, exist_ok=True)
    bdir = lib_dir(flavour, repo)
    ok = os.path.join(bdir, ".ok")
    if os.path.exists(ok):
        os.utime(bdir, None)
        return bdir
    with open(os.path.join(CACHE, "lock-" + flavour), "w") as lk:
        fcntl.flock(lk, fcntl.LOCK_EX)
        if os.path.exists(ok):
            return bdir
        if os.path.isdir(bdir):
            shutil.rmtree(bdir)
        os.makedirs(bdir)
        logf = os.path.join(bdir, "build.log")
        t0 = time.time()
        _run(["cmake", "-G", "Ninja", "-Wno-dev", "-Wno-deprecated", "-S", repo, "-B", bdir,
              "-DCMAKE_BUILD_TYPE=None",
              "-DCMAKE_C_COMPILER=" + cc, "-DCMAKE_CXX_COMPILER=" + cxx,
              "-DCMAKE_C_FLAGS=" + flags, "-DCMAKE_CXX_FLAGS=" + flags], logf=logf)
        _run(["ninja", "-C", bdir] + targets, logf=logf)
        with open(ok, "w") as fh:
            fh.write("%s %.1fs\n" % (os.path.basename(bdir), time.time() - t0))
        _prune(flavour, bdir)
    return bdir


def _file_hash(paths):
    h = hashlib.sha256()
    for p in paths:
        with open(p, "rb") as fh:
            h.update(p.encode() + b"\0" + fh.read())
    return h.hexdigest()[:16]


def build_harness(bdir, leg, flavour="asan", repo=None):
    """Compile harness sources of a leg against headers/libs of the tree.

    leg: dict(name=..., src=[files under harness/], libs=[...], cxx=bool)
    Returns the path of the executable.
    """
    repo = repo or repo_path()
    cc, cxx, flags, _ = FLAVOURS[flavour]
    hdir = os.path.join(VERIF, "harness")
    srcs = [os.path.join(hdir, s) for s in leg["src"]]
    common = [os.path.join(hdir, "common", f) for f in sorted(os.listdir(os.path.join(hdir, "common")))]
    headers = [os.path.join(hdir, f) for f in sorted(os.listdir(hdir)) if f.endswith(".h")]
    extra = [os.path.join(hdir, f) for f in leg.get("deps", [])]
    key = _file_hash(srcs + common + headers + extra)
    odir = os.path.join(bdir, "h")
    os.makedirs(odir, exist_ok=True)
    exe = os.path.join(odir, "%s-%s" % (leg["name"], key))
    if os.path.exists(exe):
        return exe
    with open(os.path.join(odir, "lock-" + leg["name"]), "w") as lk:
        fcntl.flock(lk, fcntl.LOCK_EX)
        if os.path.exists(exe):
            return exe
        inc = []
        for i in INCLUDES:
            inc += ["-I", os.path.join(repo, i)]
        inc += ["-I", os.path.join(hdir, "common")]
        objs = []
        tmp = exe + ".tmp.%d" % os.getpid()
        os.makedirs(tmp, exist_ok=True)
        try:
            cfiles = srcs + [os.path.join(hdir, "common", "vf.c")] + \
                     [os.path.join(hdir, "common", c) for c in leg.get("common", [])]
            for s in cfiles:
                o = os.path.join(tmp, os.path.basename(s) + ".o")
                is_cxx = s.endswith(".cpp")
                comp = cxx if is_cxx else cc
                std = ["-std=gnu++17"] if is_cxx else ["-std=gnu11"]
                _run([comp] + std + flags.split() + ["-Wall", "-Wno-unused-function"] +
                     leg.get("cflags", []) + inc + ["-c", s, "-o", o])
                objs.append(o)
            libs = []
            for l in leg.get("libs", ["mptcore"]):
                d = os.path.join(bdir, LIBDIRS[l])
                libs += ["-L" + d, "-Wl,-rpath," + d, "-l" + l]
            linker = cxx if (leg.get("cxx") or any(s.endswith(".cpp") for s in cfiles)) else cc
            _run([linker] + flags.split() + objs + libs + ["-lm", "-ldl", "-o", exe + ".new"] +
                 leg.get("ldflags", []))
            os.rename(exe + ".new", exe)
        finally:
            shutil.rmtree(tmp, ignore_errors=True)
    return exe


if __name__ == "__main__":
    fl = sys.argv[1] if len(sys.argv) > 1 else "asan"
    print(ensure_lib(fl))


def build_fuzzer(bdir, leg, repo=None):
    """libFuzzer target: harness sources + harness/fuzzrt/vf_fuzz.c against the `fuzz` flavour libs"""
    repo = repo or repo_path()
    cc, cxx, flags, _ = FLAVOURS["fuzz"]
    flags = flags.replace("fuzzer-no-link", "fuzzer")
    hdir = os.path.join(VERIF, "harness")
    srcs = [os.path.join(hdir, s) for s in leg["src"]] + [os.path.join(hdir, "fuzzrt", "vf_fuzz.c")]
    headers = [os.path.join(hdir, f) for f in sorted(os.listdir(hdir)) if f.endswith(".h")]
    key = _file_hash(srcs + headers + [os.path.join(hdir, "common", "vf.h")])
    odir = os.path.join(bdir, "h")
    os.makedirs(odir, exist_ok=True)
    exe = os.path.join(odir, "%s-%s" % (leg["name"], key))
    if os.path.exists(exe):
        return exe
    with open(os.path.join(odir, "lock-" + leg["name"]), "w") as lk:
        fcntl.flock(lk, fcntl.LOCK_EX)
        if os.path.exists(exe):
            return exe
        inc = []
        for i in INCLUDES:
            inc += ["-I", os.path.join(repo, i)]
        inc += ["-I", os.path.join(hdir, "common"), "-I", hdir]
        libs = []
        for l in leg.get("libs", ["mptcore"]):
            d = os.path.join(bdir, LIBDIRS[l])
            libs += ["-L" + d, "-Wl,-rpath," + d, "-l" + l]
        _run([cc, "-std=gnu11"] + flags.split() + ["-Wall", "-Wno-unused-function"] + leg.get("cflags", []) + inc + srcs +
             libs + ["-lm", "-ldl", "-o", exe + ".new"])
        os.rename(exe + ".new", exe)
    return exe
