"""Shard runner: drives a harness executable over its case space.

A worker thread owns every nshards-th case.  It starts the harness for a batch
of its cases, and when the process stops early (vf_fail -> exit 3, sanitizer
report -> exit 77, signal, watchdog) it reads the mmap'ed status file to find
the case in progress, records a violation candidate for that case, and
restarts behind it.  One defect therefore never hides the cases after it.
"""
import os
import re
import signal
import struct
import subprocess
import threading
import time

MAXCOUNTERS = 384
MAXSAMPLES = 4
HDR = struct.Struct("<IIQIIQQ64sII256s8192s1024sII")
CNT = struct.Struct("<56sQQ")
MAGIC = 0x56463031
SAN_EXIT = 77


def _cstr(b):
    return b.split(b"\0", 1)[0].decode("utf-8", "replace")


def read_status(path):
    try:
        with open(path, "rb") as fh:
            data = fh.read()
    except OSError:
        return None
    if len(data) < HDR.size:
        return None
    (magic, size, cur, in_case, done, evals, nontriv, at, hasv, inc, vkey, vdet, imsg,
     ncnt, nsmp) = HDR.unpack_from(data, 0)
    if magic != MAGIC:
        return None
    off = HDR.size
    counters = {}
    for i in range(min(ncnt, MAXCOUNTERS)):
        name, val, ismax = CNT.unpack_from(data, off + i * CNT.size)
        counters[_cstr(name)] = (val, bool(ismax))
    off += MAXCOUNTERS * CNT.size
    samples = []
    for i in range(min(nsmp, MAXSAMPLES)):
        samples.append(_cstr(data[off + i * 2048: off + (i + 1) * 2048]))
    return dict(cur=cur, in_case=in_case, done=done, evaluations=evals, nontrivial=nontriv,
                at=_cstr(at), has_violation=hasv, inconclusive=inc, vkey=_cstr(vkey),
                vdetail=_cstr(vdet), imsg=_cstr(imsg), counters=counters, samples=samples)


# --------------------------------------------------------------------------
# sanitizer log parsing
FRAME = re.compile(r"^\s*#(\d+) 0x[0-9a-f]+ in (.+) (\S+)$")
FRAME2 = re.compile(r"^\s*#(\d+) 0x[0-9a-f]+ in (\S+)")


def _fn(name):
    """function name without C++ argument list / template noise"""
    name = name.split("(")[0].strip()
    return re.sub(r"\s+", "_", name) or "?"


def parse_san(text, repo):
    """Return (kind, repo_function, frames) of the first report in a log."""
    kind = None
    m = re.search(r"ERROR: (AddressSanitizer|LeakSanitizer): ([^\n]*)", text)
    if m:
        if m.group(1) == "LeakSanitizer":
            kind = "leak"
        else:
            w = m.group(2).split()
            kind = w[0].rstrip(":") if w else "unknown"
            if kind == "attempting" and len(w) > 1:
                kind = w[1]  # attempting double-free / free on address which was not malloc()-ed
            if kind in ("SEGV", "BUS", "FPE", "ABRT", "ILL"):
                kind = "signal-" + kind
    else:
        m = re.search(r"runtime error: ([^\n]*)", text)
        if m:
            msg = m.group(1)
            msg = re.sub(r"0x[0-9a-f]+", "ADDR", msg)
            msg = re.sub(r"-?\d+(\.\d+)?(e[+-]?\d+)?", "N", msg)
            kind = "ubsan-" + "-".join(msg.split()[:4])
    frames = []
    started = False
    for line in text.splitlines():
        fm = FRAME.match(line)
        if fm:
            started = True
            frames.append((_fn(fm.group(2)), fm.group(3)))
            continue
        fm = FRAME2.match(line)
        if fm:
            started = True
            frames.append((fm.group(2), ""))
            continue
        if started and not line.strip():
            break  # first stack only
    fn = None
    rp = repo.rstrip("/") + "/"
    for f, loc in frames:
        if loc.startswith(rp) or "/mptcore/" in loc or "/mptio/" in loc or \
           "/mptplot/" in loc or "/mpt++/" in loc or "/mptloader/" in loc:
            if "/harness/" in loc:
                continue
            fn = f
            break
    if kind is None and "ubsan" not in text and frames:
        kind = "unknown"
    return kind, fn, frames


_tree_files = {}


def _tree_basenames(repo):
    if repo not in _tree_files:
        names = set()
        for d in ("mptcore", "mptio", "mptplot", "mptloader", "mpt++"):
            for root, dirs, files in os.walk(os.path.join(repo, d)):
                names.update(f for f in files if f.endswith((".c", ".cpp", ".h")))
        _tree_files[repo] = names
    return _tree_files[repo]


MC_KINDS = [("Conditional jump or move depends on uninitialised", "uninitialised-branch"),
            ("Use of uninitialised value", "uninitialised-use"),
            ("Syscall param", "uninitialised-syscall-param"),
            ("Invalid read", "invalid-read"), ("Invalid write", "invalid-write"),
            ("Invalid free", "invalid-free"), ("Mismatched free", "mismatched-free"),
            ("Source and destination overlap", "overlap"), ("Argument", "fishy-argument")]
MC_FRAME = re.compile(r"^==\d+==\s+(?:at|by) 0x[0-9A-Fa-f]+: (.+?) \((?:in )?([^)]*)\)\s*$")


def parse_memcheck(text, repo):
    """first error of a valgrind log -> (kind, first tree function, [frames])"""
    kind = None
    frames = []
    names = _tree_basenames(repo)
    fn = None
    for line in text.splitlines():
        if kind is None:
            for pat, k in MC_KINDS:
                if pat in line:
                    kind = k
                    break
            continue
        m = MC_FRAME.match(line)
        if m:
            f, loc = _fn(m.group(1)), m.group(2)
            frames.append(f)
            base = os.path.basename(loc.split(":")[0])
            if fn is None and (base in names or "/libmpt" in loc):
                fn = f
            continue
        if frames:
            break
    return kind, fn, frames


def leak_sites(text, repo):
    """allocation sites (innermost tree function) of every leak block"""
    sites = []
    blocks = re.split(r"\n(?=(?:Direct|Indirect) leak of)", text)
    for b in blocks:
        if not re.match(r"(Direct|Indirect) leak of", b):
            continue
        direct = b.startswith("Direct")
        fn = None
        for line in b.splitlines():
            fm = FRAME.match(line)
            if not fm:
                continue
            loc = fm.group(3)
            if "/harness/" in loc:
                if fn is None:
                    fn = "harness:" + fm.group(2)
                break
            if any(("/" + d + "/") in loc for d in ("mptcore", "mptio", "mptplot", "mpt++", "mptloader")):
                fn = fm.group(2)
                break
        sites.append((direct, fn or "?"))
    return sites


# --------------------------------------------------------------------------
class Leg:
    def __init__(self, exe, name, tier, seed, workdir, repo, nshards=16, batch=256,
                 lsan=False, timeout=120, known=(), extra_env=None, max_viol=60, memcheck=False, stride=1):
        self.exe, self.name, self.tier, self.seed = exe, name, tier, seed
        self.work, self.repo = workdir, repo
        self.nshards, self.batch, self.lsan = nshards, batch, lsan
        self.timeout = timeout
        self.known = list(known)
        self.extra_env = extra_env or {}
        # development aid (bin/selftest): stop a shard after a few violations, a broken tree needs no census
        self.max_viol = int(os.environ.get("VERIF_MAX_VIOL", max_viol))
        self.memcheck = memcheck      # run under valgrind memcheck (plain flavour build)
        self.stride = max(1, stride)  # evaluate every stride-th case only
        self.lock = threading.Lock()
        self.violations = []      # dicts
        self.inconclusive = []    # strings
        self.counters = {}
        self.samples = []
        self.evaluations = 0
        self.nontrivial = 0
        self.invocations = 0
        self.total = 0

    # -- process handling
    def env(self, tag, lsan=None):
        e = dict(os.environ)
        lp = os.path.join(self.work, "san-" + tag)
        lsan = self.lsan if lsan is None else lsan
        e["ASAN_OPTIONS"] = ("log_path=%s:exitcode=%d:detect_leaks=%d:allocator_may_return_null=1:"
                             "handle_abort=1:malloc_context_size=16:detect_stack_use_after_return=0:"
                             "strict_string_checks=0:print_summary=0"
                             % (lp, SAN_EXIT, 1 if lsan else 0))
        if self.extra_env.get("VF_ASAN_EXTRA"):
            # per-leg additions (props: env={"VF_ASAN_EXTRA": "detect_stack_use_after_return=1"}); later options win
            e["ASAN_OPTIONS"] += ":" + self.extra_env["VF_ASAN_EXTRA"]
        e["UBSAN_OPTIONS"] = "print_stacktrace=1:log_path=%s:exitcode=%d" % (lp, SAN_EXIT)
        e["LSAN_OPTIONS"] = "exitcode=%d:print_suppressions=0" % SAN_EXIT
        if self.known:
            e["VF_KNOWN"] = ",".join(self.known)
        e.update(self.extra_env)
        return e, lp

    def invoke(self, tag, frm, to, step, log=False, timeout=None, lsan=None):
        """run harness for cases frm, frm+step, .. < to; returns result dict"""
        status = os.path.join(self.work, "status-" + tag)
        fp = os.path.join(self.work, "fp-" + tag.split(".")[0])
        env, lp = self.env(tag, lsan)
        for f in os.listdir(self.work):
            if f.startswith("san-" + tag + "."):
                os.unlink(os.path.join(self.work, f))
        cmd = [self.exe, "--tier", self.tier, "--seed", str(self.seed), "--from", str(frm),
               "--to", str(to), "--step", str(step), "--status", status]
        if log:
            cmd.append("--log")
        else:
            cmd += ["--fp", fp]
        if self.memcheck:
            cmd = ["valgrind", "-q", "--error-exitcode=%d" % SAN_EXIT, "--track-origins=yes", "--leak-check=no",
                   "--num-callers=24", "--log-file=%s.%%p" % lp] + cmd
        timeout = timeout or self.timeout
        errf = open(os.path.join(self.work, "err-" + tag), "wb")
        p = subprocess.Popen(cmd, env=env, stdout=subprocess.DEVNULL, stderr=errf,
                             cwd=self.work, start_new_session=True)
        with self.lock:
            self.invocations += 1
        last = (-1, -1)
        last_t = time.time()
        hung = False
        while True:
            try:
                p.wait(timeout=1.0)
                break
            except subprocess.TimeoutExpired:
                s = read_status(status)
                cur = (s["cur"], s["evaluations"]) if s else (-1, -1)
                if cur != last:
                    last, last_t = cur, time.time()
                elif time.time() - last_t > timeout:
                    hung = True
                    try:
                        os.killpg(p.pid, signal.SIGKILL)
                    except OSError:
                        p.kill()
                    p.wait()
                    break
        errf.close()
        rc = p.returncode
        st = read_status(status)
        santext = ""
        for f in sorted(os.listdir(self.work)):
            if f.startswith("san-" + tag + "."):
                with open(os.path.join(self.work, f), "r", errors="replace") as fh:
                    santext += fh.read()
        with open(os.path.join(self.work, "err-" + tag), "r", errors="replace") as fh:
            err = fh.read()
        if not santext and "runtime error:" in err:
            # gcc's UBSan runtime ignores log_path: take the report from stderr
            i = err.find("runtime error:")
            i = err.rfind("\n", 0, i) + 1
            santext = err[i:]
        return dict(rc=rc, st=st, san=santext, err=err, hung=hung)

    def absorb(self, st):
        if not st:
            return
        with self.lock:
            self.evaluations += st["evaluations"]
            self.nontrivial += st["nontrivial"]
            for k, (v, ismax) in st["counters"].items():
                if ismax:
                    self.counters[k] = max(self.counters.get(k, 0), v)
                else:
                    self.counters[k] = self.counters.get(k, 0) + v
            for s in st["samples"]:
                if len(self.samples) < 6 and s not in self.samples:
                    self.samples.append(s)

    def classify(self, r):
        """-> (key, detail) for an abnormal end, or None"""
        st, rc = r["st"], r["rc"]
        at = st["at"] if st else ""
        if st and st["has_violation"]:
            return st["vkey"], st["vdetail"]
        if r["hung"]:
            return "hang:@" + at, "no progress for the watchdog interval while in " + at
        if r["san"] and self.memcheck:
            kind, fn, frames = parse_memcheck(r["san"], self.repo)
            if kind:
                top = " <- ".join(frames[:6])
                return "memcheck:%s:%s@%s" % (kind, fn or "?", at), "valgrind: %s in %s (stack: %s)" % (kind, fn, top)
        if r["san"]:
            kind, fn, frames = parse_san(r["san"], self.repo)
            if kind == "leak":
                sites = leak_sites(r["san"], self.repo)
                direct = sorted(set(f for d, f in sites if d)) or sorted(set(f for d, f in sites))
                return "leak:" + "+".join(direct[:3]), "LeakSanitizer: %d block(s); %s" % (
                    len(sites), ", ".join("%s%s" % ("direct " if d else "indirect ", f) for d, f in sites[:8]))
            if kind:
                top = " <- ".join(f for f, _ in frames[:6])
                return "san:%s:%s@%s" % (kind, fn or "?", at), "%s in %s (stack: %s)" % (kind, fn, top)
        if rc is not None and rc < 0:
            return "signal:%s@%s" % (signal.Signals(-rc).name, at), "killed by signal %d in %s" % (-rc, at)
        if rc not in (0, None):
            if rc == 4 or (st and st["inconclusive"]):
                return None
            return "exit:%d@%s" % (rc, at), "unexpected exit status %d: %s" % (rc, r["err"][-400:])
        return None

    def record(self, case, key, detail, r, tag):
        # second run of that single case with logging: confirms and collects the history
        rr = self.invoke(tag + ".re", case, case + 1, 1, log=True, timeout=self.timeout)
        k2 = self.classify(rr)
        confirmed = bool(k2 and k2[0] == key)
        v = dict(leg=self.name, case=case, key=key, detail=detail, confirmed_alone=confirmed,
                 history=rr["err"][-20000:], sanitizer=(r["san"] or rr["san"])[:6000],
                 seed=self.seed, tier=self.tier)
        if not confirmed:
            v["alone_outcome"] = k2[0] if k2 else "clean"
        with self.lock:
            self.violations.append(v)

    def worker(self, shard):
        tag = "w%d" % shard
        step = self.nshards * self.stride
        k = shard * self.stride
        total = self.total
        nviol = 0
        nhang = 0
        while k < total:
            to = min(total, k + self.batch * step)
            r = self.invoke(tag, k, to, step)
            st = r["st"]
            self.absorb(st)
            if st is None:
                with self.lock:
                    self.inconclusive.append("%s: no status from harness (rc=%s) %s" % (self.name, r["rc"], r["err"][-300:]))
                return
            if st["inconclusive"]:
                with self.lock:
                    self.inconclusive.append("%s case %d: %s" % (self.name, st["cur"], st["imsg"]))
                k = st["cur"] + step
                continue
            c = self.classify(r)
            if c is None and st["done"] and r["rc"] == 0:
                k += self.batch * step
                continue
            if c is None:
                with self.lock:
                    self.inconclusive.append("%s: harness ended rc=%s without verdict: %s" % (self.name, r["rc"], r["err"][-300:]))
                return
            key, detail = c
            if st["in_case"]:
                self.record(st["cur"], key, detail, r, tag)
                nviol += 1
                k = st["cur"] + step
                if key.startswith("hang:"):
                    # every hang costs two watchdog intervals: two per shard are enough evidence
                    nhang += 1
                    if nhang >= 2:
                        with self.lock:
                            self.inconclusive.append("%s shard %d stopped after %d hangs at case %d of %d"
                                                     % (self.name, shard, nhang, k, total))
                        return
            else:
                # died outside a case: at-exit leak report or teardown crash -> attribute per case
                found = False
                kk = k
                while kk < to:
                    r1 = self.invoke(tag + ".one", kk, kk + 1, 1)
                    c1 = self.classify(r1)
                    if c1:
                        found = True
                        self.record(kk, c1[0], c1[1], r1, tag)
                        nviol += 1
                        if nviol >= self.max_viol:
                            break
                    kk += step
                if not found:
                    with self.lock:
                        self.violations.append(dict(leg=self.name, case=k, key=key + ":batch", detail=detail +
                                                    " (only in batch %d..%d step %d)" % (k, to, step),
                                                    confirmed_alone=False, history="", sanitizer=r["san"][:6000],
                                                    seed=self.seed, tier=self.tier, batch=[k, to, step]))
                    nviol += 1
                k += self.batch * step
            if nviol >= self.max_viol:
                with self.lock:
                    self.inconclusive.append("%s shard %d stopped after %d violations at case %d of %d"
                                             % (self.name, shard, nviol, k, total))
                return

    def count_cases(self):
        out = subprocess.run([self.exe, "--tier", self.tier, "--seed", str(self.seed), "--count"],
                             env=self.env("count", lsan=False)[0], stdout=subprocess.PIPE,
                             stderr=subprocess.PIPE, timeout=120)
        if out.returncode != 0:
            raise RuntimeError("%s --count failed: %s" % (self.name, out.stderr.decode(errors="replace")[-500:]))
        return int(out.stdout.split()[0])

    def run(self):
        self.total = self.count_cases()
        ths = [threading.Thread(target=self.worker, args=(i,)) for i in range(self.nshards)]
        for t in ths:
            t.start()
        for t in ths:
            t.join()
        return self

    def fingerprints(self):
        fps = set()
        for f in os.listdir(self.work):
            if f.startswith("fp-"):
                with open(os.path.join(self.work, f), "rb") as fh:
                    data = fh.read()
                n = len(data) // 8
                fps.update(struct.unpack("<%dQ" % n, data[:n * 8]))
        return fps

    def replay(self, case, timeout=None):
        r = self.invoke("replay", case, case + 1, 1, log=True, timeout=timeout or self.timeout)
        return r, self.classify(r)


# --------------------------------------------------------------------------
class FuzzLeg:
    """coverage-guided exploration: N libFuzzer processes, each `runs` executions"""

    def __init__(self, exe, name, seed, workdir, repo, runs, jobs=16, max_len=4096, corpus=None, known=(), timeout=3000):
        self.exe, self.name, self.seed, self.work, self.repo = exe, name, seed, workdir, repo
        self.runs, self.jobs, self.max_len, self.corpus = runs, jobs, max_len, corpus
        self.known = list(known)
        self.timeout = timeout
        self.violations, self.inconclusive, self.counters, self.samples = [], [], {}, []
        self.evaluations = self.nontrivial = self.invocations = 0
        self.total = runs * jobs
        self.stride = 1
        self.stats = {}
        self.lock = threading.Lock()
        self._fps = set()

    def one(self, i):
        cdir = os.path.join(self.work, "corpus-%d" % i)
        os.makedirs(cdir, exist_ok=True)
        env = dict(os.environ)
        env["ASAN_OPTIONS"] = "detect_leaks=0:allocator_may_return_null=1:handle_abort=1:symbolize=1"
        env["UBSAN_OPTIONS"] = "print_stacktrace=1"
        env["VF_FUZZ_STATS"] = os.path.join(self.work, "stats-%d" % i)
        env["VERIF_REPO"] = self.repo
        if self.known:
            env["VF_KNOWN"] = ",".join(self.known)
        cmd = [self.exe, "-runs=%d" % self.runs, "-seed=%d" % (self.seed * 1000 + i + 1), "-max_len=%d" % self.max_len,
               "-artifact_prefix=%s/artifact-%d-" % (self.work, i), "-print_final_stats=1", "-timeout=60", cdir]
        if self.corpus and os.path.isdir(self.corpus):
            cmd.append(self.corpus)
        errp = os.path.join(self.work, "fuzz-%d.log" % i)
        with open(errp, "wb") as errf:
            try:
                p = subprocess.run(cmd, env=env, stdout=subprocess.DEVNULL, stderr=errf, cwd=self.work, timeout=self.timeout)
                rc = p.returncode
            except subprocess.TimeoutExpired:
                rc = None
        with open(errp, "r", errors="replace") as fh:
            err = fh.read()
        done = 0
        m = re.search(r"stat::number_of_executed_units:\s*(\d+)", err)
        if m:
            done = int(m.group(1))
        cov = ft = corp = 0
        for m in re.finditer(r"#\d+\s+\S+\s+cov: (\d+) ft: (\d+) corp: (\d+)", err):
            cov, ft, corp = int(m.group(1)), int(m.group(2)), int(m.group(3))
        with self.lock:
            self.invocations += 1
            self.evaluations += done
            self.stats[i] = dict(executed=done, cov=cov, features=ft, corpus=corp, rc=rc)
            try:
                for line in open(env["VF_FUZZ_STATS"]):
                    k, v = line.rsplit(" ", 1)
                    self.counters[k] = self.counters.get(k, 0) + int(v)
            except OSError:
                pass
            for f in sorted(os.listdir(cdir))[:2000]:
                self._fps.add(f)
        if rc == 0:
            return
        if rc is None:
            with self.lock:
                self.inconclusive.append("%s job %d: watchdog" % (self.name, i))
            return
        key = detail = None
        m = re.search(r"VF_FAIL key=(\S+) (@\S*) :: ([^\n]*)", err)
        if m:
            key, detail = m.group(1), m.group(3)
        else:
            kind, fn, frames = parse_san(err, self.repo)
            if kind:
                key = "san:%s:%s@fuzz" % (kind, fn or "?")
                detail = "%s in %s (stack: %s)" % (kind, fn, " <- ".join(f for f, _ in frames[:6]))
            elif "libFuzzer: timeout" in err:
                key, detail = "hang:@fuzz", "libFuzzer: one input ran longer than 60 s"
        art = [f for f in os.listdir(self.work) if f.startswith("artifact-%d-" % i)]
        if key is None:
            with self.lock:
                self.inconclusive.append("%s job %d ended rc=%s without verdict: %s" % (self.name, i, rc, err[-300:]))
            return
        data = b""
        if art:
            with open(os.path.join(self.work, art[0]), "rb") as fh:
                data = fh.read()
        with self.lock:
            self.violations.append(dict(leg=self.name, case=i, key=key, detail=detail, confirmed_alone=True,
                                        history=err[-6000:], sanitizer="", seed=self.seed, tier="thorough",
                                        fuzz_input_hex=data.hex()))

    def run(self):
        ths = [threading.Thread(target=self.one, args=(i,)) for i in range(self.jobs)]
        for t in ths:
            t.start()
        for t in ths:
            t.join()
        self.nontrivial = len(self._fps)
        self.samples = ["libFuzzer job %d: %s" % (i, json_dumps(s)) for i, s in sorted(self.stats.items())[:3]]
        cov = max([s["cov"] for s in self.stats.values()] or [0])
        self.counters["fuzz:max-edge-coverage"] = cov
        self.counters["fuzz:corpus-units"] = len(self._fps)
        self.total = self.evaluations
        return self

    def count_cases(self):
        return self.total

    def fingerprints(self):
        return set(hash(f) & 0xffffffffffffffff for f in self._fps)


def json_dumps(o):
    import json
    return json.dumps(o, sort_keys=True)
