"""C14: node trees stay structurally sound."""
from common import SAN_BASE

PROP = dict(
        technique="runtime monitoring: ASan/UBSan/LSan build + structural invariant walker, membership model and release witnesses after every node operation",
        level_text="(draft)",
        level_note="(draft)",
        legs=[dict(name="c14_node", src=["c14_node.c"], libs=["mptcore"], batch=256, lsan=True,
                   floors={})],
        rule="(draft)",
        assumptions=SAN_BASE,
    )
