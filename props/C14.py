"""C14: node trees stay structurally sound."""
from common import SAN_BASE

PROP = dict(
        technique=("runtime monitoring: ASan/UBSan/LSan build + structural invariant walker, list-membership model, "
                   "release witnesses (harness metatype unref, ASan poison query) and recursive clone comparison after every node operation"),
        level_text=("Monitored executions of the real node code: 200k (quick) / 3M (thorough) random histories of 15..70 (110) operations over a "
                    "population of at most 24 harness nodes (plus nodes made by the parser) with names from 5 strings incl. the empty and an "
                    "out-of-line one.  After every operation the whole population is walked (every link NULL or a live node, each node reached "
                    "exactly once from the list heads, prev/parent agree with the way of reaching, children pointer is a list head), parent and "
                    "list membership are compared with a set model, destroyed subtrees must have released every value exactly once and freed the "
                    "node, clones are compared recursively (name, value bytes, child order, parent links) incl. refused value clones.  "
                    "Exploration, not proof; positions inside a list are adopted from the library, not asserted.  A C++ leg (60k / 1M histories) "
                    "does the same walk over the survivors after every constructor/destructor/link operation on mpt::node objects of all storage "
                    "classes (a destroyed object is never dereferenced: pointers are compared, its storage is freed or poisoned) and counts value "
                    "references against holders."),
        level_note=("trusts the walker/membership model in harness/c14_node.c, gcc ASan/UBSan/LSan (LSan is only the secondary release oracle); "
                    "merge semantics of mpt_node_move/mpt_parse_node (which nodes move) are adopted, only structure, conservation and release are asserted"),
        legs=[dict(name="c14_node", src=["c14_node.c"], libs=["mptcore"], batch=512, lsan=True,
                   floors={"mpt_gnode_add": 20000, "mpt_node_add": 20000, "mpt_gnode_insert": 20000, "mpt_node_insert": 20000,
                           "mpt_gnode_after": 10000, "mpt_gnode_before": 10000, "mpt_node_unlink": 10000,
                           "mpt_node_destroy": 10000, "mpt_node_clear": 5000, "mpt_node_move": 20000,
                           "mpt_gnode_swap": 5000, "mpt_gnode_switch": 10000, "mpt_gnode_relink": 5000,
                           "mpt_gnode_relink:manual": 5000, "mpt_node_clone": 5000, "mpt_list_clone": 10000,
                           "mpt_tree_clone": 10000, "mpt_parse_node": 5000, "mpt_gnode_traverse": 10000,
                           "mpt_node_locate": 5000, "mpt_node_find": 5000, "mpt_node_next": 5000, "mpt_gnode_pos": 3000,
                           "state:clone-depth2": 5000, "state:move-merge-children": 1000, "state:move-reparent-children": 2000,
                           "state:switch-adjacent": 1000, "state:switch-different-parents": 5000,
                           "state:parse-merge": 3000, "state:relink-manual-depth2": 3000, "state:destroy-with-subtree": 1000,
                           "outcome:destroy-refused": 5000, "outcome:clone-refused-clean": 3000,
                           "monitor:structure-walks": 1000000, "monitor:membership-compares": 1000000,
                           "monitor:release-witnessed": 200000, "monitor:clone-node-compares": 100000,
                           "monitor:final-release-audits": 100000, "history:reached-depth2": 50000,
                           "mpt_gnode_relink:concat": 50000, "state:concat-relink-from-parent": 30000,
                           "state:concat-relink-from-grandparent": 10000, "state:concat-relink-from-higher": 3000,
                           "state:concat-relink-from-root": 30000, "state:concat-members-with-children": 10000,
                           "mpt_node_parse": 50000, "mpt_parse_node:failing": 10000, "outcome:node-parse-replaced": 20000,
                           "state:node-parse-on-node-with-children": 15000, "outcome:parse-text-error": 25000,
                           "outcome:parse-bad-limits": 8000, "outcome:parse-bad-format": 10000, "outcome:parse-no-file": 5000,
                           "state:failed-parse-on-node-with-children": 40000,
                           "mpt_node_assign": 50000, "state:assign-created-2": 10000, "state:assign-created-3": 10000,
                           "state:assign-created-4": 10000, "state:assign-created-5plus": 15000, "state:assign-empty-tree": 15000,
                           "state:assign-populated-list": 20000, "state:assign-below-node": 15000, "outcome:assign-replaced-value": 1000}),
              dict(name="c14_cxx", src=["c14_cxx.cpp"], libs=["mpt++", "mptio", "mptplot", "mptcore"], batch=512, lsan=True,
                   floors={"node::~node": 200000, "node::~node:scope-exit": 50000, "node::node": 100000, "node::node:automatic": 50000,
                           "node::create(name)": 50000, "node::create(size)": 50000, "mpt_node_new": 50000,
                           "node::set_metatype": 100000, "node::operator=": 30000, "node::data": 10000,
                           "mpt_node_clear": 10000, "mpt_node_destroy": 10000, "mpt_node_unlink": 30000,
                           "state:dtor-in-parentless-list": 100000,
                           "state:dtor-toplevel-head": 30000, "state:dtor-toplevel-middle": 10000, "state:dtor-toplevel-tail": 30000,
                           "state:dtor-child-head": 5000, "state:dtor-child-middle": 1000, "state:dtor-child-tail": 5000,
                           "state:scope-toplevel-head": 10000, "state:scope-toplevel-middle": 10000, "state:scope-toplevel-tail": 10000,
                           "state:scope-child-head": 5000, "state:scope-child-middle": 2000, "state:scope-child-tail": 2000,
                           "state:dtor-with-children": 10000, "state:shared-value": 5000,
                           "mpt_node_clone": 10000, "mpt_list_clone": 10000, "mpt_tree_clone": 10000, "state:clone-depth2": 2000,
                           "node::set_metatype:library-value": 50000, "value:small-text": 5000, "value:long-text": 5000,
                           "value:generic-int": 5000, "value:buffer-queue": 30000, "state:buffer-fresh": 5000,
                           "state:buffer-partly-consumed": 3000, "state:buffer-partly-read": 3000, "state:buffer-exhausted": 8000,
                           "state:buffer-open-entry": 10000, "io::buffer::advance": 20000, "io::buffer::read": 10000,
                           "io::buffer::push": 10000, "monitor:clone-node-compares": 50000, "monitor:clone-value-compares": 20000,
                           "monitor:clone-buffer-compares": 20000, "monitor:clone-independence-checks": 15000,
                           "monitor:clone-open-entry-compares": 3000,
                           "monitor:structure-walks": 1000000, "monitor:release-witnessed": 300000,
                           "monitor:final-release-audits": 30000})],
        rule=("case = one PRNG history: 2..6 initial nodes, then 15..70 (thorough: 110) operations drawn from node_new, gnode_after/before, "
              "gnode_add/node_add (positions 0, +-1..3, +-5, +-100), gnode_insert/node_insert, node_unlink, node_destroy (linked and unlinked), "
              "node_clear, node_clone/list_clone/tree_clone (1 in 6 with a value that refuses to be cloned), node_move between disjoint lists "
              "(top-level handle or &parent->children), gnode_swap, gnode_switch, gnode_relink (consistent tree / after manual concatenation), "
              "node_locate/next/find, gnode_pos, gnode_traverse (4 orders x leaf masks, optional stop), parse_node into a node with or without "
              "children, mpt_node_parse (file front end) with good input (replaces the children), text errors (unclosed section, stray section end, "
              "assignment without name), refused limits / format / file and failing mpt_parse_node calls (tree must be untouched), manual "
              "concatenation of a detached list behind the last child of a node at any depth + gnode_relink from the node, its parent, "
              "grandparent or root, mpt_node_assign with paths of 1..6 elements (0..6 missing levels) on an empty tree, a populated top-level list "
              "or the child list of a node; every node is destroyed at the end and every value must then have exactly one release.  non-trivial = the forest reached "
              "depth >= 2, >= 8 structure-changing operations were executed and at least one of {clone of depth >= 2, move that merges or "
              "re-parents children, parse_node merge into existing children, mpt_node_parse (any outcome) on a node with children, concatenation "
              "relinked from an ancestor above the parent} happened; distinct = 64-bit hash of the operation list with arguments.  "
              "C++ leg (c14_cxx): one history of 12..50 (80) operations over <= 20 mpt::node objects on the heap (node::create, mpt_node_new), in "
              "harness storage (placement new, explicit destructor = member/automatic life time) and in real automatic storage (scope exit), "
              "linked with the six C insert functions below a parent and in parent-less lists, destructor run at head/middle/tail/isolated, "
              "set_metatype, reference assignment (shared values), data(), mpt_node_clear/destroy/unlink on them; node values of every kind the "
              "library makes (small text, long text = buffer value, generic int, io::buffer queue of entries in fresh / partly consumed / partly "
              "read / exhausted / open-entry state), consumed or extended between operations; mpt_node/list/tree_clone with comparison of what "
              "source and copy present (raw bytes, text, int conversion) at every depth, termination of open entries on both, and an "
              "independence check (consume/extend one side, the other keeps its value); non-trivial = >= 3 destructor "
              "runs, at least one of a node inside a parent-less list, depth >= 1"),
        assumptions=SAN_BASE + ["admissible caller: a node handed to after/before/add/insert is unlinked and is not an ancestor of the position; "
                                "swap/switch operands are not ancestor and descendant; move source and target lists are disjoint; "
                                "the `first` argument of gnode_add/node_add is the list head (a later member only with position 0, as mpt_node_move itself does)",
                                "lookup/traversal results are computed from the documented semantics over the actual list order",
                                "harness metatype (convert/unref/addref/clone) as release and clone witness"],
    )
