"""C16: names are stored and compared faithfully at every length."""
from common import SAN_BASE

PROP = dict(
        technique="runtime monitoring: ASan/UBSan/LSan build + byte-string shadow per identifier stepped after every set/copy/clear/compare",
        level_text=("Monitored executions of the real identifier code: for 16 storages (struct identifier, static initialiser, "
                    "mpt_identifier_init on 20/255/256/300-byte objects, all mpt_identifier_new size classes, node-embedded via mpt_node_new, "
                    "type-traits elements; C++ identifier, item<T> and derived objects of 16..256 bytes) every (storage, previous content, "
                    "new content) triple with lengths around the inline capacity, 255/256 and the 65535 limit is enumerated for "
                    "set-after-set, copy between every storage pair, clear, self-copy and copy-construction, plus 20k (quick) / 1M "
                    "(thorough) random histories over 2..5 identifiers; after each operation every identifier is read back and "
                    "compared with its shadow, the source of a copy is compared byte-wise with its snapshot, the block that held "
                    "replaced long content must be freed (ASan poison state), and LeakSanitizer runs at process exit.  "
                    "C++ leg also drives libmpt++ nodes (node::create(), mpt_node_new() as provided by libmpt++; plain node = 12 byte inline "
                    "name, extended = 84) as two more storages of the grid/histories and in 2880 dedicated cases (36 name lengths "
                    "0..24, 82..89, 255, 300, 4000 x 4 ways of naming x 5 name changes x 4 ways the node goes away: mpt_node_destroy, "
                    "mpt_node_clear of the parent, mpt_node_destroy of the grandparent, ~node + free), each ending with the release "
                    "witness and an in-case LeakSanitizer pass.  "
                    "Node lists: 4k (quick) / 60k (thorough) PRNG lists of 3..8 nodes with equal and near-equal names (shorter/longer by one, "
                    "first/last byte changed, binary, unset) searched with mpt_node_locate from every start node, pos -3..3, six name "
                    "variants, name handed over NUL-terminated / as front part of a longer string / in an exact-size block / with "
                    "explicit text charset / as binary; result = n-th string-equal node of the model.  "
                    "Clones: 1440 enumerated cases of mpt_node_clone / mpt_list_clone / mpt_tree_clone (20 name lengths around the node inline "
                    "capacities 20/84/212 and long x 4 node sizes x 6 value variants) on nodes carrying a harness metatype whose clone() "
                    "accepts or refuses: accepted copies have equal names (every node of the list/tree), refused ones return NULL and "
                    "leave neither value clones nor name storage allocated (allocator bytes-in-use before/after the call, in-case "
                    "LeakSanitizer pass); source objects compared with snapshots.  "
                    "mpt_node_move: 8k (quick) / 150k (thorough) PRNG pairs of small trees (<= 24 nodes, three levels) whose names come from one "
                    "pool per case - text with an embedded NUL, its C-string prefix, same prefix with another tail, plain text of the same "
                    "length, one byte longer, absent, empty text, binary with the same bytes, binary prefix, unrelated - of lengths 4/5, "
                    "19..22, 84/85, 213 in nodes of every size class; return value, head of the remaining source list, place and order "
                    "of every node, links, names and the release of all name blocks are compared with a list model that merges on "
                    "(kind, length, bytes) equality.  "
                    "Exploration, not proof: lengths between the boundaries are sampled."),
        level_note=("trusts the byte-array shadow in harness/c16_ident.c / c16_cxx.cpp, gcc ASan/UBSan red zones and poison state, "
                    "LeakSanitizer (conservative scan: secondary to the explicit release witness)"),
        legs=[dict(name="c16_ident", memcheck=1500, src=["c16_ident.c"], libs=["mptcore"], batch=256, lsan=True,
                   floors={"mpt_identifier_set": 50000, "mpt_identifier_copy": 20000, "mpt_identifier_compare": 100000,
                           "mpt_identifier_inequal": 20000, "mpt_node_locate": 5000, "mpt_node_clone": 50,
                           "traits.init(copy)": 200, "transition:long>short": 5000, "transition:short>long": 5000,
                           "transition:long>long": 5000, "monitor:release-witness": 10000, "monitor:readback": 200000,
                           "monitor:compare-equal": 20000, "monitor:compare-different": 50000,
                           "monitor:inequal-equal": 5000, "monitor:inequal-different": 5000,
                           "monitor:source-unchanged": 20000, "outcome:refused-too-long": 100,
                           "monitor:locate-forward-hit": 100000, "monitor:locate-backward-hit": 50000, "monitor:locate-last-hit": 20000,
                           "monitor:locate-back-hit-unterminated-name": 30000, "monitor:locate-backward-hit-beyond-neighbour": 20000,
                           "monitor:locate-miss": 100000,
                           "mpt_node_clone": 400, "mpt_list_clone": 400, "mpt_tree_clone": 400, "clone:accepted": 400, "clone:refused": 700,
                           "clone:refused-node-has-out-of-line-name": 300, "clone:refused-other-node-has-out-of-line-name": 20,
                           "clone:accepted-with-out-of-line-name": 200, "monitor:clone-name-compared": 1000,
                           "monitor:clone-leak-check": 1400,
                           "mpt_node_move": 4000, "monitor:move-structure-verified": 4000, "move:moved": 8000, "move:merged": 4000,
                           "move:merged-name-with-embedded-nul": 2000, "move:kept-apart-from-c-string-prefix": 2000,
                           "move:merged-unnamed": 80}),
              dict(name="c16_cxx", memcheck=500, src=["c16_cxx.cpp"], libs=["mpt++", "mptio", "mptplot", "mptcore"], batch=256, lsan=True,
                   floors={"identifier::set_name": 5000, "identifier::operator=": 2000, "identifier::identifier(copy)": 500,
                           "identifier::equal": 10000, "item::operator=": 300, "transition:long>short": 500,
                           "monitor:release-witness": 1000, "monitor:readback": 20000,
                           "cxx-node:released-out-of-line-name": 3000, "cxx-node:released-plain-stored-13..16": 800,
                           "cxx-node:destroy:mpt_node_destroy": 1000, "cxx-node:destroy:parent-clear": 1000,
                           "cxx-node:destroy:parent-destroy": 1000, "cxx-node:destroy:destructor": 1000,
                           "monitor:node-leak-check": 2000})],
        rule=("case = (a) one grid point: operation (set-after-set | copy | clear | copy from NULL | self-copy | copy-construct) x "
              "storage x previous content class x [source storage x] new content class, content classes = unset, text of length "
              "0, 1, cap-3..cap+2, 255, 256, 65533, 65534 (limit), 65535/65536 (must be refused), text with embedded NUL, binary "
              "of length 1, cap, cap+1, 65535, 65536 (refused), followed by a comparison battery and one further set; or (b) one "
              "PRNG history of 6..40 set/copy/clear/compare/inequal/copy-construct/drop operations over 2..5 identifiers of "
              "random storages; or (c) one PRNG node list with every (start node, pos -3..3, name variant, hand-over mode) "
              "mpt_node_locate query; non-trivial = (a) the operation replaced or created separately allocated (long) content, "
              "(b) >= 2 such transitions and >= 1 copy between two different identifiers, (c) the list holds the base name at least twice; distinct = 64-bit hash of grid index "
              "resp. of the operation list with content prefix"),
        exhaustive_note=("all (storage, previous content class, new content class) triples for set-after-set (16 x 17 x 22), all "
                         "(target storage, target content, source storage, source content) for copy (16 x 17 x 16 x 17), all "
                         "(storage, content) x {clear, copy from NULL, self-copy, copy-construct}; C++ leg likewise over 8 storages (6 identifier objects + plain and extended libmpt++ node); all 2880 C++ node cases"),
        assumptions=SAN_BASE + ["an identifier object is at least sizeof(struct identifier) bytes (smaller totals are not passed to mpt_identifier_init)",
                                "mpt_identifier_set(id, NULL, n) yields n bytes of caller-filled non-text content (source comment)",
                                "what an identifier without text compares equal to by name is not decided (only run under the sanitizers)",
                                "__asan_address_is_poisoned() on the old content block right after the replacing call means it was freed"],
    )
