"""C02: message stream integrity under arbitrary segmentation."""
from common import SAN_BASE

PROP = dict(
        technique="runtime monitoring: ASan/UBSan build + sent-log/received-log comparison and bounded-progress monitor stepped after every queue operation",
        level_text=("Monitored executions of the real encode_queue -> byte stream -> decode_queue path: PRNG histories of "
                    "mpt_queue_push / transport cut / mpt_queue_recv / mpt_message_get / mpt_queue_shift over 4 COBS framings, "
                    "chosen ring capacities and start offsets (all offsets for capacities 4..12 quick / 4..32 thorough); after each "
                    "operation the received messages are compared with the sent log (exactly once, in order, byte-equal), queue "
                    "invariants are checked and a complete frame has to be delivered within a bounded number of receive attempts.  "
                    "Exploration, not proof."),
        level_note="trusts the sent/received log comparison in harness/c02_queue.c, delimiter counting as frame-completeness test, gcc ASan+UBSan red zones",
        legs=[dict(name="c02_queue", src=["c02_queue.c"], libs=["mptcore"], batch=64,
                   floors={"mpt_queue_push": 100000, "mpt_queue_recv": 100000, "mpt_message_get": 50000,
                           "recv:message": 50000, "history:enc-wrapped": 1000, "history:dec-wrapped": 1000,
                           "history:frame-in-several-segments": 2000}),
              dict(name="c02_stream", src=["c02_stream.c"], libs=["mptio", "mptcore"], batch=64,
                   floors={"mpt_stream_push": 20000, "mpt_stream_dispatch": 20000, "dispatch:callback": 20000,
                           "history:frame-in-several-segments": 1000})],
        rule=("case = one history: framing, encode/decode ring capacity and start offset, 5..60 messages with unique ids, "
              "PRNG schedule of push piece / terminate / move k finished bytes / receive / shift; non-trivial = at least 3 "
              "messages delivered, a ring wrapped at least once and at least one frame reached the reader in several segments; "
              "distinct = 64-bit hash of parameters, message bytes and the operation list"),
        exhaustive_note="every start offset of both rings for capacities 4..12 (quick) / 4..32 (thorough) x 4 framings (message content and schedule sampled)",
        assumptions=SAN_BASE + ["frames contain no interior zero byte, so the number of delimiters moved is the number of complete frames at the reader"],
    )
