"""C02: message stream integrity under arbitrary segmentation."""
from common import SAN_BASE

PROP = dict(
        technique="runtime monitoring: ASan/UBSan build + sent-log/received-log comparison and bounded-progress monitor stepped after every queue / stream operation",
        level_text=("Monitored executions of the real code on two levels.  Queue level: PRNG histories of mpt_queue_push into an "
                    "encode_queue, transport of the finished bytes in chosen cuts, mpt_queue_recv / mpt_message_get / mpt_queue_shift / "
                    "mpt_queue_peek on a decode_queue, 4 COBS framings, chosen ring capacities and start offsets (every start offset "
                    "for capacities 4..12 quick / 4..32 thorough), rings rotated with mpt_queue_align so that the open encoder block and "
                    "the decoded data straddle the wrap.  Stream level: two mpt_stream objects on non-blocking pipes / stream sockets, "
                    "mpt_stream_push / mpt_stream_flush on one side, the harness moving the bytes in chosen segments, mpt_stream_poll / "
                    "mpt_stream_dispatch on the other.  C++ level: mpt::encode_queue (push, done, trim with full / partial / excessive amounts) -> "
                    "wire -> mpt::decode_queue (advance, pending_message, current_message with and without continuation vector) on fixed rings "
                    "of 32..128 bytes and growable rings, 4 COBS framings + command framing, with return-value-versus-effect checks for "
                    "every call.  Receivers of the stream level are plain mpt_stream_dispatch users and inputs made by mpt_stream_input() "
                    "(next/dispatch of the input interface, message id length 0 and 1..8).  Encoder-less (raw) encode queues in C and C++ and a "
                    "stream without encoder are driven against a byte model (finished / pending accounting, commit, rollback, partial "
                    "acceptance at the capacity boundary followed by growth and continuation, committed bytes leave exactly once and in order).  "
                    "After each operation the messages obtained are compared with the sent log "
                    "(exactly once, in order, byte-equal; decoded part of the message in progress is a prefix of the next message), "
                    "queue invariants are checked, and a complete frame has to be delivered within a bounded number of receive "
                    "attempts once the reader got the space it asked for.  Exploration, not proof."),
        level_note=("trusts the sent/received log comparison in harness/c02_queue.c, c02_stream.c and c02_cxx.cpp, delimiter counting as "
                    "frame-completeness test, gcc ASan+UBSan red zones; stalls are decided as bounded progress in receive attempts"),
        legs=[dict(name="c02_queue", memcheck=600, src=["c02_queue.c"], libs=["mptcore"], batch=64,
                   floors={"mpt_queue_push": 1000000, "mpt_queue_recv": 1000000, "mpt_message_get": 300000,
                           "mpt_queue_peek": 100000, "mpt_queue_shift": 100000,
                           "recv:message": 300000, "recv:MissingBuffer": 5000, "monitor:partial-prefix": 1000000,
                           "push-path:upper-part": 10000, "push-path:out-of-band": 2000,
                           "state:large-push-behind-queued-frames-at-offset": 20000, "state:large-push-partial-append-in-lower-part": 5000,
                           "history:enc-wrapped": 5000, "history:dec-wrapped": 5000, "history:message-split": 5000,
                           "history:frame-in-several-segments": 20000, "monitor:progress-check": 10000,
                           "mpt_queue_push(raw)": 100000, "mpt_queue_push(raw commit)": 20000, "mpt_queue_push(raw rollback)": 10000,
                           "monitor:raw-model-compare": 200000, "monitor:raw-wire-compare": 10000,
                           "state:raw-partial-accept": 20000, "state:raw-partial-accept-wrapping": 2000,
                           "state:raw-continued-after-partial-accept": 20000, "raw:grown": 20000, "raw:rollback": 3000}),
              dict(name="c02_stream", src=["c02_stream.c"], libs=["mptio", "mptcore"], batch=64,
                   floors={"mpt_stream_push": 100000, "mpt_stream_flush": 100000, "mpt_stream_dispatch": 100000,
                           "dispatch:callback": 50000, "dispatch:retry": 5000,
                           "history:stream-frame-in-several-segments": 5000, "history:stream-dec-wrapped": 2000,
                           "history:flush-met-full-transport": 20, "monitor:stream-progress-check": 10000,
                           "input::dispatch": 100000, "input::next": 100000, "input:event": 20000,
                           "receiver:stream-input": 1000, "receiver:stream-input-with-id": 300,
                           "state:input-empty-message-after-retry": 1000, "state:stream-empty-message-after-retry": 1000,
                           "mpt_stream_push(raw)": 20000, "mpt_stream_push(raw terminate)": 5000, "mpt_stream_flush(raw)": 10000,
                           "monitor:raw-stream-wire-compare": 5000, "state:raw-stream-push-larger-than-free-space": 10000,
                           "mpt_stream_poll(timeout 0, decides)": 100000, "receiver:stream-dispatch-driven-by-poll": 1000,
                           "state:poll-asked-with-waiting-message-and-no-input": 3000, "state:poll-waiting-empty-message": 500,
                           "state:poll-waiting-empty-message-after-hangup": 30, "transport:peer-closed-before-all-was-dispatched": 1000,
                           "mpt_stream_setmode(writer, same mode)": 30000, "mpt_stream_setmode(reader, same mode)": 20000,
                           "state:setmode-writer-with-unflushed-frames": 10000, "state:setmode-writer-with-open-message": 20000,
                           "state:setmode-reader-with-partial-frame": 10000}),
              dict(name="c02_cxx", src=["c02_cxx.cpp"], libs=["mpt++", "mptio", "mptplot", "mptcore"], batch=64,
                   floors={"encode_queue::push": 300000, "encode_queue::trim": 300000, "decode_queue::advance": 500000,
                           "decode_queue::current_message": 100000, "decode_queue::current_message(no cont)": 30000,
                           "advance:cxx-message": 100000, "monitor:cxx-trim-effect": 300000, "monitor:cxx-push-effect": 300000,
                           "state:cxx-wrapped-message-via-continuation": 5000, "state:cxx-trim-crossing-storage-end": 1000,
                           "state:cxx-trim-all-with-unfinished-message": 20000, "state:cxx-trim-partial": 20000,
                           "state:cxx-empty-message-last-in-data": 2000, "state:cxx-large-push-behind-queued-frames-at-offset": 2000,
                           "trim:cxx-refused-too-much": 10000, "history:cxx-enc-wrapped": 1000, "history:cxx-dec-wrapped": 5000,
                           "monitor:cxx-conservation-at-end": 10000,
                           "encode_queue::push(raw)": 100000, "encode_queue::push(raw commit)": 20000, "encode_queue::push(raw rollback)": 10000,
                           "encode_queue::trim(raw)": 20000, "monitor:cxx-raw-model-compare": 200000,
                           "state:cxx-raw-partial-accept": 20000, "state:cxx-raw-partial-accept-wrapping": 2000,
                           "state:cxx-raw-continued-after-partial-accept": 20000, "state:cxx-raw-trim-with-pending": 3000})],
        rule=("case = one history.  Queue leg: framing, encode/decode ring capacity and start offset, 5..60 messages (length 0..1600, "
              "thorough ..4200; unique ids; zero pairs, block-boundary lengths), PRNG schedule of push piece / terminate / move k "
              "finished bytes (1 byte, up to / just behind a delimiter, behind a code byte, all) / receive / shift / peek / rotate ring; "
              "stream leg: 4..30 messages, schedule of stream push / flush / pump k bytes between the pipes / poll+dispatch.  "
              "C++ leg: 5..40 messages (fixed rings: at most a third / fifth of the ring), schedule of push / trim / feed / advance "
              "(single and catch-up loops running onto the drained queue) / shift / re-read.  Non-trivial = at least 3 messages delivered, at least one frame reached the reader in several segments and (queue leg) "
              "a ring wrapped at least once; distinct = 64-bit hash of parameters, message bytes and the operation list"),
        exhaustive_note="queue leg: every start offset of both rings for capacities 4..12 (quick) / 4..32 (thorough) x 4 framings (message content and schedule sampled)",
        assumptions=SAN_BASE + ["frames contain no interior zero byte, so the number of delimiters moved is the number of complete frames at the reader",
                                "[data.pos, +data.len) of a decode_queue holds the decoded bytes of the message in progress (source comments, examples/core/coding.c)",
                                "rings may be enlarged with mpt_queue_prepare after MissingBuffer / when full, and rotated with mpt_queue_align, at any time "
                                "(positions are relative to the queue start)",
                                "C++ leg: advance() consumes the current message, so a message pending after advance() is the next one; "
                                "a fixed ring that is full without a pending message ends the history (capacity, not a stall)",
                                "stream leg: transports are non-blocking pipes and AF_UNIX stream sockets; datagram mode is not driven",
                                "raw mode: push takes min(length, free space), push(0,0) commits, push(1,NULL) drops the pending part, anything else with NULL data is refused "
                                "(queue_push.c); a stream without encoder ends a message with the platform line separator",
                                "reader style 'while (mpt_stream_poll(POLLIN, 0) > 0) mpt_stream_dispatch()': until fixes/C02-01 and C02-02 are merged the peer "
                                "closes pipes only and the harness reader dispatches itself when undecoded input sits behind the decoder position "
                                "(counter polled:undecoded-input-not-announced; -DC02_HANGUP_ON_SOCKETS=1 -DC02_STRICT_POLL=1 switch both off)",
                                "mpt_stream_setmode with the buffer mode a stream already has leaves queues and coding state alone (MesgActive/FlushLine bits not asserted)",
                                "mpt_stream_input with id length n: messages carry n id bytes with the reply bit clear; the handler sees the rest",
                                "mpt_queue_peek: return value and copied bytes are only required to be the decoded length / a prefix of the next message"],
    )
