"""C06: type registry hands out unique, stable, correctly described types."""
from common import SAN_BASE

PROP = dict(
        technique="runtime monitoring: ASan/UBSan build + shadow table of the registry compared after every registration and lookup, one process per history",
        level_text=("Monitored executions of the real registry code, one fresh process per case (the registry is process-global and "
                    "append-only): 24 built-in sweeps with different first calls, 12 exhaustion histories (each id range run to "
                    "refusal and beyond, alone and in 8 orders of all four ranges) and 700 (quick) / 10000 (thorough) PRNG histories of "
                    "40..420 registrations and lookups.  Every id returned is checked for range and uniqueness, every lookup by id "
                    "(0..0x1100 swept completely at the end of each case and after every refused registration at capacity) and by name "
                    "(whole, length-limited, alias, 'name: symbol' descriptions) is compared with a shadow table, built-in sizes with "
                    "sizeof of the C types; all 256 message value format codes (mpt_msgvalfmt_typeid/_size/_code) and byte sizes 0..17 "
                    "(mpt_type_int/uint) must be refused or name a built-in scalar type of exactly that size and kind, the size being read independently from the documented bit layout of the format byte.  A C++ leg (300 / 3000 processes) drives the same registry through the mpt::type_traits wrappers and "
                    "the type_properties<T> templates.  A third leg (600 / 6000 processes, ASan detect_stack_use_after_return=1) calls the library's own lazy registrations "
                    "(mpt_color/lattr/line/fpoint_typeid, mpt_{graph,axis,world,text}_pointer_typeid, mpt_rawdata/input/client_type_traits) "
                    "in PRNG order between harness registrations and stack-heavy work: stable id, range, uniqueness, same descriptor "
                    "(pointer, sizeof of the public struct, init/fini) for the rest of the process, descriptor not in a returned stack frame.  "
                    "Exploration, not proof."),
        level_note=("trusts the shadow table and the sizeof table in harness/c06_registry.c, gcc ASan+UBSan (malloc fill pattern makes "
                    "uninitialised size fields visible as wrong sizes; no memcheck leg: the runner builds the asan flavour only)"),
        legs=[dict(name="c06_registry", memcheck=160, src=["c06_registry.c"], libs=["mptcore"], batch=1,
                   floors={"mpt_type_basic_add": 1000, "mpt_type_add": 5000, "mpt_type_interface_add": 1500,
                           "mpt_type_metatype_add": 5000, "mpt_type_traits": 2000000, "mpt_interface_traits": 40000,
                           "mpt_metatype_traits": 500000, "mpt_named_traits:full": 20000, "mpt_named_traits:limited": 20000,
                           "mpt_alias_typeid": 2000, "monitor:traits-compared": 200000, "monitor:name-to-id": 20000,
                           "monitor:sweeps": 1000, "monitor:builtin-name": 100,
                           "refused:short-name": 300, "refused:duplicate-name": 300,
                           "capacity:basic": 64, "capacity:generic": 1792, "capacity:interface": 48, "capacity:metatype": 1791,
                           "exhausted:basic": 5, "exhausted:generic": 5, "exhausted:interface": 5, "exhausted:metatype": 5,
                           "monitor:sweep-after-exhaustion": 20,
                           "mpt_msgvalfmt_typeid": 10000, "mpt_msgvalfmt_size": 10000, "monitor:msgvalfmt-width-compared": 10000, "monitor:msgvalfmt-id-compared": 400, "monitor:msgvalfmt-round-trip": 400,
                           "refused:msgvalfmt": 8000, "mpt_msgvalfmt_code": 400, "mpt_type_int": 700, "mpt_type_uint": 700,
                           "monitor:type_int-compared": 300, "refused:type_int": 1000}),
              dict(name="c06_cxx", memcheck=100, src=["c06_cxx.cpp"], libs=["mpt++", "mptio", "mptplot", "mptcore"], batch=1,
                   floors={"type_traits::add": 50000, "type_traits::add_basic": 500, "type_traits::add_interface": 500,
                           "type_traits::add_metatype": 500, "type_properties::id": 3000, "type_traits::get(id)": 100000,
                           "monitor:template-type-compared": 3000, "monitor:builtin-compared": 5000, "monitor:traits-compared": 100000,
                           "monitor:name-to-id": 1000, "exhausted:generic": 20, "capacity:generic": 1792,
                           "library-type-query": 4000, "monitor:library-type-first-query": 300, "monitor:library-type-repeated-query": 3000,
                           "library-name-taken-first": 300, "monitor:library-type-name-was-taken": 200, "refused:library-type": 200,
                           "monitor:conversion-through-library-id": 300, "monitor:peek-before-first-registration": 400, "monitor:peek-after-registration": 1000, "exhausted:metatype": 15, "exhausted:interface": 15,
                           "site:metatype::generic::pointer_traits": 400, "site:metatype::basic::pointer_traits": 400,
                           "site:layout::pointer_traits": 400, "site:layout::graph::pointer_traits": 400,
                           "site:metatype::value<T>::pointer_traits": 800, "site:group::pointer_traits": 400,
                           "site:io::interface::get_traits": 400, "site:type_properties<point<float>>::id": 400,
                           "site:type_properties<point<double>>::id": 400}),
              dict(name="c06_libtypes", src=["c06_libtypes.c"], libs=["mptplot", "mptio", "mptcore"], batch=1,
                   env={"VF_ASAN_EXTRA": "detect_stack_use_after_return=1"},
                   floors={"mpt_color_typeid": 1500, "mpt_lattr_typeid": 1500, "mpt_line_typeid": 1500,
                           "mpt_graph_pointer_typeid": 1500, "mpt_axis_pointer_typeid": 1500, "mpt_world_pointer_typeid": 1500,
                           "mpt_text_pointer_typeid": 1500, "mpt_fpoint_typeid": 1500, "mpt_rawdata_type_traits": 1500,
                           "mpt_input_type_traits": 1500, "mpt_client_type_traits": 1500,
                           "monitor:library-type-registered": 4000, "monitor:repeated-call-same-id": 15000,
                           "monitor:libtype-compared": 100000, "monitor:libtype-name-compared": 20000,
                           "harness-registration": 5000, "stack-work": 5000, "library-types-registered": 11,
                           "generic-range-filled": 20, "refused:library-registration": 2000,
                           "range-filled:basic": 80, "range-filled:generic": 80, "range-filled:interface": 80, "range-filled:metatype": 80,
                           "monitor:library-after-exhaustion": 200, "monitor:registry-growth-compared": 30000,
                           "library-name-taken-first": 100})],
        rule=("case = one process running (a) a built-in sweep, (b) an exhaustion history or (c) a PRNG history of 40..420 operations "
              "(registrations of the four kinds with valid, too short, duplicate, anonymous names / valid and invalid traits; lookups by id "
              "and by name); non-trivial = (a), (b) always, (c) when >= 3 registrations of >= 2 kinds were accepted and >= 1 refused; "
              "distinct = 64-bit hash of the registration sequence with arguments; C++ leg: one process per PRNG history of 20..200 "
              "operations through mpt::type_traits::add/add_basic/add_interface/add_metatype/get and type_properties<T>::id()/traits() for "
              "12 harness types and the built-in specialisations (every 6th history fills the generic range first; 2 of 8 histories query the 10 "
              "lazily registering C++ sites listed in notes/C06.md after the application took their names and/or filled a range); library-registrations leg: "
              "one process per PRNG history of 30..160 operations (call one of the 11 registering convenience functions, register a harness "
              "type, overwrite the stack below the caller, look everything up; 5 of 12 histories first exhaust one or all id ranges with harness types, 1 of 12 fills the generic range midway), non-trivial when "
              ">= 6 library ids and >= 2 harness ids exist"),
        exhaustive_note="all 256 message value format codes and byte sizes 0..17 in every built-in sweep and exhaustion case; ids 0..0x1100 looked up completely at the end of every case; every range filled to refusal (64 basic, 48 interface, 1791 metatype, 1792 generic ids)",
        assumptions=SAN_BASE + ["built-in size table written with sizeof in harness/c06_registry.c (TypeUnixSocket = int, Type*Ptr = void *)",
                                "names of built-ins: convertable/logger/output/iterator/metatype from the alias table and examples, the other built-in interface names are adopted at first lookup and must then stay",
                                "a name held by an interface and a metatype at once (not refused by the library) may resolve to either",
                                "success of a registration below capacity is not demanded (counted as observe:refused-below-capacity)"],
    )
