"""C20: layout object properties round-trip and do not interfere."""
from common import SAN_BASE

PROP = dict(
        technique="runtime monitoring: ASan/UBSan/LSan build + property snapshot oracle (all properties and raw object bytes compared after every set/reset/copy)",
        level_text=("Monitored executions of mpt_{axis,line,text,graph,world}_set/get/init/fini with a recording harness convertable (all scalar types, "
                    "strings of length 0..300, colours, points, object pointers, 'no value' answers), of mpt_object_set_string on the same objects, of "
                    "mpt_color_parse, and of the C++ objects (object::set / property(), copy construction and assignment, colour print -> parse): every "
                    "(kind, setter name incl. aliases, value class) combination once, then PRNG sequences of up to 40 set/reset/copy/get steps on two "
                    "objects of a kind.  Exploration, not proof."),
        level_note=("trusts the snapshot oracle and the reference colour parser in harness/c20_layout.c / c20_cxx.cpp, the exact-or-refused conversions of the "
                    "harness convertable, gcc ASan+UBSan+LSan; string coded values (graph align/clip from text, axis intervals = log) are adopted"),
        legs=[dict(name="c20_layout", memcheck=1500, src=["c20_layout.c"], libs=["mptplot", "mptcore"], batch=256, lsan=True,
                   floors={"set:accepted": 20000, "set:refused": 20000, "monitor:readbacks-compared": 10000, "monitor:resets-compared": 3000,
                           "monitor:no-value-resets-compared": 500, "monitor:refusals-compared": 20000, "monitor:untouched-properties-compared": 200000,
                           "monitor:copies-compared": 3000, "copy:accepted": 5000, "monitor:object-resets-compared": 1000, "monitor:get-by-name": 10000,
                           "mpt_object_set_string": 10000, "set_string:accepted": 3000, "monitor:string-readbacks-compared": 1000,
                           "mpt_axis_set": 5000, "mpt_line_set": 5000, "mpt_text_set": 5000, "mpt_graph_set": 5000, "mpt_world_set": 5000,
                           "color:wellformed-compared": 1000, "color:refused": 500,
                           "monitor:read-by-spelling": 100000, "monitor:get-by-prefix": 50000, "monitor:fpoint-grid": 980, "fpoint:accepted": 150, "fpoint:refused": 500, "fpoint:iterator-source": 392, "monitor:twin-comparisons": 100000, "monitor:foreign-source-assignments": 5000, "foreign:refused": 2500, "monitor:entry-resets-compared": 3000, "monitor:entry-values-compared": 3000, "mpt_object_set_nodes": 1000, "monitor:set-twice": 15000, "monitor:set-twice-both-accepted": 3000}),
              dict(name="c20_cxx", memcheck=500, src=["c20_cxx.cpp"], libs=["mpt++", "mptio", "mptplot", "mptcore"], batch=256, lsan=True,
                   cflags=["-fno-sanitize=vptr"],
                   floors={"object::set": 50000, "set:accepted": 10000, "set:refused": 5000, "monitor:readbacks-compared": 5000,
                           "monitor:copies-compared": 5000, "copy:accepted": 5000, "color:print-parse": 15000, "monitor:properties-compared": 200000,
                           "monitor:read-by-spelling": 50000, "object::operator[]=": 30000, "assign:routes": 560, "monitor:assignments-compared": 520, "monitor:fpoint-grid": 196, "object::set(object)": 80, "monitor:foreign-source-assignments": 5000, "foreign:refused": 3000, "monitor:entry-resets-compared": 8000, "monitor:set-twice": 10000}),
              ],
        rule=("case = (a) one (kind, setter name, value class) triple on a scrambled object: set, reset, unknown name; (b) one PRNG sequence of 5..40 "
              "steps (set with a typed value, reset, copy/clear through \"\" and NULL names, whole-object reset, get by name, unknown names, "
              "mpt_object_set_string) on two objects of one kind; (c) one colour text for mpt_color_parse; non-trivial = always (a, b), documented colour "
              "form (c); distinct = 64-bit hash of the operation list with values"),
        exhaustive_note="every (object kind, documented setter name, value class) combination: 63 names x 44 classes; C++: every (kind, assignment route, source string mask, target string mask) combination: 5 x 7 x 4 x 4",
        assumptions=SAN_BASE + ["setter names and aliases as spelled in the *_set functions; property list = what *_get enumerates by index",
                                "a source that answers 0 to a conversion has 'no value': the property takes its default (the convention of all *_set functions)",
                                "colour texts: eight names (case-insensitive), #rrggbb, #rrggbbaa (color_parse.c, operator<<(ostream, color))"],
    )
