"""C17: fragmented messages read like contiguous ones."""
from common import SAN_BASE

PROP = dict(
        technique=("runtime monitoring: ASan/UBSan build + differential oracle - every operation on a fragment list, on the "
                   "single-fragment concatenation and on a flat reference computed from the byte string"),
        level_text=("Monitored executions of the real message code.  Enumerated completely: every string up to length 4 (thorough 5) "
                    "over the alphabet {a, space, \", comma, NUL, #, newline} x every fragment list of it (every composition of the "
                    "length, with an optional empty fragment in front of, between and behind the parts), and every fragment list of "
                    "the lengths 0..9 (thorough 11) with two PRNG contents; plus 50k (quick) / 3M (thorough) PRNG strings up to 300 "
                    "bytes in up to 47 fragments, every ring state with capacity <= 7 (9) x every (offset, length) for "
                    "mpt_message_get and 4k (100k) PRNG rings up to 4096 bytes.  Each case runs mpt_message_length, mpt_message_read "
                    "(every first-read length incl. past the end, with and without target, equal-step and PRNG plans), "
                    "mpt_memchr/memrchr/memstr/memrstr/memfcn/memrfcn (every byte value present + absent ones, PRNG sets), mpt_memtok "
                    "(36 token/comment/escape combinations), mpt_memcpy (every length -1..max+1 into a second fragmentation), "
                    "mpt_message_argv loops and mpt_array_message for 6 separators, mpt_message_append onto 3 array fills and onto "
                    "fixed-capacity target buffers (harness implementation of the buffer interface whose detach() refuses growth; up to 8 "
                    "capacities around the message/head-part length x preload 0/2: return sign, buffer identity, used length and "
                    "content must equal the contiguous append on an identical target, also when a later part is refused) - on "
                    "the cursor forms 'first fragment + list', 'everything in the list', 'left inside the first fragment by an "
                    "earlier read' and on the contiguous copy; fragments, fragment lists and targets are separate exact-size "
                    "heap blocks under ASan.  Consumers of fragmented messages: mpt_dispatch_hash on 1944 command messages (9 words that "
                    "are prefixes/extensions of each other, 6 of them registered; NUL / space separator / other message type; first "
                    "argument of 0..8 bytes, optional second argument, trailing separator, leading blanks), each dispatched contiguous "
                    "and in every cut into 2 and 3 fragments, variants with empty fragments and 30 PRNG lists up to 8 fragments: "
                    "handler called, return value and ev.id equal the contiguous run, which must reach the handler of the word.  "
                    "mpt_message_property on 600 (thorough 20k) PRNG texts of 1..4 name=value arguments (separators space/comma/NUL/newline, "
                    "arguments without =, quoted values, handler-refused names, one over-long argument) with a fixed caller sequence "
                    "(call; on success skip the separator; on refusal call again, then step over the argument with argv + read): after "
                    "every step return code, handler arguments, remaining length and all remaining bytes equal the contiguous run for "
                    "every cut into 2 and 3 fragments, variants with empty fragments and PRNG lists; contiguous run checked against the "
                    "flat meaning of quote-free texts.  "
                    "mpt_message_assign on 500 (thorough 6000) messages (element count from the caller or from the header, 0..3 path "
                    "elements, payloads of 0..39 bytes and of 1000..1100 / 1500 bytes around the 1024 byte join buffer, missing "
                    "terminators): return code, call count, path and value bytes seen by the handler equal the contiguous run for all "
                    "2/3-fragment cuts (large payloads: cuts at both ends, the header and 1022..1026), empty parts and 24 PRNG lists; "
                    "contiguous run against the flat meaning (>= 1024 payload bytes refused).  "
                    "C++ leg: graphic::target() on 203 (thorough 2755) layout:graph:world[:dim] addresses against a graphic with one "
                    "layout, two graphs, two worlds each, called twice per message, every cut into 2..5 fragments (empty ones "
                    "included) + 20 PRNG lists: return codes, destination, remaining length equal the contiguous run; message::read/length over every fragment list of lengths 0..8 (10) and "
                    "10k (300k) PRNG lists.  Exploration, not proof: longer strings and other alphabets are sampled."),
        level_note=("trusts the flat reference computations in harness/c17_msg.c / c17_cxx.cpp (read, length, byte/set/predicate "
                    "search, copy, NUL-separated arguments, append, ring range) and gcc ASan/UBSan; mpt_memtok, mpt_message_argv "
                    "and mpt_array_message with non-NUL separators are decided differentially only (fragmented == contiguous), so "
                    "a defect that changes both alike is not seen"),
        legs=[dict(name="c17_msg", memcheck=2000, src=["c17_msg.c"], libs=["mptcore"], batch=512,
                   floors={"mpt_message_read": 1000000, "mpt_message_length": 100000, "mpt_memchr": 200000, "mpt_memrchr": 200000,
                           "mpt_memstr": 100000, "mpt_memrstr": 100000, "mpt_memfcn": 200000, "mpt_memrfcn": 200000,
                           "mpt_memtok": 500000, "mpt_memcpy": 200000, "mpt_message_argv": 500000, "mpt_array_message": 200000,
                           "mpt_message_append": 100000, "mpt_message_get": 50000,
                           "monitor:read-step": 1000000, "monitor:search": 500000, "monitor:memtok-found": 100000,
                           "monitor:memtok-none": 100000, "monitor:memcpy": 100000, "monitor:argv-loop": 100000,
                           "monitor:array_message": 100000, "monitor:append": 100000, "monitor:get-split": 5000,
                           "monitor:get-refused": 5000, "state:two-or-more-fragments": 100000,
                           "state:has-empty-fragment": 100000, "state:wrapped-ring": 1000,
                           "monitor:append-fixed-refused": 100000, "monitor:append-fixed-refused-after-head": 50000,
                           "monitor:append-fixed-accepted": 100000,
                           "mpt_dispatch_hash": 500000, "monitor:dispatch-compared": 500000, "dispatch:word-cut-nul-sep": 100000,
                           "dispatch:word-cut-space-sep": 50000, "dispatch:registered-word": 1000, "dispatch:unknown-word": 300,
                           "mpt_message_property": 1000000, "monitor:property-compared": 150000,
                           "property:fragmented-run-with-refusal": 100000, "property:accepted": 300,
                           "property:refused-by-handler": 300, "property:refused-no-assignment": 100, "property:refused-too-long": 10,
                           "mpt_message_assign": 150000, "monitor:assign-compared": 150000, "assign:accepted": 150,
                           "assign:accepted-near-limit": 30, "assign:refused-too-long": 30, "assign:too-long-compared": 2500,
                           "assign:near-limit-compared": 5000, "assign:refused-missing-element": 10}),
              dict(name="c17_cxx", memcheck=500, src=["c17_cxx.cpp"], libs=["mpt++", "mptio", "mptplot", "mptcore"], batch=512,
                   floors={"message::read": 200000, "message::length": 200000, "monitor:read-step": 200000,
                           "state:two-or-more-fragments": 10000, "state:has-empty-fragment": 10000,
                           "graphic::target": 150000, "monitor:graphic-compared": 70000,
                           "graphic:colon-in-third-or-later-fragment": 60000, "graphic:contiguous-target-accepted": 20,
                           "graphic:contiguous-second-target-accepted": 3})],
        rule=("case = one (byte string, fragment list) pair run through the whole operation battery (C leg) resp. all read plans "
              "(C++ leg), or one ring state (capacity, offset, fill) run with every / 24 PRNG (offset, length) requests of "
              "mpt_message_get, each result again read, searched and argument-split; non-trivial = the string is spread over "
              ">= 2 non-empty fragments or (enumerated lists) has an empty fragment next to data, resp. the ring content is "
              "wrapped; distinct = 64-bit hash of content and fragment lengths (ring: capacity, offset, fill, requests)"),
        exhaustive_note=("all strings of length <= 4 (thorough 5) over a 7-letter alphabet x all fragment lists (compositions x "
                         "empty fragment in any gap); all fragment lists of lengths 0..9 (thorough 11); all ring states with "
                         "capacity <= 7 (thorough 9) x all (offset, length) requests incl. out of range"),
        assumptions=SAN_BASE + ["a message with clen == 0 may carry cont == NULL (MPT_MESSAGE_INIT)",
                                "mpt_memcpy with a negative length copies what fits (amount adopted from the contiguous run, only compared)",
                                "mpt_memstr with an empty set: result only compared between fragmented and contiguous run",
                                "isspace/isgraph in the C locale"],
    )
