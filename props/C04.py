"""C04: copy-on-write arrays behave as independent values."""
from common import SAN_BASE

PROP = dict(
    technique="runtime monitoring: ASan/UBSan build + per-handle value-semantics shadow vectors compared after every array operation",
    level_text=("Monitored executions of the real array/buffer/slice code: PRNG histories over 4 array handles and a slice handle "
                "(clone, append, insert, typed set, writable slice, cut, truncate, reserve, reduce, printf, string, slice write) with lengths "
                "chosen around used size, capacity and the 128-byte allocation granule, on unshared, shared, immutable and no-copy buffers; "
                "after every operation every handle is read back and compared with its shadow vector; a third leg drives the library functions that grow typed arrays for their callers (mpt_values_prepare, mpt_valfmt_add/parse) under the same oracle.  Exploration, not proof."),
    level_note="trusts the shadow-vector model in harness/c04_*.c/.cpp, gcc ASan+UBSan; shrinking reserve is adopted (prefix property and other handles asserted); a type-changing reserve must leave the handle empty",
    legs=[dict(name="c04_array", memcheck=1500, src=["c04_array.c"], libs=["mptcore"], batch=512, lsan=True,
               floors={"array_append": 1000, "array_insert": 1000, "array_set": 1000, "array_slice": 1000, "buffer_cut": 1000,
                       "array_reserve": 1000, "printf": 1000, "slice_write": 1000, "state:shared": 5000, "state:immutable": 200,
                       "state:nocopy": 200, "history:had-shared-buffer": 5000}),
          dict(name="c04_cxx", memcheck=500, src=["c04_cxx.cpp"], libs=["mpt++", "mptio", "mptplot", "mptcore"], batch=512, lsan=True,
               floors={"insert": 1000, "append": 1000, "set": 1000, "printf": 1000, "slice_write": 500, "state:shared": 5000,
                       "typed_array_insert": 2000, "unique_array_insert": 1000, "map_set": 2000, "map_get": 2000,
                       "pointer_compact": 2000, "value_store_reserve": 20000, "state:reserve-within-shared-length": 2000,
                       "monitor:value-store-readbacks": 100000}),
          dict(name="c04_users", memcheck=500, src=["c04_users.c"], libs=["mptplot", "mptcore"], batch=512, lsan=True,
               floors={"values_prepare:append": 50000, "values_prepare:repeat": 20000, "valfmt_add": 20000, "valfmt_parse": 5000,
                       "state:shared": 20000, "state:shared-with-spare-capacity": 5000, "state:immutable": 2000,
                       "state:repeat-more-than-stored": 2000, "monitor:all-handle-readbacks": 500000,
                       "mpt_stage_data": 50000, "state:existing-dimension-of-shared-stage": 5000, "monitor:stage-audits": 100000})],
    rule=("case = one PRNG history of 10..70 (quick) / 10..120 (thorough) operations over 4 array handles + 1 slice handle; "
          "non-trivial = some buffer was shared between handles and >= 3 mutating operations ran while sharing existed; "
          "distinct = 64-bit hash of the operation list with arguments"),
    assumptions=SAN_BASE + ["refusal (NULL / negative return) is accepted only for buffers that forbid copies (no-copy flag); an immutable buffer is replaced by a private copy",
                            "mpt_buffer_cut is a buffer-level call: the harness detaches a shared buffer (mpt_array_slice(arr,0,0)) first, as a caller must"],
)
