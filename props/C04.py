"""C04: copy-on-write arrays behave as independent values."""
from common import SAN_BASE

PROP = dict(
    technique="runtime monitoring: ASan/UBSan build + per-handle value-semantics shadow vectors compared after every array operation",
    level_text=("Monitored executions of the real array/buffer/slice code: PRNG histories over 4 array handles and a slice handle "
                "(clone, append, insert, typed set, writable slice, cut, truncate, reserve, reduce, printf, string, slice write) with lengths "
                "chosen around used size, capacity and the 128-byte allocation granule, on unshared, shared, immutable and no-copy buffers; "
                "after every operation every handle is read back and compared with its shadow vector.  Exploration, not proof."),
    level_note="trusts the shadow-vector model in harness/c04_*.c/.cpp, gcc ASan+UBSan; shrinking reserve / type-changing reserve are adopted (only prefix property and other handles asserted)",
    legs=[dict(name="c04_array", memcheck=1500, src=["c04_array.c"], libs=["mptcore"], batch=512, lsan=True,
               floors={"array_append": 1000, "array_insert": 1000, "array_set": 1000, "array_slice": 1000, "buffer_cut": 1000,
                       "array_reserve": 1000, "printf": 1000, "slice_write": 1000, "state:shared": 5000, "state:immutable": 200,
                       "state:nocopy": 200, "history:had-shared-buffer": 5000}),
          dict(name="c04_cxx", memcheck=500, src=["c04_cxx.cpp"], libs=["mpt++", "mptio", "mptplot", "mptcore"], batch=512, lsan=True,
               floors={"insert": 1000, "append": 1000, "set": 1000, "printf": 1000, "slice_write": 500, "state:shared": 5000,
                       "typed_array_insert": 2000, "unique_array_insert": 1000, "map_set": 2000, "map_get": 2000,
                       "pointer_compact": 2000})],
    rule=("case = one PRNG history of 10..70 (quick) / 10..120 (thorough) operations over 4 array handles + 1 slice handle; "
          "non-trivial = some buffer was shared between handles and >= 3 mutating operations ran while sharing existed; "
          "distinct = 64-bit hash of the operation list with arguments"),
    assumptions=SAN_BASE + ["refusal (NULL / negative return) is accepted for buffers flagged immutable or no-copy",
                            "mpt_buffer_cut is a buffer-level call: the harness detaches a shared buffer (mpt_array_slice(arr,0,0)) first, as a caller must"],
)
