"""C03: decoders are safe and honest on arbitrary bytes."""
from common import SAN_BASE

PROP = dict(
        technique="runtime monitoring: ASan/UBSan build, exact-size input fragments, region snapshots around every decoder call, reference decoder / well-formedness verdict per zero-terminated chunk",
        level_text="(filled in below)",
        level_note="trusts the reference codec in harness/c01_refcodec.h, gcc ASan+UBSan red zones",
        legs=[dict(name="c03_decode", src=["c03_decode.c"], libs=["mptcore"], batch=2048, timeout=30,
                   floors={})],
        rule="(filled in below)",
        assumptions=SAN_BASE,
    )
