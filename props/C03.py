"""C03: decoders are safe and honest on arbitrary bytes."""
from common import SAN_BASE

PROP = dict(
        technique=("runtime monitoring: ASan/UBSan build; every input fragment handed to a decoder is its own exact-size heap block; "
                   "the whole input region is snapshotted around every decoder call (writes only between the current decode target "
                   "and the input position); outcome sequence compared with a reference decoder / well-formedness verdict per "
                   "zero-terminated chunk; bounded number of calls per stream"),
        level_text=("Monitored executions of mpt_decode_cobs/_r/_zpe/_zpe_r/mpt_decode_command and of mpt_queue_recv/mpt_queue_peek: "
                    "every string of length <= 5 (quick) / <= 6 (thorough) over the boundary alphabet "
                    "{00,01,02,1F,20,DE,DF,E0,E1,FE,FF} x 5 decoders x {one call, byte-wise, PRNG schedule with iovec fragments, "
                    "slack, peeks, repeated calls}; 250k / 2M streams of valid frames with 0..3 mutations; 120k / 1.5M streams "
                    "through a decode_queue ring (capacities 1..600, all start offsets sampled).  Exploration, not proof; "
                    "coverage-guided fuzzing (DESIGN: optional) and valgrind memcheck were not run."),
        level_note=("trusts the reference decoder / well-formedness predicate in harness/c01_refcodec.h and gcc ASan+UBSan red zones; "
                    "a stray write into another live heap block that is never compared would be missed"),
        legs=[dict(name="c03_fuzz", kind="fuzz", src=["c03_fuzz.c"], libs=["mptcore"], runs={"thorough": 60000}, max_len=600,
                   floors={"fuzz:streams-with-message": 10000, "fuzz:streams-with-error": 10000}),
              dict(name="c03_decode", memcheck=4000, src=["c03_decode.c"], libs=["mptcore"], batch=2048, timeout=40,
                   floors={"mpt_decode_cobs": 1000000, "mpt_decode_cobs_r": 1000000, "mpt_decode_cobs_zpe": 1000000,
                           "mpt_decode_cobs_zpe_r": 1000000, "mpt_decode_command": 1000000,
                           "monitor:window-compare": 5000000, "monitor:message-compare": 300000,
                           "monitor:error-for-empty-frame": 50000, "monitor:error-for-malformed-frame": 50000,
                           "monitor:end-of-input-compare": 500000, "cases:exhaustive-string": 177156,
                           "runs:with-missing-buffer": 20000, "runs:with-peek": 50000,
                           "outcome:message:cobs": 10000, "outcome:message:cobs_r": 10000, "outcome:message:cobs_zpe": 10000,
                           "outcome:message:cobs_zpe_r": 10000, "outcome:message:command": 10000}),
              dict(name="c03_queue", src=["c03_queue.c"], libs=["mptcore"], batch=512, timeout=40,
                   floors={"mpt_queue_recv": 300000, "mpt_queue_peek": 50000, "monitor:unconsumed-tail-compare": 500000,
                           "monitor:message-compare": 50000, "monitor:error-for-malformed-frame": 1000,
                           "monitor:error-for-empty-frame": 500})],
        rule=("case = (a) one string over the boundary alphabet, run through all 5 decoders x 3 schedules, or (b) a stream of 1..3 "
              "reference-encoded frames (1 in 6 encoded for another framing) with 0..3 mutations run through one decoder one-shot and "
              "under a PRNG schedule, or (c) a stream (frames with 0..2 mutations, or alphabet noise) pushed in PRNG segments into a "
              "decode_queue ring of PRNG capacity/offset and received with mpt_queue_recv, peeked with mpt_queue_peek.  "
              "non-trivial = (a) the string contains a delimiter (an outcome must be produced), (b) a mutation was applied or the "
              "stream has >= 2 frames, (c) at least one message was received and the stream has > 8 bytes; distinct = 64-bit hash of "
              "(class, decoder, stream bytes[, ring capacity, offset])"),
        exhaustive_note="all strings of length 0..5 (quick) / 0..6 (thorough) over {00,01,02,1F,20,DE,DF,E0,E1,FE,FF} for each of the 5 decoder functions, one-shot and byte-wise",
        assumptions=SAN_BASE + [
            "reference decoder + well-formedness verdict in harness/c01_refcodec.h; chunks using ZPE code 0xFF, or a cut-short last block with code >= 0xE0 under ZPE+R, carry no equality claim (safety monitors only)",
            "caller protocol of DESIGN Appendix A (examples/core/coding.c): MissingBuffer answered by inserting free bytes at state.curr; peek = one iovec, sourcelen 0",
            "peek mode is allowed to continue in-place decoding of the current block (what mpt_queue_peek relies on); only the general write-window rule is asserted for it",
            "termination of a single call is left to the runner's watchdog; the call sequence per stream is bounded by 8*(n+8) calls",
            "queue leg: progress of mpt_queue_recv (MissingBuffer recovery, stalls) is C02's claim and is not asserted",
        ],
    )
