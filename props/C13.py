"""C13: ring-buffer queue is a faithful byte deque."""
from common import SAN_BASE

PROP = dict(
        technique="runtime monitoring: ASan/UBSan build + byte-deque reference model stepped after every queue operation",
        level_text=("Monitored executions of the real queue code: every (capacity<=8, offset, fill) state x every operation x "
                    "every argument is enumerated, plus 300k (quick) / 3M (thorough) random operation histories on larger rings and "
                    "the C++ io::queue / pipe<T> wrappers; after each operation content and length are compared with a deque model "
                    "and ASan/UBSan watch every access.  Exploration, not proof: larger capacities are sampled."),
        level_note="trusts the deque model in harness/c13_queue.c / c13_cxx.cpp, gcc ASan+UBSan red zones (non-adjacent stray writes into other live blocks are not seen)",
        legs=[dict(name="c13_queue", src=["c13_queue.c"], libs=["mptcore"], batch=512, memcheck=3000,
                   floors={"mpt_qpop": 500, "mpt_queue_crop": 500, "state:wrapped": 2000, "mpt_queue_load": 5000, "mpt_message_get": 5000, "monitor:huge-length-refusals": 20000, "state:message-view-with-continuation": 1000, "mpt_queue_save": 2000,
                           "state:load-with-limit-below-free-space": 2000, "state:load-save-on-wrapped": 500,
                           "monitor:readbacks": 20000, "history:reached-wrapped": 1000}),
              dict(name="c13_cxx", memcheck=500, src=["c13_cxx.cpp"], libs=["mpt++", "mptio", "mptplot", "mptcore"], batch=512,
                   floors={"io::queue::pop": 1000, "io::queue::write": 1000, "history:reached-wrapped": 200,
                           "pipe::pop": 1000})],
        rule=("case = (a) one (capacity, offset, fill, operation) tuple run with every argument value, "
              "capacities 1..8 (quick) / 1..14 (thorough), or (b) one PRNG history of 8..60 queue operations "
              "on a capacity from {1..5,7,8,13,16,31..33,64,100,1023..1025,4096}, or (c) one memrev/memswap "
              "instance; non-trivial = start state holds data (a), history reached a wrapped ring and "
              "contains >= 3 accepted mutating operations (b), pivot strictly inside (c); distinct = "
              "64-bit hash of the operation list with arguments"),
        exhaustive_note="all (max, off, len) states with max <= 8 (quick) / 14 (thorough) x every operation x every argument value",
        assumptions=SAN_BASE + ["byte-array deque model in harness/c13_queue.c",
                                "shrinking resize drops data from the queue start (source comment)"],
    )
