"""C07: scalar conversion is exact or refused."""
from common import SAN_BASE

PROP = dict(
        technique=("runtime monitoring: ASan/UBSan build + exact arithmetic oracle (__int128, long double with neighbour cross-check, "
                   "independent big-number numeral parser) applied to every conversion result; every conversion is run with a destination "
                   "(sentinel-filled exact-size heap block) and with NULL destination"),
        level_text=("Monitored executions of the real converters.  Value leg: all 12 source types x 13 scalar targets (+ own vector, foreign "
                    "vector, generic vector, unknown type codes) through the typed mpt_data_convert_* functions, the function returned by "
                    "mpt_data_converter(), mpt_value_convert() and mpt_iterator_consume(); 8- and 16-bit sources enumerated completely, wider "
                    "and floating sources on a boundary list (+-2 around every integer type limit, powers of two +-1, 2^24/2^53, FLT/DBL/LDBL "
                    "limits and the half-ulp overflow thresholds, subnormals, +-0, inf, NaN) plus PRNG values.  Text leg: mpt_c{int,uint}{8..64}, "
                    "mpt_cchar/cint/clong/cuchar/cuint/culong, _mpt_convert_int/_uint (lengths 1,2,4,8,3), mpt_cfloat/cdouble/cldouble, "
                    "mpt_convert_number and mpt_convert_string for every number type, bases 0/10/16/8/2/36, on boundary magnitudes up to "
                    "2^128 with every sign and prefix form, malformed texts and PRNG-decorated numerals.  Every accepted result is compared "
                    "with the exact value of the source / of the characters reported as consumed; query and performing call must agree.  "
                    "A C++ leg creates metatype holders (metatype::generic::create, metatype::create(value), metatype::value<T>, metatype::basic text) "
                    "of every scalar type in PRNG order inside one process and judges each convert() to the 13 targets with the same oracle.  "
                    "A multi-element leg feeds typed, string and values iterators of 0..3 elements to mpt_fpoint_set / mpt_range_set (element by element through "
                    "mpt_iterator_consume): every stored element is judged, a present but unconvertible element must refuse the assignment.  "
                    "Exploration, not proof: 32/64-bit and floating sources and numerals are sampled."),
        level_note=("trusts the oracle code in harness/c07_oracle.h (value and C++ legs) and c07_text.c, x87 long double arithmetic (64-bit mantissa holds every "
                    "source value exactly), glibc strtof/strtod/strtold as correctly rounded reference for decimal/hex fractions (plain decimal "
                    "integers below 2^64 are checked without glibc), gcc ASan+UBSan"),
        legs=[dict(name="c07_value", src=["c07_value.c"], libs=["mptcore"], batch=64,
                   floors={"mpt_data_convert_int8": 10000, "mpt_data_convert_uint8": 5000, "mpt_data_convert_int16": 1000000,
                           "mpt_data_convert_uint16": 1000000, "mpt_data_convert_int32": 100000, "mpt_data_convert_uint32": 100000,
                           "mpt_data_convert_int64": 100000, "mpt_data_convert_uint64": 100000, "mpt_data_convert_float32": 300000,
                           "mpt_data_convert_float64": 300000, "mpt_data_convert_exflt": 300000,
                           "mpt_data_converter:calls-through": 3000000, "mpt_value_convert": 3000000, "mpt_iterator_consume": 3000000,
                           "monitor:target-value-compared": 3000000, "monitor:float-nearest-checked": 1000000,
                           "monitor:query-verdict-compared": 6000000, "monitor:refused-not-representable": 2000000,
                           "monitor:vector-over-source": 200000, "monitor:unknown-target-refused": 800000,
                           "exhaustive:blocks": 2380, "eval:null-address-source": 100000, "monitor:degenerate-source-query-compared": 700}),
              dict(name="c07_text", src=["c07_text.c"], libs=["mptcore"], batch=8,
                   floors={"mpt_cint8": 20000, "mpt_cint16": 20000, "mpt_cint32": 20000, "mpt_cint64": 20000, "mpt_cchar": 20000,
                           "mpt_cint": 20000, "mpt_clong": 20000, "mpt_cuint8": 20000, "mpt_cuint16": 20000, "mpt_cuint32": 20000,
                           "mpt_cuint64": 20000, "mpt_cuchar": 20000, "mpt_cuint": 20000, "mpt_culong": 20000,
                           "_mpt_convert_int": 100000, "_mpt_convert_uint": 100000, "mpt_cfloat": 15000, "mpt_cdouble": 15000,
                           "mpt_cldouble": 15000, "mpt_convert_number": 200000, "mpt_convert_string": 200000,
                           "monitor:integer-value-compared": 150000, "monitor:float-value-compared": 60000,
                           "monitor:float-exact-integer-compared": 20000, "monitor:character-compared": 15000,
                           "monitor:query-verdict-compared": 500000, "monitor:range-argument-checked": 10000,
                           "monitor:refused-not-representable": 150000}),
              dict(name="c07_cxx", src=["c07_cxx.cpp"], libs=["mpt++", "mptio", "mptplot", "mptcore"], batch=32,
                   floors={"metatype::generic::convert": 30000, "metatype::create(value)": 15000, "metatype::value<T>::convert": 20000,
                           "metatype::basic::convert": 5000, "value::convert": 10000, "eval:null-address-source": 5000, "eval:conversions": 400000, "monitor:query-verdict-compared": 400000,
                           "monitor:target-value-compared": 100000, "monitor:refused-not-representable": 50000}),
              dict(name="c07_multi", src=["c07_multi.c"], libs=["mptplot", "mptio", "mptcore"], batch=64,
                   floors={"mpt_fpoint_set": 80000, "mpt_range_set": 40000, "source:typed-elements": 40000,
                           "source:mpt_iterator_string": 30000, "source:mpt_iterator_values": 20000,
                           "monitor:element-value-compared": 20000, "monitor:second-element-compared": 5000,
                           "monitor:single-element-used-twice": 5000, "eval:assignment-refused": 20000, "eval:assignment-accepted": 20000})],
        rule=("value leg: case = (API, source type, target, block): a block is the complete value range (8-bit), 4096 consecutive values "
              "(16-bit, 16 blocks) or the boundary list plus 1000 (quick) / 4000 (thorough) PRNG values (32/64-bit, floating); every value "
              "is converted with and without destination.  text leg: case = (function [and length / type argument], base, block): every "
              "boundary magnitude x sign rendered for the base, 72 malformed/limit texts (integer targets) or 176 floating texts, and 400 "
              "(quick) / 1500 (thorough) PRNG-decorated numerals, optionally with a range argument.  non-trivial = at least one accepted "
              "conversion whose target was compared with the oracle, or a refusal of a source the target cannot represent (value leg); at "
              "least one compared result and one refusal (text leg); C++ leg: case = 20..60 holders (kind, source type, boundary/PRNG value) created and "
              "converted one after the other, 32 cases per process, non-trivial with >= 10 compared results, >= 4 source types and >= 2 holder kinds; distinct = hash of (API/function, types, base, block, values/texts)"),
        exhaustive_note="value leg: every value of the 8-bit (c, b, y) and 16-bit (n, q) source types x 13 scalar targets + vector/unknown targets x 4 API paths x {destination, NULL}",
        assumptions=SAN_BASE + ["precision rule of DESIGN section 4: a floating target must hold the round-to-nearest image of the source (ties: either neighbour); finite source -> inf/NaN is a violation",
                                "return 0 of the text functions means 'nothing converted' (empty / space-only text) and is neither success nor refusal; mpt_convert_string may report leading space as consumed without storing a value (counted, not asserted)",
                                "vector targets: only 'success with destination yields an iovec over the source' is asserted (the typed converters answer MissingData to a vector query by design)",
                                "target codes without mpt_type_traits() entry (except the documented alias 'l') must be refused",
                                "return value of the typed converters (documented as destination size) is not part of the property and not asserted",
                                "C locale (isgraph/isspace), x86-64: char is signed, long is 64 bit, long double is the 80-bit x87 format"],
    )
