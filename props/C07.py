"""C07: scalar conversion is exact or refused."""
from common import SAN_BASE

PROP = dict(
        technique="runtime monitoring: ASan/UBSan build + exact arithmetic oracle (__int128 / long double / big-number numeral parser) applied to every conversion result, each conversion run with and without destination",
        level_text="(filled in below)",
        level_note="",
        legs=[dict(name="c07_value", src=["c07_value.c"], libs=["mptcore"], batch=64, floors={}),
              dict(name="c07_text", src=["c07_text.c"], libs=["mptcore"], batch=8, floors={})],
        rule="",
        assumptions=SAN_BASE,
    )
