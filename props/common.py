"""shared texts for props/CNN.py"""
SAN_BASE = ["gcc AddressSanitizer/UBSan runtime", "the reference model inside the harness"]
