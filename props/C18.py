"""C18: visible line parts partition the data exactly."""
from common import SAN_BASE

PROP = dict(
        technique="runtime monitoring: ASan/UBSan build + partition oracle written from the property text, applied to every list of line parts",
        level_text=("Monitored executions of mpt_linepart_linear / mpt_linepart_join (C) and linepart::array / polyline (C++): every class "
                    "sequence over {below, min, inside, max, above} up to length 7 (quick) / 8 (thorough) in 5 numeric scalings, each split "
                    "with all remaining data and with chunk limits 1, 2, 3; 100k / 5M PRNG real sequences and ranges; runs of 65533..65538 "
                    "visible / invisible points; two and three limited dimensions applied in turn to one linepart::array (every class sequence "
                    "per dimension up to length 4 / 5 for two, 2 / 3 for three dimensions, 150k / 3M PRNG data sets).  After each split the list of parts is checked for progress, totals, exact coverage of "
                    "in-range points and cut/trim fractions against the long double crossing (several dimensions: against the place where the "
                    "line enters / leaves the visible box); after joining again.  Exploration, not proof."),
        level_note=("trusts the partition oracle in harness/c18_oracle.c (long double crossing, tolerance 2^-16(1+1e-9)), gcc ASan+UBSan; "
                    "fractions are not asserted where the differences bound-v0 / v1-v0 overflow double; non-finite data: progress and totals only"),
        legs=[dict(name="c18_linepart", memcheck=1500, src=["c18_linepart.c", "c18_oracle.c"], libs=["mptplot", "mptcore"], batch=512,
                   floors={"mpt_linepart_linear": 1000000, "mpt_linepart_join": 500000, "join:accepted": 100000, "join:refused": 100000,
                           "monitor:cut-fraction": 200000, "monitor:trim-fraction": 200000, "monitor:coverage-points": 1000000,
                           "monitor:crossings-complete": 200000, "state:part-at-limit-65535": 1000, "run:cases": 1000,
                           "exhaustive:instances": 5 * 97655, "data:non-finite": 500, "monitor:underflow-witnesses": 96}),
              dict(name="c18_cxx", memcheck=500, src=["c18_cxx.cpp", "c18_oracle.c"], libs=["mpt++", "mptio", "mptplot", "mptcore"], batch=512,
                   cflags=["-fno-sanitize=vptr"],
                   floors={"linepart::array::apply": 50000, "linepart::array::set": 10000, "transform::part": 100000,
                           "monitor:cut-fraction": 20000, "monitor:two-dimension-lists": 10000,
                           "polyline::set": 5000, "monitor:polyline-points": 100000, "monitor:polyline-parts-iterated": 50000,
                           "exhaustive:nd-instances": 400000, "monitor:nd-lists": 900000, "monitor:nd-cut-fraction": 300000,
                           "monitor:nd-trim-fraction": 300000, "monitor:nd-cut-zero": 300000, "monitor:nd-coverage-points": 500000,
                           "monitor:polyline2-lists": 40000, "monitor:polyline2-drawn-points": 150000, "polyline::part::points": 80000,
                           "state:two-point-part-cut-and-trim": 5000, "state:empty-part-with-cut-or-trim": 1000,
                           "monitor:norange-runs": 300, "transform::part (no range)": 600, "monitor:history-steps": 40000,
                           "cycle::stage::transform": 30000, "polyline::clear": 8000, "history:invisible-data-set": 5000,
                           "history:empty-data-set": 1000, "state:polyline-nothing-visible": 5000, "monitor:range-history-steps": 40000,
                           "range-history:nothing-visible": 5000, "linepart::set_cut/set_trim": 2000, "fraction:accepted": 500, "fraction:refused": 500,
                           "transform3::part (log limit)": 50000, "transform3::part (linear limit)": 20000,
                           "monitor:log-cut-fraction": 10000, "monitor:log-trim-fraction": 10000,
                           "monitor:cut-helper-points": 10000, "monitor:trim-helper-points": 10000, "transform::apply (library template)": 50000}),
              ],
        rule=("case = (a) one class sequence (exhaustive by index) instantiated in 5 scalings, or (b) one PRNG sequence of 1..300 reals "
              "with a PRNG range, or (c) one data set with a run of 65533..65538 points of one kind plus head/tail classes, or several runs "
              "of PRNG lengths, or (d) one (to.raw, post.raw) pair of synthetic joins with all usr/cut/trim variants; non-trivial = the data "
              "contain an in-range and an out-of-range point (a), at least one segment crossing the range boundary and only finite values (b), "
              "always (c), raw total > 65530 (d); distinct = 64-bit hash of values and range"),
        exhaustive_note="all sequences over {below, at-min, inside, at-max, above} of length 1..7 (quick) / 1..8 (thorough) x 5 scalings x call windows {all, 1, 2, 3}; two limited dimensions in turn: all class sequences of length 1..4 (quick) / 1..5 (thorough) per dimension, three dimensions: 1..2 / 1..3, each after set(n) and on an empty array; polyline over two limited dimensions: all class sequences of length 1..3 (quick) / 1..4 (thorough) per dimension",
        assumptions=SAN_BASE + ["drawn portion of a part = its first usr points (mptplot/values.h, polyline::part::line)",
                                "cut is measured from the first, trim from the last drawn point towards its neighbour (linepart_linear.c)",
                                "several dimensions: a point is visible when in range in every dimension; the line enters the box at the largest entering fraction "
                                "of the dimensions whose first point is outside (leaves at the largest leaving fraction)",
                                "a crossing segment has to be drawn only when the call was given both of its points and all data up to the end (n <= 65535)"],
    )
