"""C10: configuration store behaves as a path-to-value map."""
from common import SAN_BASE

PROP = dict(
        technique=("runtime monitoring: ASan/UBSan/LSan build + path->value map model; after every assign/remove every path of the "
                   "case's universe (and every prefix of it) is queried for value and existence; path functions are compared with "
                   "split(separator) / a vector of byte strings"),
        level_text=("Monitored executions of the real configuration code.  Store legs: histories of 50..250 (thorough 400) assign / remove / "
                    "clear / query operations over a universe of 6..20 paths built from 5..8 element names (lengths 1..3, one of 254..257, "
                    "optionally the empty name, up to 4 names of a length at the inline name capacity of the elements and +-1: 18..20, 82..84, "
                    "210..212 for config nodes, 10..12 for C++ config items, used at every level; shared prefixes, prefix-of-another, repeated elements), separators '.', '/', ':' mixed freely, "
                    "end-delimiter form, binary (length-linked) paths, values of 0..300 bytes, assignments the store refuses (value without type, "
                    "unregistered type id: the map must stay exactly as it was); stores: the process-wide one incl. up to 4 "
                    "sub-tree views (1600 / 40k one-history processes) and a private C++ config::root (8k / 300k histories).  After every "
                    "mutating operation every universe entry is queried: value must be byte-equal to the last assignment, absent where the "
                    "model has none, existence must match the prefix-closed node set.  Path leg (120k / 2M cases): mpt_path_set + walk with "
                    "mpt_path_next / mpt_path_last against split(sep); rebuild with addchar/valid/add and mpt_path_del in text and binary mode; the "
                    "parser's protocol with characters that are not kept (0..3 blanks before / inside / after names, trailing characters left "
                    "pending, mpt_path_invalidate, mpt_path_del, mpt_path_delchar incl. one more than is pending, shared copies of the path data) against a model of pending bytes and keep mark, "
                    "element lengths aimed at the allocation steps of the path buffer (used == size, +-1).  "
                    "Exploration, not proof."),
        level_note=("trusts the map model in harness/c10_global.c / c10_cxx.cpp and the split model in c10_path.c, gcc ASan/UBSan/LSan; "
                    "values of >= 250 bytes may be refused by the value storage (other properties), a refusal must leave the map unchanged"),
        legs=[dict(name="c10_path", memcheck=1500, src=["c10_path.c"], libs=["mptcore"], batch=512, lsan=True,
                   floors={"mpt_path_set": 30000, "mpt_path_next": 300000, "mpt_path_last": 100000, "mpt_path_add": 100000,
                           "mpt_path_del": 50000, "mpt_path_addchar": 500000,
                           "elements:empty": 10000, "elements:len254": 1000, "elements:len255": 1000, "elements:len256": 1000,
                           "elements:len257": 1000, "state:binary-mode": 10000, "state:last-after-next": 30000,
                           "state:set-explicit-length": 5000, "state:set-end-delimiter": 5000, "outcome:add-refused": 3000,
                           "monitor:element-compares": 300000, "monitor:last-compares": 100000,
                           "mpt_path_valid": 3000000, "mpt_path_invalidate": 30000, "outcome:pending-char-replaced": 150000,
                           "state:addchar-at-allocation-step": 50000, "state:pending-char-at-allocation-step": 10000,
                           "state:invalidate-exactly-full": 1000, "state:trailing-characters-left": 40000,
                           "state:shared-copy": 10000, "monitor:shared-copy-walks": 40000,
                           "monitor:parser-protocol-walks": 200000,
                           "mpt_path_delchar": 80000, "outcome:delchar-took-back": 25000, "state:delchar-nothing-pending": 50000,
                           "state:delchar-nothing-pending-after-element": 20000, "monitor:addchar-delchar-identity": 20000}),
              dict(name="c10_global", src=["c10_global.c"], libs=["mptcore"], batch=1, lsan=True,
                   floors={"mpt_config_set:assign": 30000, "mpt_config_set:remove": 10000, "mpt_config_set:clear": 1000,
                           "mpt_config_global:view": 2000, "view:assign": 10000, "view:remove": 5000, "view:node-conversion": 1000,
                           "config::assign:binary-path": 2000, "config::remove:binary-path": 1000,
                           "config::assign:refused": 5000, "state:refused-on-absent-path": 2000,
                           "universe:capacity-element": 800, "state:capacity-name-level1": 8000, "state:capacity-name-level2": 6000,
                           "state:capacity-name-level3": 3000, "state:capacity-name-level4": 1000,
                           "state:view-base-capacity-name": 800, "view:assign-capacity-name": 600,
                           "state:overwrite": 10000, "state:remove-inner-node": 2000, "state:remove-absent": 3000,
                           "state:view-base-created": 300, "universe:long-element": 500, "universe:empty-element": 200,
                           "monitor:value-compares": 500000, "monitor:absence-compares": 500000,
                           "monitor:existence-compares": 1000000, "monitor:view-compares": 100000, "mpt_config_get": 100000}),
              dict(name="c10_cxx", memcheck=800, src=["c10_cxx.cpp"], libs=["mpt++", "mptio", "mptplot", "mptcore"], batch=64, lsan=True,
                   floors={"config::set:assign": 100000, "config::root::assign": 50000, "config::set:remove": 50000,
                           "config::del": 30000, "config::root::remove": 30000, "config::root::remove:clear": 5000,
                           "state:overwrite": 30000, "state:remove-inner-node": 5000, "state:long-value": 5000,
                           "state:del-explicit-length": 10000, "config::root::assign:refused": 50000,
                           "config::global:roundtrip": 10000, "monitor:path-object-walks": 5000000, "path::operator=(temporary)": 1000000,
                           "path::operator=(object)": 1000000, "path::operator=(self)": 1000000, "path::path(copy)": 1000000,
                           "path::set": 1000000, "state:path-reused-after-walk": 2000000,
                           "universe:capacity-element": 3000, "state:capacity-name-level1": 20000, "state:capacity-name-level2": 15000,
                           "state:capacity-name-level3": 8000, "state:capacity-name-level4": 3000,
                           "state:refused-on-absent-path": 30000, "state:refused-with-absent-intermediate": 15000,
                           "monitor:value-compares": 2000000, "monitor:absence-compares": 2000000,
                           "monitor:existence-compares": 5000000})],
        rule=("case = (path leg) one generated path string of 1..6 elements set and walked, one build/delete history of 4..17 steps, or one "
              "parser-protocol history of 5..18 steps (non-trivial: >= 2 elements added, at least one aimed at an allocation step); "
              "(store legs) one history over a fresh universe as described in level_text.  non-trivial = (set) >= 3 elements or an element "
              "of >= 254 bytes; (rebuild) >= 3 elements added and >= 1 deleted; (store) >= 10 accepted assignments, >= 3 removals and "
              ">= 2 overwrites of an existing value; distinct = 64-bit hash of names, operations, paths, separators and values"),
        assumptions=SAN_BASE + ["admissible caller: the end delimiter passed to mpt_config_set occurs in the string; element names contain no "
                                "separator, no end delimiter and no NUL (binary paths excepted); the first argument of path functions is a path "
                                "initialised with MPT_PATH_INIT / mpt_path_set / the addchar-valid-add protocol of the parser",
                                "return value of removing an absent path and of mpt_path_set (element count) are not asserted",
                                "the byte behind an explicit-length path string is not part of the path",
                                "view with empty relative path: assign sets the value of the base node, remove clears the children of the base "
                                "(source comments in config_global.c)"],
    )
