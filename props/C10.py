"""C10: configuration store behaves as a path-to-value map."""
from common import SAN_BASE

PROP = dict(
        technique=("runtime monitoring: ASan/UBSan/LSan build + path->value map model; after every assign/remove every path of the "
                   "case's universe (and every prefix) is queried for value and existence; path functions against split(separator)"),
        level_text="(draft)",
        level_note="(draft)",
        legs=[dict(name="c10_path", src=["c10_path.c"], libs=["mptcore"], batch=512, lsan=True, floors={}),
              dict(name="c10_global", src=["c10_global.c"], libs=["mptcore"], batch=1, lsan=True, floors={}),
              dict(name="c10_cxx", src=["c10_cxx.cpp"], libs=["mpt++", "mptio", "mptplot", "mptcore"], batch=64, lsan=True, floors={})],
        rule="(draft)",
        assumptions=SAN_BASE,
    )
