"""C12: each request is answered at most once, to the right requester."""
from common import SAN_BASE

PROP = dict(
        technique=("runtime monitoring: ASan/UBSan build; (a) id<->header round-trip oracle on exact-size buffers, "
                   "(b) request/transport model stepped after every reply-context operation, the harness being the transport "
                   "(send callback records id bytes + message and rejects PRNG-chosen calls)"),
        level_text=("Monitored executions of the real code.  (a) mpt_message_id2buf/buf2id: 197 boundary ids (0, 1, 0x7f, 0x80, 2^k-1, 2^k, "
                    "2^k+1 for k=0..63, 2^64-1) x widths 0..9 enumerated, plus 200k (quick) / 2M (thorough) random ids of uniformly chosen "
                    "bit length, each through all ten widths, plus random headers decoded and compared with the library's own encoding. "
                    "(b) 150k / 1.5M random histories on one mpt_reply_deferrable context (id capacity 0..9, 12, 40): arm, arm oversize, "
                    "disarm, reply with/without message, defer, reply/release through deferred handles, release of the context reference, "
                    "in any order, with an accepting, rejecting or flaky transport; every send that reaches the transport is compared with "
                    "the request the model says is being answered.  (c) 30k / 300k histories end to end: a peer writes COBS framed requests "
                    "with ids into a socketpair, mpt_stream_input dispatches them to a handler that replies 0, 1 or 2 times, the peer decodes "
                    "every frame coming back (reply bit, id of an outstanding request, at most one per request, exactly one at the end).  "
                    "(d) 20k / 200k histories on struct connection over a stream and over a datagram socketpair (mpt_connection_assign/_await/_push/_dispatch, "
                    "mpt_outdata_recv/_reply): peer requests answered 0, 1, 2 times or deferred, own awaited requests answered by the peer in and out of "
                    "order.  (e) 20k / 200k histories of mpt_stream_sync with 1..6 pending requests per round, all answered in PRNG order, CPU/wall "
                    "alarms as progress bound.  (f) 30k / 300k histories of mpt_stream_reply on a fixed-size memory stream (replies that do not fit, "
                    "fragmented messages, unfinished own message, retry).  Exploration, not proof."),
        level_note=("trusts the request model in harness/c12_reply.c and the fits-predicate id < 2^(8w-1) in harness/c12_id.c, gcc ASan/UBSan; "
                    "the context object is located with __asan_locate_address, its layout is not assumed"),
        legs=[dict(name="c12_id", memcheck=1500, src=["c12_id.c"], libs=["mptcore"], batch=4096,
                   floors={"mpt_message_id2buf": 500000, "mpt_message_buf2id": 500000,
                           "monitor:roundtrip-equal": 300000, "monitor:refusal-expected": 300000,
                           "monitor:header-decoded": 300000, "monitor:header-above-64bit": 20000,
                           "boundary:accepted": 1000, "boundary:refused": 800}),
              dict(name="c12_reply", src=["c12_reply.c"], libs=["mptcore"], batch=1024,
                   floors={"mpt_reply_set": 100000, "reply_context.reply": 100000, "reply_context.defer": 30000,
                           "defer:accepted": 20000,
                           "reply_context_detached.reply": 10000, "reply_context_detached.reply(NULL)": 10000,
                           "metatype.unref": 100000,
                           "transport:accepted": 50000, "transport:rejected": 50000,
                           "monitor:send-id-compared": 100000, "monitor:send-message-compared": 100000,
                           "monitor:arm-context-compared": 100000, "monitor:further-reply-refused": 20000,
                           "monitor:rejected-still-armed": 10000, "monitor:release-default-reply": 10000,
                           "monitor:detached-no-send": 5000, "deferred:kept-after-reject": 2000,
                           "history:with-defer": 20000, "history:with-rejected-send": 20000}),
              dict(name="c12_stream", src=["c12_stream.c"], libs=["mptio", "mptcore"], batch=512,
                   floors={"mpt_stream_input": 20000, "input.dispatch": 100000, "reply_context.reply": 100000,
                           "stream:request-dispatched": 100000, "peer:frames-received": 100000, "peer:default-replies": 30000,
                           "monitor:reply-id-compared": 100000, "monitor:reply-body-compared": 50000,
                           "monitor:further-reply-refused": 30000, "request:without-id": 10000,
                           "peer:id-only-requests": 20000, "request:id-only-dispatched": 20000}),
              dict(name="c12_cxx", src=["c12_cxx.cpp", "c12_cxx_tr.c"], libs=["mpt++", "mptio", "mptplot", "mptcore"], batch=512,
                   floors={"io::stream::dispatch::process": 100000, "io::stream::~stream": 30000, "callback:send": 150000,
                           "transport:accepted": 60000, "transport:rejected": 60000, "transport:default-reply-attempts": 50000,
                           "monitor:default-reply-due": 15000, "process:default-reply-rejected": 15000,
                           "release:after-rejected-reply": 10000, "monitor:release-default-reply": 10000,
                           "reply_context::reply(retry)": 20000, "reply_context::defer": 20000,
                           "reply_context_detached::reply": 5000, "reply_context_detached::reply(NULL)": 15000,
                           "monitor:further-reply-refused": 15000, "monitor:send-id-compared": 150000,
                           "monitor:send-message-compared": 80000, "monitor:detached-no-send": 5000}),
              dict(name="c12_conn", src=["c12_conn.c"], libs=["mptio", "mptcore"], batch=512,
                   floors={"mpt_connection_assign(stream)": 8000, "mpt_connection_assign(datagram)": 8000,
                           "mpt_connection_dispatch": 200000, "mpt_outdata_recv": 40000, "mpt_connection_await": 30000,
                           "mpt_connection_push": 30000, "conn:request-dispatched": 50000, "peer:own-requests-received": 30000,
                           "monitor:own-reply-compared": 30000, "monitor:own-reply-accounted": 30000,
                           "monitor:reply-id-compared": 40000, "monitor:reply-body-compared": 20000,
                           "monitor:further-reply-refused": 20000, "peer:default-replies": 15000,
                           "reply_context.defer": 15000, "reply_context_detached.reply": 5000,
                           "reply_context_detached.reply(NULL)": 8000, "reply:fragmented-message": 8000,
                           "request:without-id": 5000,
                           "conn:reply-attempted-on-full-datagram-queue": 3000, "conn:reply-rejected-by-full-queue": 2000,
                           "conn:retry-after-full-queue": 3000, "monitor:full-queue-reply-accounted": 3000,
                           "conn:congested-burst": 3000, "conn:replies-queued-while-congested": 6000, "peer:filler-received": 10000}),
              dict(name="c12_sreply", src=["c12_sreply.c"], libs=["mptio", "mptcore"], batch=512,
                   floors={"mpt_stream_reply": 100000, "reply:accepted": 50000, "reply:refused": 40000,
                           "reply:may-not-fit": 30000, "reply:during-unfinished-message": 20000,
                           "reply:fragmented-message": 50000, "reply:empty-first-fragment": 10000,
                           "mpt_stream_reply(retry)": 1500, "monitor:retry-accepted": 1500,
                           "monitor:frame-compared": 80000, "monitor:sequence-complete": 25000,
                           "exact:cobs": 2000, "exact:cobs_r": 2000, "exact:cobs_zpe": 2000, "exact:cobs_zpe_r": 2000,
                           "exact:delimiter-does-not-fit": 8000, "exact:refused": 10000, "exact:just-fits": 2000,
                           "monitor:reply-after-refusal": 10000,
                           "exact:plain": 2000, "reply:during-unfinished-plain-message": 5000}),
              dict(name="c12_sync", src=["c12_sync.c"], libs=["mptio", "mptcore"], batch=512, timeout=200,
                   floors={"mpt_stream_sync": 40000, "sync:two-or-more-pending": 30000, "peer:replies-sent": 150000,
                           "monitor:reply-body-compared": 150000, "monitor:reply-delivery-accounted": 150000,
                           "monitor:request-id-compared": 150000, "history:answered-out-of-order": 10000,
                           "history:reply-id-reused": 8000,
                           "round:partial-answers": 20000, "round:handler-error-planned": 15000, "callback:reply-handler-error": 15000,
                           "mpt_stream_sync(timeout 0)": 15000, "mpt_stream_sync(blocking)": 15000,
                           "monitor:waiting-entry-compared": 200000, "sync:waiting-entry-moved-by-compaction": 8000,
                           "history:compaction-moved-waiting-entry": 4000, "peer:repeated-replies": 5000}),
              ],
        rule=("c12_id: case = one boundary (id, width) pair or one random id run through widths 0..9 together with nine random headers; "
              "non-trivial = non-zero id accepted by at least one width > 0 (or, for boundary pairs, a refusal within one bit of the width's "
              "limit).  c12_reply: case = one history of 4..24 (thorough 40) operations on one reply context followed by release of everything "
              "still held in PRNG order; non-trivial = at least two requests armed and at least two sends reached the transport; "
              "c12_stream: case = 1..4 bursts of 1..4 framed requests (payload 0..12 bytes, half of them 0, 1 or 2 bytes; 0 = request consisting of the id only) on one stream input; non-trivial = at least two requests and one reply; "
              "c12_conn: 1..5 bursts of 1..4 peer or own requests on one connection (even cases stream, odd cases datagram), non-trivial = at least two requests; "
              "c12_cxx: 3..16 (thorough 30) operations (request through dispatch::process, retry, deferred reply/release) followed by the release of stream and handles in PRNG order, non-trivial = two requests and two sends; "
              "c12_sync: 1..5 rounds of 1..6 requests, non-trivial = a round with at least two pending requests; c12_sreply: 3..14 operations, non-trivial = at least two accepted replies; "
              "distinct = 64-bit hash of id / operation list with arguments, message bytes and transport verdicts"),
        exhaustive_note="boundary ids {0,1,0x7f,0x80,2^k-1,2^k,2^k+1 (k=0..63),2^64-1} x widths 0..9",
        assumptions=SAN_BASE + [
            "an id fits width w iff id < 2^(8w-1) (top bit of the first byte is the reply marker); every 64-bit id fits 9 bytes; width 0 holds id 0 only",
            "the harness owns exactly one metatype reference of the context; releasing it detaches the transport (send must not be called afterwards)",
            "a deferred handle is consumed by reply(msg) >= 0 and by reply(NULL) whatever it returns, and stays valid after reply(msg) < 0 (reply_deferrable.c)",
            "stream leg: requests the stream layer never hands to the handler are counted, not judged (bounded progress of the stream is property C02); "
            "the input is driven with next(POLLIN|POLLOUT) because next(POLLOUT) alone never flushes",
            "connection legs use the connection as the library's own callers do: id width written to con.out._idlen (examples/io/mclient.c), input step = "
            "mpt_stream_poll on the connection's stream / mpt_outdata_recv on its socket followed by mpt_connection_dispatch (output_remote.c); "
            "peers are well behaved (every reply answers an outstanding request, once)",
            "mpt_stream_sync is called with timeout -1 on a blocking descriptor when the peer has written the replies to all pending requests, with timeout 0 when only a part is answered (its return value is then not judged); "
            "a repeated reply is only sent for an id no pending request uses, in front of real answers of the same round; "
            "2 s of CPU time or 60 s of wall time inside the call count as missing progress",
            "decoding of COBS/R, ZPE and ZPE/R frames in c12_sreply uses the independent reference decoder harness/c01_refcodec.h; exactly-full states are built from the frame length the library itself produces for the same reply in a large stream",
            "stream connection cases use a 2 kB SO_SNDBUF on non-blocking sockets; in congested bursts the peer does not read until the connection has answered",
            "datagram connection cases: in a third of the peer bursts the peer's receive queue is first filled with one-way datagrams of the connection (until mpt_connection_push fails); "
            "a reply on the full queue may be rejected, the retry after the peer has drained must be accepted",
            "a reply whose COBS size plus 4 bytes fits the free output space must be accepted by mpt_stream_reply; finished bytes of the output queue are final",
            "a request armed on the context when its reference is released with the transport attached must get one default (NULL message) send, also while deferred handles are outstanding",
        ],
    )
