"""C12: each request is answered at most once, to the right requester."""
from common import SAN_BASE

PROP = dict(
        technique="runtime monitoring: ASan/UBSan build + id round-trip oracle + request/transport model stepped after every reply-context operation",
        level_text="(draft)",
        level_note="(draft)",
        legs=[dict(name="c12_id", src=["c12_id.c"], libs=["mptcore"], batch=2048,
                   floors={"mpt_message_id2buf": 100000, "mpt_message_buf2id": 100000,
                           "monitor:roundtrip-equal": 50000, "monitor:refusal-expected": 50000,
                           "monitor:header-decoded": 50000, "monitor:header-above-64bit": 5000}),
              dict(name="c12_reply", src=["c12_reply.c"], libs=["mptcore"], batch=512,
                   floors={})],
        rule="(draft)",
        assumptions=SAN_BASE,
    )
