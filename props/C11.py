"""C11: event dispatch reaches exactly the registered handler."""
from common import SAN_BASE

PROP = dict(
        technique=("runtime monitoring: ASan/UBSan/LSan build; model id -> registration, default id, fallback; every invocation of a "
                   "harness handler (delivery or end-of-life) is an observed event compared with the model while the operation runs"),
        level_text=("Monitored executions of the real dispatcher: 100k (quick) / 1M (thorough) random histories of register / refuse duplicate / "
                    "clear / replace and delete through mpt_command_set / emit by id, by message (first byte, also fragmented), default event / "
                    "mpt_dispatch_hash on command messages (NUL and blank separated, fragmented, also nested inside a handler registered for "
                    "MessageCommand) / fini+init, over a domain of 6 message ids, 11 command-word hashes (6 ASCII words, 3 fixed and 2 per-case generated words with bytes >= 0x80; ids computed with mpt_hash(word, -1) or mpt_hash(word, length)) and 40 bulk ids, reply-id reservations on the dispatcher's own table (also as its first table operation) with emit/clear on the reserved ids, handlers returning every "
                    "combination of Default/Fail/Terminate or an error and leaving, zeroing or changing ev->id; every 8th case drives "
                    "mpt_command_reserve on a separate table (mixed widths; width-1 tables run past id 127 and to exhaustion).  After every "
                    "operation mpt_command_get is compared with the model for the whole domain and the end-of-life count of every registration "
                    "is checked.  A C++ leg drives mpt::dispatch (set_handler, handler, set_default, set_error, reserve, resize (shrink ends the registrations cut off, grow creates slots through the command traits), insert, destructor).  "
                    "Exploration, not proof."),
        level_note=("trusts the id->registration model in harness/c11_dispatch.c / c11_cxx.cpp, gcc ASan/UBSan/LSan; outcomes of the library's own "
                    "'unknown event' fallback, of a default id without registration and the default id after mpt_dispatch_hash are adopted, not asserted"),
        legs=[dict(name="c11_dispatch", memcheck=1500, src=["c11_dispatch.c"], libs=["mptcore"], batch=512, lsan=True,
                   floors={"mpt_dispatch_set": 200000, "mpt_dispatch_set(clear)": 100000, "mpt_command_set": 50000,
                           "mpt_dispatch_emit(id)": 100000, "mpt_dispatch_emit(message)": 100000, "mpt_dispatch_emit(default)": 50000,
                           "mpt_dispatch_hash": 100000, "mpt_dispatch_hash(nested)": 5000, "mpt_dispatch_fini": 80000,
                           "mpt_command_reserve": 300000, "mpt_command_clear": 5000,
                           "emit:delivered-registered": 100000, "emit:delivered-fallback": 100000, "emit:delivered-default": 10000,
                           "emit:fragmented-message": 50000, "hash:delivered-registered": 50000, "hash:fragmented-message": 50000,
                           "registration:replaced": 20000, "registration:cleared": 50000, "monitor:duplicate-refused": 20000,
                           "monitor:delivery-compared": 500000, "monitor:flags-compared": 300000, "monitor:error-propagated": 30000,
                           "monitor:table-compared": 1000000, "monitor:finalise-compared": 1000000, "monitor:lifetime-accounted": 500000,
                           "monitor:reserved-id-unique": 300000, "monitor:reserved-compared": 300000,
                           "history:table-grew": 50000, "history:freed-slot-reused": 30000, "history:reserved-id-wrapped": 1000,
                           "default:set": 50000, "default:cleared": 10000,
                           "mpt_command_reserve(dispatcher table)": 50000, "reserve-own:first-table-operation": 15000,
                           "reserve-own:accepted": 10000, "emit:reserved-id": 2000,
                           "fini:reserve-created-table-with-live-handlers": 10000,
                           "hash:high-bit-word": 40000, "hash:high-bit-word-fragmented": 20000,
                           "hash:high-bit-registered-terminated-form": 8000, "hash:high-bit-registered-counted-form": 8000,
                           "monitor:hash-forms-compared": 500000, "monitor:hash-forms-high-bit": 200000}),
              dict(name="c11_cxx", memcheck=500, src=["c11_cxx.cpp"], libs=["mpt++", "mptio", "mptplot", "mptcore"], batch=512, lsan=True,
                   floors={"dispatch::set_handler": 100000, "dispatch::set_handler(clear)": 50000, "dispatch::set_default": 50000,
                           "dispatch::set_error": 20000, "dispatch::~dispatch": 20000, "monitor:set-default-registered": 10000,
                           "emit:delivered-registered": 50000, "emit:delivered-default": 5000, "monitor:lifetime-accounted": 100000,
                           "dispatch::reserve": 20000, "reserve:first-table-operation": 3000,
                           "dispatch::resize": 20000, "dispatch::insert": 8000, "resize:shrink-ended-registrations": 5000,
                           "resize:grow": 5000, "resize:grow-over-ended-registrations": 1500, "insert:accepted": 5000,
                           "monitor:traits-slot-compared": 15000,
                           "monitor:set-default-refused": 10000, "default:refused-while-valid-default": 2000,
                           "fini:reserve-created-table-with-live-handlers": 3000})],
        rule=("case = one PRNG history of 10..70 (thorough 120) dispatcher operations ending in mpt_dispatch_fini, or (every 8th case) one "
              "history of 10..300 reserve/release operations on a reservation table ending in mpt_command_clear; C++ leg: 8..50 operations "
              "ending in the destructor; non-trivial = at least 3 emits and at least 2 simultaneously live registrations (dispatcher) / at "
              "least 3 accepted reservations (reserve); distinct = 64-bit hash of the operation list with ids, message bytes and handler answers"),
        assumptions=SAN_BASE + [
            "flag protocol of mpt_dispatch_emit: handler result s >= 0, Default in s makes ev->id (as left by the handler) the default id (0 clears); "
            "the call returns (s without Default) | (Default iff a default id is set); a negative handler result is returned unchanged",
            "command ids of text commands are mpt_hash(word, length) or mpt_hash(word, -1) as computed by the registering caller (chosen per word and case); both forms denote the same text",
            "the fallback is installed by writing dispatch._err as examples/io/dispatch.c does (C) / dispatch::set_error (C++)",
            "reserved ids: entries are activated/deactivated by the owner through command.cmd as mpt_connection_await / mpt_stream_sync do; "
            "an id fits width w iff id <= 2^(8w-1)-1",
        ],
    )
