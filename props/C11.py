"""C11: event dispatch reaches exactly the registered handler."""
from common import SAN_BASE

PROP = dict(
        technique="runtime monitoring: ASan/UBSan/LSan build + id->registration model; every handler invocation is an observed event",
        level_text="(draft)",
        level_note="(draft)",
        legs=[dict(name="c11_dispatch", src=["c11_dispatch.c"], libs=["mptcore"], batch=256, lsan=True,
                   floors={})],
        rule="(draft)",
        assumptions=SAN_BASE,
    )
