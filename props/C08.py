"""C08: configuration parser is total and fails cleanly."""
from common import SAN_BASE

PROP = dict(
        technique=("runtime monitoring: ASan/UBSan/LSan build; harness-owned getc (counts calls, end of input or error at a chosen "
                   "position) + recording save handler + tree snapshot around mpt_parse_node"),
        level_text=("Monitored executions of the real parser: 240k (quick) / 3M (thorough) generated documents (grammar-directed for the "
                    "active format, mutated, or random bytes; names/values across 255 and 65535 bytes; nesting to depth 60) x format "
                    "descriptions (the five ctest ones, layout::file_format, further delimiter sets of the four families, PRNG-built with "
                    "comment / escape lists of 0..5 / 0..4 characters, every length 0..8; always handed over in an exact-size heap block; "
                    "the fields mpt_parse_format fills are compared with the documented layout and defaults) x name "
                    "flag sets, driven through mpt_parse_config, the example's direct loop, mpt_parse_node into a populated root and "
                    "mpt_node_parse (stdio memory stream, description and name limits as strings) "
                    "(fresh and re-used parser context); 60k / 600k of the same cases through the C++ config_parser::set_format / "
                    "parser::read with one parser object used for several reads, and through mpt_parse_config with a handler that keeps "
                    "mpt::path copies (shared buffer) of 2/5 of the events and re-verifies all of them at every later event and after "
                    "the parse, and through mpt::layout (open/load histories good - rejected - good on one layout, generated layout files of "
                    "nine failure classes; a rejected text must leave items, graphs, alias and font as they were).  mpt_node_parse "
                    "also with refused name-limits strings and without file on populated targets.  Exploration, not proof."),
        level_note=("trusts the stack model of open sections and the tree serialisers in harness/c08_parse.c / c08_cxx.cpp, gcc ASan/UBSan/LSan "
                    "(LSan scans conservatively; non-adjacent stray writes are not seen)"),
        legs=[dict(name="c08_fuzz", kind="fuzz", src=["c08_fuzz.c", "c08_gen.c", "c08_rec.c"], libs=["mptcore"], runs={"thorough": 150000}, max_len=1500,
               corpus="corpus/c08", floors={"fuzz:documents": 1000000, "mpt_parse_config": 500000}),
          dict(name="c08_parse", memcheck=1500, src=["c08_parse.c", "c08_gen.c", "c08_rec.c"], libs=["mptcore"], batch=256, lsan=True,
                   floors={"mpt_parse_config": 200000, "mpt_parse_node": 120000, "direct-loop": 40000,
                           "family:prefix": 60000, "family:enclosed": 25000, "family:enclosed-same-char": 10000,
                           "family:separated": 30000, "family:options-only": 20000,
                           "outcome:accepted": 70000, "outcome:rejected": 100000,
                           "monitor:nesting-verdicts": 70000, "monitor:snapshot-compared-nonempty": 50000,
                           "events:section": 100000, "events:sectend": 50000, "events:option+data": 200000,
                           "state:depth>=3": 5000, "doc:with-long-token": 15000,
                           "fault:getc-error-delivered": 15000, "fault:save-refused": 5000,
                           "state:merged-into-existing": 30000, "state:flat-section-open-at-eof": 5000,
                           "format:length-0": 3000, "format:length-1": 3000, "format:length-2": 3000, "format:length-3": 3000, "format:length-4": 3000, "format:length-5": 3000, "format:length-6": 3000, "format:length-7": 3000, "format:length-8": 3000,
                           "format:length>8": 30000, "monitor:format-fields-checked": 200000, "monitor:format-lists-checked": 100000,
                           "mpt_node_parse": 40000, "monitor:node_parse-snapshot-nonempty": 15000, "outcome:node_parse-accepted": 10000,
                           "fault:node_parse-bad-limits": 5000, "fault:node_parse-null-file": 5000,
                           "monitor:node_parse-refused-argument-on-populated-target": 7000,
                           "monitor:getc-error-must-fail": 60000, "monitor:getc-error-target-unchanged": 60000,
                           "getc-error-reported:comment:enclosed": 2000, "getc-error-reported:comment:separated": 2000,
                           "getc-error-reported:comment:options": 2000, "getc-error-reported:between-elements:enclosed": 6000,
                           "getc-error-reported:between-elements:separated": 6000, "getc-error-reported:name:prefix": 3000,
                           "getc-error-reported:value:prefix": 2000, "getc-error-reported:section-header:separated": 500}),
              dict(name="c08_cxx", memcheck=500, src=["c08_cxx.cpp", "c08_gen.c", "c08_rec.c"], libs=["mpt++", "mptio", "mptplot", "mptcore"], batch=256, lsan=True,
                   floors={"parser::read": 60000, "config_parser::set_format": 60000, "set_format:refused": 200,
                           "outcome:accepted": 15000, "outcome:rejected": 25000,
                           "monitor:snapshot-compared-nonempty": 15000, "monitor:result-nodes-read": 50000,
                           "mpt_parse_config": 50000, "events:path-retained": 40000, "monitor:retained-path-verifications": 250000,
                           "retained:section": 8000, "retained:sectend": 4000, "retained:option": 15000, "retained:data": 5000,
                           "state:parse-with-2+-retained-paths": 8000, "monitor:nesting-verdicts": 12000,
                           "format:length-0": 700, "format:length-1": 700, "format:length-2": 700, "format:length-3": 700, "format:length-4": 700, "format:length-5": 700, "format:length-6": 700, "format:length-7": 700, "format:length-8": 700,
                           "monitor:format-fields-checked": 50000,
                           "layout::load": 80000, "layout:top-level-long-option": 2000, "layout:rejected-text-on-populated-layout": 20000,
                           "monitor:layout-unchanged-after-rejected-text": 30000, "monitor:layout-items-after-good-load": 40000,
                           "layout:history-good-rejected-good": 6000,
                           "layout-text:unclosed-section:rejected": 3000, "layout-text:stray-section-end:rejected": 3000,
                           "layout-text:unterminated-option:rejected": 3000, "layout-text:digit-option-name:rejected": 3000,
                           "layout-text:nameless-section:rejected": 3000, "layout-text:unterminated-quote:rejected": 3000,
                           "layout-text:special-option-name:rejected": 3000, "layout-text:cut:rejected": 2500,
                           "layout-text:generator-document:rejected": 2500})],
        rule=("case = (format string, section/option name flag sets, document bytes, getc error position or none, index of a refused "
              "save event or none, drivers run); non-trivial = mpt_parse_config delivered at least two events for the document, or "
              "rejected it after at least 8 getc calls (C++ leg: a read made at least 8 getc calls); distinct = 64-bit hash of "
              "format string, flags, document bytes, fault positions and driver choices"),
        assumptions=SAN_BASE + [
            "getc protocol: byte value, -2 at end of input, -1 on error; both are repeated on further calls",
            "path handed to the save handler: open section names (plus the option name) joined by path.sep, last byte is the "
            "terminator written by mpt_path_add; in SepBinary form first|name|len|nextlen|...",
            "termination is decided as a bound of 8*(len+8) getc+save callbacks per parse",
            "flat families (' ' separated, 'x' with identical start/end character) leave the last section open at end of input",
            "a getc error (-1, repeated on every further call) must make the parse fail and leave the target unchanged at every position "
            "of a well-formed text in the enclosed, separated and options-only styles, and in the prefix style inside a section, inside a "
            "name or inside a value that needs an option end character; prefix style at top level between elements / in a comment / in "
            "a line-terminated value: /repo takes any negative code as end of input - counted only (getc-error-as-end:*); in the "
            "random-document drivers the outcome of an injected error is only counted (outcome:input-error-not-reported)",
            "merge result of a successful mpt_parse_node into a populated root is only walked, not compared",
            "format description: [0] section start, [1] family, [2] section end, [3] option start, [4] assign, [5] option end (blank = "
            "none), [6..] up to 4 comment characters, blanks, up to 3 escape characters; parts the description is too short for keep "
            "MPT_PARSER_FORMAT_INIT; longer lists are not asserted",
            "a parser context / mpt::parser object may be used for a further parse after a failed one (mpt::layout does)",
            "mpt::layout: whether the parser rejects a text is decided by an independent config_parser::read of the same text with "
            "layout::file_format(); a generated good layout file (items '<type> <name> { .. }' of the seven item types, optional "
            "'name = ..;') loads, and items() are then its top-level items in order, graphs() its graph items",
            "a path handler may keep a copy of the event path (mpt::path copy constructor, shares the character buffer); path bytes "
            "and the value bytes behind them must stay what the handler saw until the copy is released"],
    )
