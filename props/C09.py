"""C09: configuration text is read back faithfully."""
from common import SAN_BASE

PROP = dict(
        technique=("runtime monitoring: ASan/UBSan build; PRNG trees rendered in each section style, parsed by mpt_parse_node and compared "
                   "node by node with the source tree; metamorphic comparison of canonical / compact / decorated renderings"),
        level_text=("Monitored executions of the real parser and node builder: 150k (quick) / 2M (thorough) generated trees (depth <= 5, "
                    "fan-out <= 6, duplicate and empty names, empty / quoted / long values across 255 and 65535 bytes) x 12 format "
                    "strings of the three section styles x name flag sets, each rendered three ways (example-file layout, optional "
                    "whitespace removed, random blanks / blank lines / comment lines / trailing comments / CR LF) and read back; nesting, "
                    "order, names, values and parent/prev links are compared.  Exploration, not proof."),
        level_note=("trusts the renderer in harness/c09_readback.c, i.e. its reading of the doc comments of mpt_parse_format_pre/_enc/_sep, "
                    "mpt_parse_format and of examples/core/*.txt, *.lay, mpt.conf; gcc ASan/UBSan"),
        legs=[dict(name="c09_readback", memcheck=600, src=["c09_readback.c", "c09_tree.c"], libs=["mptcore"], batch=512,
                   floors={"mpt_parse_node": 450000, "style:prefix": 70000, "style:enclosed": 35000, "style:separated": 35000,
                           "monitor:trees-equal:canonical": 150000, "monitor:trees-equal:compact": 150000,
                           "monitor:trees-equal:noisy": 150000, "monitor:values-compared": 2000000,
                           "monitor:names-compared": 2000000, "monitor:links-compared": 2000000, "tree:depth>=3": 15000,
                           "tree:with-value-250..254": 15000, "tree:with-value-255..260": 15000, "tree:with-value-65530..65540": 3000,
                           "tree:with-name-250..260": 10000, "tree:comment-char-inside-plain-value": 10000,
                           "decoration:comments": 300000, "decoration:blank-lines": 300000, "decoration:trailing-comments": 50000,
                           "decoration:crlf": 50000}),
              dict(name="c09_cxx", src=["c09_cxx.cpp", "c09_tree.c"], libs=["mpt++", "mptio", "mptplot", "mptcore"], batch=512, lsan=True,
                   floors={"parser::read": 150000, "parser::open": 70000, "config_parser::reset": 60000,
                           "monitor:trees-equal:first-read": 60000, "monitor:trees-equal:after-reset": 60000,
                           "monitor:trees-equal:after-reopen": 15000, "state:read-into-used-node": 20000,
                           "style:prefix": 25000, "style:enclosed": 12000, "style:separated": 12000,
                           "text:canonical": 15000, "text:compact": 15000, "text:noisy": 15000,
                           "monitor:values-compared": 1500000, "monitor:names-compared": 1500000,
                           "tree:depth>=3": 5000, "tree:with-value-250..260": 10000, "tree:with-value-65530..65540": 1000,
                           "tree:last-top-level-element-is-option": 15000, "flags:config_parser-defaults": 4000})],
        rule=("case = (format string, section/option name flag sets, generated tree of sections, options and anonymous data); the tree is "
              "rendered canonically, compactly and with random decoration and each text is parsed into an empty root; non-trivial = "
              "the tree has at least 3 nodes and (except for the flat separated style) at least one section; distinct = 64-bit hash "
              "of format, flags and the whole tree (names, values, quoting, shape)"),
        assumptions=SAN_BASE + [
            "spellings: prefix 'name S .. E' (online.txt, layout.txt, subsect.lay, mpt.conf), separated 'S name E ..' flat (config.txt), "
            "enclosed 'S name<blank> .. E' (doc comment of mpt_parse_format_enc only), option 'name = value;' or 'name = value<newline>', "
            "anonymous data 'value;' (dat.lay, prefix style only), quoted value with an escape character of the format and \\<quote> inside "
            "(online.txt), comments from a comment character to the line end",
            "names avoid every delimiter of the active format, the path separator '.', quotes and backslash; plain values avoid the "
            "format's delimiters; a value without characters and an absent value are the same",
            "blanks/tabs are insignificant inside an element around its tokens, line ends/blank lines/comment lines between elements; a "
            "trailing comment needs a blank before it when the format has no option end character",
            "text values are read with mpt_node_data(); one trailing NUL of the stored text is not counted",
            "values longer than 65535 bytes: parser_context.valid is 16 bit (known finding when listed)"],
    )
