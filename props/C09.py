"""C09: configuration text is read back faithfully."""
from common import SAN_BASE

PROP = dict(
        technique=("runtime monitoring: ASan/UBSan build; PRNG trees rendered in each section style, parsed by mpt_parse_node and compared "
                   "node by node with the source tree; metamorphic comparison of canonical / compact / decorated renderings; C++ leg: the "
                   "same trees through a long-lived mpt::config_parser (file, open/read/reset/read)"),
        level_text=("Monitored executions of the real parser and node builder: 120k (quick) / 2M (thorough) generated trees (depth <= 5, "
                    "fan-out <= 6, duplicate and empty names, empty / quoted / long values across 255 and 65535 bytes) x 12 format "
                    "strings of the three section styles x name flag sets, each rendered three ways (example-file layout, optional "
                    "whitespace removed, random blanks / blank lines / comment lines / trailing comments / CR LF) and read back; nesting, "
                    "order, names, values and parent/prev links are compared; 40k / 500k further trees are written to a file and read 2-4 "
                    "times through one mpt::config_parser (open, read, reset or new open, read again; fresh or used result node), every "
                    "pass compared the same way; before 2/5 of the reads set_format() calls with an unknown style character (must be refused "
                    "and change nothing), in 1/3 of the cases an accepted format change on the used parser followed by a tree in the "
                    "new style; before 1/3 of the reads an open() of a missing file / empty name / directory (refused: nothing changes, "
                    "reset()+read() gives the same tree; accepted: switched, file opened again), switches between two renderings of the "
                    "tree, close and re-open; descriptor count of the process equal before and after every case.  Exploration, not proof."),
        level_note=("trusts the renderer and comparison in harness/c09_tree.c, i.e. its reading of the doc comments of mpt_parse_format_pre/_enc/_sep, "
                    "mpt_parse_format and of examples/core/*.txt, *.lay, mpt.conf; gcc ASan/UBSan"),
        legs=[dict(name="c09_readback", memcheck=600, src=["c09_readback.c", "c09_tree.c"], libs=["mptcore"], batch=512,
                   floors={"mpt_parse_node": 360000, "style:prefix": 56000, "style:enclosed": 28000, "style:separated": 28000,
                           "monitor:trees-equal:canonical": 120000, "monitor:trees-equal:compact": 120000,
                           "monitor:trees-equal:noisy": 120000, "monitor:values-compared": 1600000,
                           "monitor:names-compared": 1600000, "monitor:links-compared": 1600000, "tree:depth>=3": 12000,
                           "tree:with-value-250..254": 12000, "tree:with-value-255..260": 12000, "tree:with-value-65530..65540": 2400,
                           "tree:with-name-250..260": 8000, "tree:comment-char-inside-plain-value": 8000,
                           "decoration:comments": 240000, "decoration:blank-lines": 240000, "decoration:trailing-comments": 40000,
                           "decoration:crlf": 40000}),
              dict(name="c09_cxx", memcheck=500, src=["c09_cxx.cpp", "c09_tree.c"], libs=["mpt++", "mptio", "mptplot", "mptcore"], batch=512, lsan=True,
                   floors={"parser::read": 100000, "parser::open": 45000, "config_parser::reset": 40000,
                           "monitor:trees-equal:first-read": 40000, "monitor:trees-equal:after-reset": 40000,
                           "monitor:trees-equal:after-reopen": 10000, "state:read-into-used-node": 15000,
                           "style:prefix": 18000, "style:enclosed": 9000, "style:separated": 9000,
                           "text:canonical": 10000, "text:compact": 10000, "text:noisy": 10000,
                           "monitor:values-compared": 1000000, "monitor:names-compared": 1000000,
                           "tree:depth>=3": 4000, "tree:with-value-250..260": 8000, "tree:with-value-65530..65540": 1000,
                           "tree:last-top-level-element-is-option": 12000, "flags:config_parser-defaults": 3000,
                           "monitor:trees-equal:read-after-refused-set_format": 35000, "monitor:trees-equal:after-format-change": 20000,
                           "state:format-changed-on-used-parser": 8000, "config_parser::set_format": 90000,
                           "open:refused": 18000, "monitor:trees-equal:read-after-refused-open": 18000,
                           "monitor:trees-equal:reset+read-after-refused-open": 9000, "open:switched-to-other-file": 14000,
                           "monitor:trees-equal:other-file": 20000, "open:closed": 4000, "open:unreadable-target-accepted": 10000,
                           "monitor:descriptor-count-compared": 40000})],
        rule=("case = (format string, section/option name flag sets, generated tree of sections, options and anonymous data); the tree is "
              "rendered canonically, compactly and with random decoration and each text is parsed into an empty root; non-trivial = "
              "the tree has at least 3 nodes and (except for the flat separated style) at least one section; distinct = 64-bit hash "
              "of format, flags and the whole tree (names, values, quoting, shape)"),
        assumptions=SAN_BASE + [
            "spellings: prefix 'name S .. E' (online.txt, layout.txt, subsect.lay, mpt.conf), separated 'S name E ..' flat (config.txt), "
            "enclosed 'S name<blank> .. E' (doc comment of mpt_parse_format_enc only), option 'name = value;' or 'name = value<newline>', "
            "anonymous data 'value;' (dat.lay, prefix style only), quoted value with an escape character of the format and \\<quote> inside "
            "(online.txt), comments from a comment character to the line end",
            "names avoid every delimiter of the active format, the path separator '.', quotes and backslash; plain values avoid the "
            "format's delimiters; a value without characters and an absent value are the same",
            "blanks/tabs are insignificant inside an element around its tokens, line ends/blank lines/comment lines between elements; a "
            "trailing comment needs a blank before it when the format has no option end character",
            "text values are read with mpt_node_data(); one trailing NUL of the stored text is not counted",
            "values longer than 65535 bytes: parser_context.valid is 16 bit (known finding when listed)"],
    )
