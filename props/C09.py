"""C09: configuration text is read back faithfully."""
from common import SAN_BASE

PROP = dict(
        technique=("runtime monitoring: ASan/UBSan build; PRNG trees rendered in each section style, parsed by mpt_parse_node and compared "
                   "node by node with the source tree; metamorphic comparison of canonical / compact / decorated renderings; C++ leg: the "
                   "same trees through a long-lived mpt::config_parser (file, open/read/reset/read)"),
        level_text=("Monitored executions of the real parser and node builder: 120k (quick) / 2M (thorough) generated trees (depth <= 5, "
                    "fan-out <= 6, duplicate and empty names, empty / quoted / long values across 255 and 65535 bytes) x 12 format "
                    "strings of the three section styles x name flag sets, each rendered three ways (example-file layout, optional "
                    "whitespace removed, random blanks / blank lines / comment lines / trailing comments / CR LF) and read back; nesting, "
                    "order, names, values and parent/prev links are compared (harness getc for all three texts, one text per tree also through "
                    "mpt_getchar_stdio on a memory stream and through mpt_getchar_file on a memfd; bytes >= 0x80 incl. 0xfe/0xff in most trees); 30k / 400k further trees are written to a file and read 2-4 "
                    "times through one mpt::config_parser (open, read, reset or new open, read again; fresh or used result node), every "
                    "pass compared the same way; before 2/5 of the reads set_format() calls with an unknown style character (must be refused "
                    "and change nothing), in 1/3 of the cases an accepted format change on the used parser followed by a tree in the "
                    "new style; before 1/3 of the reads an open() of a missing file / empty name / directory (refused: nothing changes, "
                    "reset()+read() gives the same tree; accepted: switched, file opened again), switches between two renderings of the "
                    "tree, close and re-open; descriptor count of the process equal before and after every case.  Exploration, not proof."),
        level_note=("trusts the renderer and comparison in harness/c09_tree.c, i.e. its reading of the doc comments of mpt_parse_format_pre/_enc/_sep, "
                    "mpt_parse_format and of examples/core/*.txt, *.lay, mpt.conf; gcc ASan/UBSan"),
        legs=[dict(name="c09_readback", memcheck=600, src=["c09_readback.c", "c09_tree.c"], libs=["mptcore"], batch=512,
                   floors={"mpt_parse_node": 360000, "style:prefix": 56000, "style:enclosed": 28000, "style:separated": 28000,
                           "monitor:trees-equal:canonical": 120000, "monitor:trees-equal:compact": 120000,
                           "monitor:trees-equal:noisy": 120000, "monitor:values-compared": 1600000,
                           "monitor:names-compared": 1600000, "monitor:links-compared": 1600000, "tree:depth>=3": 12000,
                           "tree:with-value-250..254": 12000, "tree:with-value-255..260": 12000, "tree:with-value-65530..65540": 2400,
                           "tree:with-name-250..260": 8000, "tree:comment-char-inside-plain-value": 8000,
                           "decoration:comments": 240000, "decoration:blank-lines": 240000, "decoration:trailing-comments": 40000,
                           "decoration:crlf": 40000,
                           "monitor:trees-equal:stdio-reader": 70000, "monitor:trees-equal:descriptor-reader": 60000,
                           "monitor:trees-equal:descriptor-reader-with-high-bytes": 50000,
                           "monitor:trees-equal:descriptor-reader-with-0xfe-0xff": 35000}),
              dict(name="c09_cxx", memcheck=500, src=["c09_cxx.cpp", "c09_tree.c"], libs=["mpt++", "mptio", "mptplot", "mptcore"], batch=512, lsan=True,
                   floors={"parser::read": 75000, "parser::open": 33750, "config_parser::reset": 30000,
                           "monitor:trees-equal:first-read": 30000, "monitor:trees-equal:after-reset": 30000,
                           "monitor:trees-equal:after-reopen": 7500, "state:read-into-used-node": 11250,
                           "style:prefix": 13500, "style:enclosed": 6750, "style:separated": 6750,
                           "text:canonical": 7500, "text:compact": 7500, "text:noisy": 7500,
                           "monitor:values-compared": 750000, "monitor:names-compared": 750000,
                           "tree:depth>=3": 3000, "tree:with-value-250..260": 6000, "tree:with-value-65530..65540": 750,
                           "tree:last-top-level-element-is-option": 9000, "flags:config_parser-defaults": 2250,
                           "monitor:trees-equal:read-after-refused-set_format": 26250, "monitor:trees-equal:after-format-change": 15000,
                           "state:format-changed-on-used-parser": 6000, "config_parser::set_format": 67500,
                           "open:refused": 13500, "monitor:trees-equal:read-after-refused-open": 13500,
                           "monitor:trees-equal:reset+read-after-refused-open": 6750, "open:switched-to-other-file": 10500,
                           "monitor:trees-equal:other-file": 15000, "open:closed": 3000, "open:unreadable-target-accepted": 7500,
                           "monitor:descriptor-count-compared": 30000,
                           "replace:in-place": 5250, "replace:rename": 5250, "replace:unlink-recreate": 5250,
                           "monitor:trees-equal:reset-after-rename-replace": 4125, "monitor:trees-equal:reset-after-rewrite-in-place": 4125,
                           "monitor:trees-equal:reset-after-unlink-recreate": 4125, "monitor:trees-equal:reopen-after-replace": 2625,
                           "layout::reset": 3000, "monitor:layout-reset-after-rename-replace": 900})],
        rule=("case = (format string, section/option name flag sets, generated tree of sections, options and anonymous data); the tree is "
              "rendered canonically, compactly and with random decoration and each text is parsed into an empty root; non-trivial = "
              "the tree has at least 3 nodes and (except for the flat separated style) at least one section; distinct = 64-bit hash "
              "of format, flags and the whole tree (names, values, quoting, shape)"),
        assumptions=SAN_BASE + [
            "spellings: prefix 'name S .. E' (online.txt, layout.txt, subsect.lay, mpt.conf), separated 'S name E ..' flat (config.txt), "
            "enclosed 'S name<blank> .. E' (doc comment of mpt_parse_format_enc only), option 'name = value;' or 'name = value<newline>', "
            "anonymous data 'value;' (dat.lay, prefix style only), quoted value with an escape character of the format and \\<quote> inside "
            "(online.txt), comments from a comment character to the line end",
            "names avoid every delimiter of the active format, the path separator '.', quotes and backslash; plain values avoid the "
            "format's delimiters; a value without characters and an absent value are the same",
            "blanks/tabs are insignificant inside an element around its tokens, line ends/blank lines/comment lines between elements; a "
            "trailing comment needs a blank before it when the format has no option end character",
            "text values are read with mpt_node_data(); one trailing NUL of the stored text is not counted",
            "values longer than 65535 bytes: parser_context.valid is 16 bit (known finding when listed)"],
    )
