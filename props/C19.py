"""C19: value generators follow the iterator protocol and their formulas."""
from common import SAN_BASE

PROP = dict(
        technique="runtime monitoring: ASan/UBSan build + iterator protocol model (position, length, recorded sequence) and closed forms stepped after every call",
        level_text=("Monitored executions: 200k (quick) / 3M (thorough) value sources created from generated and mutated descriptions "
                    "(mpt_iterator_create: lin/fact/range/value lists) and directly (mpt_iterator_linear/boundary/poly/values/profile/string, "
                    "_mpt_iterator_linear/factor/range, mpt_meta_buffer/arguments, mpt_message_iterator, mpt_values_linear/bound); each source "
                    "is walked with the documented loop, created a second time, then driven through a PRNG interleaving of value/advance/reset/"
                    "clone/consume against the protocol model; documented denotations are compared with closed forms.  Exploration, not proof."),
        level_note=("trusts the protocol model and closed forms in harness/c19_iter.c, glibc strtod/powl, gcc ASan+UBSan (+LSan at exit); "
                    "closed forms only for documented denotations (see notes/C19.md)"),
        legs=[dict(name="c19_iter", memcheck=1500, src=["c19_iter.c"], libs=["mptplot", "mptcore"], batch=256, lsan=True,
                   floors={"create:accepted": 80000, "create:refused": 10000, "iterator::value": 2000000, "iterator::advance": 2000000,
                           "iterator::reset": 200000, "metatype::clone": 80000, "monitor:clones-walked": 80000, "monitor:clone-elements": 200000,
                           "monitor:closed-form-count": 50000, "monitor:closed-form-values": 500000, "monitor:second-creation-compared": 80000,
                           "state:read-past-end": 50000, "state:advance-past-end": 50000, "state:empty-source": 200,
                           "state:walk-bound-reached": 1000, "mpt_iterator_consume": 50000,
                           "text:linear": 10000, "text:factor": 10000, "text:range": 10000, "text:values": 10000, "text:mutated": 10000,
                           "direct:boundary": 5000, "direct:linear": 5000, "direct:profile": 10000, "direct:string": 5000, "direct:buffer": 5000,
                           "direct:from-iterator": 5000, "direct:from-string-iterator": 2000, "direct:file": 5000, "monitor:clone-reset-replays": 20000, "file:query-without-destination": 5000, "string:blank-runs": 2000, "string:extra-reads": 5000, "string:extra-reads-refused": 300, "string:extra-reads-accepted": 1000, "monitor:consume-on-exhausted": 100000, "mpt_values_linear": 3000, "mpt_values_bound": 3000}),
              dict(name="c19_cxx", memcheck=500, src=["c19_cxx.cpp"], libs=["mpt++", "mptio", "mptplot", "mptcore"], batch=512, lsan=True,
                   cflags=["-fno-sanitize=vptr"],
                   floors={"source<T>": 100000, "source:backward": 40000, "source:forward": 40000, "c-iterator": 15000,
                           "iterator::value": 1000000, "iterator::advance": 1000000, "iterator::reset": 200000, "iterator::get": 500000,
                           "monitor:closed-form-values": 500000, "monitor:closed-form-count": 100000, "state:read-past-end": 50000,
                           "state:advance-past-end": 50000, "state:empty-source": 5000, "iterator-defaults": 5000,
                           "io::buffer": 25000, "io::buffer::clone": 25000, "monitor:clone-elements": 30000,
                           "io::buffer refill": 10000, "refill:into-partially-consumed": 5000, "refill:reset-replays": 5000,
                           "state:typed-text-array": 10000, "mpt_meta_buffer": 10000, "monitor:walked-elements": 200000}),
              ],
        rule=("case = one source description (PRNG from the grammar of its kind, or a mutated seed description) with one PRNG interleaving of "
              "value/advance/reset/clone/consume of up to 3*min(L,40)+23 steps after the reference walk; non-trivial = a source was created and "
              "(closed form kinds) it has at least 3 elements / (mutated) it was accepted / (fillers) more than 2 points; "
              "distinct = 64-bit hash of the description text or constructor arguments"),
        assumptions=SAN_BASE + ["iterator protocol of DESIGN Appendix A (advance > 0: next element current, 0: last element consumed, < 0 error/past end)",
                                "denotations: lin(n : a b) = n+1 values a + i(b-a)/n; fact(n : base : f : init) = init, base, base f, ...; "
                                "range(a b : s) = a + i s, floor((b-a)/s)+1 values; value list = the numerals; boundary = left, inter.., right; "
                                "poly c0 .. ck on grid x = sum c_j x^(k-j); 'c' buffer = its NUL separated strings",
                                "glibc strtod is the meaning of a numeral (mpt_cdouble uses it)"],
    )
