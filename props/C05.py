"""C05: managed elements in typed buffers are finalised exactly once."""
from common import SAN_BASE

PROP = dict(
    technique="runtime monitoring: harness element type with live-set bookkeeping in init/fini, conservation + liveness check after every buffer operation, ASan/LSan",
    level_text=("Monitored executions of the real typed-buffer code with a harness element type whose constructor/destructor keep a live set "
                "(serial carried inside the element) and may be told to fail: after every operation every counted element must be alive, "
                "no serial may be stored twice, live == counted (conservation), payload sequences equal per-handle shadows, and the live set "
                "is empty after the last handle is gone; second and third legs use the built-in managed types (metatype references with a "
                "counting harness metatype, arrays of arrays, arrays of config items whose values are shareable or unique harness metatypes and which carry nested items, arrays of identifiers with inline and heap names).  Exploration, not proof."),
    level_note="trusts the live-set monitor in harness/c05_*.c/.cpp, gcc ASan/UBSan/LSan; content after reserve and after operations with injected constructor failure is adopted (liveness/conservation still asserted)",
    legs=[dict(name="c05_elems", memcheck=1500, src=["c05_elems.c"], libs=["mptplot", "mptcore"], batch=512, lsan=True,
               floors={"array_set": 5000, "buffer_set": 5000, "array_insert": 5000, "buffer_cut": 5000, "array_slice": 5000,
                       "array_reserve": 5000, "state:shared": 20000, "monitor:init-failures-injected": 2000,
                       "monitor:fini-calls": 100000, "monitor:conservation-checks": 100000,
                       "monitor:metaref-checks": 10000, "monitor:arrarr-checks": 10000,
                       "monitor:builtin-checks": 200000, "builtin:shared-buffer-copied": 10000, "monitor:meta-addref-refused": 10000,
                       "config_item:nested-set": 5000, "identifier:array_set": 20000,
                       "mpt_stage_data": 50000, "state:existing-dimension-of-shared-stage": 5000, "monitor:stage-audits": 100000}),
          dict(name="c05_cxx", memcheck=500, src=["c05_cxx.cpp"], libs=["mpt++", "mptio", "mptplot", "mptcore"], batch=512, lsan=True,
               floors={"typed_array_insert": 5000, "typed_array_resize": 5000, "typed_array_trim": 3000, "typed_array_skip": 3000,
                       "unique_array_insert": 2000, "refarray_insert": 5000, "itemarray_append": 20000, "itemarray_compact": 5000, "state:compact-moves-item-over-hole": 500, "monitor:itemarray-checks": 100000, "refarray_compact": 5000, "state:compact-with-hole-before-reference": 1000, "monitor:refarray-checks": 50000,
                       "monitor:destructor-calls": 50000, "state:shared": 5000})],
    rule=("case = one PRNG history of 8..60 (quick) / 8..100 (thorough) typed-buffer operations over 3 handles (a third of the histories with "
          "injected constructor failures), or one history on an array of metatype references, one on an array of arrays, one on an array of config items or identifiers; "
          "non-trivial = >= 2 mutating operations ran while a buffer was shared (element histories), every built-in history; "
          "distinct = 64-bit hash of the operation list with arguments"),
    assumptions=SAN_BASE + ["elements are relocated by raw copy inside an exclusively owned buffer by design: identity is the serial inside the element",
                            "buffer-level calls (mpt_buffer_set/cut) are only made on exclusively owned buffers"],
)
