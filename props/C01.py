"""C01: message framing round-trip for every codec."""
from common import SAN_BASE

PROP = dict(
        technique="runtime monitoring: ASan/UBSan build + independent reference codec; real encoders driven with piecewise pushes and capacity schedules, real decoders driven one-shot/segmented/fragmented",
        level_text="(filled in below)",
        level_note="trusts the reference codec in harness/c01_refcodec.h (itself cross-checked: reference decode of every produced frame == message), gcc ASan+UBSan",
        legs=[dict(name="c01_codec", src=["c01_codec.c"], libs=["mptcore"], batch=256, timeout=30,
                   floors={}),
              dict(name="c01_cxx", src=["c01_cxx.cpp"], libs=["mpt++", "mptio", "mptplot", "mptcore"], batch=256, timeout=30,
                   floors={}),
              dict(name="c01_python", src=["c01_python.c"], libs=["mptcore"], batch=64, timeout=30,
                   floors={})],
        rule="(filled in below)",
        assumptions=SAN_BASE,
    )
