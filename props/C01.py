"""C01: message framing round-trip for every codec."""
from common import SAN_BASE

PROP = dict(
        technique=("runtime monitoring: ASan/UBSan build + independent reference codec; the real encoders are driven with piecewise "
                   "pushes under output-capacity schedules (raw encoder functions, mpt_array_push, C++ encode_array::push, the "
                   "Python client's encoders in a co-process), every produced frame is checked for shape, decoded by the reference "
                   "decoder and by the real decoders (one call / byte-wise / PRNG segmentation with iovec fragments and peeks)"),
        level_text=("Monitored executions of the real encoder and decoder code for COBS, COBS/R, COBS/ZPE, COBS/ZPE+R and command "
                    "framing: every message length 0..520 (quick) / 0..770 (thorough) x 5 framings x 12/48 pattern-driver-split "
                    "variants, plus 80k / 2M PRNG cases with 1..4 structured messages (run lengths around 30/31, 222..224, 253..255, "
                    "zero pairs, final byte around the open block code) encoded into one buffer; 24k / 400k producer/consumer histories on one encode array (3..8 frames, finished bytes released from the front as a transport / encode_array::shift does, then a message that is large against the space reserved up front); 240 / 4000 single pieces of 30000..70001 bytes; every mpt_array_push return value is compared with what its (wrapped) encoder really consumed and callers advance by it; 16k / 400k C++ encode_array cases (push(len,data) loops, push(const message&), shift(k) / shift(0) histories); "
                    "2.4k / 41k messages through mpt.py encode_cobs/encode_command.  Each frame: zero-free + one final delimiter, "
                    "reference decode == message, real decode == message with input position exactly behind the delimiter.  "
                    "Exploration, not proof: messages longer than ~4 blocks and capacity schedules are sampled."),
        level_note=("trusts the reference codec in harness/c01_refcodec.h (written from the COBS / COBS/R definitions and the "
                    "library's documented ZPE constants; cross-checked on every case: reference decode of the real frame == message), "
                    "gcc ASan+UBSan; python3 for the client leg"),
        legs=[dict(name="c01_codec", memcheck=1500, src=["c01_codec.c"], libs=["mptcore"], batch=256, timeout=40,
                   floors={"mpt_encode_cobs": 200000, "mpt_encode_cobs_r": 200000, "mpt_encode_cobs_zpe": 200000,
                           "mpt_encode_cobs_zpe_r": 200000, "mpt_encode_string": 200000, "mpt_array_push": 500000,
                           "frames:cobs": 8000, "frames:cobs_r": 8000, "frames:cobs_zpe": 8000, "frames:cobs_zpe_r": 8000,
                           "frames:command": 8000, "monitor:message-compare": 150000,
                           "monitor:frame-shape+reference-decode": 60000, "monitor:command-zero-refused": 500,
                           "state:frame-with-inlined-tail": 5000, "state:frame-with-zero-pair-code": 3000,
                           "state:frame-with-full-block": 5000, "raw:missing-buffer-on-terminate": 3000,
                           "raw:front-removed": 5000, "decode:runs-with-missing-buffer": 3000,
                           "state:array-buffer-exactly-full": 50,
                           "monitor:push-return-vs-consumed": 1000000, "state:push-with-3+-progressing-encoder-calls": 5000,
                           "state:array-256+-released-bytes-in-front": 20000, "array:front-released": 30000,
                           "cases:release-history": 24000, "cases:long-single-pieces": 240,
                           "monitor:long-message-decode-compare": 240}),
              dict(name="c01_cxx", memcheck=500, src=["c01_cxx.cpp"], libs=["mpt++", "mptio", "mptplot", "mptcore"], batch=256, timeout=40,
                   floors={"encode_array::push": 200000, "encode_array::push(message)": 5000, "encode_array::data": 10000,
                           "encode_array::shift": 10000, "monitor:library-decode-compare": 10000,
                           "monitor:consumed-equals-message": 20000, "monitor:push-return-vs-consumed": 200000,
                           "state:256+-released-bytes-in-front": 5000,
                           "encode_array::shift(0)": 10000, "monitor:shift0-compare": 10000,
                           "state:shift0-with-released-bytes-in-front": 5000, "state:shift0-with-open-block": 500,
                           "state:shift0-kept-longer-than-released(overlap)": 500,
                           "state:single-piece-with-3+-progressing-encoder-calls": 1000}),
              dict(name="c01_python", src=["c01_python.c"], libs=["mptcore"], batch=64, timeout=40,
                   floors={"mpt.py:encode_cobs": 1500, "mpt.py:encode_command": 300,
                           "monitor:python-frame-through-c-decoder": 4000, "cases:ramp-every-length": 601})],
        rule=("case = (framing, driver in {raw encoder function with capacity schedule (start 0..8 / ~255 / NULL block; growth +1, "
              "+k, just enough, doubling), mpt_array_push driven by a loop that advances by the returned size (optionally with finished bytes released from the front after each message; or one piece of 30000..70001 bytes), C++ encode_array::push (such loops, or one fragmented mpt::message; shift(k) between messages, shift(0) compaction between messages and in the middle of a message), mpt.py encoder}, 1..8 messages, per message a "
              "split into push pieces (one piece, single bytes, two pieces cut at a block edge / inside a zero pair, PRNG "
              "composition)); frames are decoded one-shot, byte-wise and under a PRNG schedule (slack, segment sizes, 1..4 iovec "
              "fragments, MissingBuffer answer size, peek calls).  non-trivial = some message of the case contains a zero byte, "
              "or is >= 222 bytes (more than one ZPE block), or is pushed in more than one piece (python leg: message has a zero, "
              "is >= 254 bytes, or is command text); distinct = 64-bit hash of (framing, driver, message bytes, split kinds)"),
        exhaustive_note="every message length 0..520 (quick) / 0..770 (thorough) for each of the 5 framings (content patterns and schedules sampled per length)",
        assumptions=SAN_BASE + [
            "reference codec harness/c01_refcodec.h; COBS/ZPE constants are the library's documented wire variant (max block code 0xDF, pair codes 0xE0+n), not the table of the COBS paper",
            "caller protocol of DESIGN Appendix A: MissingBuffer is answered with a larger output holding the same leading bytes; decoder MissingBuffer with free bytes inserted at state.curr",
            "command decoder delivers the text behind the 2-byte header {0x04, ' '} (its doc comment)",
            "python3 interpreter executing $VERIF_REPO/mpt.py",
        ],
    )
