"""C15: reference counts track handles exactly."""
from common import SAN_BASE

KINDS = ["meta_new_short", "meta_new_long", "meta_buffer", "meta_arguments", "iterator_string", "reply_deferrable",
         "rawdata", "iterator_linear", "iterator_values", "iterator_poly", "iterator_factor", "iterator_boundary", "stream_input"]

PROP = dict(
    technique="runtime monitoring: handle-count model per object vs. destruction observed via ASan poisoning / descriptor state / harness destructor events; interposed mpt_refcount_raise/lower",
    level_text=("Monitored executions of the real reference-counting code: per object kind (shared buffers through array handles, 13 metatype "
                "implementations incl. reply contexts, stream inputs and plot data, C++ reference<T>/metatype classes) PRNG histories of "
                "addref/unref/clone/share/detach; after every step an object must be freed exactly when the model holds no handle "
                "(__asan_address_is_poisoned, descriptor closed for stream inputs), the shared flag must agree, a counter forced to its "
                "maximum through the interposed refcount functions must make addref/clone fail without wrapping, and replacing a held "
                "reference through the TypeMetaRef conversion must retain the new and release the old referent exactly once.  Exploration."),
    level_note="trusts ASan's quarantine (freed block stays poisoned while the case runs), the handle-count model in harness/c15_*.c/.cpp, dlsym(RTLD_NEXT) interposition",
    legs=[dict(name="c15_refs", src=["c15_refs.c"], libs=["mptplot", "mptio", "mptcore"], batch=256, lsan=True,
               ldflags=["-rdynamic"],
               floors=dict([(k, 1000) for k in KINDS] + [("buffer:share", 10000), ("buffer:share-at-max", 2000),
                                                        ("meta:addref-at-max", 1000), ("meta:clone-created", 2000), ("meta:rawdata-filled", 1000), ("meta:reply-defer", 500), ("meta:reply-defer-twice", 200), ("meta:reply-defer-without-request", 200), ("meta:reply-deferred-refused-send", 100), ("buffer:share-refused-type", 2000),
                                                        ("monitor:assign-checks", 50000), ("monitor:refarray-checks", 100000), ("assign:refused-unshareable-source", 2000), ("monitor:buffer-lifetime-checks", 100000),
                                                        ("monitor:meta-lifetime-checks", 100000),
                                                        ("mpt_stage_data", 50000), ("state:existing-dimension-of-shared-stage", 5000), ("monitor:stage-audits", 100000), ("mpt_notify_add", 20000), ("notify:add-refused", 3000), ("monitor:notify-checks", 20000)])),
          dict(name="c15_cxx", src=["c15_cxx.cpp"], libs=["mpt++", "mptio", "mptplot", "mptcore"], batch=256, lsan=True,
               floors={"reference:assign": 10000, "reference:move": 10000, "reference:detach": 10000, "reference:copy-at-max": 10000,
                       "monitor:reference-checks": 100000, "metatype::basic": 1000, "metatype::generic": 1000,
                       "metatype::value<double>": 1000, "monitor:cxxmeta-checks": 50000, "monitor:destructor-events": 10000,
                       "itemarray_append": 20000, "itemarray_append:name-refused": 1000, "monitor:itemarray-checks": 100000,
                       "graph:bind": 20000, "graph:bind-refused": 2000, "state:bind-with-axis-in-two-items": 2000, "monitor:graph-checks": 100000})],
    rule=("case = 70 raw-counter cases (start values 0,1,2,3,MAX-2,MAX-1,MAX), or one PRNG history on shared buffers (4 handles), on one "
          "metatype kind (addref/unref/clone/addref-at-maximum), or of reference replacements through conversion; non-trivial = a buffer "
          "reached >= 2 handles / an addref succeeded or a clone was created / every assignment history / raw start value != 0; "
          "distinct = 64-bit hash of the operation list"),
    assumptions=SAN_BASE + ["an addref that returns 0 is the documented failure report: no handle is created for it"],
)
