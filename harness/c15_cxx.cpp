/*
 * C15 (C++ leg): reference<T> handles and the C++ metatype classes.
 */
#include <vector>
#include <string>
#include <cstring>
#include <sys/uio.h>
#include <sanitizer/asan_interface.h>

#include "meta.h"
#include "array.h"
#include "vf.h"
#include <algorithm>
#include "cxx_itemarray.h"

const char *vf_name = "c15_cxx";

static long destroyed[8], alive;
class TrackedBase
{
public:
	int id;
	TrackedBase() : id(-1) { alive++; }
	virtual ~TrackedBase()
	{
		alive--;
		if (id >= 0) destroyed[id]++;
		vf_count("monitor:destructor-events", 1);
	}
};
typedef mpt::reference<TrackedBase>::type Tracked;

static void case_reference(vf_rng *r)
{
	const int NO = 3, NS = 5;
	int nops = vf_range(r, 5, 50), maxheld = 0;
	vf_fp_u64(0x1ef);
	alive = 0;
	memset(destroyed, 0, sizeof(destroyed));
	{
		Tracked *obj[NO];
		long held[NO];          /* model: references held (slots + harness) */
		bool gone[NO];
		mpt::reference<Tracked> slot[NS];
		int in[NS];             /* object id held by slot, -1 none */
		for (int i = 0; i < NO; i++) { obj[i] = new Tracked; obj[i]->id = i; held[i] = 1; gone[i] = false; }
		for (int i = 0; i < NS; i++) in[i] = -1;
		for (int i = 0; i < nops; i++) {
			int op = (int) vf_below(r, 7), a = (int) vf_below(r, NS), b = (int) vf_below(r, NS), o = (int) vf_below(r, NO);
			char cb[160];
			snprintf(cb, sizeof(cb), "reference op=%d slot=%d other=%d obj=%d", op, a, b, o);
			std::string ctx = cb;
			vf_log("%s", cb);
			vf_fp_u64((op << 12) ^ (a << 8) ^ (b << 4) ^ o);
			switch (op) {
			case 0: /* copy assign */
				vf_at("reference::operator="); vf_count("reference:assign", 1);
				slot[a] = slot[b];
				if (a != b && in[a] != in[b]) { if (in[a] >= 0) held[in[a]]--; if (in[b] >= 0) held[in[b]]++; in[a] = in[b]; }
				break;
			case 1: { /* copy construct + destroy */
				vf_at("reference::reference(const&)"); vf_count("reference:copy-construct", 1);
				mpt::reference<Tracked> tmp(slot[b]);
				VF_CHECK(tmp.instance() == slot[b].instance(), "cxxref:copy-construct:instance", "%s: copy holds another object", ctx.c_str());
				break; }
			case 2: /* move assign */
				vf_at("reference::operator=(&&)"); vf_count("reference:move", 1);
				if (a == b) break;
				slot[a] = std::move(slot[b]);
				if (in[a] >= 0) held[in[a]]--;
				in[a] = in[b]; in[b] = -1;
				break;
			case 3: /* take new reference of a live object into slot */
				if (gone[o] || held[o] <= 0) break;
				vf_at("reference::set_instance"); vf_count("reference:set_instance", 1);
				if (!obj[o]->addref()) vf_fail("cxxref:addref-failed", "%s: addref on live object failed", ctx.c_str());
				slot[a].set_instance(obj[o]);
				if (in[a] >= 0) held[in[a]]--;
				in[a] = o; held[o]++;
				break;
			case 4: /* clear slot */
				vf_at("reference::set_instance(0)"); vf_count("reference:clear", 1);
				slot[a].set_instance(0);
				if (in[a] >= 0) held[in[a]]--;
				in[a] = -1;
				break;
			case 5: { /* detach: ownership moves to the harness, which releases it */
				vf_at("reference::detach"); vf_count("reference:detach", 1);
				Tracked *t = slot[a].detach();
				VF_CHECK(t == (in[a] < 0 ? 0 : obj[in[a]]), "cxxref:detach:instance", "%s: detach returned another object", ctx.c_str());
				VF_CHECK(!slot[a].instance(), "cxxref:detach:not-empty", "%s", ctx.c_str());
				if (t) { t->unref(); held[in[a]]--; }
				in[a] = -1;
				break; }
			case 6: /* harness drops its own reference */
				if (gone[o]) break;
				/* only when the harness still holds one: model tracks it as part of held */
				{
					long slots = 0;
					for (int k = 0; k < NS; k++) if (in[k] == o) slots++;
					if (held[o] - slots < 1) break;
				}
				vf_count("reference:harness-unref", 1);
				obj[o]->unref(); held[o]--;
				break;
			}
			for (int k = 0; k < NO; k++) {
				if (held[k] > maxheld) maxheld = (int) held[k];
				if (gone[k]) { VF_CHECK(destroyed[k] == 1, "cxxref:destroyed-twice", "%s: object %d destroyed %ld times", ctx.c_str(), k, destroyed[k]); continue; }
				if (held[k] > 0) VF_CHECK(destroyed[k] == 0, "cxxref:destroyed-while-referenced", "%s: object %d destroyed with %ld references", ctx.c_str(), k, held[k]);
				else { VF_CHECK(destroyed[k] == 1, "cxxref:alive-after-last-drop", "%s: object %d not destroyed after last reference", ctx.c_str(), k); gone[k] = true; }
			}
			for (int k = 0; k < NS; k++)
				VF_CHECK(slot[k].instance() == (in[k] < 0 ? 0 : obj[in[k]]), "cxxref:slot-instance", "%s: slot %d holds another object than the model", ctx.c_str(), k);
			vf_count("monitor:reference-checks", 1);
		}
		for (int k = 0; k < NO; k++) {
			long slots = 0;
			for (int q = 0; q < NS; q++) if (in[q] == k) slots++;
			if (!gone[k] && held[k] - slots >= 1) obj[k]->unref();
		}
	}
	VF_CHECK(alive == 0, alive > 0 ? "cxxref:alive-after-last-drop" : "cxxref:destroyed-twice", "%ld objects alive after all references are gone", alive);
	/* counter at maximum: copying the reference must yield an empty reference, not wrap */
	{
		Tracked *t = new Tracked(UINTPTR_MAX);
		mpt::reference<Tracked> r1;
		r1.set_instance(t);
		mpt::reference<Tracked> r2(r1);
		VF_CHECK(!r2.instance(), "cxxref:counter-wrapped", "copy of a reference whose counter is at maximum holds the object");
		VF_CHECK(alive == 1, "cxxref:counter-wrapped", "object with counter at maximum was destroyed by a failed copy");
		Tracked *d = r1.detach();
		/* bring the counter down by hand: one reference left */
		while (d->addref()) { }
		(void) d;
		/* cannot lower UINTPTR_MAX times: leak is intended here and freed explicitly */
		delete static_cast<TrackedBase *>(d);
		vf_count("reference:copy-at-max", 1);
	}
	if (maxheld >= 3) vf_nontrivial();
	vf_sample("reference<T>: %d assign/copy/move/set/clear/detach/unref operations on 5 slots and 3 objects", nops);
}

static bool is_freed(const void *p) { return __asan_address_is_poisoned(p); }

static void case_meta(uint64_t idx, vf_rng *r)
{
	int kind = (int) (idx % 3);
	static const char *kn[] = { "metatype::basic", "metatype::generic", "metatype::value<double>" };
	mpt::metatype *obj[12]; long cnt[12]; int nobj = 1;
	double dv = 3.5;
	vf_fp_u64(0x2ef); vf_fp_u64(kind);
	switch (kind) {
	case 0: obj[0] = mpt::metatype::basic::create("some text value"); break;
	case 1: obj[0] = mpt::metatype::generic::create('d', &dv); break;
	default: obj[0] = new mpt::metatype::value<double>(dv); break;
	}
	if (!obj[0]) { vf_count("cxxmeta:create-unsupported", 1); return; }
	vf_count(kn[kind], 1);
	cnt[0] = 1;
	int nops = vf_range(r, 3, 30), raised = 0;
	for (int i = 0; i < nops; i++) {
		int op = (int) vf_below(r, 4), k = (int) vf_below(r, (uint32_t) nobj);
		if (cnt[k] <= 0) continue;
		char cb[120];
		snprintf(cb, sizeof(cb), "%s op=%d obj=%d handles=%ld", kn[kind], op, k, cnt[k]);
		std::string ctx = cb;
		vf_log("%s", cb);
		vf_fp_u64((op << 8) ^ k);
		switch (op) {
		case 0: case 1: {
			vf_at("metatype::addref"); vf_count("cxxmeta:addref", 1);
			uintptr_t c = obj[k]->addref();
			if (c) { cnt[k]++; raised++; VF_CHECK(c == (uintptr_t) cnt[k], "cxxmeta:addref-value", "%s: addref returned %lu, model %ld", ctx.c_str(), (unsigned long) c, cnt[k]); }
			break; }
		case 2:
			vf_at("metatype::unref"); vf_count("cxxmeta:unref", 1);
			obj[k]->unref(); cnt[k]--;
			break;
		case 3: {
			if (nobj >= 12) break;
			vf_at("metatype::clone"); vf_count("cxxmeta:clone", 1);
			mpt::metatype *c = obj[k]->clone();
			if (c) { VF_CHECK(c != obj[k], "cxxmeta:clone-same-object", "%s", ctx.c_str()); obj[nobj] = c; cnt[nobj] = 1; nobj++; vf_count("cxxmeta:clone-created", 1); }
			break; }
		}
		for (int q = 0; q < nobj; q++) {
			if (cnt[q] > 0) VF_CHECK(!is_freed(obj[q]), "cxxmeta:destroyed-while-referenced", "%s: object %d freed with %ld handles", ctx.c_str(), q, cnt[q]);
			else if (cnt[q] == 0) { VF_CHECK(is_freed(obj[q]), "cxxmeta:alive-after-last-drop", "%s: object %d not freed after last reference", ctx.c_str(), q); cnt[q] = -1; }
		}
		vf_count("monitor:cxxmeta-checks", 1);
	}
	for (int q = 0; q < nobj; q++) {
		while (cnt[q] > 0) { obj[q]->unref(); cnt[q]--; }
		VF_CHECK(is_freed(obj[q]), "cxxmeta:alive-after-last-drop", "%s object %d not freed at teardown", kn[kind], q);
	}
	if (raised || nobj > 1) vf_nontrivial();
	vf_sample("%s: %d addref/unref/clone operations, %d objects", kn[kind], nops, nobj);
}


/* ---- layout graphs: items, axis and world bindings hold counted references ---------------- */
#include "layout.h"
static long g_destroyed[8];
class CAxis : public mpt::reference<mpt::layout::graph::axis>::type
{
public:
	int id;
	CAxis() : id(-1) { }
	~CAxis() __MPT_OVERRIDE { if (id >= 0) g_destroyed[id]++; vf_count("monitor:graph-object-destroyed", 1); }
	uintptr_t count() const { return _ref.value(); }
};
class CWorld : public mpt::reference<mpt::layout::graph::world>::type
{
public:
	int id;
	CWorld() : id(-1) { }
	~CWorld() __MPT_OVERRIDE { if (id >= 0) g_destroyed[id]++; vf_count("monitor:graph-object-destroyed", 1); }
	uintptr_t count() const { return _ref.value(); }
};
static void case_graph(vf_rng *r)
{
	typedef mpt::reference<mpt::layout::graph>::type Graph;
	const int NA = 3, NW = 3;
	static const char *names[] = { "x", "y", "z", "w1", "w2", "ax" };
	int nops = vf_range(r, 5, 30), refused_binds = 0, binds = 0;
	CAxis *ax[NA]; CWorld *wd[NW];
	memset(g_destroyed, 0, sizeof(g_destroyed));
	for (int i = 0; i < NA; i++) { ax[i] = new CAxis; ax[i]->id = i; }
	for (int i = 0; i < NW; i++) { wd[i] = new CWorld; wd[i]->id = NA + i; }
	Graph *g = new Graph;
	vf_fp_u64(0x96af);
	for (int i = 0; i < nops; i++) {
		int op = (int) vf_below(r, 8), k = (int) vf_below(r, 3);
		char cb[160];
		snprintf(cb, sizeof(cb), "graph op=%d k=%d items=%zu axes=%zu worlds=%zu", op, k, (size_t) g->items().size(), (size_t) g->axes().size(), (size_t) g->worlds().size());
		std::string ctx = cb;
		vf_log("%s", cb);
		vf_fp_u64((op << 8) ^ k);
		switch (op) {
		case 0: case 1: {
			mpt::identifier id;
			id.set_name(names[vf_below(r, 6)]);
			vf_at("item_group::append"); vf_count("graph:append-axis", 1);
			if (g->items().size() > 12) break;
			if (!ax[k]->addref()) vf_inconclusive("addref failed");
			if (g->append(&id, ax[k]) < 0) ax[k]->unref();
			break; }
		case 2: {
			mpt::identifier id;
			id.set_name(names[vf_below(r, 6)]);
			vf_at("item_group::append"); vf_count("graph:append-world", 1);
			if (g->items().size() > 12) break;
			if (!wd[k]->addref()) vf_inconclusive("addref failed");
			if (g->append(&id, wd[k]) < 0) wd[k]->unref();
			break; }
		case 3: case 4: {
			/* same axis in two items makes the second add_axis refuse: bind fails and must leave the counts alone */
			bool dup = false;
			for (int q = 0; q < NA; q++) {
				int c = 0;
				for (auto &it : g->items()) if (it.instance() == static_cast<mpt::metatype *>(ax[q])) c++;
				if (c > 1) dup = true;
			}
			vf_at("graph::bind"); vf_count("graph:bind", 1);
			int ret = g->bind(0, 0);
			binds++;
			if (dup) { vf_count("state:bind-with-axis-in-two-items", 1); VF_CHECK(ret < 0, "cxxgraph:bind:accepted-shared-axis", "%s: returned %d", ctx.c_str(), ret); }
			if (ret < 0) { refused_binds++; vf_count("graph:bind-refused", 1); }
			break; }
		case 5:
			vf_at("item_group::clear"); vf_count("graph:clear-items", 1);
			if (vf_chance(r, 1, 2)) g->clear(); else g->clear(static_cast<mpt::metatype *>(ax[k]));
			break;
		case 6:
			vf_at("graph::add_axis"); vf_count("graph:add_axis", 1);
			if (!ax[k]->addref()) vf_inconclusive("addref failed");
			if (!g->add_axis(ax[k], names[vf_below(r, 6)])) ax[k]->unref();
			break;
		default:
			vf_count("graph:release", 1);
			g->unref();
			g = new Graph;
			break;
		}
		/* conservation: harness handle + items + bindings */
		for (int q = 0; q < NA + NW; q++) {
			long expect = 1;
			const mpt::metatype *m = q < NA ? static_cast<mpt::metatype *>(ax[q]) : static_cast<mpt::metatype *>(wd[q - NA]);
			for (auto &it : g->items()) if (it.instance() == m) expect++;
			if (q < NA) { for (auto &it : g->axes()) if (it.instance() == ax[q]) expect++; }
			else { for (auto &it : g->worlds()) if (it.instance() && it.instance()->world.instance() == wd[q - NA]) expect++; }
			long have = q < NA ? (long) ax[q]->count() : (long) wd[q - NA]->count();
			VF_CHECK(g_destroyed[q] == 0, "cxxgraph:destroyed-while-referenced", "%s: object %d destroyed while the harness holds a handle", ctx.c_str(), q);
			VF_CHECK(have == expect, have > expect ? "cxxgraph:reference-leaked" : "cxxgraph:reference-lost",
			         "%s: %s %d has %ld references, %ld handles exist", ctx.c_str(), q < NA ? "axis" : "world", q, have, expect);
		}
		vf_count("monitor:graph-checks", 1);
	}
	g->unref();
	for (int q = 0; q < NA; q++) { VF_CHECK(ax[q]->count() == 1, "cxxgraph:reference-leaked", "axis %d keeps %ld references after the graph is gone", q, (long) ax[q]->count()); ax[q]->unref(); }
	for (int q = 0; q < NW; q++) { VF_CHECK(wd[q]->count() == 1, "cxxgraph:reference-leaked", "world %d keeps %ld references after the graph is gone", q, (long) wd[q]->count()); wd[q]->unref(); }
	for (int q = 0; q < NA + NW; q++) VF_CHECK(g_destroyed[q] == 1, "cxxgraph:destroyed-twice", "object %d destroyed %ld times", q, g_destroyed[q]);
	if (binds) vf_nontrivial();
	vf_sample("layout::graph with 3 counted axes and 3 counted worlds: %d append/bind/clear/add_axis/release operations, %d binds (%d refused)", nops, binds, refused_binds);
}

static uint64_t n_ref(void) { return vf_thorough ? 400000 : 40000; }
static uint64_t n_meta(void) { return vf_thorough ? 300000 : 30000; }
static uint64_t n_item(void) { return vf_thorough ? 150000 : 15000; }
static uint64_t n_graph(void) { return vf_thorough ? 150000 : 15000; }
uint64_t vf_cases(void) { return n_ref() + n_meta() + n_item() + n_graph(); }
void vf_case(uint64_t idx, vf_rng *r)
{
	if (idx < n_ref()) case_reference(r);
	else if (idx < n_ref() + n_meta()) case_meta(idx - n_ref(), r);
	else if (idx < n_ref() + n_meta() + n_item()) ia::run(r, "cxxitem");
	else case_graph(r);
}
