/*
 * C13: ring-buffer queue is a faithful byte deque.
 *
 * Monitor: byte-array deque model stepped after every operation; content is
 * read back both by walking (base, off, len, max) and through mpt_queue_get.
 * Cases: [0, E) exhaustive (state, op) pairs for small capacities, each
 * running every argument on a fresh copy of the state; [E, E+H) PRNG
 * histories; [E+H, ..) memrev/memswap.
 */
#include <stdlib.h>
#include <errno.h>
#include <fcntl.h>
#include <unistd.h>
#include <sys/uio.h>

#include "queue.h"
#include "message.h"
#include "vf.h"

const char *vf_name = "c13_queue";

#define MCAP 20000
typedef struct { uint8_t d[MCAP]; size_t n; } model;

enum {
	OpPush, OpPushZero, OpPop, OpPopNull, OpShift, OpShiftNull, OpUnshift,
	OpPost, OpPre, OpCrop, OpGet, OpSet, OpSetZero, OpData, OpEmpty, OpFind,
	OpAlign, OpResize, OpPrepare, OpString, OpLoad, OpSave, OpMsgGet, OpHuge, OpCount
};
static const char *opname[OpCount] = {
	"qpush", "qpush0", "qpop", "qpopnull", "qshift", "qshiftnull", "qunshift",
	"qpost", "qpre", "queue_crop", "queue_get", "queue_set", "queue_set0", "queue_data", "queue_empty", "queue_find",
	"queue_align", "queue_resize", "queue_prepare", "queue_string", "queue_load", "queue_save", "message_get", "huge_length"
};
static const char *apiname[OpCount] = {
	"mpt_qpush", "mpt_qpush", "mpt_qpop", "mpt_qpop", "mpt_qshift", "mpt_qshift", "mpt_qunshift",
	"mpt_qpost", "mpt_qpre", "mpt_queue_crop", "mpt_queue_get", "mpt_queue_set", "mpt_queue_set", "mpt_queue_data",
	"mpt_queue_empty", "mpt_queue_find", "mpt_queue_align", "mpt_queue_resize", "mpt_queue_prepare", "mpt_queue_string",
	"mpt_queue_load", "mpt_queue_save", "mpt_message_get", "queue functions (huge length)"
};
/* descriptor pair for load/save: a non-blocking pipe owned by the harness */
static int pfd[2] = { -1, -1 };
static void pipe_init(void)
{
	if (pfd[0] >= 0) return;
	if (pipe(pfd) < 0) vf_inconclusive("pipe() failed");
	fcntl(pfd[0], F_SETFL, O_NONBLOCK);
	fcntl(pfd[1], F_SETFL, O_NONBLOCK);
}
static size_t pipe_drain(uint8_t *dst, size_t max)
{
	size_t n = 0;
	ssize_t r;
	while (n < max && (r = read(pfd[0], dst + n, max - n)) > 0) n += (size_t) r;
	return n;
}
static char keybuf[128];
static const char *key(int op, const char *what)
{
	snprintf(keybuf, sizeof(keybuf), "model:%s:%s", opname[op], what);
	return keybuf;
}
static char hx1[200], hx2[200];

/* ------------------------------------------------------------ queue state */
static uint8_t next_val = 1;
static uint8_t fresh(void)
{
	/* content bytes: never 0 (zero fill is an operation result) and never 0xEE (filler) */
	do { next_val++; } while (next_val == 0 || next_val == 0xEE);
	return next_val;
}
static void fresh_bytes(uint8_t *p, size_t n) { for (size_t i = 0; i < n; i++) p[i] = fresh(); }

static void state_make(MPT_STRUCT(queue) *q, model *m, size_t max, size_t off, size_t len)
{
	uint8_t *b = max ? vf_xalloc(max) : 0;
	memset(b, 0xEE, max);
	q->base = b; q->max = max; q->off = off; q->len = len;
	m->n = len;
	for (size_t i = 0; i < len; i++) {
		m->d[i] = fresh();
		b[(off + i) % max] = m->d[i];
	}
}
static void state_free(MPT_STRUCT(queue) *q)
{
	free(q->base);
	q->base = 0; q->max = q->off = q->len = 0;
}
static void state_desc(char *dst, size_t n, const MPT_STRUCT(queue) *q)
{
	snprintf(dst, n, "max=%zu off=%zu len=%zu", q->max, q->off, q->len);
}
/* read-back oracle */
static void check_content(int op, const MPT_STRUCT(queue) *q, const model *m, const char *ctx)
{
	static uint8_t tmp[MCAP];
	VF_CHECK(q->len == m->n, key(op, "length"), "%s: queue len %zu, model %zu", ctx, q->len, m->n);
	VF_CHECK(q->len <= q->max, key(op, "len-exceeds-max"), "%s: len %zu > max %zu", ctx, q->len, q->max);
	VF_CHECK(q->off <= q->max, key(op, "offset-outside"), "%s: off %zu > max %zu", ctx, q->off, q->max);
	if (!q->len) return;
	const uint8_t *b = q->base;
	for (size_t i = 0; i < q->len; i++) {
		uint8_t v = b[(q->off + i) % q->max];
		if (v != m->d[i]) {
			for (size_t j = 0; j < q->len; j++) tmp[j] = b[(q->off + j) % q->max];
			vf_fail(key(op, "content"), "%s: byte %zu is %02x, model %02x; queue=%s model=%s", ctx, i, v, m->d[i],
			        vf_hex(hx1, sizeof(hx1), tmp, q->len), vf_hex(hx2, sizeof(hx2), m->d, m->n));
		}
	}
	vf_at("mpt_queue_get");
	memset(tmp, 0xEE, q->len);
	int r = mpt_queue_get(q, 0, q->len, tmp);
	VF_CHECK(r >= 0, "model:queue_get:readback-refused", "%s: get(0,%zu) = %d on max=%zu off=%zu", ctx, q->len, r, q->max, q->off);
	VF_CHECK(!memcmp(tmp, m->d, m->n), "model:queue_get:readback-content", "%s: get(0,%zu) -> %s, model %s (max=%zu off=%zu)", ctx, q->len,
	         vf_hex(hx1, sizeof(hx1), tmp, q->len), vf_hex(hx2, sizeof(hx2), m->d, m->n), q->max, q->off);
	vf_count("monitor:readbacks", 1);
}
static size_t seg_low(const MPT_STRUCT(queue) *q)
{
	size_t start = q->max - q->off;
	return start < q->len ? start : q->len;
}
static int find_cmp(const void *elem, void *arg)
{
	/* match on first byte */
	return *(const uint8_t *) elem == *(uint8_t *) arg ? 0 : 1;
}

/*
 * apply one operation with arguments (a, b) to queue + model and check.
 * Returns 1 when the operation was accepted, 0 when refused.
 */
static int apply(int op, MPT_STRUCT(queue) *q, model *m, size_t a, size_t b)
{
	char ctx[160];
	uint8_t *in = 0, *out = 0;
	size_t nfree = q->max - q->len;
	size_t low = seg_low(q);
	int ret, accepted = 0;
	void *ptr;
	char sd[64];

	state_desc(sd, sizeof(sd), q);
	snprintf(ctx, sizeof(ctx), "%s(%zu,%zu) on %s", opname[op], a, b, sd);
	vf_log("%s", ctx);
	vf_at(apiname[op]);
	vf_count(apiname[op], 1);
	if (q->max && (q->max - q->len) < q->off && q->len) vf_count("state:wrapped", 1);
	else if (q->len == q->max && q->max) vf_count("state:full", 1);
	else if (!q->len) vf_count("state:empty", 1);

	switch (op) {
	case OpPush: case OpPushZero:
		if (op == OpPush) { in = vf_xalloc(a); fresh_bytes(in, a); }
		ret = mpt_qpush(q, a, in);
		if (a > nfree) {
			VF_CHECK(ret < 0, key(op, "accepted-overfull"), "%s: returned %d with %zu free", ctx, ret, nfree);
		}
		if (ret >= 0) {
			for (size_t i = 0; i < a; i++) m->d[m->n++] = in ? in[i] : 0;
			accepted = 1;
		} else if (a && a <= nfree) {
			vf_fail(key(op, "refused"), "%s: returned %d although %zu bytes are free", ctx, ret, nfree);
		}
		break;
	case OpUnshift:
		in = vf_xalloc(a); fresh_bytes(in, a);
		ret = mpt_qunshift(q, a, in);
		if (a > nfree) VF_CHECK(ret < 0, key(op, "accepted-overfull"), "%s: returned %d with %zu free", ctx, ret, nfree);
		if (ret >= 0) {
			memmove(m->d + a, m->d, m->n);
			memcpy(m->d, in, a);
			m->n += a;
			accepted = 1;
		} else if (a && a <= nfree) {
			vf_fail(key(op, "refused"), "%s: returned %d although %zu bytes are free", ctx, ret, nfree);
		}
		break;
	case OpPost: case OpPre: {
		ssize_t r = (op == OpPost) ? mpt_qpost(q, a) : mpt_qpre(q, a);
		if (a > nfree) VF_CHECK(r < 0, key(op, "accepted-overfull"), "%s: returned %zd with %zu free", ctx, r, nfree);
		if (r >= 0) {
			/* reserved bytes are uninitialised: caller fills them */
			VF_CHECK(q->len == m->n + a, key(op, "length"), "%s: len %zu after reserving %zu on %zu", ctx, q->len, a, m->n);
			in = vf_xalloc(a); fresh_bytes(in, a);
			vf_at("mpt_queue_set");
			if (a) {
				int s = mpt_queue_set(q, op == OpPost ? m->n : 0, a, in);
				VF_CHECK(s >= 0, "model:queue_set:refused", "%s: set of reserved part returned %d", ctx, s);
			}
			if (op == OpPost) { memcpy(m->d + m->n, in, a); }
			else { memmove(m->d + a, m->d, m->n); memcpy(m->d, in, a); }
			m->n += a;
			accepted = 1;
		} else if (a && a <= nfree) {
			vf_fail(key(op, "refused"), "%s: returned %zd although %zu bytes are free", ctx, r, nfree);
		}
		break; }
	case OpPop: case OpPopNull: {
		if (op == OpPop) { out = vf_xalloc(a); memset(out, 0xEE, a); }
		ptr = mpt_qpop(q, a, out);
		if (a > m->n) {
			VF_CHECK(!ptr, key(op, "accepted-too-much"), "%s: non-NULL for %zu of %zu stored", ctx, a, m->n);
			break;
		}
		if (!ptr) {
			/* without target a region spanning both segments cannot be returned */
			size_t high = m->n - low;
			int spans = high && a > high;
			if (a && !(op == OpPopNull && spans))
				vf_fail(key(op, "refused"), "%s: NULL for %zu of %zu stored", ctx, a, m->n);
			break;
		}
		const uint8_t *exp = m->d + (m->n - a);
		VF_CHECK(!memcmp(ptr, exp, a), key(op, "returned-data"), "%s: returned %s expected %s", ctx,
		         vf_hex(hx1, sizeof(hx1), ptr, a), vf_hex(hx2, sizeof(hx2), exp, a));
		if (out) VF_CHECK(!memcmp(out, exp, a), key(op, "copied-data"), "%s: copied %s expected %s", ctx,
		         vf_hex(hx1, sizeof(hx1), out, a), vf_hex(hx2, sizeof(hx2), exp, a));
		m->n -= a;
		accepted = 1;
		break; }
	case OpShift: case OpShiftNull: {
		if (op == OpShift) { out = vf_xalloc(a); memset(out, 0xEE, a); }
		ptr = mpt_qshift(q, a, out);
		if (a > m->n) {
			VF_CHECK(!ptr, key(op, "accepted-too-much"), "%s: non-NULL for %zu of %zu stored", ctx, a, m->n);
			break;
		}
		if (!ptr) {
			int spans = a > low;
			if (a && !(op == OpShiftNull && spans))
				vf_fail(key(op, "refused"), "%s: NULL for %zu of %zu stored", ctx, a, m->n);
			break;
		}
		VF_CHECK(!memcmp(ptr, m->d, a), key(op, "returned-data"), "%s: returned %s expected %s", ctx,
		         vf_hex(hx1, sizeof(hx1), ptr, a), vf_hex(hx2, sizeof(hx2), m->d, a));
		if (out) VF_CHECK(!memcmp(out, m->d, a), key(op, "copied-data"), "%s: copied %s expected %s", ctx,
		         vf_hex(hx1, sizeof(hx1), out, a), vf_hex(hx2, sizeof(hx2), m->d, a));
		memmove(m->d, m->d + a, m->n - a);
		m->n -= a;
		accepted = 1;
		break; }
	case OpCrop:
		/* remove b bytes at position a */
		ret = mpt_queue_crop(q, a, b);
		if (a > m->n || b > m->n - a) {
			VF_CHECK(ret < 0, key(op, "accepted-outside"), "%s: returned %d for data of %zu", ctx, ret, m->n);
			break;
		}
		VF_CHECK(ret >= 0, key(op, "refused"), "%s: returned %d for range inside data of %zu", ctx, ret, m->n);
		memmove(m->d + a, m->d + a + b, m->n - a - b);
		m->n -= b;
		accepted = 1;
		break;
	case OpGet:
		out = vf_xalloc(b); memset(out, 0xEE, b);
		ret = mpt_queue_get(q, a, b, out);
		if (a > m->n || b > m->n - a) {
			if (b) VF_CHECK(ret < 0, key(op, "accepted-outside"), "%s: returned %d for data of %zu", ctx, ret, m->n);
			break;
		}
		VF_CHECK(ret >= 0, key(op, "refused"), "%s: returned %d for range inside data of %zu", ctx, ret, m->n);
		VF_CHECK(!memcmp(out, m->d + a, b), key(op, "data"), "%s: got %s expected %s", ctx,
		         vf_hex(hx1, sizeof(hx1), out, b), vf_hex(hx2, sizeof(hx2), m->d + a, b));
		accepted = 1;
		break;
	case OpSet: case OpSetZero:
		if (op == OpSet) { in = vf_xalloc(b); fresh_bytes(in, b); }
		ret = mpt_queue_set(q, a, b, in);
		if (a > m->n || b > m->n - a) {
			if (b) VF_CHECK(ret < 0, key(op, "accepted-outside"), "%s: returned %d for data of %zu", ctx, ret, m->n);
			break;
		}
		VF_CHECK(ret >= 0, key(op, "refused"), "%s: returned %d for range inside data of %zu", ctx, ret, m->n);
		for (size_t i = 0; i < b; i++) m->d[a + i] = in ? in[i] : 0;
		accepted = 1;
		break;
	case OpData: {
		size_t l = (size_t) -1;
		ptr = mpt_queue_data(q, &l);
		VF_CHECK(ptr != 0, key(op, "null"), "%s: NULL with length pointer", ctx);
		VF_CHECK(l == low, key(op, "segment-length"), "%s: first segment %zu, expected %zu", ctx, l, low);
		VF_CHECK(!memcmp(ptr, m->d, l), key(op, "data"), "%s: first segment %s expected %s", ctx,
		         vf_hex(hx1, sizeof(hx1), ptr, l), vf_hex(hx2, sizeof(hx2), m->d, l));
		ptr = mpt_queue_data(q, 0);
		if (ptr) VF_CHECK(low == m->n, key(op, "contiguous-claim"), "%s: non-NULL without length pointer but data is split (%zu of %zu)", ctx, low, m->n);
		accepted = 1;
		break; }
	case OpEmpty: {
		size_t l = 0, h = 0;
		uint8_t *p = mpt_queue_empty(q, &l, &h);
		if (!nfree) {
			VF_CHECK(!p, key(op, "full"), "%s: non-NULL on full queue", ctx);
			break;
		}
		VF_CHECK(p != 0, key(op, "null"), "%s: NULL with %zu free", ctx, nfree);
		VF_CHECK(l + h == nfree, key(op, "sizes"), "%s: reports %zu+%zu free, expected %zu", ctx, l, h, nfree);
		/* the areas must be writable without touching content */
		uint8_t *base = q->base;
		VF_CHECK(p >= base && p + l <= base + q->max, key(op, "outside"), "%s: area %zd..+%zu outside storage", ctx, (ssize_t) (p - base), l);
		memset(p, 0xEE, l);
		if (h) memset(base, 0xEE, h);
		accepted = 1;
		break; }
	case OpFind: {
		/* element size a (>0), look for value of element index b (or absent value) */
		size_t esz = a ? a : 1, n = m->n / esz;
		uint8_t want = (b < n) ? m->d[b * esz] : 0xEE;
		ptr = mpt_queue_find(q, esz, find_cmp, &want);
		/* expectation: first matching element; search ends at an element straddling the wrap */
		size_t i, exp = (size_t) -1;
		for (i = 0; i < n; i++) {
			size_t s = i * esz;
			if (s < low && s + esz > low) break; /* straddles: documented unsupported */
			if (m->d[s] == want) { exp = i; break; }
		}
		if (exp == (size_t) -1) {
			VF_CHECK(!ptr, key(op, "phantom"), "%s: found element where model has none (want %02x)", ctx, want);
		} else {
			VF_CHECK(ptr != 0, key(op, "missed"), "%s: element %zu (value %02x) not found", ctx, exp, want);
			VF_CHECK(!memcmp(ptr, m->d + exp * esz, esz), key(op, "wrong-element"), "%s: returned %s expected element %zu = %s", ctx,
			         vf_hex(hx1, sizeof(hx1), ptr, esz), exp, vf_hex(hx2, sizeof(hx2), m->d + exp * esz, esz));
		}
		accepted = 1;
		break; }
	case OpAlign:
		mpt_queue_align(q, a);
		accepted = 1;
		if (a < q->max && m->n && q->off == a) vf_count("monitor:align-reached-target", 1);
		break;
	case OpResize: {
		ptr = mpt_queue_resize(q, a);
		if (!a) {
			VF_CHECK(!q->max && !q->len, key(op, "zero"), "%s: resize(0) left max=%zu len=%zu", ctx, q->max, q->len);
			m->n = 0;
			break;
		}
		VF_CHECK(ptr != 0 && q->max == a, key(op, "size"), "%s: max=%zu after resize", ctx, q->max);
		if (a < m->n) {
			/* documented: data is removed from queue start */
			memmove(m->d, m->d + (m->n - a), a);
			m->n = a;
		}
		accepted = 1;
		break; }
	case OpPrepare: {
		size_t left = mpt_queue_prepare(q, a);
		VF_CHECK(left >= a, key(op, "space"), "%s: %zu free after prepare", ctx, left);
		VF_CHECK(left == q->max - q->len, key(op, "return"), "%s: returned %zu, free is %zu", ctx, left, q->max - q->len);
		accepted = 1;
		break; }
	case OpLoad: {
		/* a = size limit (0: all that fits), b = bytes waiting on the descriptor */
		static uint8_t src[MCAP], rest[MCAP];
		if (b > 4096) b = 4096;
		pipe_init();
		fresh_bytes(src, b);
		if (b && write(pfd[1], src, b) != (ssize_t) b) vf_inconclusive("pipe write failed");
		size_t want = nfree;
		if (a && a < want) want = a;
		if (b < want) want = b;
		if (a && a < nfree) vf_count("state:load-with-limit-below-free-space", 1);
		ssize_t got = mpt_queue_load(q, pfd[0], a);
		if (!want) {
			VF_CHECK(got <= 0, key(op, "return"), "%s: returned %zd with %zu free and %zu waiting", ctx, got, nfree, b);
		} else {
			VF_CHECK(got == (ssize_t) want, key(op, "return"), "%s: returned %zd, expected %zu (free %zu, waiting %zu)", ctx, got, want, nfree, b);
			memcpy(m->d + m->n, src, want);
			m->n += want;
			accepted = 1;
		}
		/* the descriptor continues behind the loaded bytes */
		size_t left = pipe_drain(rest, sizeof(rest));
		VF_CHECK(left == b - want && !memcmp(rest, src + want, left), key(op, "descriptor-position"),
		         "%s: %zu bytes left on the descriptor, expected %zu", ctx, left, b - want);
		break; }
	case OpSave: {
		static uint8_t out2[MCAP];
		pipe_init();
		if (q->len > 60000) break;
		ssize_t put = mpt_queue_save(q, pfd[1]);
		size_t had = m->n;
		size_t left = pipe_drain(out2, sizeof(out2));
		if (!had) {
			VF_CHECK(put <= 0 && !left, key(op, "return"), "%s: returned %zd for an empty queue, %zu bytes written", ctx, put, left);
			break;
		}
		VF_CHECK(put > 0 && (size_t) put <= had, key(op, "return"), "%s: returned %zd with %zu bytes queued", ctx, put, had);
		VF_CHECK(left == (size_t) put && !memcmp(out2, m->d, left), key(op, "written-data"), "%s: %zu bytes written, returned %zd: %s expected %s", ctx, left, put,
		         vf_hex(hx1, sizeof(hx1), out2, left), vf_hex(hx2, sizeof(hx2), m->d, (size_t) put));
		memmove(m->d, m->d + put, had - (size_t) put);
		m->n = had - (size_t) put;
		accepted = 1;
		break; }
	case OpMsgGet: {
		/* message view of the range (a, b): base part + at most one continuation, both inside the storage */
		MPT_STRUCT(message) msg;
		struct iovec cont;
		int with_vec = (a + b) & 1 || b > low;
		memset(&msg, 0, sizeof(msg));
		memset(&cont, 0, sizeof(cont));
		int rg = mpt_message_get(q, a, b, &msg, with_vec ? &cont : 0);
		if (a > m->n || b > m->n - a) {
			VF_CHECK(rg < 0, key(op, "accepted-outside"), "%s: range beyond %zu queued bytes accepted (%d)", ctx, m->n, rg);
			break;
		}
		if (rg < 0) {
			/* only a range stored across the storage end may be refused, and only without continuation vector */
			VF_CHECK(!with_vec && a < low && a + b > low, key(op, "refused"), "%s: returned %d", ctx, rg);
			break;
		}
		const uint8_t *st = q->base, *en = st + q->max, *p0 = msg.base;
		VF_CHECK(msg.used <= b && (!msg.used || (p0 >= st && p0 + msg.used <= en)), key(op, "leaves-storage"), "%s: base part %zu bytes outside the storage", ctx, msg.used);
		size_t got = msg.used;
		if (msg.used) VF_CHECK(!memcmp(p0, m->d + a, msg.used), key(op, "content"), "%s: base part differs from the model", ctx);
		if (rg > 0) {
			const uint8_t *p1 = cont.iov_base;
			VF_CHECK(msg.clen == 1 && msg.cont == &cont, key(op, "continuation"), "%s: result %d without continuation", ctx, rg);
			VF_CHECK(p1 >= st && p1 + cont.iov_len <= en, key(op, "leaves-storage"), "%s: continuation of %zu bytes outside the storage", ctx, cont.iov_len);
			VF_CHECK(got + cont.iov_len == b && !memcmp(p1, m->d + a + got, cont.iov_len), key(op, "content"), "%s: continuation differs from the model", ctx);
			got += cont.iov_len;
			vf_count("state:message-view-with-continuation", 1);
		}
		VF_CHECK(got == b, key(op, "length"), "%s: view covers %zu of %zu bytes", ctx, got, b);
		accepted = 1;
		break; }
	case OpHuge: {
		/* lengths and offsets near SIZE_MAX / SSIZE_MAX (a negative length that ended up in a size_t): every
		 * function must refuse and leave the queue alone; a = which function, b = which magnitude */
		static const char *fn[] = { "qpost", "qpre", "qpush", "qunshift", "qpop", "qshift", "crop-len", "crop-pos", "get-pos", "get-len", "set-pos", "msgget-pos", "msgget-len" };
		size_t H;
		uint8_t one = 0;
		MPT_STRUCT(message) msg;
		struct iovec cont;
		long res = -1;
		switch (b % 8) {
		case 0: H = SIZE_MAX; break;
		case 1: H = SIZE_MAX - 1 - (b / 8) % 40; break;
		case 2: H = SIZE_MAX / 2; break;
		case 3: H = SIZE_MAX / 2 + 1 + nfree + (b / 8) % 40; break;
		case 4: H = SIZE_MAX - q->len + 1 + (b / 8) % 3; break;
		case 5: H = SIZE_MAX - q->max + (b / 8) % 3; break;
		case 6: H = (size_t) 1 << (20 + (b / 8) % 43); break;
		default: H = SIZE_MAX - q->off; break;
		}
		a %= sizeof(fn) / sizeof(*fn);
		if (H <= q->max + 8) break;   /* not huge for this queue */
		snprintf(ctx, sizeof(ctx), "%s with %zu (SIZE_MAX-%zu) on %s", fn[a], H, SIZE_MAX - H, sd);
		vf_log("%s", ctx);
		switch (a) {
		case 0: res = mpt_qpost(q, H); break;
		case 1: res = mpt_qpre(q, H); break;
		case 2: res = mpt_qpush(q, H, 0); break;
		case 3: res = mpt_qunshift(q, H, 0); break;
		case 4: res = mpt_qpop(q, H, 0) ? 0 : -1; break;
		case 5: res = mpt_qshift(q, H, 0) ? 0 : -1; break;
		case 6: res = mpt_queue_crop(q, 0, H); if (res >= 0) break; res = mpt_queue_crop(q, q->len ? 1 : 0, H); break;
		case 7: res = mpt_queue_crop(q, H, 1); break;
		case 8: res = mpt_queue_get(q, H, 1, &one); break;
		case 9: res = mpt_queue_get(q, q->len ? 1 : 0, H, 0); break;
		case 10: res = mpt_queue_set(q, H, 1, &one); break;
		case 11: res = mpt_message_get(q, H, 1, &msg, &cont); break;
		default: res = mpt_message_get(q, q->len ? 1 : 0, H, &msg, &cont); break;
		}
		VF_CHECK(res < 0, key(op, "accepted"), "%s: returned %ld", ctx, res);
		vf_count("monitor:huge-length-refusals", 1);
		break; }
	case OpString: {
		char *s = mpt_queue_string(q);
		if (!nfree) {
			VF_CHECK(!s, key(op, "full"), "%s: non-NULL without room for terminator", ctx);
			break;
		}
		VF_CHECK(s != 0, key(op, "null"), "%s: NULL with %zu free", ctx, nfree);
		VF_CHECK(!memcmp(s, m->d, m->n) && !s[m->n], key(op, "data"), "%s: string %s expected %s", ctx,
		         vf_hex(hx1, sizeof(hx1), s, m->n + 1), vf_hex(hx2, sizeof(hx2), m->d, m->n));
		accepted = 1;
		break; }
	}
	vf_xfree(in, (op == OpSet || op == OpSetZero) ? b : a);
	vf_xfree(out, op == OpGet ? b : a);
	check_content(op, q, m, ctx);
	vf_count(accepted ? "outcome:accepted" : "outcome:refused", 1);
	return accepted;
}

/* ------------------------------------------------------------- exhaustive */
static size_t ex_max(void) { return vf_thorough ? 14 : 8; }
static uint64_t ex_states(void)
{
	uint64_t n = 0;
	for (size_t m = 1; m <= ex_max(); m++) n += m * (m + 1);
	return n;
}
static void ex_decode(uint64_t s, size_t *max, size_t *off, size_t *len)
{
	for (size_t m = 1; ; m++) {
		uint64_t n = m * (m + 1);
		if (s < n) { *max = m; *off = s / (m + 1); *len = s % (m + 1); return; }
		s -= n;
	}
}
static void run_fresh(int op, size_t max, size_t off, size_t len, size_t a, size_t b)
{
	MPT_STRUCT(queue) q;
	static model m;
	state_make(&q, &m, max, off, len);
	apply(op, &q, &m, a, b);
	/* a second operation proves the resulting state is usable */
	apply(OpGet, &q, &m, 0, m.n);
	state_free(&q);
	vf_count("exhaustive:executions", 1);
}
static void case_exhaustive(uint64_t idx)
{
	size_t max, off, len;
	int op = (int) (idx % OpCount);
	ex_decode(idx / OpCount, &max, &off, &len);
	vf_fp_u64(idx);
	vf_fp_u64(0xE0);
	if (len && ((max - len) < off)) vf_nontrivial();   /* wrapped start state */
	else if (len) vf_nontrivial();
	if (vf_logging) vf_log("exhaustive %s on max=%zu off=%zu len=%zu", opname[op], max, off, len);
	switch (op) {
	case OpCrop: case OpGet: case OpSet: case OpSetZero: case OpMsgGet:
		for (size_t a = 0; a <= len + 1; a++)
			for (size_t b = 0; b <= max + 1; b++) run_fresh(op, max, off, len, a, b);
		break;
	case OpFind:
		for (size_t a = 1; a <= 4; a++)
			for (size_t b = 0; b <= len; b++) run_fresh(op, max, off, len, a, b);
		break;
	case OpData: case OpEmpty: case OpString: case OpSave:
		run_fresh(op, max, off, len, 0, 0);
		break;
	case OpHuge:
		for (size_t a = 0; a < 13; a++)
			for (size_t b = 0; b < 24; b++) run_fresh(op, max, off, len, a, b);
		break;
	case OpLoad:
		for (size_t a = 0; a <= max + 1; a++)
			for (size_t b = 0; b <= max + 2; b++) run_fresh(op, max, off, len, a, b);
		break;
	case OpResize: case OpPrepare:
		for (size_t a = 0; a <= 2 * max + 9; a++) run_fresh(op, max, off, len, a, 0);
		break;
	default:
		for (size_t a = 0; a <= max + 1; a++) run_fresh(op, max, off, len, a, 0);
	}
	vf_sample("exhaustive: op=%s start state max=%zu off=%zu len=%zu, every argument value", opname[op], max, off, len);
}

/* -------------------------------------------------------------- histories */
static size_t pick_len(vf_rng *r, const MPT_STRUCT(queue) *q)
{
	size_t nfree = q->max - q->len, low = seg_low(q), high = q->len - low;
	size_t c[12] = { 0, 1, nfree, nfree + 1, q->len, q->len + 1, low, low + 1, high, high + 1, nfree ? nfree - 1 : 0, q->len / 2 };
	if (vf_chance(r, 1, 3)) return vf_below(r, (uint32_t) q->max + 2);
	if (vf_chance(r, 1, 2)) return vf_below(r, 5);
	return c[vf_below(r, 12)];
}
static void case_history(uint64_t idx, vf_rng *r)
{
	static const size_t caps[] = { 1, 2, 3, 4, 5, 7, 8, 13, 16, 31, 32, 33, 64, 100, 1023, 1024, 1025, 4096 };
	MPT_STRUCT(queue) q;
	static model m;
	size_t max = caps[vf_below(r, sizeof(caps) / sizeof(*caps))];
	size_t off = vf_below(r, (uint32_t) max), len = vf_below(r, (uint32_t) max + 1);
	int nops = vf_range(r, 8, vf_thorough ? 120 : 60);
	int mutating = 0, wrapped = 0;
	char desc[1800];
	size_t dl = 0;

	(void) idx;
	state_make(&q, &m, max, off, len);
	dl += snprintf(desc + dl, sizeof(desc) - dl, "start max=%zu off=%zu len=%zu:", max, off, len);
	vf_fp_u64(max); vf_fp_u64(off); vf_fp_u64(len);
	for (int i = 0; i < nops; i++) {
		int op = (int) vf_below(r, OpCount);
		size_t a, b = 0;
		/* growing keeps the model array bounded */
		if ((op == OpResize || op == OpPrepare)) {
			if (!vf_chance(r, 1, 4)) op = OpPush;
		}
		switch (op) {
		case OpCrop: case OpGet: case OpSet: case OpSetZero: case OpMsgGet:
			a = vf_chance(r, 1, 8) ? q.len + 1 : vf_below(r, (uint32_t) q.len + 1);
			b = pick_len(r, &q);
			if (vf_chance(r, 1, 2) && a <= q.len) b = vf_below(r, (uint32_t) (q.len - a) + 1);
			break;
		case OpFind:
			a = 1 + vf_below(r, 4);
			b = vf_below(r, (uint32_t) (q.len / a) + 2);
			break;
		case OpAlign:
			a = vf_below(r, (uint32_t) q.max + 2);
			break;
		case OpHuge:
			a = vf_below(r, 13); b = vf_below(r, 8 * 43);
			break;
		case OpLoad:
			a = vf_chance(r, 1, 3) ? 0 : pick_len(r, &q);
			b = vf_chance(r, 1, 2) ? pick_len(r, &q) : vf_below(r, (uint32_t) q.max + 40);
			break;
		case OpResize:
			a = vf_chance(r, 1, 6) ? 0 : vf_below(r, (uint32_t) (2 * q.max + 9));
			if (a > 8000) a = 8000;
			break;
		case OpPrepare:
			a = vf_below(r, (uint32_t) q.max + 9);
			if (q.len + a > 8000) a = 0;
			break;
		default:
			a = pick_len(r, &q);
		}
		if (!q.max && op != OpResize && op != OpPrepare) { op = OpPrepare; a = 1 + vf_below(r, 40); b = 0; }
		int acc = apply(op, &q, &m, a, b);
		if (acc && op != OpGet && op != OpData && op != OpEmpty && op != OpFind && op != OpMsgGet && op != OpHuge) mutating++;
		if (acc && (op == OpLoad || op == OpSave) && q.max && (q.max - q.len) < q.off) vf_count("state:load-save-on-wrapped", 1);
		if (q.max && q.len && (q.max - q.len) < q.off) wrapped = 1;
		vf_fp_u64(((uint64_t) op << 48) ^ (a << 20) ^ b);
		if (dl + 40 < sizeof(desc)) dl += snprintf(desc + dl, sizeof(desc) - dl, " %s(%zu,%zu)%s", opname[op], a, b, acc ? "" : "!");
	}
	state_free(&q);
	if (wrapped && mutating >= 3) vf_nontrivial();
	if (wrapped) vf_count("history:reached-wrapped", 1);
	vf_sample("%s", desc);
}

/* ---------------------------------------------------------- memrev/memswap */
static void case_mem(uint64_t idx, vf_rng *r)
{
	static const size_t lens[] = { 0, 1, 2, 3, 1023, 1024, 1025, 2047, 2048, 2049, 3000, 5000 };
	size_t len = lens[idx % 12], pre;
	if (idx >= 12 * 4) len = vf_below(r, 6000);
	switch ((idx / 12) % 4) { case 0: pre = 0; break; case 1: pre = len; break; case 2: pre = len / 2; break; default: pre = vf_below(r, (uint32_t) len + 1); }
	if (idx >= 12 * 4) pre = vf_chance(r, 1, 10) ? len + 1 + vf_below(r, 3) : vf_below(r, (uint32_t) len + 1);
	uint8_t *d = vf_xalloc(len), *e = malloc(len + 1);
	vf_bytes(r, d, len);
	memcpy(e, d, len);
	vf_fp_u64(0x3e3); vf_fp_u64(len); vf_fp_u64(pre);
	if (len > 2 && pre && pre < len) vf_nontrivial();
	vf_at("mpt_memrev");
	vf_count("mpt_memrev", 1);
	vf_log("memrev(len=%zu pre=%zu)", len, pre);
	int ret = mpt_memrev(d, pre, len);
	if (pre > len) {
		VF_CHECK(ret < 0, "model:memrev:accepted-outside", "memrev(pre=%zu,len=%zu) = %d", pre, len, ret);
		VF_CHECK(!memcmp(d, e, len), "model:memrev:refused-modified", "memrev(pre=%zu,len=%zu) refused but changed data", pre, len);
	} else {
		VF_CHECK(ret >= 0, "model:memrev:refused", "memrev(pre=%zu,len=%zu) = %d", pre, len, ret);
		for (size_t i = 0; i < len; i++) {
			uint8_t x = e[(i + pre) % len];
			VF_CHECK(d[i] == x, "model:memrev:content", "memrev(pre=%zu,len=%zu): byte %zu is %02x expected %02x", pre, len, i, d[i], x);
		}
	}
	/* memswap of two halves */
	size_t h = len / 2;
	if (h) {
		uint8_t *a = vf_xalloc(h), *b = vf_xalloc(h);
		memcpy(a, e, h); memcpy(b, e + h, h);
		vf_at("mpt_memswap");
		vf_count("mpt_memswap", 1);
		ret = mpt_memswap(a, b, h);
		VF_CHECK(ret >= 0 && !memcmp(a, e + h, h) && !memcmp(b, e, h), "model:memswap:content", "memswap(len=%zu) = %d: content not exchanged", h, ret);
		vf_xfree(a, h); vf_xfree(b, h);
	}
	vf_xfree(d, len); free(e);
	vf_sample("memrev len=%zu pivot=%zu, memswap of halves", len, pre);
}

/* ------------------------------------------------------------------ entry */
static uint64_t n_ex(void) { return ex_states() * OpCount; }
static uint64_t n_hist(void) { return vf_thorough ? 3000000 : 300000; }
static uint64_t n_mem(void) { return vf_thorough ? 20000 : 2000; }

uint64_t vf_cases(void) { return n_ex() + n_hist() + n_mem(); }

void vf_case(uint64_t idx, vf_rng *r)
{
	if (idx < n_ex()) { case_exhaustive(idx); return; }
	idx -= n_ex();
	if (idx < n_hist()) { case_history(idx, r); return; }
	case_mem(idx - n_hist(), r);
}
