/*
 * Shared by the C05 and C15 C++ legs: histories on mpt::item_array<T> (named references).
 * Model: per array a vector of (object, name); every object's reference count must equal the
 * harness's own handle plus the number of slots of distinct buffers that hold it; a refused
 * append must not consume the caller's handle; after the last array is gone and the harness
 * dropped its handles every object is destroyed exactly once.
 * Include after vf.h; `IA_KEY(x)` gives the violation key prefix of the including leg.
 */
#ifndef CXX_ITEMARRAY_H
#define CXX_ITEMARRAY_H

#include <vector>
#include <string>
#include <cstring>
#include "array.h"

namespace ia {

static long alive, destroyed[6];
class Base
{
public:
	int id;
	Base() : id(-1) { alive++; }
	virtual ~Base() { alive--; if (id >= 0) destroyed[id]++; vf_count("monitor:itemarray-object-destroyed", 1); }
};
typedef mpt::reference<Base>::type Obj;
struct Slot { Obj *o; std::string name; };

static char keybuf[96];
static const char *key(const char *pre, const char *what)
{
	snprintf(keybuf, sizeof(keybuf), "%s:%s", pre, what);
	return keybuf;
}
static std::string pick_name(vf_rng *r, bool *refused, bool *none)
{
	static const int lens[] = { 0, 1, 5, 18, 19, 20, 21, 27, 40, 300, 65534, 65535, 70000 };
	*refused = false; *none = false;
	if (vf_chance(r, 1, 8)) { *none = true; return std::string(); }
	int l = lens[vf_below(r, vf_chance(r, 1, 6) ? 13 : 10)];
	std::string s((size_t) l, 'x');
	for (int i = 0; i < l && i < 40; i++) s[i] = (char) ('a' + vf_below(r, 26));
	if (l >= 65535) *refused = true;
	return s;
}

static void run(vf_rng *r, const char *pre)
{
	const int NO = 4;
	int nops = vf_range(r, 6, 40), refused_appends = 0, compacts_with_move = 0;
	alive = 0;
	memset(destroyed, 0, sizeof(destroyed));
	vf_fp_u64(0x17e3a);
	{
		mpt::item_array<Obj> a[2];
		std::vector<Slot> s[2];
		Obj *pool[NO];
		for (int i = 0; i < NO; i++) { pool[i] = new Obj; pool[i]->id = i; }
		for (int i = 0; i < nops; i++) {
			int op = (int) vf_below(r, 9), h = (int) vf_below(r, 2);
			long n = (long) s[h].size(), pos = (long) vf_below(r, (uint32_t) n + 2);
			Obj *o = pool[vf_below(r, NO)];
			bool shared = a[0].begin() && a[0].begin() == a[1].begin();
			char cb[200];
			snprintf(cb, sizeof(cb), "item_array op=%d h=%d pos=%ld length=%ld%s", op, h, pos, n, shared ? " shared" : "");
			std::string ctx = cb;
			vf_log("%s", cb);
			vf_fp_u64((op << 16) ^ (h << 8) ^ pos);
			switch (op) {
			case 0: vf_count("itemarray_copy", 1); a[h] = a[!h]; s[h] = s[!h]; break;
			case 1: case 2: {
				bool refuse, none;
				std::string nm = pick_name(r, &refuse, &none);
				if (n > 40) break;
				vf_at("item_array::append"); vf_count("itemarray_append", 1);
				if (!o->addref()) vf_inconclusive("addref failed");
				mpt::item<Obj> *it = a[h].append(o, none ? 0 : nm.c_str(), none ? -1 : (int) nm.size());
				if (refuse) {
					refused_appends++;
					vf_count("itemarray_append:name-refused", 1);
					VF_CHECK(!it, key(pre, "append:accepted-unstorable-name"), "%s: name of %zu characters accepted", ctx.c_str(), nm.size());
				}
				if (!it) {
					/* not taken: the handle is still the caller's */
					VF_CHECK(refuse || shared, key(pre, "append:refused"), "%s", ctx.c_str());
					o->unref();
					break;
				}
				Slot sl; sl.o = o; sl.name = nm;
				s[h].push_back(sl);
				break; }
			case 3: {
				if (pos >= n) break;
				vf_at("item::set_instance(0)"); vf_count("itemarray_clear_slot", 1);
				mpt::item<Obj> *it = a[h].get(pos);
				if (!it) { VF_CHECK(shared, key(pre, "get:refused"), "%s", ctx.c_str()); break; }
				it->set_instance(0);
				s[h][pos].o = 0;
				break; }
			case 4: {
				vf_at("item_array::compact"); vf_count("itemarray_compact", 1);
				bool hole = false, moved = false;
				for (long j = 0; j < n; j++) { if (!s[h][j].o) hole = true; else if (hole) moved = true; }
				if (moved) { compacts_with_move++; vf_count("state:compact-moves-item-over-hole", 1); }
				bool did = a[h].compact();
				VF_CHECK(did == hole, key(pre, "compact:return"), "%s: returned %d, model %s holes", ctx.c_str(), (int) did, hole ? "has" : "has no");
				std::vector<Slot> t;
				for (long j = 0; j < n; j++) if (s[h][j].o) t.push_back(s[h][j]);
				if (hole) s[h] = t;
				break; }
			case 5: {
				vf_at("item_array::resize"); vf_count("itemarray_resize", 1);
				long len = (long) vf_below(r, (uint32_t) n + 3);
				bool ok = a[h].resize(len);
				if (!ok) { VF_CHECK(shared, key(pre, "resize:refused"), "%s", ctx.c_str()); break; }
				Slot e; e.o = 0;
				s[h].resize((size_t) len, e);
				break; }
			case 6: vf_count("itemarray_drop", 1); a[h] = mpt::item_array<Obj>(); s[h].clear(); break;
			case 7: {
				if (n > 40) break;
				vf_at("item_array::insert"); vf_count("itemarray_insert", 1);
				mpt::item<Obj> *it = a[h].insert(pos);
				if (!it) { VF_CHECK(shared, key(pre, "insert:refused"), "%s", ctx.c_str()); break; }
				Slot e; e.o = 0;
				if ((size_t) pos > s[h].size()) s[h].resize((size_t) pos, e);
				s[h].insert(s[h].begin() + pos, e);
				break; }
			case 8: {
				if (pos >= n) break;
				bool refuse, none;
				std::string nm = pick_name(r, &refuse, &none);
				vf_at("identifier::set_name"); vf_count("itemarray_rename", 1);
				mpt::item<Obj> *it = a[h].get(pos);
				if (!it) { VF_CHECK(shared, key(pre, "get:refused"), "%s", ctx.c_str()); break; }
				bool ok = it->set_name(none ? 0 : nm.c_str(), none ? 0 : (int) nm.size());
				if (refuse) { VF_CHECK(!ok, key(pre, "rename:accepted-unstorable-name"), "%s", ctx.c_str()); break; }
				VF_CHECK(ok, key(pre, "rename:refused"), "%s: name of %zu characters", ctx.c_str(), nm.size());
				s[h][pos].name = none ? std::string() : nm;
				break; }
			}
			/* in-place effects on a buffer both arrays still share are seen through both */
			if (shared && op != 0 && a[0].begin() && a[0].begin() == a[1].begin()) s[!h] = s[h];
			/* oracle */
			for (int k = 0; k < 2; k++) {
				VF_CHECK((size_t) a[k].length() == s[k].size(), key(pre, "length"), "%s: array %d has %ld items, model %zu", ctx.c_str(), k, a[k].length(), s[k].size());
				VF_CHECK(a[k].count() == (long) std::count_if(s[k].begin(), s[k].end(), [](const Slot &x) { return x.o != 0; }), key(pre, "count"),
				         "%s: array %d counts %ld references", ctx.c_str(), k, a[k].count());
				for (size_t j = 0; j < s[k].size(); j++) {
					const mpt::item<Obj> &it = a[k].begin()[j];
					VF_CHECK(it.instance() == s[k][j].o, key(pre, "slot"), "%s: array %d slot %zu holds another object than the model", ctx.c_str(), k, j);
					const char *nm = it.name();
					if (s[k][j].name.empty()) VF_CHECK(!nm || !*nm, key(pre, "name"), "%s: array %d slot %zu has name '%.20s', model none", ctx.c_str(), k, j, nm);
					else VF_CHECK(nm && s[k][j].name == nm, key(pre, "name"), "%s: array %d slot %zu name differs from the model (%zu characters)", ctx.c_str(), k, j, s[k][j].name.size());
				}
			}
			bool same = a[0].begin() && a[0].begin() == a[1].begin();
			for (int q = 0; q < NO; q++) {
				long expect = 1;
				for (int k = 0; k < 2; k++) {
					if (k && same) continue;
					for (size_t j = 0; j < s[k].size(); j++) if (s[k][j].o == pool[q]) expect++;
				}
				VF_CHECK(destroyed[q] == 0, key(pre, "destroyed-while-referenced"), "%s: object %d destroyed while the harness holds a handle", ctx.c_str(), q);
				uintptr_t c = pool[q]->addref();
				pool[q]->unref();
				VF_CHECK((long) c - 1 == expect, key(pre, (long) c - 1 > expect ? "reference-leaked" : "reference-lost"),
				         "%s: object %d has %ld references, model %ld", ctx.c_str(), q, (long) c - 1, expect);
			}
			vf_count("monitor:itemarray-checks", 1);
		}
		for (int q = 0; q < NO; q++) pool[q]->unref();
	}
	VF_CHECK(alive == 0, key(pre, alive > 0 ? "object-alive-after-teardown" : "object-destroyed-twice"), "%ld objects alive after all references are gone", alive);
	for (int q = 0; q < 4; q++) VF_CHECK(destroyed[q] == 1, key(pre, "object-destroyed-twice"), "object %d destroyed %ld times", q, destroyed[q]);
	if (refused_appends || compacts_with_move) vf_nontrivial();
	vf_sample("item_array<Obj> x2: %d copy/append/clear/compact/resize/insert/rename/drop operations, %d refused names, %d compactions that moved items",
	          nops, refused_appends, compacts_with_move);
}

} /* namespace ia */
#endif
