/*
 * C08: configuration parser is total and fails cleanly.
 *
 * One case = (format string, name flag sets, document bytes, fault positions).
 * The document is run through up to three drivers, each with a harness-owned
 * getc that hands out every byte once, then -2 (or -1 from a chosen position):
 *
 *  A  mpt_parse_config(next, fmt, ctx, save, arg) with a recording save
 *     handler (optionally failing at the k-th event);
 *  B  mpt_parse_node(root, ctx, fmtstring) into a root that already has
 *     children (hand-built with the node API, or the result of an earlier
 *     parse); deep snapshot before, compared after a negative return;
 *  C  the loop of examples/core/parse.c (next function called directly, path in
 *     SepBinary form), with the same bookkeeping mpt_parse_config does.
 *
 * Monitors: callback bound (termination), event nesting on success, snapshot on
 * failure; ASan/UBSan/LSan by the runner.
 */
#include <stdio.h>
#include <stdlib.h>
#include <ctype.h>
#include <sys/uio.h>

#include "config.h"
#include "types.h"
#include "parse.h"
#include "node.h"
#include "meta.h"

#include "c08_gen.h"
#include "c08_rec.h"
#include "vf.h"

const char *vf_name = "c08_parse";

#define NONE ((size_t) -1)

/* ------------------------------------------------------------------ bytes */
typedef struct { uint8_t *d; size_t n, cap; } bytes;
static void b_need(bytes *b, size_t add)
{
	if (b->n + add <= b->cap) return;
	size_t c = b->cap ? b->cap * 2 : 256;
	while (c < b->n + add) c *= 2;
	b->d = realloc(b->d, c);
	if (!b->d) vf_inconclusive("out of memory");
	b->cap = c;
}
static void b_put(bytes *b, int c) { b_need(b, 1); b->d[b->n++] = (uint8_t) c; }
static void b_add(bytes *b, const void *p, size_t n) { if (!n) return; b_need(b, n); memcpy(b->d + b->n, p, n); b->n += n; }
static void b_free(bytes *b) { free(b->d); b->d = 0; b->n = b->cap = 0; }

/* ------------------------------------------------------------------ input */
typedef struct {
	uint8_t *d;             /* exact-size block */
	size_t n, pos;
	size_t err_at;          /* from this position on getc reports -1 */
	uint64_t calls, saves, after_end, bound;
} input;

static void bound_check(const input *in, const char *where)
{
	if (in->calls + in->saves > in->bound) {
		vf_fail("model:termination:callback-bound",
		        "%s: %llu getc + %llu save callbacks for an input of %zu bytes (bound %llu); %llu getc calls after end of input",
		        where, (unsigned long long) in->calls, (unsigned long long) in->saves, in->n,
		        (unsigned long long) in->bound, (unsigned long long) in->after_end);
	}
}
static int h_getc(void *arg)
{
	input *in = arg;
	in->calls++;
	bound_check(in, "getc");
	if (in->err_at != NONE && in->pos >= in->err_at) { in->after_end++; return -1; }
	if (in->pos >= in->n) { in->after_end++; return -2; }
	return in->d[in->pos++];
}
static void input_init(input *in, const bytes *doc, size_t err_at)
{
	in->d = vf_xalloc(doc->n);
	memcpy(in->d, doc->d, doc->n);
	in->n = doc->n;
	in->pos = 0;
	in->err_at = err_at;
	in->calls = in->saves = in->after_end = 0;
	in->bound = 8 * ((uint64_t) doc->n + 8);
}
static void input_fini(input *in)
{
	vf_xfree(in->d, in->n);
	in->d = 0;
}

/* ----------------------------------------------------------------- format */
typedef struct {
	char str[32];
	int  null;                      /* pass NULL (library default) */
	int  type;                      /* result of mpt_parse_format */
	MPT_STRUCT(parser_format) pf;
	MPT_TYPE(input_parser) next;
} format;

static const char *const vocab[] = { "a", "b", "c", "ab", "x", "y", "name", "n1", "sect", "opt", "k", "zz" };
#define NVOCAB (sizeof(vocab) / sizeof(*vocab))

/* every save event counts for the callback bound */
static void tick(void *arg, const char *where)
{
	input *in = arg;
	in->saves++;
	bound_check(in, where);
}
typedef c08_recorder recorder;

/* ---------------------------------------------------------- tree snapshot */
static void snap_node(bytes *b, const MPT_STRUCT(node) *n)
{
	const void *p[5] = { n, n->_meta, n->next, n->prev, n->parent };
	const void *ch = n->children;
	b_add(b, p, sizeof(p));
	b_add(b, &ch, sizeof(ch));
	b_add(b, &n->ident._len, sizeof(n->ident._len));
	b_add(b, &n->ident._charset, sizeof(n->ident._charset));
	if (n->ident._len) {
		const void *id = mpt_identifier_data(&n->ident);
		b_add(b, id, n->ident._len);
	}
	if (n->_meta) {
		size_t len = 0;
		const char *d = mpt_node_data(n, &len);
		b_add(b, &len, sizeof(len));
		if (d) b_add(b, d, len);
	}
	for (const MPT_STRUCT(node) *c = n->children; c; c = c->next) snap_node(b, c);
	b_put(b, 0xff);
}
static void snapshot(bytes *b, const MPT_STRUCT(node) *root)
{
	b->n = 0;
	vf_at("mpt_node_data");
	snap_node(b, root);
}
/* walk result tree: read every name and value */
static size_t walk(const MPT_STRUCT(node) *n, size_t depth)
{
	size_t count = 0;
	for (; n; n = n->next) {
		size_t len = 0;
		volatile uint8_t sink = 0;
		const uint8_t *d;
		if (n->ident._len && (d = mpt_identifier_data(&n->ident))) {
			for (size_t i = 0; i < n->ident._len; i++) sink ^= d[i];
		}
		if (n->_meta && (d = (const uint8_t *) mpt_node_data(n, &len))) {
			for (size_t i = 0; i < len; i++) sink ^= d[i];
		}
		(void) sink;
		count += 1 + walk(n->children, depth + 1);
	}
	return count;
}
static MPT_STRUCT(node) *mk_node(MPT_STRUCT(node) *parent, const char *name, const char *value)
{
	size_t len = name ? strlen(name) : 0;
	MPT_STRUCT(node) *n;
	vf_at("mpt_node_new");
	if (!(n = mpt_node_new(len + 1))) vf_inconclusive("mpt_node_new failed");
	if (name) {
		vf_at("mpt_identifier_set");
		if (!mpt_identifier_set(&n->ident, name, (int) len)) vf_inconclusive("mpt_identifier_set failed");
	}
	if (value) {
		struct iovec vec;
		MPT_STRUCT(value) val = MPT_VALUE_INIT(MPT_type_toVector('c'), &vec);
		vec.iov_base = (void *) value;
		vec.iov_len = strlen(value);
		vf_at("mpt_meta_new");
		if (!(n->_meta = mpt_meta_new(&val))) vf_inconclusive("mpt_meta_new failed for a short text");
	}
	vf_at("mpt_gnode_insert");
	mpt_gnode_insert(parent, 0, n);
	return n;
}
static void build_existing(vf_rng *r, MPT_STRUCT(node) *root)
{
	static const char *const values[] = { 0, 0, "1", "old value", "" };
	int top = vf_range(r, 1, 4);
	for (int i = 0; i < top; i++) {
		MPT_STRUCT(node) *n = mk_node(root, vf_chance(r, 1, 8) ? 0 : vocab[vf_below(r, NVOCAB)], values[vf_below(r, 5)]);
		for (int k = vf_range(r, 0, 3); k; k--) {
			MPT_STRUCT(node) *c = mk_node(n, vocab[vf_below(r, NVOCAB)], values[vf_below(r, 5)]);
			if (vf_chance(r, 1, 3)) mk_node(c, vocab[vf_below(r, NVOCAB)], values[vf_below(r, 5)]);
		}
	}
}

/* --------------------------------------------------------------- drivers */
typedef struct {
	format f;
	uint16_t sect, opt;
	bytes doc;
	int pristine;                   /* grammar document without mutation */
	const char *fmtarg;             /* description in an exact-size heap block (0: use f.str) */
	const char *limits;             /* name flags as mpt_parse_accept() string, 0: library default */
	char desc[200];
} testcase;

static void ctx_setup(MPT_STRUCT(parser_context) *ctx, input *in, const testcase *tc, vf_rng *r)
{
	static const MPT_STRUCT(parser_context) init = MPT_PARSER_INIT;
	*ctx = init;
	ctx->src.getc = h_getc;
	ctx->src.arg = in;
	ctx->src.line = vf_chance(r, 1, 2);
	ctx->name.sect = tc->sect;
	ctx->name.opt = tc->opt;
}
static size_t pick_err(vf_rng *r, size_t n)
{
	if (!vf_chance(r, 1, 6)) return NONE;
	return vf_below(r, (uint32_t) n + 1);
}
static const char *retname(int ret)
{
	static char buf[24];
	switch (ret) {
	case 0: return "0";
	case MPT_ERROR(BadArgument): return "BadArgument";
	case MPT_ERROR(BadValue): return "BadValue";
	case MPT_ERROR(BadType): return "BadType";
	case MPT_ERROR(BadOperation): return "BadOperation";
	case MPT_ERROR(MissingData): return "MissingData";
	case MPT_ERROR(MissingBuffer): return "MissingBuffer";
	case -0x80: return "save-refused";
	}
	snprintf(buf, sizeof(buf), ret < 0 ? "other-negative" : "positive");
	return buf;
}
static void count_ret(const char *prefix, int ret)
{
	/* counter names must be literals or stable: build from a small fixed set */
	static char names[4][10][48];
	static const int codes[10] = { 0, -1, -2, -3, -4, -0x10, -0x11, -0x80, -999, 999 };
	int p = prefix[0] == 'A' ? 0 : prefix[0] == 'B' ? 1 : prefix[0] == 'C' ? 2 : 3, i;
	for (i = 0; i < 8; i++) if (codes[i] == ret) break;
	if (i == 8 && ret > 0) i = 9;
	if (!names[p][i][0]) snprintf(names[p][i], sizeof(names[p][i]), "ret:%s:%s", prefix, retname(ret));
	vf_count(names[p][i], 1);
}

/* A: mpt_parse_config + recording handler */
static int drive_config(const testcase *tc, vf_rng *r)
{
	MPT_STRUCT(parser_context) ctx;
	MPT_STRUCT(parser_format) pf = tc->f.pf;
	input in;
	recorder rec;
	size_t err_at = pick_err(r, tc->doc.n);
	long fail_at = vf_chance(r, 1, 8) ? (long) vf_below(r, 8) : -1;
	int ret;

	input_init(&in, &tc->doc, err_at);
	c08_rec_init(&rec, 0, fail_at);
	rec.tick = tick;
	rec.tick_arg = &in;
	ctx_setup(&ctx, &in, tc, r);
	ctx.prev = vf_chance(r, 1, 2) ? MPT_PARSEFLAG(Section) : 0;
	vf_fp_u64(0xA0 ^ ((uint64_t) err_at << 8) ^ ((uint64_t) (fail_at + 1) << 40) ^ ((uint64_t) ctx.prev << 60));
	vf_log("A: mpt_parse_config %s err_at=%zd fail_at=%ld prev=%x", tc->desc, (ssize_t) err_at, fail_at, ctx.prev);
	vf_at("mpt_parse_config");
	vf_count("mpt_parse_config", 1);
	ret = mpt_parse_config(tc->f.next, &pf, &ctx, c08_rec_save, &rec);
	vf_log("A: = %d (%s) line=%zu getc=%llu saves=%llu after_end=%llu", ret, retname(ret), ctx.src.line,
	       (unsigned long long) in.calls, (unsigned long long) in.saves, (unsigned long long) in.after_end);
	vf_count("monitor:callback-bound-checks", in.calls + in.saves);
	VF_CHECK(!memcmp(&pf, &tc->f.pf, sizeof(pf)), "model:parse_config:format-modified", "A %s: parser changed the format description", tc->desc);
	VF_CHECK(ret <= 0, "model:parse_config:positive-return", "A %s: returned %d", tc->desc, ret);
	count_ret("A", ret);
	if (tc->pristine) {
		switch (tc->f.type) {
		case '*': vf_count(ret < 0 ? "grammar-doc:prefix:rejected" : "grammar-doc:prefix:accepted", 1); break;
		case 'x': vf_count(ret < 0 ? "grammar-doc:enclosed:rejected" : "grammar-doc:enclosed:accepted", 1); break;
		case ' ': vf_count(ret < 0 ? "grammar-doc:separated:rejected" : "grammar-doc:separated:accepted", 1); break;
		default:  vf_count(ret < 0 ? "grammar-doc:options:rejected" : "grammar-doc:options:accepted", 1);
		}
	}
	c08_rec_verdict(&rec, tc->f.type, tc->f.pf.sstart == tc->f.pf.send, ret, "A", tc->desc);
	if (err_at != NONE && in.after_end && ret >= 0) vf_count("outcome:input-error-not-reported", 1);
	vf_count("events:section", rec.kinds[1]);
	vf_count("events:sectend", rec.kinds[2]);
	vf_count("events:option", rec.kinds[3]);
	vf_count("events:option+data", rec.kinds[7]);
	vf_count("events:data", rec.kinds[4]);
	vf_max("max:open-sections", rec.maxdepth);
	vf_max("max:getc-after-end", in.after_end);
	if (rec.maxdepth >= 3) vf_count("state:depth>=3", 1);
	if (rec.refused) vf_count("fault:save-refused", 1);
	if (err_at != NONE && in.after_end) vf_count("fault:getc-error-delivered", 1);
	int events = (int) rec.count;
	if (events >= 2 || (ret < 0 && in.calls >= 8)) vf_nontrivial();
	c08_rec_fini(&rec);
	input_fini(&in);
	return ret;
}

/* C: the loop of examples/core/parse.c, path in binary form */
static void drive_loop(const testcase *tc, vf_rng *r)
{
	MPT_STRUCT(parser_context) ctx;
	MPT_STRUCT(parser_format) pf = tc->f.pf;
	MPT_STRUCT(path) path = MPT_PATH_INIT;
	struct iovec vec;
	MPT_STRUCT(value) val = MPT_VALUE_INIT(MPT_type_toVector('c'), &vec);
	input in;
	recorder rec;
	size_t err_at = pick_err(r, tc->doc.n);
	int binary = !vf_chance(r, 1, 4);
	int ret;

	input_init(&in, &tc->doc, err_at);
	c08_rec_init(&rec, binary, -1);
	rec.tick = tick;
	rec.tick_arg = &in;
	ctx_setup(&ctx, &in, tc, r);
	if (binary) path.flags = MPT_PATHFLAG(SepBinary);
	vf_fp_u64(0xC0 ^ ((uint64_t) err_at << 8) ^ ((uint64_t) binary << 40));
	vf_log("C: direct loop %s err_at=%zd binary=%d", tc->desc, (ssize_t) err_at, binary);
	vf_count("direct-loop", 1);
	while (1) {
		vf_at(tc->f.type == '*' ? "mpt_parse_format_pre" : tc->f.type == 'x' ? "mpt_parse_format_enc" :
		      tc->f.type == ' ' ? "mpt_parse_format_sep" : "mpt_parse_option");
		if ((ret = tc->f.next(&pf, &ctx, &path)) <= 0) break;
		vec.iov_base = (char *) (path.base + path.off + path.len);
		vec.iov_len = ctx.valid;
		c08_rec_save(&rec, &path, (ret & MPT_PARSEFLAG(Data)) ? &val : 0, ctx.prev, ret);
		if (ret & MPT_PARSEFLAG(SectEnd)) {
			vf_at("mpt_path_del");
			ret = mpt_path_del(&path);
		} else {
			vf_at("mpt_path_invalidate");
			ret = mpt_path_invalidate(&path);
		}
		if (ret < 0) { ret = MPT_ERROR(MissingData); break; }
		ctx.prev = ctx.curr;
		ctx.curr = 0;
		ctx.valid = 0;
	}
	vf_at("mpt_path_fini");
	mpt_path_fini(&path);
	vf_log("C: = %d (%s) getc=%llu saves=%llu", ret, retname(ret), (unsigned long long) in.calls, (unsigned long long) in.saves);
	vf_count("monitor:callback-bound-checks", in.calls + in.saves);
	count_ret("C", ret);
	c08_rec_verdict(&rec, tc->f.type, tc->f.pf.sstart == tc->f.pf.send, ret, "C", tc->desc);
	vf_max("max:open-sections", rec.maxdepth);
	c08_rec_fini(&rec);
	input_fini(&in);
}

/* B: mpt_parse_node into a populated root */
static void drive_node(const testcase *tc, vf_rng *r)
{
	MPT_STRUCT(parser_context) ctx;
	MPT_STRUCT(node) root = MPT_NODE_INIT;
	static bytes before, after;
	input in;
	int mode = (int) vf_below(r, 4);       /* 0: empty root, 1,2: hand-built children, 3: result of an earlier parse */
	int rounds = 1 + vf_chance(r, 1, 3);
	int ret;

	vf_fp_u64(0xB0 ^ ((uint64_t) mode << 8) ^ ((uint64_t) rounds << 16));
	if (mode == 1 || mode == 2) build_existing(r, &root);
	else if (mode == 3) {
		/* known-good text in the default format */
		static const char text[] = "a {\n x = 1\n b {\n  y = two words\n }\n}\nname = v\nc {\n}\n";
		bytes t = { (uint8_t *) text, sizeof(text) - 1, 0 };
		MPT_STRUCT(parser_context) c0 = MPT_PARSER_INIT;
		input_init(&in, &t, NONE);
		c0.src.getc = h_getc;
		c0.src.arg = &in;
		vf_at("mpt_parse_node");
		ret = mpt_parse_node(&root, &c0, 0);
		input_fini(&in);
		if (ret < 0 || !root.children) {
			vf_fail("model:parse_node:plain-text-rejected", "default-format text with two nested sections returned %d", ret);
		}
	}
	for (int round = 0; round < rounds; round++) {
		size_t err_at = pick_err(r, tc->doc.n);
		size_t nodes;
		input_init(&in, &tc->doc, err_at);
		if (round && vf_chance(r, 1, 2)) {
			/* context of the round before used again, like a long-lived mpt::parser does */
			ctx.src.arg = &in;
			ctx.src.line = 0;
			vf_count("state:context-reused", 1);
		}
		else ctx_setup(&ctx, &in, tc, r);
		snapshot(&before, &root);
		vf_fp_u64(err_at);
		vf_log("B: mpt_parse_node %s err_at=%zd mode=%d round=%d existing=%zu", tc->desc, (ssize_t) err_at, mode, round, walk(root.children, 0));
		vf_at("mpt_parse_node");
		vf_count("mpt_parse_node", 1);
		ret = mpt_parse_node(&root, &ctx, tc->f.null ? 0 : tc->fmtarg ? tc->fmtarg : tc->f.str);
		vf_log("B: = %d (%s) getc=%llu", ret, retname(ret), (unsigned long long) in.calls);
		vf_count("monitor:callback-bound-checks", in.calls);
		count_ret("B", ret);
		if (!tc->f.next) {
			VF_CHECK(ret < 0, "model:parse_node:unknown-family-accepted", "B %s: format type '%c' has no parser but %d was returned", tc->desc, tc->f.type, ret);
			VF_CHECK(!in.calls, "model:parse_node:unknown-family-read", "B %s: input read for unknown format type", tc->desc);
		}
		if (ret < 0) {
			snapshot(&after, &root);
			vf_count("monitor:snapshot-compared", 1);
			if (root.children) vf_count("monitor:snapshot-compared-nonempty", 1);
			if (before.n != after.n || memcmp(before.d, after.d, before.n)) {
				size_t i = 0;
				while (i < before.n && i < after.n && before.d[i] == after.d[i]) i++;
				vf_fail("model:parse_node:tree-changed-on-failure",
				        "B %s: returned %d (%s) but the serialised target tree differs at byte %zu (sizes %zu / %zu)",
				        tc->desc, ret, retname(ret), i, before.n, after.n);
			}
		} else {
			vf_at("mpt_node_data");
			nodes = walk(root.children, 0);
			vf_count("monitor:result-nodes-read", nodes);
			if (before.n > 64 && nodes) vf_count("state:merged-into-existing", 1);
		}
		input_fini(&in);
	}
	vf_at("mpt_node_clear");
	mpt_node_clear(&root);
}

/* D: mpt_node_parse() - stdio input, description and name limits as strings; replaces the children on success */
static void drive_nodeparse(const testcase *tc, vf_rng *r)
{
	MPT_STRUCT(node) root = MPT_NODE_INIT;
	static bytes before, after;
	uint8_t *text = vf_xalloc(tc->doc.n);
	char *limits = 0;
	size_t limlen = 0;
	FILE *fp;
	int ret, populated = vf_chance(r, 2, 3);
	int refuse = (int) vf_below(r, 8);      /* 0: limits string with a character that is no flag, 1: no file */
	const char *why = "";

	memcpy(text, tc->doc.d, tc->doc.n);
	fp = tc->doc.n ? fmemopen(text, tc->doc.n, "r") : fopen("/dev/null", "r");
	if (!fp) vf_inconclusive("cannot open memory stream of %zu bytes", tc->doc.n);
	if (populated) build_existing(r, &root);

	/* name limits in an exact-size block */
	if (refuse == 0) {
		static const char noflag[] = "xyzXQ17-_?.:gG";
		const char *base = tc->limits ? tc->limits : "ns";
		size_t n = strlen(base), pos = vf_below(r, (uint32_t) n + 1);
		limlen = n + 2;
		limits = vf_xalloc(limlen);
		memcpy(limits, base, pos);
		limits[pos] = noflag[vf_below(r, sizeof(noflag) - 1)];
		memcpy(limits + pos + 1, base + pos, n - pos + 1);
		why = "name limits with a character that is no flag";
		vf_count("fault:node_parse-bad-limits", 1);
	}
	else if (tc->limits) {
		limlen = strlen(tc->limits) + 1;
		limits = vf_xalloc(limlen);
		memcpy(limits, tc->limits, limlen);
	}
	if (refuse == 1) {
		why = "no file";
		vf_count("fault:node_parse-null-file", 1);
	}
	if (!tc->f.next) why = "format family without parser";

	snapshot(&before, &root);
	vf_fp_u64(0xD0 ^ ((uint64_t) populated << 8) ^ ((uint64_t) refuse << 12));
	vf_log("D: mpt_node_parse %s limits=%s file=%s existing=%zu", tc->desc, limits ? limits : "(default)", refuse == 1 ? "NULL" : "stream", walk(root.children, 0));
	vf_at("mpt_node_parse");
	vf_count("mpt_node_parse", 1);
	ret = mpt_node_parse(&root, refuse == 1 ? 0 : fp, tc->f.null ? 0 : tc->fmtarg ? tc->fmtarg : tc->f.str, limits, 0);
	vf_log("D: = %d (%s)", ret, retname(ret));
	count_ret("D", ret);
	if (!tc->f.next) {
		VF_CHECK(ret < 0, "model:node_parse:unknown-family-accepted", "D %s: format type '%c' has no parser but %d was returned", tc->desc, tc->f.type, ret);
	}
	if (refuse < 2) {
		VF_CHECK(ret < 0, "model:node_parse:bad-argument-accepted", "D %s: %s (limits \"%s\") but %d was returned", tc->desc, why, limits ? limits : "", ret);
	}
	if (ret < 0) {
		snapshot(&after, &root);
		vf_count("monitor:snapshot-compared", 1);
		if (root.children) vf_count("monitor:node_parse-snapshot-nonempty", 1);
		if ((refuse < 2 || !tc->f.next) && populated) vf_count("monitor:node_parse-refused-argument-on-populated-target", 1);
		if (before.n != after.n || memcmp(before.d, after.d, before.n)) {
			vf_fail("model:node_parse:tree-changed-on-failure", "D %s: returned %d (%s)%s%s but the serialised target tree differs (sizes %zu / %zu)",
			        tc->desc, ret, retname(ret), *why ? " for " : "", why, before.n, after.n);
		}
	} else {
		vf_at("mpt_node_data");
		vf_count("monitor:result-nodes-read", walk(root.children, 0));
		vf_count("outcome:node_parse-accepted", 1);
	}
	fclose(fp);
	vf_xfree(text, tc->doc.n);
	if (limits) vf_xfree(limits, limlen);
	vf_at("mpt_node_clear");
	mpt_node_clear(&root);
}

/* E: read error (getc returns -1) at a position of known kind in a well-formed text */
enum { ErrComment, ErrBetween, ErrName, ErrValue, ErrHeader, ErrTrailing, ErrClasses };
static const char *const errclass[ErrClasses] = { "comment", "between-elements", "name", "value", "section-header", "trailing-comment" };
typedef struct { size_t from, to; int cls, depth; } span;   /* error positions from..to (inclusive) */
typedef struct { bytes b; span sp[200]; size_t nsp; } errdoc;

static void ed_span(errdoc *d, size_t from, size_t to, int cls, int depth)
{
	if (to < from || d->nsp >= 200) return;
	d->sp[d->nsp].from = from; d->sp[d->nsp].to = to; d->sp[d->nsp].cls = cls; d->sp[d->nsp].depth = depth;
	d->nsp++;
}
static void ed_word(vf_rng *r, bytes *b, int min)
{
	for (int n = vf_range(r, min, 8); n > 0; n--) b_put(b, 'a' + (int) vf_below(r, 26));
}
static void ed_gap(vf_rng *r, errdoc *d, int depth)
{
	/* blanks between elements, sometimes a comment line */
	size_t a = d->b.n;
	b_put(&d->b, ' ');
	if (vf_chance(r, 1, 2)) b_put(&d->b, '\n');
	if (vf_chance(r, 1, 3)) b_put(&d->b, '\t');
	ed_span(d, a, d->b.n, ErrBetween, depth);
	if (vf_chance(r, 1, 2)) {
		size_t c = d->b.n;
		b_put(&d->b, '#');
		ed_word(r, &d->b, 2);
		b_put(&d->b, ' ');
		ed_word(r, &d->b, 1);
		ed_span(d, c + 1, d->b.n, ErrComment, depth);
		b_put(&d->b, '\n');
		a = d->b.n;
		b_put(&d->b, ' ');
		ed_span(d, a, d->b.n, ErrBetween, depth);
	}
}
static void ed_option(vf_rng *r, errdoc *d, int oend, int depth)
{
	size_t a = d->b.n;
	ed_word(r, &d->b, 3);
	ed_span(d, a + 1, d->b.n - 1, ErrName, depth);
	b_add(&d->b, " = ", 3);
	a = d->b.n;
	ed_word(r, &d->b, 3);
	if (vf_chance(r, 1, 2)) { b_put(&d->b, ' '); ed_word(r, &d->b, 2); }
	ed_span(d, a + 1, d->b.n - 1, ErrValue, depth);
	if (oend) b_put(&d->b, ';');
	else {
		if (vf_chance(r, 1, 3)) {
			size_t c;
			b_put(&d->b, ' ');
			c = d->b.n;
			b_put(&d->b, '#');
			ed_word(r, &d->b, 3);
			ed_span(d, c + 1, d->b.n, ErrTrailing, depth);
		}
		b_put(&d->b, '\n');
	}
}
static void ed_items(vf_rng *r, errdoc *d, int family, int oend, int depth)
{
	int n = vf_range(r, 1, 4);
	while (n-- > 0) {
		ed_gap(r, d, depth);
		if (family != '_' && depth < 2 && vf_chance(r, 1, 3) && !(family == ' ' && depth)) {
			size_t a;
			switch (family) {
			case '*':
				a = d->b.n;
				ed_word(r, &d->b, 3);
				ed_span(d, a + 1, d->b.n - 1, ErrHeader, depth);
				b_add(&d->b, " {", 2);
				ed_items(r, d, family, oend, depth + 1);
				ed_gap(r, d, depth + 1);
				b_put(&d->b, '}');
				break;
			case 'x':
				b_put(&d->b, '{');
				a = d->b.n;
				ed_word(r, &d->b, 3);
				ed_span(d, a + 1, d->b.n - 1, ErrHeader, depth);
				b_put(&d->b, '\n');
				ed_items(r, d, family, oend, depth + 1);
				ed_gap(r, d, depth + 1);
				b_put(&d->b, '}');
				break;
			default:
				b_put(&d->b, '[');
				a = d->b.n;
				ed_word(r, &d->b, 3);
				ed_span(d, a + 1, d->b.n, ErrHeader, depth);
				b_put(&d->b, ']');
				ed_items(r, d, family, oend, 1);
			}
		}
		else ed_option(r, d, oend, depth);
	}
}
static void drive_errpos(vf_rng *r)
{
	static const struct { const char *fmt; int family, oend; } fm[] = {
		{ "{*} =;#", '*', 1 }, { "{*} = #", '*', 0 }, { "{x} =;#", 'x', 1 }, { "{x} = #", 'x', 0 },
		{ "[ ] =;#", ' ', 1 }, { "[ ] = #", ' ', 0 }, { "<_> =;#", '_', 1 }, { "<_> = #", '_', 0 }
	};
	static const char *const famname[] = { "prefix", "enclosed", "separated", "options" };
	static char cnt_end[ErrClasses][4][56], cnt_err[ErrClasses][4][56];
	static bytes before, after;
	uint32_t k = vf_below(r, 8);
	int family = fm[k].family, oend = fm[k].oend, fi = family == '*' ? 0 : family == 'x' ? 1 : family == ' ' ? 2 : 3;
	errdoc *d = calloc(1, sizeof(*d));
	MPT_STRUCT(parser_context) ctx;
	MPT_STRUCT(node) root = MPT_NODE_INIT;
	testcase tc;
	input in;
	const span *sp;
	size_t pos;
	int ret, must_fail;

	if (!d) vf_inconclusive("out of memory");
	ed_items(r, d, family, oend, 0);
	if (vf_chance(r, 1, 2)) ed_gap(r, d, 0);
	if (!d->nsp) { free(d->b.d); free(d); return; }
	sp = &d->sp[vf_below(r, (uint32_t) d->nsp)];
	pos = sp->from + vf_below(r, (uint32_t) (sp->to - sp->from) + 1);
	if (pos > d->b.n) pos = d->b.n;
	vf_fp_u64(0xE0 ^ ((uint64_t) k << 8) ^ ((uint64_t) pos << 16));
	vf_fp(d->b.d, d->b.n);

	memset(&tc, 0, sizeof(tc));
	tc.sect = tc.opt = 0xff;
	/* the text itself is accepted */
	input_init(&in, &d->b, NONE);
	ctx_setup(&ctx, &in, &tc, r);
	vf_at("mpt_parse_node");
	ret = mpt_parse_node(&root, &ctx, fm[k].fmt);
	input_fini(&in);
	if (ret < 0) {
		vf_fail("model:getc-error:plain-text-rejected", "E fmt=\"%s\": generated text rejected (%d) without any read error: %.*s", fm[k].fmt, ret, (int) d->b.n, (const char *) d->b.d);
	}
	/* now with the error; target keeps the tree of the first parse */
	snapshot(&before, &root);
	input_init(&in, &d->b, pos);
	ctx_setup(&ctx, &in, &tc, r);
	vf_log("E: fmt=\"%s\" read error at %zu (%s, depth %d) of: %.*s", fm[k].fmt, pos, errclass[sp->cls], sp->depth, (int) d->b.n, (const char *) d->b.d);
	vf_at("mpt_parse_node");
	vf_count("mpt_parse_node", 1);
	ret = mpt_parse_node(&root, &ctx, fm[k].fmt);
	vf_log("E: = %d (%s) getc=%llu", ret, retname(ret), (unsigned long long) in.calls);
	/* where the parser functions tell a read error from the end of input (see notes/C08.md) */
	if (family != '*') {
		/* enclosed, separated, options: the element parsers tell -1 from -2; an error swallowed
		 * inside a value comes back at the next element because the reader keeps reporting it */
		must_fail = 1;
	} else {
		/* prefix: the element parser tells -1 from -2 as the others do (since the repair of the top level case);
		 * an error swallowed inside a line-terminated value or trailing comment resurfaces at the next element */
		must_fail = 1;
	}
	if (!cnt_end[sp->cls][fi][0]) {
		snprintf(cnt_end[sp->cls][fi], sizeof(cnt_end[0][0]), "getc-error-as-end:%s:%s", errclass[sp->cls], famname[fi]);
		snprintf(cnt_err[sp->cls][fi], sizeof(cnt_err[0][0]), "getc-error-reported:%s:%s", errclass[sp->cls], famname[fi]);
	}
	vf_count(ret < 0 ? cnt_err[sp->cls][fi] : cnt_end[sp->cls][fi], 1);
	if (must_fail) {
		char key[80];
		snprintf(key, sizeof(key), "model:getc-error:reported-as-success:%s", errclass[sp->cls]);
		VF_CHECK(ret < 0, key, "E fmt=\"%s\": getc returned -1 at byte %zu (%s, depth %d) but the parse returned %d; text: %.*s",
		         fm[k].fmt, pos, errclass[sp->cls], sp->depth, ret, (int) d->b.n, (const char *) d->b.d);
		vf_count("monitor:getc-error-must-fail", 1);
	}
	if (ret < 0) {
		snapshot(&after, &root);
		if (before.n != after.n || memcmp(before.d, after.d, before.n)) {
			vf_fail("model:getc-error:tree-changed-on-failure", "E fmt=\"%s\": read error at %zu (%s): returned %d but the target tree differs", fm[k].fmt, pos, errclass[sp->cls], ret);
		}
		vf_count("monitor:getc-error-target-unchanged", 1);
	}
	input_fini(&in);
	mpt_node_clear(&root);
	free(d->b.d);
	free(d);
}

/* ------------------------------------------------------------------ cases */
uint64_t vf_cases(void) { return vf_thorough ? 3000000 : 240000; }

void vf_case(uint64_t idx, vf_rng *r)
{
	testcase tc;
	c08_case c;
	const char *fl;
	char hx[120];
	int longs;
	uint32_t kind;

	memset(&tc, 0, sizeof(tc));
	c08_case_make(&c, r);
	memcpy(tc.f.str, c.fmt, sizeof(tc.f.str));
	tc.f.null = c.fmt_null;
	tc.f.type = c.type;
	memcpy(&tc.f.pf, c.pf, sizeof(tc.f.pf));
	vf_at("mpt_parse_next_fcn");
	tc.f.next = mpt_parse_next_fcn(tc.f.type);
	tc.sect = c.sect;
	tc.opt = c.opt;
	fl = c.flags;
	tc.fmtarg = c.desc;
	tc.limits = c.sect == 0xff ? 0 : c.flags;
	tc.doc.d = c.doc;
	tc.doc.n = c.len;
	kind = c.kind == 0 ? 0 : c.kind == 1 ? 45 : 85;
	longs = c.longs;
	tc.pristine = kind < 45;
	if (longs) vf_count("doc:with-long-token", 1);
	vf_count(kind < 45 ? "doc:grammar" : kind < 85 ? "doc:grammar+mutation" : "doc:random-bytes", 1);
	switch (tc.f.type) {
	case '*': vf_count("family:prefix", 1); break;
	case 'x': vf_count(tc.f.pf.sstart == tc.f.pf.send ? "family:enclosed-same-char" : "family:enclosed", 1); break;
	case ' ': vf_count("family:separated", 1); break;
	case '_': vf_count("family:options-only", 1); break;
	default: vf_count("family:unknown-type", 1);
	}

	snprintf(tc.desc, sizeof(tc.desc), "fmt=%s%s%s flags=%s doc[%zu]=%s",
	         tc.f.null ? "" : "\"", tc.f.null ? "NULL" : tc.f.str, tc.f.null ? "" : "\"", fl, tc.doc.n,
	         vf_hex(hx, sizeof(hx), tc.doc.d, tc.doc.n));
	vf_fp(tc.f.str, strlen(tc.f.str) + 1);
	vf_fp_u64(((uint64_t) tc.sect << 16) | tc.opt | ((uint64_t) tc.f.null << 40));
	vf_fp(tc.doc.d, tc.doc.n);
	if (vf_logging) {
		vf_log("case %llu: %s", (unsigned long long) idx, tc.desc);
		fprintf(stderr, "---- document\n");
		fwrite(tc.doc.d, 1, tc.doc.n, stderr);
		fprintf(stderr, "\n----\n");
	}

	if (tc.f.next) {
		drive_config(&tc, r);
		if (vf_chance(r, 1, 4)) drive_loop(&tc, r);
	}
	if (!tc.f.next || vf_chance(r, 3, 5)) drive_node(&tc, r);
	if (vf_chance(r, 1, 4)) drive_nodeparse(&tc, r);
	if (vf_chance(r, 1, 2)) drive_errpos(r);

	vf_sample("%s", tc.desc);
	c08_case_free(&c);
}
