/*
 * C08 (C++ leg): mpt::config_parser::set_format() / parser::read() on the
 * documents of the C leg's generator (harness/c08_gen.c).
 *
 * parser::read() parses into a temporary node and replaces the children of
 * the target only on success.  Monitors: callback bound of the harness getc,
 * target tree unchanged (deep serialisation) after a negative return,
 * set_format() result, ASan/UBSan/LSan by the runner.
 *
 * Second driver: mpt_parse_config() with a handler that keeps copies of the
 * event path (mpt::path copy constructor: the copy shares the parser's
 * character buffer) for a PRNG-chosen subset of events, together with the
 * path and value bytes it saw.  Every copy is verified again at each later
 * event and after the parse, then released; the stack model of open sections
 * (c08_rec.c) and the callback bound run as in the C leg.
 *
 * Third driver: mpt::layout, the consumer of the parser inside mpt++ that
 * owns a target (open(file) / load(): config_parser -> parser::read ->
 * mpt_parse_config, then the items of the layout are replaced).  Histories of
 * 3..5 loads of generated layout files - good ones and ones of every failure
 * class - on one layout object: after a load whose text the parser rejects
 * (decided by an independent config_parser::read of the same text) load() is
 * false and items, graphs, alias and font are what they were; after a good
 * generated file load() is true and the items are the ones of the file.
 */
#include <cstdlib>
#include <cstring>
#include <vector>
#include <sys/uio.h>

#include "node.h"
#include "config.h"
#include "types.h"
#include "meta.h"
#include "parse.h"
#include "layout.h"

#include <string>
#include <unistd.h>

#include "c08_gen.h"
#include "c08_rec.h"
#include "vf.h"

using namespace mpt;

const char *vf_name = "c08_cxx";

struct feed {
	uint8_t *d;
	size_t n, pos, err_at;
	uint64_t calls, saves, after_end, bound;
};
static const size_t NONE = (size_t) -1;

static int h_getc(void *arg)
{
	feed *in = static_cast<feed *>(arg);
	in->calls++;
	if (in->calls + in->saves > in->bound) {
		vf_fail("model:termination:callback-bound", "%llu getc callbacks for an input of %zu bytes (bound %llu)",
		        (unsigned long long) in->calls, in->n, (unsigned long long) in->bound);
	}
	if (in->err_at != NONE && in->pos >= in->err_at) { in->after_end++; return -1; }
	if (in->pos >= in->n) { in->after_end++; return -2; }
	return in->d[in->pos++];
}

class P : public config_parser
{
public:
	~P()
	{
		/* the base class would fclose() the reader argument */
		_d.src.getc = 0;
		_d.src.arg = 0;
	}
	void source(int (*g)(void *), void *a)
	{
		_d.src.getc = g;
		_d.src.arg = a;
		_d.src.line = 0;
	}
	void flags(uint16_t s, uint16_t o)
	{
		_d.name.sect = s;
		_d.name.opt = o;
	}
	size_t lines() const { return _d.src.line; }
};

typedef std::vector<uint8_t> blob;
static void put(blob &b, const void *p, size_t n)
{
	const uint8_t *s = static_cast<const uint8_t *>(p);
	b.insert(b.end(), s, s + n);
}
static void snap(blob &b, const node *n)
{
	const void *p[6] = { n, n->_meta, n->next, n->prev, n->parent, n->children };
	put(b, p, sizeof(p));
	const char *id = mpt_node_ident(n);
	size_t idlen = id ? strlen(id) + 1 : 0;
	put(b, &idlen, sizeof(idlen));
	if (id) put(b, id, idlen);
	if (n->_meta) {
		size_t len = 0;
		const char *d = mpt_node_data(n, &len);
		put(b, &len, sizeof(len));
		if (d) put(b, d, len);
	}
	for (const node *c = n->children; c; c = c->next) snap(b, c);
	b.push_back(0xff);
}
static size_t walk(const node *n)
{
	size_t count = 0;
	for (; n; n = n->next) {
		volatile uint8_t sink = 0;
		size_t len = 0;
		const uint8_t *d;
		if ((d = reinterpret_cast<const uint8_t *>(mpt_node_ident(n)))) {
			for (size_t i = 0; d[i]; i++) sink ^= d[i];
		}
		if (n->_meta && (d = reinterpret_cast<const uint8_t *>(mpt_node_data(n, &len)))) {
			for (size_t i = 0; i < len; i++) sink ^= d[i];
		}
		(void) sink;
		count += 1 + walk(n->children);
	}
	return count;
}
static node *mk_node(node *parent, const char *name, const char *text)
{
	size_t len = name ? strlen(name) : 0;
	node *n = mpt_node_new(len + 1);
	if (!n) vf_inconclusive("mpt_node_new failed");
	if (name && !mpt_identifier_set(&n->ident, name, (int) len)) vf_inconclusive("mpt_identifier_set failed");
	if (text) {
		struct iovec vec;
		value val;
		vec.iov_base = const_cast<char *>(text);
		vec.iov_len = strlen(text);
		val.set(MPT_type_toVector('c'), &vec);
		if (!(n->_meta = mpt_meta_new(&val))) vf_inconclusive("mpt_meta_new failed for a short text");
	}
	mpt_gnode_insert(parent, 0, n);
	return n;
}

/* ------------------------------------------------- retained event paths */
struct kept {
	kept(const path &p, const value *v, uint64_t ev, int code) : copy(p), event(ev), curr(code)
	{
		span<const char> pv = p.value();
		const uint8_t *pb = reinterpret_cast<const uint8_t *>(pv.begin());
		if (pv.size()) pbytes.assign(pb, pb + pv.size());
		if (v) {
			const struct iovec *io = static_cast<const struct iovec *>(v->data());
			const uint8_t *b = static_cast<const uint8_t *>(io->iov_base);
			vbytes.assign(b, b + io->iov_len);
		}
	}
	path copy;                      /* shares the buffer of the parser's path */
	blob pbytes, vbytes;            /* what the handler saw */
	uint64_t event;
	int curr;
};
struct keeper {
	c08_recorder rec;
	std::vector<kept *> held;
	vf_rng *r;
	feed *in;
	const char *desc;
	uint64_t verified;
	uint64_t kinds[8];
};
static void keep_tick(void *arg, const char *)
{
	feed *in = static_cast<feed *>(arg);
	in->saves++;
	if (in->calls + in->saves > in->bound) {
		vf_fail("model:termination:callback-bound", "%llu getc + %llu save callbacks for an input of %zu bytes (bound %llu)",
		        (unsigned long long) in->calls, (unsigned long long) in->saves, in->n, (unsigned long long) in->bound);
	}
}
static void keep_verify(keeper *k, const char *when)
{
	char h1[140], h2[140];
	for (size_t i = 0; i < k->held.size(); i++) {
		const kept *e = k->held[i];
		span<const char> pv = e->copy.value(), post = e->copy.data();
		const uint8_t *now = reinterpret_cast<const uint8_t *>(pv.begin());
		size_t len = pv.size();
		VF_CHECK(len == e->pbytes.size(), "model:retained-path:length", "%s: copy of the path of event %llu (code %x) has length %zu, was %zu (%s)",
		         k->desc, (unsigned long long) e->event, e->curr, len, e->pbytes.size(), when);
		if (len && memcmp(now, e->pbytes.data(), len)) {
			vf_fail("model:retained-path:changed", "%s: copy of the path of event %llu (code %x) taken as %s is now %s (%s, %llu events seen)",
			        k->desc, (unsigned long long) e->event, e->curr, vf_hex(h1, sizeof(h1), e->pbytes.data(), len),
			        vf_hex(h2, sizeof(h2), now, len), when, (unsigned long long) k->rec.count);
		}
		if (e->vbytes.size()) {
			const uint8_t *vn = reinterpret_cast<const uint8_t *>(post.begin());
			size_t vl = (size_t) post.size() < e->vbytes.size() ? (size_t) post.size() : e->vbytes.size();
			if (vl != e->vbytes.size() || memcmp(vn, e->vbytes.data(), vl)) {
				vf_fail("model:retained-path:value-changed", "%s: value behind the path copy of event %llu (code %x) taken as [%zu]%s is now [%zu]%s (%s)",
				        k->desc, (unsigned long long) e->event, e->curr, e->vbytes.size(), vf_hex(h1, sizeof(h1), e->vbytes.data(), e->vbytes.size()),
				        post.size(), vf_hex(h2, sizeof(h2), vn, vl), when);
			}
		}
		k->verified++;
	}
}
static int keep_save(void *arg, const path *p, const value *v, int prev, int curr)
{
	keeper *k = static_cast<keeper *>(arg);
	/* nothing the parser did since may have touched what copies refer to */
	keep_verify(k, "at a later event");
	if (k->held.size() < 48 && vf_chance(k->r, 2, 5)) {
		k->held.push_back(new kept(*p, v, k->rec.count, curr));
		if (curr >= 0 && curr < 8) k->kinds[curr]++;
	}
	return c08_rec_save(&k->rec, p, v, prev, curr);
}
static void drive_keep(const c08_case &c, vf_rng *r, const char *desc)
{
	parser_context ctx;
	parser_format pf;
	input_parser_t next;
	keeper k;
	feed in;
	int ret;

	memcpy(&pf, c.pf, sizeof(pf));
	vf_at("mpt_parse_next_fcn");
	if (!(next = mpt_parse_next_fcn(c.type))) return;

	in.d = static_cast<uint8_t *>(vf_xalloc(c.len));
	memcpy(in.d, c.doc, c.len);
	in.n = c.len; in.pos = 0; in.calls = in.saves = in.after_end = 0;
	in.err_at = vf_chance(r, 1, 8) ? vf_below(r, (uint32_t) c.len + 1) : NONE;
	in.bound = 8 * ((uint64_t) c.len + 8);

	c08_rec_init(&k.rec, 0, vf_chance(r, 1, 12) ? (long) vf_below(r, 8) : -1);
	k.rec.tick = keep_tick;
	k.rec.tick_arg = &in;
	k.r = r; k.in = &in; k.desc = desc; k.verified = 0;
	memset(k.kinds, 0, sizeof(k.kinds));

	ctx.src.getc = h_getc;
	ctx.src.arg = &in;
	ctx.src.line = 0;
	if (c.sect != 0xff) { ctx.name.sect = c.sect; ctx.name.opt = c.opt; }
	ctx.prev = parser_context::Section;
	vf_fp_u64(0x4b ^ ((uint64_t) in.err_at << 8) ^ ((uint64_t) (k.rec.fail_at + 1) << 48));
	vf_log("K: mpt_parse_config with retained paths err_at=%zd fail_at=%ld", (ssize_t) in.err_at, k.rec.fail_at);
	vf_at("mpt_parse_config");
	vf_count("mpt_parse_config", 1);
	ret = mpt_parse_config(next, &pf, &ctx, keep_save, &k);
	vf_log("K: = %d events=%llu retained=%zu", ret, (unsigned long long) k.rec.count, k.held.size());
	/* the parser has released its path; copies are on their own now */
	keep_verify(&k, "after the parse");
	vf_count("monitor:callback-bound-checks", in.calls + in.saves);
	vf_count("monitor:retained-path-verifications", k.verified);
	vf_count("events:seen-by-retaining-handler", k.rec.count);
	vf_count("events:path-retained", k.held.size());
	vf_count("retained:section", k.kinds[1]);
	vf_count("retained:sectend", k.kinds[2]);
	vf_count("retained:option", k.kinds[3] + k.kinds[7]);
	vf_count("retained:data", k.kinds[4]);
	if (k.held.size() >= 2) vf_count("state:parse-with-2+-retained-paths", 1);
	c08_rec_verdict(&k.rec, c.type, pf.sstart == pf.send, ret, "K", desc);
	if (k.held.size() >= 2) vf_nontrivial();
	/* release in PRNG order: last owner frees the buffer */
	while (!k.held.empty()) {
		size_t i = vf_below(r, (uint32_t) k.held.size());
		delete k.held[i];
		k.held.erase(k.held.begin() + (long) i);
		if (!k.held.empty() && vf_chance(r, 1, 4)) keep_verify(&k, "while copies are released");
	}
	c08_rec_fini(&k.rec);
	vf_xfree(in.d, in.n);
}

/* ------------------------------------------------------------ mpt::layout */
struct laydoc {
	std::string text;
	std::vector<std::string> items;   /* names of the top-level items, in order */
	size_t graphs;
	const char *cls;                  /* "good" or the way it was broken */
	const char *cnt_rej, *cnt_acc;    /* counters of the class */
	bool generated_good;
};
static void lay_good(vf_rng *r, laydoc &d, int serial)
{
	static const char *const types[] = { "graph", "world", "text", "line", "axis", "xaxis", "yaxis" };
	static const char *const props[] = { "title = X", "color = red", "pos = 0.25 0.25", "value = hello world", "x1 = 0", "width = 2", "exp = 3" };
	char buf[96];
	int n = vf_range(r, 1, 6);
	d.text.clear(); d.items.clear(); d.graphs = 0;
	d.cls = "good"; d.generated_good = true;
	d.cnt_rej = "layout-text:good:rejected"; d.cnt_acc = "layout-text:good:accepted";
	if (vf_chance(r, 1, 2)) { snprintf(buf, sizeof(buf), "name = lay%d;\n", serial); d.text += buf; }
	if (vf_chance(r, 1, 4)) d.text += "# a comment line\n";
	int longpos = vf_chance(r, 1, 4) ? (int) vf_below(r, (uint32_t) n + 1) : -1;
	for (int i = 0; i <= n; i++) {
		if (i == longpos) {
			/* top-level option with a value of 255..600 bytes: a reference counted text object, added to the group as item */
			int len = vf_range(r, 255, 600);
			snprintf(buf, sizeof(buf), "k%d_%d", serial, i);
			d.items.push_back(buf);
			d.text += buf; d.text += " = ";
			for (int k = 0; k < len; k++) d.text += (k && k + 1 < len && !(k % 17)) ? ' ' : "abcdefghijklmnopqrstuvwxyz0123456789"[vf_below(r, 36)];
			d.text += ";\n";
			vf_count("layout:top-level-long-option", 1);
		}
		if (i == n) break;
		const char *t = types[vf_below(r, 7)];
		snprintf(buf, sizeof(buf), "%c%d_%d", t[0], serial, i);
		d.items.push_back(buf);
		if (!strcmp(t, "graph")) d.graphs++;
		d.text += t; d.text += ' '; d.text += buf;
		d.text += vf_chance(r, 1, 2) ? " {\n" : "{";
		for (int k = vf_range(r, 0, 3); k > 0; k--) {
			d.text += vf_chance(r, 1, 2) ? "    " : " ";
			d.text += props[vf_below(r, 7)];
			d.text += vf_chance(r, 1, 3) ? " ;\n" : ";\n";
		}
		if (!strcmp(t, "graph") && vf_chance(r, 1, 2)) {
			snprintf(buf, sizeof(buf), "    line l%d_%d {\n        x1 = 0;\n    }\n", serial, i);
			d.text += buf;
		}
		d.text += vf_chance(r, 1, 2) ? "}\n" : "} ";
	}
}
static void lay_break(vf_rng *r, laydoc &d, const c08_case &c)
{
	size_t pos;
	d.generated_good = false;
	switch (vf_below(r, 9)) {
	case 0:
		d.cls = "unclosed section"; d.cnt_rej = "layout-text:unclosed-section:rejected"; d.cnt_acc = "layout-text:unclosed-section:accepted";
		if ((pos = d.text.rfind('}')) != std::string::npos) d.text.erase(pos);
		break;
	case 1:
		d.cls = "stray section end"; d.cnt_rej = "layout-text:stray-section-end:rejected"; d.cnt_acc = "layout-text:stray-section-end:accepted";
		d.text += "}\n";
		break;
	case 2:
		d.cls = "unterminated option"; d.cnt_rej = "layout-text:unterminated-option:rejected"; d.cnt_acc = "layout-text:unterminated-option:accepted";
		d.text += "tail = 1";
		break;
	case 3:
		d.cls = "option name starts with digit"; d.cnt_rej = "layout-text:digit-option-name:rejected"; d.cnt_acc = "layout-text:digit-option-name:accepted";
		if ((pos = d.text.find('{')) != std::string::npos) d.text.insert(pos + 1, " 9x = 1; ");
		else d.text += "9x = 1;";
		break;
	case 4:
		d.cls = "section without name"; d.cnt_rej = "layout-text:nameless-section:rejected"; d.cnt_acc = "layout-text:nameless-section:accepted";
		d.text.insert(vf_chance(r, 1, 2) ? 0 : d.text.size(), "{ a = 1; }\n");
		break;
	case 5:
		d.cls = "unterminated quote"; d.cnt_rej = "layout-text:unterminated-quote:rejected"; d.cnt_acc = "layout-text:unterminated-quote:accepted";
		d.text += "v = \"abc;\n";
		break;
	case 6:
		d.cls = "special character in option name"; d.cnt_rej = "layout-text:special-option-name:rejected"; d.cnt_acc = "layout-text:special-option-name:accepted";
		d.text += "a-b = 1;\n";
		break;
	case 7:
		d.cls = "cut"; d.cnt_rej = "layout-text:cut:rejected"; d.cnt_acc = "layout-text:cut:accepted";
		d.text.erase(vf_below(r, (uint32_t) d.text.size() + 1));
		break;
	default:
		d.cls = "generator document"; d.cnt_rej = "layout-text:generator-document:rejected"; d.cnt_acc = "layout-text:generator-document:accepted";
		d.text.assign(reinterpret_cast<const char *>(c.doc), c.len > 4000 ? 4000 : c.len);
	}
}
struct laysnap {
	std::vector<std::string> names;
	std::vector<const void *> inst;
	std::vector<std::string> gnames;
	std::vector<const void *> ginst;
	std::string alias, font;
	bool operator==(const laysnap &o) const
	{
		return names == o.names && inst == o.inst && gnames == o.gnames && ginst == o.ginst && alias == o.alias && font == o.font;
	}
};
static void lay_snap(const layout &lay, laysnap &s)
{
	s.names.clear(); s.inst.clear(); s.gnames.clear(); s.ginst.clear();
	for (const auto &it : lay.items()) {
		const char *n = it.name();
		s.names.push_back(n ? n : "");
		s.inst.push_back(it.instance());
	}
	for (const auto &it : lay.graphs()) {
		const char *n = it.name();
		s.gnames.push_back(n ? n : "");
		s.ginst.push_back(it.instance());
	}
	s.alias = lay.alias() ? lay.alias() : "(none)";
	s.font = lay.font() ? lay.font() : "(none)";
}
static std::string join(const std::vector<std::string> &v)
{
	std::string out;
	for (size_t i = 0; i < v.size(); i++) { if (i) out += ' '; out += v[i]; }
	return out;
}
static char layfile[64];

static void drive_layout(const c08_case &c, vf_rng *r)
{
	layout lay;
	int steps = vf_range(r, 3, 5);
	int pattern = 0;                /* progress through good - rejected - good */
	bool populated = false;
	char esc[400];

	if (!layfile[0]) snprintf(layfile, sizeof(layfile), "c08lay-%ld.lay", (long) getpid());
	vf_count("layout:histories", 1);
	for (int step = 0; step < steps; step++) {
		laydoc d;
		laysnap before, after;
		feed in;
		int predicted;
		bool ok;
		FILE *fp;

		lay_good(r, d, step + 1);
		if (step ? vf_chance(r, 1, 2) : vf_chance(r, 1, 5)) lay_break(r, d, c);
		vf_fp(d.text.data(), d.text.size());

		/* does the parser take the text?  independent read with the layout's format */
		{
			P p;
			node tmp;
			if (!p.set_format(layout::file_format())) vf_inconclusive("layout file format refused");
			in.d = static_cast<uint8_t *>(vf_xalloc(d.text.size()));
			memcpy(in.d, d.text.data(), d.text.size());
			in.n = d.text.size(); in.pos = 0; in.calls = in.saves = in.after_end = 0;
			in.err_at = NONE;
			in.bound = 8 * ((uint64_t) in.n + 8);
			p.source(h_getc, &in);
			vf_at("parser::read");
			predicted = p.read(tmp, 0);
			vf_xfree(in.d, in.n);
		}
		if (!(fp = fopen(layfile, "wb")) || fwrite(d.text.data(), 1, d.text.size(), fp) != d.text.size() || fclose(fp)) {
			vf_inconclusive("cannot write %s", layfile);
		}
		size_t o = 0;
		for (size_t i = 0; i < d.text.size() && o + 5 < sizeof(esc); i++) {
			unsigned char ch = (unsigned char) d.text[i];
			if (ch == '\n') { esc[o++] = '\\'; esc[o++] = 'n'; }
			else if (ch < 0x20 || ch >= 0x7f) o += (size_t) snprintf(esc + o, 5, "\\x%02x", ch);
			else esc[o++] = (char) ch;
		}
		esc[o] = 0;

		vf_count(predicted < 0 ? d.cnt_rej : d.cnt_acc, 1);
		lay_snap(lay, before);
		vf_at("layout::open");
		vf_count("layout::open", 1);
		ok = lay.open(layfile);
		VF_CHECK(ok, "model:layout_load:open-failed", "step %d: layout::open(%s) failed", step + 1, layfile);
		vf_log("L: step %d (%s, parser says %d), %zu items before: %s", step + 1, d.cls, predicted, before.names.size(), esc);
		vf_at("layout::load");
		vf_count("layout::load", 1);
		ok = lay.load(0);
		lay_snap(lay, after);
		vf_log("L: = %d, %zu items, %zu graphs", (int) ok, after.names.size(), after.gnames.size());

		if (predicted < 0) {
			vf_count("layout:load-of-rejected-text", 1);
			if (populated) vf_count("layout:rejected-text-on-populated-layout", 1);
			VF_CHECK(!ok, "model:layout_load:parse-failure-accepted", "step %d (%s): the parser rejects the text (%d) but load() returned true; text: %s",
			         step + 1, d.cls, predicted, esc);
			if (!(before == after)) {
				vf_fail("model:layout_load:changed-on-parse-failure",
				        "step %d (%s): parser rejects the text (%d), load() returned false, but the layout changed: items [%s] -> [%s], graphs %zu -> %zu, alias %s -> %s; text: %s",
				        step + 1, d.cls, predicted, join(before.names).c_str(), join(after.names).c_str(), before.gnames.size(), after.gnames.size(),
				        before.alias.c_str(), after.alias.c_str(), esc);
			}
			vf_count("monitor:layout-unchanged-after-rejected-text", 1);
			if (pattern == 1) pattern = 2;
		}
		else if (d.generated_good) {
			VF_CHECK(ok, "model:layout_load:good-file-refused", "step %d: load() returned false for a generated layout file the parser accepts; text: %s", step + 1, esc);
			if (after.names != d.items || after.gnames.size() != d.graphs) {
				vf_fail("model:layout_load:items-after-good-load", "step %d: after a good load the layout holds items [%s] and %zu graphs, the file has [%s] and %zu graphs; text: %s",
				        step + 1, join(after.names).c_str(), after.gnames.size(), join(d.items).c_str(), d.graphs, esc);
			}
			vf_count("monitor:layout-items-after-good-load", 1);
			populated = !after.names.empty();
			if (pattern == 0) pattern = 1;
			else if (pattern == 2) { pattern = 3; vf_count("layout:history-good-rejected-good", 1); }
		}
		else {
			/* broken on purpose but accepted by the parser: nothing stated about the result */
			vf_count("layout:accepted-broken-text", 1);
			populated = !after.names.empty();
		}
	}
	unlink(layfile);
	vf_nontrivial();
}

uint64_t vf_cases(void) { return vf_thorough ? 600000 : 60000; }

void vf_case(uint64_t, vf_rng *r)
{
	static const char *const names[] = { "a", "b", "c", "ab", "x", "y", "name", "n1", "sect", "opt", "k", "zz" };
	static const char *const texts[] = { 0, 0, "1", "old value", "" };
	c08_case c;
	char hx[120], desc[220];

	c08_case_make(&c, r);
	snprintf(desc, sizeof(desc), "fmt=%s%s%s flags=%s doc[%zu]=%s", c.fmt_null ? "" : "\"", c.fmt_null ? "NULL" : c.fmt,
	         c.fmt_null ? "" : "\"", c.flags, c.len, vf_hex(hx, sizeof(hx), c.doc, c.len));
	vf_fp(c.fmt, strlen(c.fmt) + 1);
	vf_fp_u64(((uint64_t) c.sect << 16) | c.opt | ((uint64_t) c.fmt_null << 40));
	vf_fp(c.doc, c.len);
	if (vf_logging) {
		vf_log("case: %s", desc);
		fwrite(c.doc, 1, c.len, stderr);
		fprintf(stderr, "\n----\n");
	}
	{
		P p;
		node to;
		feed in;
		blob before, after;
		int rounds = 1 + vf_chance(r, 1, 3);
		bool ok;

		vf_at("config_parser::set_format");
		vf_count("config_parser::set_format", 1);
		ok = p.set_format(c.fmt_null ? 0 : c.desc);
		VF_CHECK(ok == (c.known != 0), "model:set_format:result", "%s: set_format returned %d, family '%c' is %s",
		         desc, (int) ok, c.type, c.known ? "known" : "unknown");
		vf_count(ok ? "set_format:accepted" : "set_format:refused", 1);
		if (c.sect != 0xff) p.flags(c.sect, c.opt);
		else vf_count("flags:config_parser-defaults", 1);

		if (vf_chance(r, 2, 3)) {
			for (int i = vf_range(r, 1, 4); i > 0; i--) {
				node *n = mk_node(&to, vf_chance(r, 1, 8) ? 0 : names[vf_below(r, 12)], texts[vf_below(r, 5)]);
				for (int k = vf_range(r, 0, 3); k > 0; k--) mk_node(n, names[vf_below(r, 12)], texts[vf_below(r, 5)]);
			}
		}
		for (int round = 0; round < rounds; round++) {
			int ret;
			in.d = static_cast<uint8_t *>(vf_xalloc(c.len));
			memcpy(in.d, c.doc, c.len);
			in.n = c.len; in.pos = 0; in.calls = in.saves = in.after_end = 0;
			in.err_at = vf_chance(r, 1, 6) ? vf_below(r, (uint32_t) c.len + 1) : NONE;
			in.bound = 8 * ((uint64_t) c.len + 8);
			p.source(h_getc, &in);
			before.clear();
			snap(before, &to);
			vf_fp_u64(in.err_at);
			vf_log("parser::read err_at=%zd round=%d existing=%zu", (ssize_t) in.err_at, round, walk(to.children));
			vf_at("parser::read");
			vf_count("parser::read", 1);
			ret = p.read(to, 0);
			vf_log(" = %d line=%zu getc=%llu", ret, p.lines(), (unsigned long long) in.calls);
			vf_count("monitor:callback-bound-checks", in.calls);
			if (ret < 0) {
				after.clear();
				snap(after, &to);
				vf_count("outcome:rejected", 1);
				vf_count("monitor:snapshot-compared", 1);
				if (to.children) vf_count("monitor:snapshot-compared-nonempty", 1);
				VF_CHECK(before == after, "model:parser_read:tree-changed-on-failure",
				         "%s: read() returned %d but the serialised target tree differs (sizes %zu / %zu)", desc, ret, before.size(), after.size());
			} else {
				size_t nodes;
				vf_count("outcome:accepted", 1);
				vf_at("mpt_node_data");
				nodes = walk(to.children);
				vf_count("monitor:result-nodes-read", nodes);
				for (const node *ch = to.children; ch; ch = ch->next) {
					VF_CHECK(ch->parent == &to, "model:parser_read:parent-link", "%s: top-level node of the result has parent %p, target is %p",
					         desc, (void *) ch->parent, (void *) &to);
				}
			}
			if (in.calls >= 8) vf_nontrivial();
			vf_xfree(in.d, in.n);
		}
	}
	if (c.known) drive_keep(c, r, desc);
	if (vf_chance(r, 1, 2)) drive_layout(c, r);
	vf_sample("%s", desc);
	c08_case_free(&c);
}
