/*
 * C08 (C++ leg): mpt::config_parser::set_format() / parser::read() on the
 * documents of the C leg's generator (harness/c08_gen.c).
 *
 * parser::read() parses into a temporary node and replaces the children of
 * the target only on success.  Monitors: callback bound of the harness getc,
 * target tree unchanged (deep serialisation) after a negative return,
 * set_format() result, ASan/UBSan/LSan by the runner.
 *
 * Second driver: mpt_parse_config() with a handler that keeps copies of the
 * event path (mpt::path copy constructor: the copy shares the parser's
 * character buffer) for a PRNG-chosen subset of events, together with the
 * path and value bytes it saw.  Every copy is verified again at each later
 * event and after the parse, then released; the stack model of open sections
 * (c08_rec.c) and the callback bound run as in the C leg.
 */
#include <cstdlib>
#include <cstring>
#include <vector>
#include <sys/uio.h>

#include "node.h"
#include "config.h"
#include "types.h"
#include "meta.h"
#include "parse.h"

#include "c08_gen.h"
#include "c08_rec.h"
#include "vf.h"

using namespace mpt;

const char *vf_name = "c08_cxx";

struct feed {
	uint8_t *d;
	size_t n, pos, err_at;
	uint64_t calls, saves, after_end, bound;
};
static const size_t NONE = (size_t) -1;

static int h_getc(void *arg)
{
	feed *in = static_cast<feed *>(arg);
	in->calls++;
	if (in->calls + in->saves > in->bound) {
		vf_fail("model:termination:callback-bound", "%llu getc callbacks for an input of %zu bytes (bound %llu)",
		        (unsigned long long) in->calls, in->n, (unsigned long long) in->bound);
	}
	if (in->err_at != NONE && in->pos >= in->err_at) { in->after_end++; return -1; }
	if (in->pos >= in->n) { in->after_end++; return -2; }
	return in->d[in->pos++];
}

class P : public config_parser
{
public:
	~P()
	{
		/* the base class would fclose() the reader argument */
		_d.src.getc = 0;
		_d.src.arg = 0;
	}
	void source(int (*g)(void *), void *a)
	{
		_d.src.getc = g;
		_d.src.arg = a;
		_d.src.line = 0;
	}
	void flags(uint16_t s, uint16_t o)
	{
		_d.name.sect = s;
		_d.name.opt = o;
	}
	size_t lines() const { return _d.src.line; }
};

typedef std::vector<uint8_t> blob;
static void put(blob &b, const void *p, size_t n)
{
	const uint8_t *s = static_cast<const uint8_t *>(p);
	b.insert(b.end(), s, s + n);
}
static void snap(blob &b, const node *n)
{
	const void *p[6] = { n, n->_meta, n->next, n->prev, n->parent, n->children };
	put(b, p, sizeof(p));
	const char *id = mpt_node_ident(n);
	size_t idlen = id ? strlen(id) + 1 : 0;
	put(b, &idlen, sizeof(idlen));
	if (id) put(b, id, idlen);
	if (n->_meta) {
		size_t len = 0;
		const char *d = mpt_node_data(n, &len);
		put(b, &len, sizeof(len));
		if (d) put(b, d, len);
	}
	for (const node *c = n->children; c; c = c->next) snap(b, c);
	b.push_back(0xff);
}
static size_t walk(const node *n)
{
	size_t count = 0;
	for (; n; n = n->next) {
		volatile uint8_t sink = 0;
		size_t len = 0;
		const uint8_t *d;
		if ((d = reinterpret_cast<const uint8_t *>(mpt_node_ident(n)))) {
			for (size_t i = 0; d[i]; i++) sink ^= d[i];
		}
		if (n->_meta && (d = reinterpret_cast<const uint8_t *>(mpt_node_data(n, &len)))) {
			for (size_t i = 0; i < len; i++) sink ^= d[i];
		}
		(void) sink;
		count += 1 + walk(n->children);
	}
	return count;
}
static node *mk_node(node *parent, const char *name, const char *text)
{
	size_t len = name ? strlen(name) : 0;
	node *n = mpt_node_new(len + 1);
	if (!n) vf_inconclusive("mpt_node_new failed");
	if (name && !mpt_identifier_set(&n->ident, name, (int) len)) vf_inconclusive("mpt_identifier_set failed");
	if (text) {
		struct iovec vec;
		value val;
		vec.iov_base = const_cast<char *>(text);
		vec.iov_len = strlen(text);
		val.set(MPT_type_toVector('c'), &vec);
		if (!(n->_meta = mpt_meta_new(&val))) vf_inconclusive("mpt_meta_new failed for a short text");
	}
	mpt_gnode_insert(parent, 0, n);
	return n;
}

/* ------------------------------------------------- retained event paths */
struct kept {
	kept(const path &p, const value *v, uint64_t ev, int code) : copy(p), event(ev), curr(code)
	{
		span<const char> pv = p.value();
		const uint8_t *pb = reinterpret_cast<const uint8_t *>(pv.begin());
		if (pv.size()) pbytes.assign(pb, pb + pv.size());
		if (v) {
			const struct iovec *io = static_cast<const struct iovec *>(v->data());
			const uint8_t *b = static_cast<const uint8_t *>(io->iov_base);
			vbytes.assign(b, b + io->iov_len);
		}
	}
	path copy;                      /* shares the buffer of the parser's path */
	blob pbytes, vbytes;            /* what the handler saw */
	uint64_t event;
	int curr;
};
struct keeper {
	c08_recorder rec;
	std::vector<kept *> held;
	vf_rng *r;
	feed *in;
	const char *desc;
	uint64_t verified;
	uint64_t kinds[8];
};
static void keep_tick(void *arg, const char *)
{
	feed *in = static_cast<feed *>(arg);
	in->saves++;
	if (in->calls + in->saves > in->bound) {
		vf_fail("model:termination:callback-bound", "%llu getc + %llu save callbacks for an input of %zu bytes (bound %llu)",
		        (unsigned long long) in->calls, (unsigned long long) in->saves, in->n, (unsigned long long) in->bound);
	}
}
static void keep_verify(keeper *k, const char *when)
{
	char h1[140], h2[140];
	for (size_t i = 0; i < k->held.size(); i++) {
		const kept *e = k->held[i];
		span<const char> pv = e->copy.value(), post = e->copy.data();
		const uint8_t *now = reinterpret_cast<const uint8_t *>(pv.begin());
		size_t len = pv.size();
		VF_CHECK(len == e->pbytes.size(), "model:retained-path:length", "%s: copy of the path of event %llu (code %x) has length %zu, was %zu (%s)",
		         k->desc, (unsigned long long) e->event, e->curr, len, e->pbytes.size(), when);
		if (len && memcmp(now, e->pbytes.data(), len)) {
			vf_fail("model:retained-path:changed", "%s: copy of the path of event %llu (code %x) taken as %s is now %s (%s, %llu events seen)",
			        k->desc, (unsigned long long) e->event, e->curr, vf_hex(h1, sizeof(h1), e->pbytes.data(), len),
			        vf_hex(h2, sizeof(h2), now, len), when, (unsigned long long) k->rec.count);
		}
		if (e->vbytes.size()) {
			const uint8_t *vn = reinterpret_cast<const uint8_t *>(post.begin());
			size_t vl = (size_t) post.size() < e->vbytes.size() ? (size_t) post.size() : e->vbytes.size();
			if (vl != e->vbytes.size() || memcmp(vn, e->vbytes.data(), vl)) {
				vf_fail("model:retained-path:value-changed", "%s: value behind the path copy of event %llu (code %x) taken as [%zu]%s is now [%zu]%s (%s)",
				        k->desc, (unsigned long long) e->event, e->curr, e->vbytes.size(), vf_hex(h1, sizeof(h1), e->vbytes.data(), e->vbytes.size()),
				        post.size(), vf_hex(h2, sizeof(h2), vn, vl), when);
			}
		}
		k->verified++;
	}
}
static int keep_save(void *arg, const path *p, const value *v, int prev, int curr)
{
	keeper *k = static_cast<keeper *>(arg);
	/* nothing the parser did since may have touched what copies refer to */
	keep_verify(k, "at a later event");
	if (k->held.size() < 48 && vf_chance(k->r, 2, 5)) {
		k->held.push_back(new kept(*p, v, k->rec.count, curr));
		if (curr >= 0 && curr < 8) k->kinds[curr]++;
	}
	return c08_rec_save(&k->rec, p, v, prev, curr);
}
static void drive_keep(const c08_case &c, vf_rng *r, const char *desc)
{
	parser_context ctx;
	parser_format pf;
	input_parser_t next;
	keeper k;
	feed in;
	int ret;

	memcpy(&pf, c.pf, sizeof(pf));
	vf_at("mpt_parse_next_fcn");
	if (!(next = mpt_parse_next_fcn(c.type))) return;

	in.d = static_cast<uint8_t *>(vf_xalloc(c.len));
	memcpy(in.d, c.doc, c.len);
	in.n = c.len; in.pos = 0; in.calls = in.saves = in.after_end = 0;
	in.err_at = vf_chance(r, 1, 8) ? vf_below(r, (uint32_t) c.len + 1) : NONE;
	in.bound = 8 * ((uint64_t) c.len + 8);

	c08_rec_init(&k.rec, 0, vf_chance(r, 1, 12) ? (long) vf_below(r, 8) : -1);
	k.rec.tick = keep_tick;
	k.rec.tick_arg = &in;
	k.r = r; k.in = &in; k.desc = desc; k.verified = 0;
	memset(k.kinds, 0, sizeof(k.kinds));

	ctx.src.getc = h_getc;
	ctx.src.arg = &in;
	ctx.src.line = 0;
	if (c.sect != 0xff) { ctx.name.sect = c.sect; ctx.name.opt = c.opt; }
	ctx.prev = parser_context::Section;
	vf_fp_u64(0x4b ^ ((uint64_t) in.err_at << 8) ^ ((uint64_t) (k.rec.fail_at + 1) << 48));
	vf_log("K: mpt_parse_config with retained paths err_at=%zd fail_at=%ld", (ssize_t) in.err_at, k.rec.fail_at);
	vf_at("mpt_parse_config");
	vf_count("mpt_parse_config", 1);
	ret = mpt_parse_config(next, &pf, &ctx, keep_save, &k);
	vf_log("K: = %d events=%llu retained=%zu", ret, (unsigned long long) k.rec.count, k.held.size());
	/* the parser has released its path; copies are on their own now */
	keep_verify(&k, "after the parse");
	vf_count("monitor:callback-bound-checks", in.calls + in.saves);
	vf_count("monitor:retained-path-verifications", k.verified);
	vf_count("events:seen-by-retaining-handler", k.rec.count);
	vf_count("events:path-retained", k.held.size());
	vf_count("retained:section", k.kinds[1]);
	vf_count("retained:sectend", k.kinds[2]);
	vf_count("retained:option", k.kinds[3] + k.kinds[7]);
	vf_count("retained:data", k.kinds[4]);
	if (k.held.size() >= 2) vf_count("state:parse-with-2+-retained-paths", 1);
	c08_rec_verdict(&k.rec, c.type, pf.sstart == pf.send, ret, "K", desc);
	if (k.held.size() >= 2) vf_nontrivial();
	/* release in PRNG order: last owner frees the buffer */
	while (!k.held.empty()) {
		size_t i = vf_below(r, (uint32_t) k.held.size());
		delete k.held[i];
		k.held.erase(k.held.begin() + (long) i);
		if (!k.held.empty() && vf_chance(r, 1, 4)) keep_verify(&k, "while copies are released");
	}
	c08_rec_fini(&k.rec);
	vf_xfree(in.d, in.n);
}

uint64_t vf_cases(void) { return vf_thorough ? 600000 : 60000; }

void vf_case(uint64_t, vf_rng *r)
{
	static const char *const names[] = { "a", "b", "c", "ab", "x", "y", "name", "n1", "sect", "opt", "k", "zz" };
	static const char *const texts[] = { 0, 0, "1", "old value", "" };
	c08_case c;
	char hx[120], desc[220];

	c08_case_make(&c, r);
	snprintf(desc, sizeof(desc), "fmt=%s%s%s flags=%s doc[%zu]=%s", c.fmt_null ? "" : "\"", c.fmt_null ? "NULL" : c.fmt,
	         c.fmt_null ? "" : "\"", c.flags, c.len, vf_hex(hx, sizeof(hx), c.doc, c.len));
	vf_fp(c.fmt, strlen(c.fmt) + 1);
	vf_fp_u64(((uint64_t) c.sect << 16) | c.opt | ((uint64_t) c.fmt_null << 40));
	vf_fp(c.doc, c.len);
	if (vf_logging) {
		vf_log("case: %s", desc);
		fwrite(c.doc, 1, c.len, stderr);
		fprintf(stderr, "\n----\n");
	}
	{
		P p;
		node to;
		feed in;
		blob before, after;
		int rounds = 1 + vf_chance(r, 1, 3);
		bool ok;

		vf_at("config_parser::set_format");
		vf_count("config_parser::set_format", 1);
		ok = p.set_format(c.fmt_null ? 0 : c.desc);
		VF_CHECK(ok == (c.known != 0), "model:set_format:result", "%s: set_format returned %d, family '%c' is %s",
		         desc, (int) ok, c.type, c.known ? "known" : "unknown");
		vf_count(ok ? "set_format:accepted" : "set_format:refused", 1);
		if (c.sect != 0xff) p.flags(c.sect, c.opt);
		else vf_count("flags:config_parser-defaults", 1);

		if (vf_chance(r, 2, 3)) {
			for (int i = vf_range(r, 1, 4); i > 0; i--) {
				node *n = mk_node(&to, vf_chance(r, 1, 8) ? 0 : names[vf_below(r, 12)], texts[vf_below(r, 5)]);
				for (int k = vf_range(r, 0, 3); k > 0; k--) mk_node(n, names[vf_below(r, 12)], texts[vf_below(r, 5)]);
			}
		}
		for (int round = 0; round < rounds; round++) {
			int ret;
			in.d = static_cast<uint8_t *>(vf_xalloc(c.len));
			memcpy(in.d, c.doc, c.len);
			in.n = c.len; in.pos = 0; in.calls = in.saves = in.after_end = 0;
			in.err_at = vf_chance(r, 1, 6) ? vf_below(r, (uint32_t) c.len + 1) : NONE;
			in.bound = 8 * ((uint64_t) c.len + 8);
			p.source(h_getc, &in);
			before.clear();
			snap(before, &to);
			vf_fp_u64(in.err_at);
			vf_log("parser::read err_at=%zd round=%d existing=%zu", (ssize_t) in.err_at, round, walk(to.children));
			vf_at("parser::read");
			vf_count("parser::read", 1);
			ret = p.read(to, 0);
			vf_log(" = %d line=%zu getc=%llu", ret, p.lines(), (unsigned long long) in.calls);
			vf_count("monitor:callback-bound-checks", in.calls);
			if (ret < 0) {
				after.clear();
				snap(after, &to);
				vf_count("outcome:rejected", 1);
				vf_count("monitor:snapshot-compared", 1);
				if (to.children) vf_count("monitor:snapshot-compared-nonempty", 1);
				VF_CHECK(before == after, "model:parser_read:tree-changed-on-failure",
				         "%s: read() returned %d but the serialised target tree differs (sizes %zu / %zu)", desc, ret, before.size(), after.size());
			} else {
				size_t nodes;
				vf_count("outcome:accepted", 1);
				vf_at("mpt_node_data");
				nodes = walk(to.children);
				vf_count("monitor:result-nodes-read", nodes);
				for (const node *ch = to.children; ch; ch = ch->next) {
					VF_CHECK(ch->parent == &to, "model:parser_read:parent-link", "%s: top-level node of the result has parent %p, target is %p",
					         desc, (void *) ch->parent, (void *) &to);
				}
			}
			if (in.calls >= 8) vf_nontrivial();
			vf_xfree(in.d, in.n);
		}
	}
	if (c.known) drive_keep(c, r, desc);
	vf_sample("%s", desc);
	c08_case_free(&c);
}
