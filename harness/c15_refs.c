/*
 * C15: reference counts track handles exactly (C leg).
 *
 * Model: number of live handles per object.  Observation:
 *  - library-allocated objects: "destroyed" == __asan_address_is_poisoned(obj)
 *    right after a drop (ASan poisons freed blocks and keeps them quarantined);
 *  - stream inputs additionally: descriptor closed (fcntl EBADF);
 *  - harness metatypes: addref/unref events;
 *  - mpt_refcount_raise/lower are interposed (calling the real ones through
 *    dlsym RTLD_NEXT) so the counter an object kind uses is known and can be
 *    driven to its maximum to check that addref reports failure, not wrap.
 */
#define _GNU_SOURCE
#include <stdlib.h>
#include <errno.h>
#include <unistd.h>
#include <fcntl.h>
#include <dlfcn.h>
#include <sys/socket.h>
#include <sys/uio.h>
#include <sanitizer/asan_interface.h>

#include "types.h"
#include "array.h"
#include "meta.h"
#include "convert.h"
#include "event.h"
#include "message.h"
#include "connection.h"
#include "stream.h"
#include "notify.h"
#include "values.h"
#include "vf.h"
#include "c_stage.h"

const char *vf_name = "c15_refs";

/* ---- interposition ------------------------------------------------------- */
static uintptr_t (*real_raise)(MPT_STRUCT(refcount) *);
static uintptr_t (*real_lower)(MPT_STRUCT(refcount) *);
static MPT_STRUCT(refcount) *last_ref;
static long ev_raise, ev_lower;
static void resolve(void)
{
	if (real_raise) return;
	real_raise = (uintptr_t (*)(MPT_STRUCT(refcount) *)) dlsym(RTLD_NEXT, "mpt_refcount_raise");
	real_lower = (uintptr_t (*)(MPT_STRUCT(refcount) *)) dlsym(RTLD_NEXT, "mpt_refcount_lower");
	if (!real_raise || !real_lower) vf_inconclusive("cannot resolve real refcount functions");
}
uintptr_t mpt_refcount_raise(MPT_STRUCT(refcount) *r)
{
	resolve();
	uintptr_t before = r->_val, ret = real_raise(r);
	last_ref = r; ev_raise++;
	if (before == UINTPTR_MAX && (ret || r->_val != UINTPTR_MAX))
		vf_fail("refcount:raise:wrapped", "raise at maximum returned %lu and left %lu", (unsigned long) ret, (unsigned long) r->_val);
	if (ret && r->_val != before + 1) vf_fail("refcount:raise:value", "raise from %lu gave %lu", (unsigned long) before, (unsigned long) r->_val);
	if (!ret && r->_val != before) vf_fail("refcount:raise:failed-but-changed", "failed raise changed %lu to %lu", (unsigned long) before, (unsigned long) r->_val);
	return ret;
}
uintptr_t mpt_refcount_lower(MPT_STRUCT(refcount) *r)
{
	resolve();
	uintptr_t before = r->_val, ret = real_lower(r);
	last_ref = r; ev_lower++;
	if (before && r->_val != before - 1) vf_fail("refcount:lower:value", "lower from %lu gave %lu", (unsigned long) before, (unsigned long) r->_val);
	if (!before && r->_val) vf_fail("refcount:lower:underflow", "lower at zero wrapped to %lu", (unsigned long) r->_val);
	return ret;
}

static int is_freed(const void *p) { return __asan_address_is_poisoned(p); }

/* ---- leg A: raw counter --------------------------------------------------- */
static void case_raw(uint64_t idx)
{
	static const uintptr_t starts[] = { 0, 1, 2, 3, UINTPTR_MAX - 2, UINTPTR_MAX - 1, UINTPTR_MAX };
	MPT_STRUCT(refcount) rc;
	uintptr_t v = starts[idx % 7];
	rc._val = v;
	vf_fp_u64(0xa); vf_fp_u64(idx);
	vf_at("mpt_refcount_raise"); vf_count("mpt_refcount_raise", 1);
	uintptr_t r = mpt_refcount_raise(&rc);
	if (v == 0) VF_CHECK(r == 0 && rc._val == 0, "refcount:raise:from-zero", "raise of a dead counter returned %lu, value %lu", (unsigned long) r, (unsigned long) rc._val);
	else if (v == UINTPTR_MAX) VF_CHECK(r == 0 && rc._val == v, "refcount:raise:wrapped", "raise at maximum returned %lu, value %lu", (unsigned long) r, (unsigned long) rc._val);
	else VF_CHECK(r == v + 1 && rc._val == v + 1, "refcount:raise:value", "raise from %lu returned %lu", (unsigned long) v, (unsigned long) r);
	v = rc._val;
	vf_at("mpt_refcount_lower"); vf_count("mpt_refcount_lower", 1);
	r = mpt_refcount_lower(&rc);
	if (v == 0) VF_CHECK(rc._val == 0 && r != 0, "refcount:lower:underflow", "lower at zero returned %lu, value %lu", (unsigned long) r, (unsigned long) rc._val);
	else VF_CHECK(r == v - 1 && rc._val == v - 1, "refcount:lower:value", "lower from %lu returned %lu", (unsigned long) v, (unsigned long) r);
	if (idx % 7) vf_nontrivial();
	vf_sample("raw counter starting at %lu: raise, lower", (unsigned long) starts[idx % 7]);
}

/* ---- leg B: shared buffers through array handles ---------------------------- */
#define NB 3
#define NHB 4
static void case_buffers(vf_rng *r)
{
	MPT_STRUCT(array) h[NHB] = { MPT_ARRAY_INIT, MPT_ARRAY_INIT, MPT_ARRAY_INIT, MPT_ARRAY_INIT };
	MPT_STRUCT(buffer) *objs[64]; long cnt[64]; int nobj = 0;
	int nops = vf_range(r, 6, 50), maxcnt = 0;
	char ctx[160];
	vf_fp_u64(0xb);
	for (int i = 0; i < nops; i++) {
		int op = (int) vf_below(r, 7), a = (int) vf_below(r, NHB), b = (int) vf_below(r, NHB);
		MPT_STRUCT(buffer) *before = h[a]._buf;
		snprintf(ctx, sizeof(ctx), "buffers op=%d a=%d b=%d", op, a, b);
		vf_log("%s", ctx);
		vf_fp_u64((op << 8) ^ (a << 4) ^ b);
		switch (op) {
		case 0: /* new buffer */
			if (nobj >= 60) break;
			vf_at("mpt_array_clone"); mpt_array_clone(&h[a], 0);
			if (vf_chance(r, 1, 3)) {
				/* character-typed buffer: sharing it with a raw array is refused (content types differ) */
				vf_at("mpt_array_set"); vf_count("buffer:create-typed", 1);
				if (!mpt_array_set(&h[a], mpt_type_traits('c'), 1 + vf_below(r, 200), 0, 0)) vf_fail("buffer:create-failed", "%s", ctx);
			} else {
				vf_at("mpt_array_append"); vf_count("buffer:create", 1);
				if (!mpt_array_append(&h[a], 1 + vf_below(r, 200), 0)) vf_fail("buffer:create-failed", "%s", ctx);
			}
			objs[nobj] = h[a]._buf; cnt[nobj] = 1; nobj++;
			break;
		case 1: /* share */
			vf_at("mpt_array_clone"); vf_count("buffer:share", 1);
			{
				int mixed = h[a]._buf && h[b]._buf && h[a]._buf->_content_traits != h[b]._buf->_content_traits;
				int ret = mpt_array_clone(&h[a], &h[b]);
				if (ret < 0) {
					/* only differing content types may be refused; a refusal creates no handle (checked through the counters below) */
					VF_CHECK(mixed, "buffer:clone-refused", "%s: returned %d", ctx, ret);
					VF_CHECK(h[a]._buf == before, "buffer:refused-clone-changed-target", "%s", ctx);
					vf_count("buffer:share-refused-type", 1);
				}
			}
			break;
		case 2: /* drop */
			vf_at("mpt_array_clone"); vf_count("buffer:drop", 1);
			mpt_array_clone(&h[a], 0);
			break;
		case 3: /* write through handle: detaches when shared */
			if (!h[a]._buf || nobj >= 60) break;
			vf_at("mpt_array_append"); vf_count("buffer:write", 1);
			if (h[a]._buf->_content_traits) {
				if (!mpt_array_set(&h[a], h[a]._buf->_content_traits, 1 + vf_below(r, 100), 0, (long) h[a]._buf->_used)) vf_fail("buffer:append-failed", "%s", ctx);
			}
			else if (!mpt_array_append(&h[a], 1 + vf_below(r, 100), 0)) vf_fail("buffer:append-failed", "%s", ctx);
			if (h[a]._buf != before) {
				int known = 0;
				for (int k = 0; k < nobj; k++) if (objs[k] == h[a]._buf) known = 1;
				if (!known) { objs[nobj] = h[a]._buf; cnt[nobj] = 1; nobj++; }
			}
			break;
		case 4: { /* direct reference through the buffer interface */
			if (!h[a]._buf) break;
			MPT_STRUCT(buffer) *bf = h[a]._buf;
			vf_at("buffer::addref"); vf_count("buffer:addref-unref", 1);
			uintptr_t c = bf->_vptr->addref(bf);
			long m = 0;
			for (int k = 0; k < nobj; k++) if (objs[k] == bf) m = cnt[k];
			VF_CHECK(c == (uintptr_t) m + 1, "buffer:addref-value", "%s: addref returned %lu with %ld handles", ctx, (unsigned long) c, m);
			VF_CHECK(bf->_vptr->get_flags(bf) & MPT_ENUM(BufferShared), "buffer:shared-flag", "%s: buffer with 2+ references not flagged shared", ctx);
			bf->_vptr->unref(bf);
			break; }
		case 6: { /* the buffer's own detach entry with an arbitrary size: may be refused (size below the
		           * content of a shared buffer), must never change the number of references */
			if (!h[a]._buf || nobj >= 60) break;
			MPT_STRUCT(buffer) *bf = h[a]._buf;
			size_t want = vf_chance(r, 1, 2) ? vf_below(r, 8) : vf_below(r, (uint32_t) bf->_used + 200);
			vf_at("buffer::detach"); vf_count("buffer:detach", 1);
			MPT_STRUCT(buffer) *nb = bf->_vptr->detach(bf, want);
			if (!nb) { vf_count("buffer:detach-refused", 1); break; }
			h[a]._buf = nb;
			if (nb != bf) {
				int known = 0;
				for (int k = 0; k < nobj; k++) if (objs[k] == nb) known = 1;
				if (!known) { objs[nobj] = nb; cnt[nobj] = 1; nobj++; }
			}
			break; }
		case 5: { /* counter at maximum: sharing must be refused, not wrap */
			if (!h[a]._buf || h[b]._buf == h[a]._buf) break;
			MPT_STRUCT(buffer) *bf = h[a]._buf;
			last_ref = 0;
			bf->_vptr->addref(bf); bf->_vptr->unref(bf);
			if (!last_ref) vf_inconclusive("buffer counter not observed through interposition");
			MPT_STRUCT(refcount) *rc = last_ref;
			uintptr_t keep = rc->_val;
			rc->_val = UINTPTR_MAX;
			vf_at("mpt_array_clone"); vf_count("buffer:share-at-max", 1);
			MPT_STRUCT(buffer) *tb = h[b]._buf;
			int ret = mpt_array_clone(&h[b], &h[a]);
			VF_CHECK(ret < 0 && rc->_val == UINTPTR_MAX, "buffer:counter-wrapped", "%s: clone with counter at maximum returned %d, counter now %lu", ctx, ret, (unsigned long) rc->_val);
			VF_CHECK(h[b]._buf == tb, "buffer:failed-clone-changed-target", "%s", ctx);
			rc->_val = keep;
			break; }
		}
		/* account handle changes of h[a] */
		if (before && before != h[a]._buf) for (int k = 0; k < nobj; k++) if (objs[k] == before) cnt[k]--;
		/* recount from scratch for robustness and compare with destruction state */
		for (int k = 0; k < nobj; k++) {
			long m = 0;
			for (int q = 0; q < NHB; q++) if (h[q]._buf == objs[k]) m++;
			if (cnt[k] >= 0 && m != cnt[k]) cnt[k] = m;
			if (m > maxcnt) maxcnt = (int) m;
			if (m) {
				VF_CHECK(!is_freed(objs[k]), "buffer:destroyed-while-referenced", "%s: buffer %d freed with %ld handles", ctx, k, m);
				/* the counter itself: addref reports the new value */
				uintptr_t c = objs[k]->_vptr->addref(objs[k]);
				objs[k]->_vptr->unref(objs[k]);
				VF_CHECK(c == (uintptr_t) m + 1, c > (uintptr_t) m + 1 ? "buffer:counter-above-handles" : "buffer:counter-below-handles",
				         "%s: buffer %d has %ld handles but its counter is %lu", ctx, k, m, (unsigned long) c - 1);
				int sharedflag = (objs[k]->_vptr->get_flags(objs[k]) & MPT_ENUM(BufferShared)) != 0;
				VF_CHECK(sharedflag == (m > 1), "buffer:shared-flag", "%s: buffer %d with %ld handles reports shared=%d", ctx, k, m, sharedflag);
			} else if (cnt[k] != -1) {
				VF_CHECK(is_freed(objs[k]), "buffer:alive-after-last-drop", "%s: buffer %d not freed although no handle is left", ctx, k);
				cnt[k] = -1;
			}
		}
		vf_count("monitor:buffer-lifetime-checks", 1);
	}
	for (int q = 0; q < NHB; q++) mpt_array_clone(&h[q], 0);
	for (int k = 0; k < nobj; k++) VF_CHECK(is_freed(objs[k]), "buffer:alive-after-last-drop", "buffer %d not freed at teardown", k);
	if (maxcnt >= 2) vf_nontrivial();
	vf_sample("shared buffers: %d operations (new/share/drop/write/addref/share-at-max) on %d handles, %d buffers", nops, NHB, nobj);
}

/* ---- leg C: metatype kinds --------------------------------------------------- */
static int sent_count, send_fail;
static int send_cb(void *ptr, const MPT_STRUCT(reply_data) *rd, const MPT_STRUCT(message) *msg)
{
	(void) ptr; (void) rd; (void) msg;
	if (send_fail) return MPT_ERROR(BadOperation);
	sent_count++;
	return 0;
}
enum { KShortText, KLongText, KMetaBuffer, KMetaArgs, KIterString, KReply, KRawData, KIterLinear, KIterValues, KIterPoly, KIterFactor, KIterBoundary, KStreamInput, KCount };
static const char *kname[KCount] = { "meta_new_short", "meta_new_long", "meta_buffer", "meta_arguments", "iterator_string", "reply_deferrable",
	"rawdata", "iterator_linear", "iterator_values", "iterator_poly", "iterator_factor", "iterator_boundary", "stream_input" };
static int kfd[2];
static MPT_STRUCT(buffer) *aux_buf;   /* buffer an object is expected to keep alive */

static MPT_INTERFACE(metatype) *k_create(int kind, vf_rng *r)
{
	MPT_STRUCT(value) val = MPT_VALUE_INIT(0, 0);
	static char text[400];
	const char *tp = text;
	MPT_STRUCT(array) a = MPT_ARRAY_INIT;
	MPT_INTERFACE(metatype) *mt = 0;
	switch (kind) {
	case KShortText: case KLongText: {
		size_t n = kind == KShortText ? vf_below(r, 100) : 255 + vf_below(r, 100);
		for (size_t i = 0; i < n; i++) text[i] = (char) ('a' + vf_below(r, 26));
		text[n] = 0;
		MPT_value_set(&val, 's', &tp);
		vf_at("mpt_meta_new");
		return mpt_meta_new(&val); }
	case KMetaBuffer: case KMetaArgs:
		vf_at("mpt_array_set");
		mpt_array_set(&a, mpt_type_traits('c'), 12, "one\0two\0tre", 0);
		vf_at(kind == KMetaBuffer ? "mpt_meta_buffer" : "mpt_meta_arguments");
		mt = kind == KMetaBuffer ? mpt_meta_buffer(&a) : mpt_meta_arguments(&a);
		mpt_array_clone(&a, 0);
		return mt;
	case KIterString: vf_at("mpt_iterator_string"); return mpt_iterator_string("1 2 3 four", 0);
	case KReply: vf_at("mpt_reply_deferrable"); return mpt_reply_deferrable(2 + vf_below(r, 8), send_cb, &sent_count);
	case KRawData: {
		/* plot data holding stage buffers: the last unref has to release them (LeakSanitizer) */
		const MPT_STRUCT(named_traits) *nt = mpt_rawdata_type_traits();
		MPT_INTERFACE(rawdata) *rd = 0;
		vf_at("mpt_rawdata_create");
		if (!(mt = mpt_rawdata_create(-1))) return 0;
		if (nt && mt->_vptr->convertable.convert((MPT_INTERFACE(convertable) *) mt, nt->type, &rd) >= 0 && rd) {
			double v[4] = { 1, 2, 3, 4 };
			struct iovec vec = { v, sizeof(v) };
			MPT_value_set(&val, MPT_type_toVector('d'), &vec);
			vf_at("rawdata::modify");
			if (rd->_vptr->modify(rd, vf_below(r, 3), &val, 0) >= 0) vf_count("meta:rawdata-filled", 1);
		}
		return mt; }
	case KIterLinear: vf_at("mpt_iterator_create"); return mpt_iterator_create("lin(4 : 1 2)");
	case KIterValues: vf_at("mpt_iterator_create"); return mpt_iterator_create("1 2 3 4.5");
	case KIterPoly: {
		/* polynomial over a shared grid buffer: the iterator holds a buffer reference */
		double grid[5] = { 0, 1, 2, 3, 4 };
		vf_at("mpt_array_append");
		if (!mpt_array_append(&a, sizeof(grid), grid)) return 0;
		aux_buf = a._buf;
		vf_at("mpt_iterator_poly");
		mt = mpt_iterator_poly("1 0 0 : -4", &a);
		mpt_array_clone(&a, 0);
		if (!mt) aux_buf = 0;
		return mt; }
	case KIterFactor: vf_at("mpt_iterator_create"); return mpt_iterator_create("fact(3:2e-2::1)");
	case KIterBoundary: vf_at("mpt_iterator_boundary"); return mpt_iterator_boundary(4, 1.0, 2.0, 3.0);
	case KStreamInput: {
		MPT_STRUCT(socket) s;
		if (socketpair(AF_UNIX, SOCK_STREAM, 0, kfd) < 0) vf_inconclusive("socketpair failed");
		s._id = kfd[0];
		vf_at("mpt_stream_input");
		MPT_INTERFACE(input) *in = mpt_stream_input(&s, MPT_STREAMFLAG(RdWr), MPT_ENUM(EncodingCobs), 2);
		if (!in) { close(kfd[0]); close(kfd[1]); kfd[0] = kfd[1] = -1; }
		return (MPT_INTERFACE(metatype) *) in; }
	}
	return 0;
}
#define NOBJ 3
static void case_meta(uint64_t idx, vf_rng *r)
{
	int kind = (int) (idx % KCount);
	MPT_INTERFACE(metatype) *obj[16]; long cnt[16]; int nobj = 0, fd0 = -1;
	int nops = vf_range(r, 4, 30), raised = 0;
	char ctx[160];
	vf_fp_u64(0xc); vf_fp_u64(kind);
	aux_buf = 0;
	obj[0] = k_create(kind, r);
	if (!obj[0]) {
		/* some descriptions may be unsupported in a given tree: nothing to track */
		vf_count("meta:create-unsupported", 1);
		return;
	}
	vf_count(kname[kind], 1);
	cnt[0] = 1; nobj = 1;
	if (kind == KStreamInput) fd0 = kfd[0];
	MPT_INTERFACE(reply_context_detached) *defd[4];
	int ndef = 0;
	long mrefs = 1;     /* metatype references of object 0 (reply contexts: cnt[0] = mrefs + deferred handles) */
	send_fail = 0;
	for (int i = 0; i < nops; i++) {
		int op = (int) vf_below(r, kind == KReply ? 7 : 5), k = (int) vf_below(r, (uint32_t) nobj);
		MPT_INTERFACE(metatype) *mt = obj[k];
		if (kind == KReply && k == 0 && op < 5) {
			/* handle operations need a metatype reference; deferred handles alone keep the object alive */
			if ((op == 2 && mrefs <= 0) || (op != 2 && mrefs <= 0)) op = 6;
		}
		if (cnt[k] <= 0) continue;
		snprintf(ctx, sizeof(ctx), "%s op=%d obj=%d handles=%ld", kname[kind], op, k, cnt[k]);
		vf_log("%s", ctx);
		vf_fp_u64((op << 8) ^ k);
		switch (op) {
		case 0: case 1: { /* addref */
			vf_at("metatype::addref"); vf_count("meta:addref", 1);
			uintptr_t c = mt->_vptr->addref(mt);
			if (c) { cnt[k]++; raised++; if (!k) mrefs++; VF_CHECK(c == (uintptr_t) cnt[k], "meta:addref-value", "%s: addref returned %lu, model now %ld", ctx, (unsigned long) c, cnt[k]); }
			else vf_count("meta:addref-unsupported", 1);
			break; }
		case 2: { /* unref */
			vf_at("metatype::unref"); vf_count("meta:unref", 1);
			mt->_vptr->unref(mt);
			cnt[k]--;
			if (!k) mrefs--;
			break; }
		case 3: { /* clone */
			if (nobj >= 16) break;
			vf_at("metatype::clone"); vf_count("meta:clone", 1);
			MPT_INTERFACE(metatype) *c = mt->_vptr->clone(mt);
			if (c) { VF_CHECK(c != mt, "meta:clone-same-object", "%s: clone returned the object itself", ctx); obj[nobj] = c; cnt[nobj] = 1; nobj++; vf_count("meta:clone-created", 1); }
			break; }
		case 5: { /* reply context: arm a request and defer it (the handle shares the context's counter) */
			MPT_INTERFACE(reply_context) *rc = 0;
			MPT_STRUCT(reply_data) *rd = 0;
			uint8_t idb[2] = { 0x01, (uint8_t) (i + 1) };
			if (k || mrefs <= 0 || ndef >= 4) break;
			if (mt->_vptr->convertable.convert((MPT_INTERFACE(convertable) *) mt, MPT_ENUM(TypeReplyPtr), &rc) < 0 || !rc) break;
			if (mt->_vptr->convertable.convert((MPT_INTERFACE(convertable) *) mt, MPT_ENUM(TypeReplyDataPtr), &rd) < 0 || !rd) break;
			if (vf_chance(r, 1, 3)) {
				/* nothing armed: defer must be refused and must not leave a reference behind */
				vf_at("reply_context::defer"); vf_count("meta:reply-defer-without-request", 1);
				MPT_INTERFACE(reply_context_detached) *none = rc->_vptr->defer(rc);
				VF_CHECK(!none, "meta:defer-without-request-accepted", "%s: defer() without an armed request returned a handle", ctx);
			}
			vf_at("mpt_reply_set");
			if (mpt_reply_set(rd, sizeof(idb), idb) < 0) break;
			vf_at("reply_context::defer"); vf_count("meta:reply-defer", 1);
			MPT_INTERFACE(reply_context_detached) *d = rc->_vptr->defer(rc);
			if (!d) break;
			defd[ndef++] = d;
			cnt[0]++;
			if (vf_chance(r, 1, 2)) {
				/* the request has moved to the handle: a second defer is refused, counts unchanged */
				vf_at("reply_context::defer"); vf_count("meta:reply-defer-twice", 1);
				MPT_INTERFACE(reply_context_detached) *again = rc->_vptr->defer(rc);
				VF_CHECK(!again, "meta:second-defer-accepted", "%s: second defer() for the same request returned a handle", ctx);
			}
			break; }
		case 6: { /* resolve a deferred handle: explicit reply (transport may refuse it) or release (NULL message) */
			static const MPT_STRUCT(message) text = { 2, "ok", 0, 0 };
			if (!ndef) break;
			int w = (int) vf_below(r, (uint32_t) ndef), how = (int) vf_below(r, 3);
			send_fail = (how == 1);
			vf_at("reply_context_detached::reply"); vf_count(how == 1 ? "meta:reply-deferred-refused-send" : "meta:reply-deferred-resolve", 1);
			int ret = defd[w]->_vptr->reply(defd[w], how == 2 ? 0 : &text);
			send_fail = 0;
			if (ret < 0) break;   /* refused by the transport: the handle stays valid and keeps its reference */
			defd[w] = defd[--ndef];
			cnt[0]--;
			break; }
		case 4: { /* counter at maximum (only for counted kinds) */
			last_ref = 0;
			uintptr_t c = mt->_vptr->addref(mt);
			if (!c) break;
			mt->_vptr->unref(mt);
			if (!last_ref) break;
			MPT_STRUCT(refcount) *rc = last_ref;
			uintptr_t keep = rc->_val;
			rc->_val = UINTPTR_MAX;
			vf_at("metatype::addref"); vf_count("meta:addref-at-max", 1);
			c = mt->_vptr->addref(mt);
			VF_CHECK(c == 0 && rc->_val == UINTPTR_MAX, "meta:counter-wrapped", "%s: addref with counter at maximum returned %lu, counter now %lu", ctx, (unsigned long) c, (unsigned long) rc->_val);
			rc->_val = keep;
			break; }
		}
		for (int q = 0; q < nobj; q++) {
			if (cnt[q] > 0) VF_CHECK(!is_freed(obj[q]), "meta:destroyed-while-referenced", "%s: object %d freed with %ld handles", ctx, q, cnt[q]);
			else if (cnt[q] == 0) {
				VF_CHECK(is_freed(obj[q]), "meta:alive-after-last-drop", "%s: object %d not freed after its last reference was dropped", ctx, q);
				if (q == 0 && fd0 >= 0) {
					VF_CHECK(fcntl(fd0, F_GETFD) < 0 && errno == EBADF, "meta:descriptor-open-after-destroy", "%s: stream descriptor still open", ctx);
					fd0 = -1;
				}
				cnt[q] = -1;
			}
		}
		if (aux_buf) {
			if (cnt[0] > 0) VF_CHECK(!is_freed(aux_buf), "meta:held-buffer-destroyed-early", "%s: buffer referenced by the object was freed", ctx);
			else { VF_CHECK(is_freed(aux_buf), "meta:held-buffer-alive-after-destroy", "%s: buffer referenced by the destroyed object still allocated", ctx); aux_buf = 0; }
		}
		if (fd0 >= 0 && cnt[0] > 0) VF_CHECK(fcntl(fd0, F_GETFD) >= 0, "meta:descriptor-closed-early", "%s: stream descriptor closed while referenced", ctx);
		vf_count("monitor:meta-lifetime-checks", 1);
	}
	while (ndef > 0) { ndef--; defd[ndef]->_vptr->reply(defd[ndef], 0); cnt[0]--; }
	for (int q = 0; q < nobj; q++) {
		long n = q ? cnt[q] : mrefs;
		while (n > 0) { obj[q]->_vptr->unref(obj[q]); cnt[q]--; n--; }
		VF_CHECK(cnt[q] <= 0, "meta:model-count", "%s object %d: model keeps %ld references at teardown", kname[kind], q, cnt[q]);
		VF_CHECK(is_freed(obj[q]), "meta:alive-after-last-drop", "%s object %d not freed at teardown", kname[kind], q);
	}
	if (kind == KStreamInput && kfd[1] >= 0) { close(kfd[1]); kfd[1] = -1; }
	if (raised || nobj > 1) vf_nontrivial();
	vf_sample("%s: %d addref/unref/clone/addref-at-max operations, %d objects", kname[kind], nops, nobj);
}

/* ---- leg D: reference replacement through conversion ---------------------------- */
typedef struct { MPT_INTERFACE(metatype) mt; int id; } hmeta;
static long hrefs[6], hadd[6], hdrop[6];
static int hm_convert(MPT_INTERFACE(convertable) *c, MPT_TYPE(type) t, void *p)
{
	if (t == MPT_ENUM(TypeMetaPtr)) { if (p) *(void **) p = c; return 0; }
	return MPT_ERROR(BadType);
}
static int hgone[6];
static void hm_unref(MPT_INTERFACE(metatype) *m)
{
	hmeta *h = (hmeta *) m;
	if (hgone[h->id]) vf_fail("assign:release-after-destroy", "metatype %d released after its last reference was dropped", h->id);
	hrefs[h->id]--; hdrop[h->id]++;
	if (!hrefs[h->id]) hgone[h->id] = 1;   /* a real object is destroyed here */
}
static uintptr_t hm_addref(MPT_INTERFACE(metatype) *m)
{
	hmeta *h = (hmeta *) m;
	if (hgone[h->id]) vf_fail("assign:retain-after-destroy", "metatype %d retained after its last reference was dropped (old referent released before the new one was retained)", h->id);
	if (h->id == 5) return 0;   /* unshareable kind: addref reports failure */
	hadd[h->id]++;
	return (uintptr_t) ++hrefs[h->id];
}
static MPT_INTERFACE(metatype) *hm_clone(const MPT_INTERFACE(metatype) *m) { (void) m; return 0; }
static const MPT_INTERFACE_VPTR(metatype) hm_vptr = { { hm_convert }, hm_unref, hm_addref, hm_clone };
static hmeta hm[6];

static void case_assign(vf_rng *r)
{
	MPT_INTERFACE(metatype) *slot[2] = { 0, 0 };
	int held[2] = { -1, -1 };
	int nops = vf_range(r, 3, 30);
	char ctx[160];
	/* objects 0..2: the harness keeps a reference of its own; 3..4: the slots hold the only references;
	 * 5: addref always fails */
	for (int i = 0; i < 6; i++) { hm[i].mt._vptr = &hm_vptr; hm[i].id = i; hrefs[i] = i < 3 ? 1 : 0; hadd[i] = hdrop[i] = 0; hgone[i] = 0; }
	vf_fp_u64(0xd);
	for (int i = 0; i < nops; i++) {
		int s = (int) vf_below(r, 2), n = (int) vf_below(r, 7) - 1, how = (int) vf_below(r, 3);
		if (n >= 0 && hgone[n]) n = -1;       /* destroyed objects cannot be sources any more */
		MPT_INTERFACE(metatype) *src = n < 0 ? 0 : &hm[n].mt;
		long a0[6], d0[6];
		memcpy(a0, hadd, sizeof(a0)); memcpy(d0, hdrop, sizeof(d0));
		int old = held[s], ret;
		snprintf(ctx, sizeof(ctx), "assign slot=%d new=%d old=%d via=%d", s, n, old, how);
		vf_log("%s", ctx);
		vf_fp_u64((s << 8) ^ ((n + 1) << 4) ^ how);
		if (how == 0) {
			MPT_TYPE(data_converter) conv = mpt_data_converter(MPT_ENUM(TypeMetaRef));
			if (!conv) vf_inconclusive("no converter for TypeMetaRef");
			vf_at("mpt_data_converter(TypeMetaRef)"); vf_count("assign:data_converter", 1);
			ret = conv(&src, MPT_ENUM(TypeMetaRef), &slot[s]);
		} else if (how == 1) {
			MPT_STRUCT(value) v = MPT_VALUE_INIT(0, 0);
			MPT_value_set(&v, MPT_ENUM(TypeMetaRef), &src);
			vf_at("mpt_value_convert"); vf_count("assign:value_convert", 1);
			ret = mpt_value_convert(&v, MPT_ENUM(TypeMetaRef), &slot[s]);
		} else {
			MPT_STRUCT(value) v = MPT_VALUE_INIT(0, 0);
			MPT_value_set(&v, MPT_ENUM(TypeMetaPtr), &src);
			vf_at("mpt_value_convert"); vf_count("assign:value_convert_from_ptr", 1);
			ret = mpt_value_convert(&v, MPT_ENUM(TypeMetaRef), &slot[s]);
		}
		if (ret < 0) {
			/* refused: nothing may have changed */
			for (int k = 0; k < 6; k++) VF_CHECK(hadd[k] == a0[k] && hdrop[k] == d0[k], "assign:refused-but-counted", "%s: returned %d but reference counts moved", ctx, ret);
			VF_CHECK(slot[s] == (old < 0 ? 0 : &hm[old].mt), "assign:refused-but-replaced", "%s: returned %d but slot changed", ctx, ret);
			vf_count("assign:refused", 1);
			if (n == 5) vf_count("assign:refused-unshareable-source", 1);
			continue;
		}
		VF_CHECK(n != 5, "assign:accepted-unretainable", "%s: referent whose addref fails was stored", ctx);
		VF_CHECK(slot[s] == src, "assign:slot-value", "%s: slot does not hold the new referent", ctx);
		for (int k = 0; k < 6; k++) {
			long ea = (k == n) ? 1 : 0, ed = (k == old) ? 1 : 0;
			VF_CHECK(hadd[k] - a0[k] == ea, "assign:retain-count", "%s: metatype %d retained %ld times, expected %ld", ctx, k, hadd[k] - a0[k], ea);
			VF_CHECK(hdrop[k] - d0[k] == ed, "assign:release-count", "%s: metatype %d released %ld times, expected %ld", ctx, k, hdrop[k] - d0[k], ed);
		}
		held[s] = n;
		vf_count("monitor:assign-checks", 1);
	}
	vf_nontrivial();
	vf_sample("reference replacement through conversion: %d assignments into 2 slots from 6 logging metatypes", nops);
}

/* ---- leg E: arrays of references (copy, overwrite, cut) ------------------------------------ */
static void case_refarray(vf_rng *r)
{
	/* metatype reference elements in typed buffers: each slot is one handle; objects 0..2 also have the
	 * harness reference, 3..4 live through slots only (their destruction is observable via hgone) */
	const MPT_STRUCT(type_traits) *tr = mpt_meta_reference_traits();
	MPT_STRUCT(array) a[2] = { MPT_ARRAY_INIT, MPT_ARRAY_INIT };
	int shd[2][48]; size_t sn[2] = { 0, 0 };
	const size_t PS = sizeof(void *);
	int nops = vf_range(r, 5, 40);
	char ctx[160];
	for (int i = 0; i < 6; i++) { hm[i].mt._vptr = &hm_vptr; hm[i].id = i; hrefs[i] = i < 3 ? 1 : 0; hadd[i] = hdrop[i] = 0; hgone[i] = 0; }
	vf_fp_u64(0xe);
	for (int i = 0; i < nops; i++) {
		int h = (int) vf_below(r, 2), op = (int) vf_below(r, 6);
		size_t n = sn[h], pos = vf_below(r, (uint32_t) n + 2), cnt = vf_below(r, 4);
		MPT_INTERFACE(metatype) *src[4];
		int ids[4];
		if (n + cnt + 2 >= 44) { cnt = 0; if (pos > n) pos = n; }
		for (size_t j = 0; j < cnt; j++) {
			ids[j] = (int) vf_below(r, 6) - 1;      /* -1 = empty reference, 0..4 objects (5 is unshareable: not used here) */
			if (ids[j] >= 0 && hgone[ids[j]]) ids[j] = -1;
			src[j] = ids[j] < 0 ? 0 : &hm[ids[j]].mt;
		}
		snprintf(ctx, sizeof(ctx), "reference array op=%d h=%d pos=%zu cnt=%zu count=%zu", op, h, pos, cnt, n);
		vf_log("%s", ctx);
		vf_fp_u64(((uint64_t) op << 32) ^ (h << 24) ^ (pos << 8) ^ cnt);
		switch (op) {
		case 0: case 1: {
			vf_at("mpt_array_set"); vf_count("refarray:array_set", 1);
			/* a copy source owns its references for the duration of the call */
			if (op) for (size_t j = 0; j < cnt; j++) if (src[j]) src[j]->_vptr->addref(src[j]);
			void *p = mpt_array_set(&a[h], tr, cnt * PS, op ? src : 0, (long) pos);
			if (op) for (size_t j = 0; j < cnt; j++) if (src[j]) src[j]->_vptr->unref(src[j]);
			VF_CHECK(p != 0, "refarray:array_set:refused", "%s: NULL", ctx);
			for (size_t j = n; j < pos; j++) shd[h][j] = -1;
			for (size_t j = 0; j < cnt; j++) shd[h][pos + j] = op ? ids[j] : -1;
			if (pos > sn[h]) sn[h] = pos;
			if (pos + cnt > sn[h]) sn[h] = pos + cnt;
			break; }
		case 2:
			vf_at("mpt_array_clone"); vf_count("refarray:share", 1);
			VF_CHECK(mpt_array_clone(&a[h], &a[!h]) >= 0, "refarray:clone:refused", "%s", ctx);
			memcpy(shd[h], shd[!h], sizeof(shd[0])); sn[h] = sn[!h];
			break;
		case 3: {
			if (!a[h]._buf || !n) break;
			vf_at("mpt_array_slice");
			if (!mpt_array_slice(&a[h], 0, 0)) vf_fail("refarray:detach:refused", "%s", ctx);
			if (pos >= n) pos = n - 1;
			if (!cnt) cnt = 1;
			if (pos + cnt > n) cnt = n - pos;
			vf_at("mpt_buffer_cut"); vf_count("refarray:cut", 1);
			VF_CHECK(mpt_buffer_cut(a[h]._buf, pos * PS, cnt * PS) >= 0, "refarray:cut:refused", "%s", ctx);
			memmove(shd[h] + pos, shd[h] + pos + cnt, (n - pos - cnt) * sizeof(int)); sn[h] = n - cnt;
			break; }
		case 4:
			vf_at("mpt_array_clone"); vf_count("refarray:drop", 1);
			mpt_array_clone(&a[h], 0); sn[h] = 0;
			break;
		case 5: {
			if (!a[h]._buf) break;
			vf_at("mpt_buffer_cut"); vf_count("refarray:truncate", 1);
			if (!mpt_array_slice(&a[h], 0, 0)) vf_fail("refarray:detach:refused", "%s", ctx);
			if (pos > n) pos = n;
			VF_CHECK(mpt_buffer_cut(a[h]._buf, pos * PS, 0) >= 0, "refarray:truncate:refused", "%s", ctx);
			sn[h] = pos;
			break; }
		}
		/* every object's counter == harness reference + slots of distinct buffers holding it;
		 * destroyed exactly when that number reaches zero */
		long expect[6] = { 1, 1, 1, 0, 0, 0 };
		for (int k = 0; k < 2; k++) {
			size_t c = a[k]._buf ? a[k]._buf->_used / PS : 0;
			VF_CHECK(c == sn[k], "refarray:count", "%s: handle %d counts %zu references, model %zu", ctx, k, c, sn[k]);
			if (k && a[0]._buf == a[1]._buf) continue;
			for (size_t j = 0; j < c; j++) if (shd[k][j] >= 0) expect[shd[k][j]]++;
		}
		for (int k = 0; k < 5; k++) {
			if (hgone[k]) { VF_CHECK(expect[k] == 0, "refarray:destroyed-while-referenced", "%s: object %d destroyed while %ld slots hold it", ctx, k, expect[k]); continue; }
			VF_CHECK(hrefs[k] == expect[k], hrefs[k] > expect[k] ? "refarray:counter-above-handles" : "refarray:counter-below-handles",
			         "%s: object %d has counter %ld, %ld handles exist", ctx, k, hrefs[k], expect[k]);
		}
		vf_count("monitor:refarray-checks", 1);
	}
	mpt_array_clone(&a[0], 0);
	mpt_array_clone(&a[1], 0);
	for (int k = 0; k < 3; k++) VF_CHECK(hrefs[k] == 1 && !hgone[k], "refarray:counter-above-handles", "object %d keeps counter %ld after all arrays are gone", k, hrefs[k]);
	for (int k = 3; k < 5; k++) VF_CHECK(hrefs[k] == 0, "refarray:counter-above-handles", "object %d keeps counter %ld after all arrays are gone", k, hrefs[k]);
	vf_nontrivial();
	vf_sample("arrays of metatype references: %d set/default/share/cut/drop/truncate operations on 2 handles, 5 objects", nops);
}

/* ---- entry -------------------------------------------------------------------------- */
static uint64_t n_raw(void) { return 70; }
static uint64_t n_buf(void) { return vf_thorough ? 1800000 : 60000; }
static uint64_t n_meta(void) { return vf_thorough ? 1950000 : 65000; }
static uint64_t n_assign(void) { return vf_thorough ? 300000 : 30000; }
static uint64_t n_refarr(void) { return vf_thorough ? 300000 : 30000; }

/* ---- notifier: inputs handed to mpt_notify_add() are owned by the notifier only on success --- */
#include <poll.h>
typedef struct { MPT_INTERFACE(input) in; int id, fd; long refs; int destroyed, misuse; } cinput;
static int ci_conv(MPT_INTERFACE(convertable) *val, MPT_TYPE(type) type, void *ptr)
{
	cinput *ci = (void *) val;
	const MPT_STRUCT(named_traits) *traits = mpt_input_type_traits();
	MPT_TYPE(type) me = traits ? traits->type : (MPT_TYPE(type)) MPT_ENUM(TypeMetaPtr);
	if (ci->destroyed) ci->misuse++;
	if (!type) { static const char fmt[] = { MPT_ENUM(TypeUnixSocket), 0 }; if (ptr) *((const char **) ptr) = fmt; return me; }
	if ((traits && type == traits->type) || type == MPT_ENUM(TypeMetaPtr)) { if (ptr) *((void **) ptr) = &ci->in; return MPT_ENUM(TypeUnixSocket); }
	if (type == MPT_ENUM(TypeUnixSocket)) { if (ptr) ((MPT_STRUCT(socket) *) ptr)->_id = ci->fd; return me; }
	return MPT_ERROR(BadType);
}
static void ci_unref(MPT_INTERFACE(metatype) *mt)
{
	cinput *ci = (void *) mt;
	vf_count("monitor:input-unref", 1);
	if (ci->destroyed) { ci->misuse++; return; }
	if (--ci->refs) return;
	ci->destroyed = 1;   /* memory stays with the harness so that later accesses are visible */
}
static uintptr_t ci_addref(MPT_INTERFACE(metatype) *mt)
{
	cinput *ci = (void *) mt;
	if (ci->destroyed) { ci->misuse++; return 0; }
	return (uintptr_t) ++ci->refs;
}
static MPT_INTERFACE(metatype) *ci_clone(const MPT_INTERFACE(metatype) *mt) { (void) mt; return 0; }
static int ci_next(MPT_INTERFACE(input) *in, int what) { (void) in; (void) what; return 0; }
static int ci_dispatch(MPT_INTERFACE(input) *in, MPT_TYPE(event_handler) cmd, void *arg) { (void) in; (void) cmd; (void) arg; return 0; }
static const MPT_INTERFACE_VPTR(input) ci_vptr = { { { ci_conv }, ci_unref, ci_addref, ci_clone }, ci_next, ci_dispatch };

static void case_notify(vf_rng *r)
{
	MPT_STRUCT(notify) no = MPT_NOTIFY_INIT;
	cinput in[8];
	int pfd[8][2], nin = 0, owned[8], extra[8];   /* owned: notifier holds one reference; extra: handles kept by the harness */
	static int filefd = -1;
	char ctx[160];
	int nops = vf_range(r, 3, 8), refused = 0;
	if (filefd < 0) {
		char tmpl[] = "/tmp/vf-c15-notify-XXXXXX";
		filefd = mkstemp(tmpl);
		if (filefd < 0) vf_inconclusive("mkstemp failed");
		unlink(tmpl);
	}
	vf_fp_u64(0x9071f);
	for (int i = 0; i < nops && nin < 8; i++) {
		int kind = (int) vf_below(r, 3), keep = (int) vf_below(r, 2);
		cinput *ci = &in[nin];
		pfd[nin][0] = pfd[nin][1] = -1;
		memset(ci, 0, sizeof(*ci));
		ci->in._vptr = &ci_vptr; ci->id = nin; ci->refs = 1;
		if (kind == 0) {
			/* a regular file cannot be registered for polling: the add is refused after the slot was reserved */
			ci->fd = dup(filefd);
		} else {
			if (pipe(pfd[nin]) < 0) vf_inconclusive("pipe failed");
			ci->fd = pfd[nin][0];
		}
		if (keep) ci_addref((void *) &ci->in);
		snprintf(ctx, sizeof(ctx), "notify_add input %d (%s, harness keeps %d handle)", nin, kind ? "pipe" : "regular file", keep);
		vf_log("%s", ctx);
		vf_fp_u64((kind << 4) ^ keep);
		vf_at("mpt_notify_add"); vf_count("mpt_notify_add", 1);
		int ret = mpt_notify_add(&no, POLLIN, &ci->in);
		owned[nin] = ret >= 0;
		extra[nin] = keep;
		if (ret < 0) {
			/* not taken: the caller still owns the reference it offered and drops it, as mpt_notify_connect() does */
			refused++; vf_count("notify:add-refused", 1);
			ci_unref((void *) &ci->in);
		}
		nin++;
		for (int q = 0; q < nin; q++) {
			long expect = owned[q] + extra[q];
			VF_CHECK(!in[q].misuse, "notify:input-used-after-destroy", "%s: input %d touched after its last reference was dropped", ctx, q);
			VF_CHECK(in[q].destroyed ? expect == 0 : in[q].refs == expect, in[q].refs > expect ? "notify:reference-leaked" : "notify:reference-lost",
			         "%s: input %d has %ld references, %ld handles exist", ctx, q, in[q].destroyed ? 0L : in[q].refs, expect);
		}
		vf_count("monitor:notify-checks", 1);
	}
	vf_at("mpt_notify_fini");
	mpt_notify_fini(&no);
	for (int q = 0; q < nin; q++) {
		VF_CHECK(!in[q].misuse, "notify:input-used-after-destroy", "input %d touched after its destruction (notifier cleanup)", q);
		VF_CHECK(in[q].destroyed ? extra[q] == 0 : in[q].refs == extra[q], "notify:reference-lost",
		         "after notifier cleanup input %d has %ld references, the harness holds %d", q, in[q].destroyed ? 0L : in[q].refs, extra[q]);
		if (extra[q] && !in[q].destroyed) ci_unref((void *) &in[q].in);
		VF_CHECK(in[q].destroyed == 1, "notify:reference-leaked", "input %d not destroyed after all handles are gone", q);
		if (pfd[q][0] >= 0) { close(pfd[q][0]); close(pfd[q][1]); } else close(in[q].fd);
	}
	if (refused) vf_nontrivial();
	vf_sample("notifier with %d counted inputs, %d refused by the poll descriptor", nin, refused);
}

static uint64_t n_stg(void) { return vf_thorough ? 200000 : 20000; }
static uint64_t n_ntf(void) { return vf_thorough ? 100000 : 10000; }
uint64_t vf_cases(void) { return n_raw() + n_buf() + n_meta() + n_assign() + n_refarr() + n_stg() + n_ntf(); }
void vf_case(uint64_t idx, vf_rng *r)
{
	if (idx < n_raw()) { case_raw(idx); return; }
	idx -= n_raw();
	if (idx < n_buf()) { case_buffers(r); return; }
	idx -= n_buf();
	if (idx < n_meta()) { case_meta(idx, r); return; }
	idx -= n_meta();
	if (idx < n_assign()) { case_assign(r); return; }
	idx -= n_assign();
	if (idx < n_refarr()) { case_refarray(r); return; }
	idx -= n_refarr();
	if (idx < n_stg()) { stage_history(r, "stage"); return; }
	case_notify(r);
}
