/*
 * C02 leg (b): message stream integrity under arbitrary segmentation, stream level.
 *
 * Two mpt_stream objects on non-blocking pipes:
 *   sender   S: mpt_stream_dopen(write end of pipe A), mpt_stream_push() / mpt_stream_flush()
 *   harness   : moves bytes pipe A -> pipe B in PRNG-chosen segment sizes
 *   receiver R: mpt_stream_dopen(read end of pipe B), mpt_stream_poll() / mpt_stream_dispatch()
 * Pipe A is made as small as the kernel allows, so flush meets a full transport.
 *
 * Monitors: sent log vs. dispatched log (exactly once, in order, byte-equal),
 * bounded progress (complete frame written to pipe B -> bounded number of
 * poll+dispatch rounds delivers it), encode queue invariant after push/flush,
 * conservation (bytes read from pipe A == finished bytes handed to flush),
 * ASan/UBSan.
 */
#define _GNU_SOURCE
#include <stdlib.h>
#include <errno.h>
#include <unistd.h>
#include <fcntl.h>
#include <signal.h>
#include <poll.h>
#include <sys/uio.h>
#include <sys/ioctl.h>
#include <sys/socket.h>

#include "queue.h"
#include "message.h"
#include "convert.h"
#include "event.h"
#include "meta.h"
#include "connection.h"
#include "notify.h"
#include "stream.h"
#include "vf.h"

const char *vf_name = "c02_stream";

/* A closed stream socket polls POLLIN|POLLHUP (end of file is readable): mpt_stream_poll() then tries to load,
 * gets 0 and does not announce a message that is already decoded (fixes/C02-01-stream-poll-eof-waiting-message.patch).
 * Until that is merged the peer goes away on pipes only (POLLHUP without POLLIN). */
#ifndef C02_HANGUP_ON_SOCKETS
# define C02_HANGUP_ON_SOCKETS 1
#endif
/* 1: the poll-driven reader relies on mpt_stream_poll() alone (needs fixes/C02-02) */
#ifndef C02_STRICT_POLL
# define C02_STRICT_POLL 1
#endif

static const struct {
	const char *name;
	MPT_TYPE(data_encoder) enc;
	MPT_TYPE(data_decoder) dec;
	int type;
} framing[4] = {
	{ "cobs",       mpt_encode_cobs,       mpt_decode_cobs,       MPT_ENUM(EncodingCobs) },
	{ "cobs/r",     mpt_encode_cobs_r,     mpt_decode_cobs_r,     MPT_ENUM(EncodingCobsInline) },
	{ "cobs/zpe",   mpt_encode_cobs_zpe,   mpt_decode_cobs_zpe,   MPT_ENUM(EncodingCobs) | MPT_ENUM(EncodingCompress) },
	{ "cobs/zpe+r", mpt_encode_cobs_zpe_r, mpt_decode_cobs_zpe_r, MPT_ENUM(EncodingCobsInline) | MPT_ENUM(EncodingCompress) }
};

#define MAXMSG   128
#define MAXLEN   4200
#define FLYMAX   (1u << 20)

typedef struct { uint8_t *d; size_t n; } msg_t;

static struct {
	int fr;
	MPT_STRUCT(stream) S, R;
	MPT_INTERFACE(input) *rin; /* receiver made by mpt_stream_input() instead of R */
	int idlen;             /* its message id length: handler gets the message without these bytes */
	int polled;            /* reader style: poll(timeout 0) decides whether to dispatch */
	int sockets;           /* transport: stream sockets instead of pipes */
	int hung_up;           /* write end of the receiver's pipe closed (everything was delivered) */
	int after_retry;       /* last dispatch announced a further message (decoded by its look-ahead) */
	msg_t exp[MAXMSG];     /* what the handler has to see */
	int a[2], b[2];        /* pipe A: S -> harness, pipe B: harness -> R */
	msg_t msg[MAXMSG];
	int nmsg;
	/* producer */
	int cur; size_t curpos; int terminated;
	size_t pushed_done;    /* finished bytes seen leaving the encode queue */
	/* transport */
	uint8_t *fly;          /* read from A, not yet written to B */
	size_t fhead, ftail;
	uint8_t *wire; size_t nwire; /* bytes written to B */
	size_t frame_end[MAXMSG + 1];
	int delivered;         /* delimiters written to B */
	size_t cuts_in_frame; int split_frames;
	size_t allowance;      /* bytes written to B while a complete frame waits */
	size_t peak_unread;    /* most bytes seen unread in B while it waits */
	/* consumer */
	int received;
	int futile;
	int in_dispatch;
	int cb_calls;
	int enc_wrapped, dec_wrapped, msg_split, flush_full;
	unsigned long steps;
} C;

static char hx1[400], hx2[400], hx3[400];

static const char *errname(long r)
{
	static char b[32];
	switch (r) {
	case MPT_ERROR(BadArgument):   return "BadArgument";
	case MPT_ERROR(BadValue):      return "BadValue";
	case MPT_ERROR(BadType):       return "BadType";
	case MPT_ERROR(BadOperation):  return "BadOperation";
	case MPT_ERROR(BadEncoding):   return "BadEncoding";
	case MPT_ERROR(MissingData):   return "MissingData";
	case MPT_ERROR(MissingBuffer): return "MissingBuffer";
	}
	snprintf(b, sizeof(b), "%ld", r);
	return b;
}
static const char *sdesc(void)
{
	static char b[200];
	const MPT_STRUCT(encode_queue) *e = &C.S._wd;
	snprintf(b, sizeof(b), "S.wd{max=%zu off=%zu len=%zu done=%zu scratch=%zu}", e->data.max, e->data.off, e->data.len, e->_state.done, e->_state.scratch);
	return b;
}
static const char *rdesc(void)
{
	static char b[240];
	const MPT_STRUCT(decode_queue) *d = &C.R._rd;
	if (C.rin) { snprintf(b, sizeof(b), "R{mpt_stream_input, id length %d}", C.idlen); return b; }
	snprintf(b, sizeof(b), "R.rd{max=%zu off=%zu len=%zu curr=%zu pos=%zu len=%zu msg=%zd ctx=%#lx flags=%#x}", d->data.max, d->data.off, d->data.len,
	         d->_state.curr, d->_state.data.pos, d->_state.data.len, d->_state.data.msg, (unsigned long) d->_state._ctx, mpt_stream_flags(&C.R._info));
	return b;
}
static int wrapped(const MPT_STRUCT(queue) *q) { return q->max && q->len && (q->max - q->len) < q->off; }

static void inv_send(const char *after)
{
	const MPT_STRUCT(encode_queue) *e = &C.S._wd;
	vf_count("monitor:stream-enc-invariant", 1);
	VF_CHECK(e->data.len <= e->data.max, "model:stream:wd-len-exceeds-max", "after %s: %s", after, sdesc());
	VF_CHECK(e->_state.done + e->_state.scratch == e->data.len, "model:stream:wd-done-scratch-mismatch",
	         "after %s: done + scratch != queue length: %s", after, sdesc());
	if (wrapped(&e->data)) { C.enc_wrapped = 1; vf_count("state:stream-enc-wrapped", 1); }
}
static void inv_recv(const char *after)
{
	const MPT_STRUCT(decode_queue) *d = &C.R._rd;
	const MPT_STRUCT(decode_state) *s = &d->_state;
	if (C.rin) return;
	vf_count("monitor:stream-dec-invariant", 1);
	VF_CHECK(d->data.len <= d->data.max, "model:stream:rd-len-exceeds-max", "after %s: %s", after, rdesc());
	VF_CHECK(s->curr <= d->data.len && s->data.pos <= s->curr && s->data.len <= s->curr - s->data.pos, "model:stream:rd-offsets-outside",
	         "after %s: %s", after, rdesc());
	if (wrapped(&d->data)) { C.dec_wrapped = 1; vf_count("state:stream-dec-wrapped", 1); }
}

/* ------------------------------------------------------------------ messages */
static size_t pick_msglen(vf_rng *r)
{
	static const uint16_t edge[] = { 4, 5, 29, 30, 31, 32, 33, 221, 222, 223, 224, 225, 226, 252, 253, 254, 255, 256, 257,
	                                 445, 446, 447, 508, 509, 510, 511, 668, 669, 762, 763, 764, 765 };
	uint32_t k = vf_below(r, 100);
	if (k < 10) return 0;
	if (k < 14) return 1 + vf_below(r, 3);
	if (k < 50) return 4 + vf_below(r, 44);
	if (k < 65) return 4 + vf_below(r, 200);
	if (k < 90) return edge[vf_below(r, sizeof(edge) / sizeof(*edge))];
	if (k < 98) return 4 + vf_below(r, 800);
	return 4 + vf_below(r, MAXLEN - 4);
}
static void fill_msg(vf_rng *r, uint8_t *d, size_t n, uint32_t id)
{
	size_t i = 0;
	uint32_t style = vf_below(r, 10);
	switch (style) {
	case 0: vf_bytes(r, d, n); break;
	case 1: for (i = 0; i < n; i++) d[i] = 1 + vf_below(r, 255); break;
	case 2: for (i = 0; i < n; i++) d[i] = (i % 3) ? 0 : 0x41 + (i / 3) % 26; break;
	case 3: memset(d, 0, n); break;
	case 4: for (i = 0; i < n; i++) { static const uint8_t v[] = { 0xde, 0xdf, 0xe0, 0xe1, 0xfe, 0xff, 0, 1, 2 }; d[i] = v[vf_below(r, sizeof(v))]; } break;
	default:
		while (i < n) {
			static const uint16_t runs[] = { 1, 1, 2, 3, 7, 29, 30, 31, 32, 221, 222, 223, 224, 253, 254, 255 };
			size_t run = runs[vf_below(r, sizeof(runs) / sizeof(*runs))];
			size_t z = 1 + vf_below(r, 4);
			if (vf_chance(r, 1, 3)) run = 1 + vf_below(r, 12);
			for (; run && i < n; run--) d[i++] = 1 + vf_below(r, 255);
			if (vf_chance(r, 1, 6)) z = 0;
			for (; z && i < n; z--) d[i++] = 0;
		}
	}
	if (n >= 4 && style != 3 && style != 2) {
		d[0] = id >> 24; d[1] = id >> 16; d[2] = id >> 8; d[3] = id;
		if (vf_chance(r, 1, 2)) { d[0] = 0x80 | (id >> 8); d[1] = id; d[2] = 1 + vf_below(r, 255); }
	} else if (n >= 4) {
		d[0] = 1 + (id % 255);
		if (style == 2) d[3] = 1 + ((id / 255) % 255);
	}
	if (n > 4 && style >= 5) {
		switch (vf_below(r, 5)) {
		case 0: d[n - 1] = 0; break;
		case 1: d[n - 1] = 1 + vf_below(r, 8); break;
		case 2: d[n - 1] = 0xdf + vf_below(r, 3); break;
		case 3: d[n - 1] = 0xff; break;
		default: break;
		}
	}
}

/* ------------------------------------------------------------------ producer */
static void do_push(vf_rng *r)
{
	msg_t *m = &C.msg[C.cur];
	size_t left = m->n - C.curpos, n;
	uint8_t *piece = 0;
	ssize_t ret;

	if (left) {
		switch (vf_below(r, 8)) {
		case 0: n = 1; break;
		case 1: n = 1 + vf_below(r, 4); break;
		case 2: n = 1 + vf_below(r, 40); break;
		case 3: case 4: n = left; break;
		default: n = 1 + vf_below(r, (uint32_t) left); break;
		}
		if (n > left) n = left;
		piece = vf_xalloc(n);
		memcpy(piece, m->d + C.curpos, n);
	} else {
		n = 0;
	}
	vf_at("mpt_stream_push");
	vf_count("mpt_stream_push", 1);
	ret = mpt_stream_push(&C.S, n, piece);
	vf_fp_u64(0x1000000 | n);
	vf_log("push(msg %d @%zu, %zu) = %s | %s", C.cur, C.curpos, n, ret < 0 ? errname(ret) : "ok", sdesc());
	if (piece) vf_xfree(piece, n);
	inv_send("mpt_stream_push");
	/* a buffered, growable stream has no reason to refuse */
	VF_CHECK(ret >= 0, "model:stream_push:error", "push(msg %d of %zu bytes @%zu, %zu) = %s; %s (%s)", C.cur, m->n, C.curpos, n, errname(ret), sdesc(), framing[C.fr].name);
	VF_CHECK((size_t) ret <= n, "model:stream_push:consumed-too-much", "push(%zu) returned %zd", n, ret);
	if (!n) {
		VF_CHECK(!C.S._wd._state.scratch, "model:stream_push:terminate-left-open-block", "terminate returned %zd but %s", ret, sdesc());
		VF_CHECK(!(mpt_stream_flags(&C.S._info) & MPT_STREAMFLAG(MesgActive)), "model:stream_push:terminate-left-active", "flags %#x", mpt_stream_flags(&C.S._info));
		vf_count("push:stream-terminate", 1);
		C.terminated++; C.cur++; C.curpos = 0;
		return;
	}
	VF_CHECK(ret > 0, "model:stream_push:no-progress", "push(%zu) = 0; %s", n, sdesc());
	if ((size_t) ret < n) vf_count("push:stream-short", 1);
	C.curpos += ret;
}
static void do_flush(void)
{
	size_t done = C.S._wd._state.done, len = C.S._wd.data.len;
	int ret;
	vf_at("mpt_stream_flush");
	vf_count("mpt_stream_flush", 1);
	ret = mpt_stream_flush(&C.S);
	vf_fp_u64(0x2000000);
	vf_log("flush = %d | %s", ret, sdesc());
	VF_CHECK(C.S._wd._state.done <= done && done - C.S._wd._state.done == len - C.S._wd.data.len, "model:stream_flush:accounting",
	         "flush = %d: done %zu -> %zu, queue length %zu -> %zu", ret, done, C.S._wd._state.done, len, C.S._wd.data.len);
	inv_send("mpt_stream_flush");
	C.pushed_done += done - C.S._wd._state.done;
	if (done && C.S._wd._state.done == done) { C.flush_full = 1; vf_count("flush:transport-full", 1); }
	else if (C.S._wd._state.done) vf_count("flush:partial", 1);
	if (ret < 0) vf_count("flush:negative", 1);
}

/* ------------------------------------------------------------------ transport */
static size_t fly_len(void) { return C.ftail - C.fhead; }
static void do_pump(vf_rng *r)
{
	size_t k, z, have, i;
	ssize_t n;
	static uint8_t tmp[8192];

	switch (vf_below(r, 10)) {
	case 0: case 1: k = 1; break;
	case 2: case 3: case 4: k = 0; break; /* decided below from the delimiter position */
	case 5: k = sizeof(tmp); break;
	case 6: k = 1 + vf_below(r, 8); break;
	default: k = 1 + vf_below(r, 300); break;
	}
	/* top up from pipe A */
	have = fly_len();
	if (have < sizeof(tmp) / 2) {
		n = read(C.a[0], tmp, sizeof(tmp) / 2);
		if (n > 0) {
			if (C.ftail + n > FLYMAX) vf_inconclusive("in-flight log too small");
			memcpy(C.fly + C.ftail, tmp, n);
			C.ftail += n;
			vf_count("transport:read-from-sender", n);
		} else if (n < 0 && errno != EAGAIN) vf_inconclusive("read from pipe A: %s", strerror(errno));
	}
	have = fly_len();
	if (!have) return;
	for (z = 0; z < have && C.fly[C.fhead + z]; z++) ;
	if (!k) {
		switch (vf_below(r, 3)) {
		case 0: k = z < have ? z + 1 : have; break;  /* right after the delimiter */
		case 1: k = z + 2; break;                    /* right after the next code byte */
		default: k = z ? z : 1; break;               /* right before the delimiter */
		}
	}
	if (k > have) k = have;
	n = write(C.b[1], C.fly + C.fhead, k);
	if (n < 0) {
		if (errno == EAGAIN) { vf_count("transport:receiver-pipe-full", 1); return; }
		vf_inconclusive("write to pipe B: %s", strerror(errno));
	}
	vf_fp_u64(0x3000000 | n);
	vf_log("deliver %zd bytes (%s)", n, vf_hex(hx1, 60, C.fly + C.fhead, n));
	for (i = 0; i < (size_t) n; i++) {
		uint8_t v = C.fly[C.fhead + i];
		C.wire[C.nwire++] = v;
		if (!v) {
			VF_CHECK(C.delivered < C.terminated, "model:wire:extra-delimiter", "delimiter %d on the wire but only %d messages terminated (wire offset %zu)",
			         C.delivered + 1, C.terminated, C.nwire - 1);
			C.frame_end[C.delivered++] = C.nwire;
			if (C.cuts_in_frame) C.split_frames++;
			C.cuts_in_frame = 0;
		}
	}
	if (n && C.fly[C.fhead + n - 1]) C.cuts_in_frame++;
	C.fhead += n;
	if (C.delivered > C.received) C.allowance += n;
	vf_count("transport:bytes", n);
	vf_count("transport:segments", 1);
}

/* ------------------------------------------------------------------ consumer */
static size_t frame_start(int j) { return j ? C.frame_end[j - 1] : 0; }
static const char *frame_hex(int j)
{
	if (j >= C.delivered) return "(frame not complete)";
	return vf_hex(hx3, sizeof(hx3), C.wire + frame_start(j), C.frame_end[j] - frame_start(j));
}
static int on_message(void *arg, const MPT_STRUCT(message) *msg)
{
	static uint8_t got[MAXLEN + 16];
	size_t n = 0, i, total;
	int idx = C.received, j;
	const uint8_t *rb = C.rin ? 0 : C.R._rd.data.base;

	(void) arg;
	C.cb_calls++;
	vf_count("dispatch:callback", 1);
	VF_CHECK(C.in_dispatch == 1, "model:stream_dispatch:callback-outside-dispatch", "handler called %d levels deep", C.in_dispatch);
	total = msg->used;
	for (i = 0; i < msg->clen; i++) total += msg->cont[i].iov_len;
	if (total > MAXLEN) vf_fail("model:stream_dispatch:message-length", "message %d dispatched with %zu bytes, sent %zu; %s", idx, total, idx < C.nmsg ? C.exp[idx].n : 0, rdesc());
	if (msg->used) {
		const uint8_t *p = msg->base;
		VF_CHECK(!rb || (p >= rb && p + msg->used <= rb + C.R._rd.data.max), "model:stream_dispatch:outside-ring", "first part %zd..+%zu outside ring of %zu", (ssize_t) (p - rb), msg->used, C.R._rd.data.max);
		memcpy(got, msg->base, msg->used); n = msg->used;
	}
	for (i = 0; i < msg->clen; i++) {
		const uint8_t *p = msg->cont[i].iov_base;
		size_t l = msg->cont[i].iov_len;
		if (!l) continue;
		VF_CHECK(!rb || (p >= rb && p + l <= rb + C.R._rd.data.max), "model:stream_dispatch:outside-ring", "part %zu: %zd..+%zu outside ring of %zu", i + 1, (ssize_t) (p - rb), l, C.R._rd.data.max);
		memcpy(got + n, p, l); n += l;
		C.msg_split = 1;
		vf_count("state:stream-message-split", 1);
	}
	vf_log("  handler: message of %zu bytes (%s)", n, vf_hex(hx1, 60, got, n));
	vf_count("monitor:stream-message-compare", 1);
	if (idx >= C.terminated)
		vf_fail("model:stream_dispatch:phantom-message", "message %d dispatched (%zu bytes: %s) but only %d were terminated by the sender; %s",
		        idx, n, vf_hex(hx1, sizeof(hx1), got, n), C.terminated, rdesc());
	VF_CHECK(idx < C.delivered, "model:stream_dispatch:message-before-delimiter", "message %d dispatched although only %d delimiters were delivered", idx, C.delivered);
	if (n == C.exp[idx].n && !memcmp(got, C.exp[idx].d, n)) {
		/* an empty message that the previous dispatch call already decoded (Retry) is a message like any other */
		if (!n && C.after_retry) vf_count(C.rin ? "state:input-empty-message-after-retry" : "state:stream-empty-message-after-retry", 1);
		if (!n) vf_count("dispatch:empty-message", 1);
		C.received++;
		C.futile = 0;
		C.allowance = 0;
		C.peak_unread = 0;
		return MPT_EVENTFLAG(None);
	}
	if (idx > 0 && n == C.exp[idx - 1].n && !memcmp(got, C.exp[idx - 1].d, n) && (n < 4 || C.exp[idx].n != n))
		vf_fail("model:stream_dispatch:duplicate-message", "message %d (%zu bytes) dispatched again instead of message %d (%zu bytes); %s (%s)",
		        idx - 1, n, idx, C.exp[idx].n, rdesc(), framing[C.fr].name);
	for (j = 0; j < C.nmsg; j++) {
		if (j == idx || C.exp[j].n < 4 || C.exp[j].n != n || memcmp(got, C.exp[j].d, n)) continue;
		vf_fail(j < idx ? "model:stream_dispatch:duplicate-message" : "model:stream_dispatch:skipped-message",
		        "dispatch %d is message %d (%zu bytes), expected message %d (%zu bytes); %s", idx, j, n, idx, C.exp[idx].n, rdesc());
	}
	vf_fail(n == C.exp[idx].n ? "model:stream_dispatch:message-content" : "model:stream_dispatch:message-length",
	        "(%s) message %d: got %zu bytes %s, sent %zu bytes %s; wire frame %s; %s", framing[C.fr].name, idx,
	        n, vf_hex(hx1, sizeof(hx1), got, n), C.exp[idx].n, vf_hex(hx2, sizeof(hx2), C.exp[idx].d, C.exp[idx].n), frame_hex(idx), rdesc());
	return 0;
}
static int on_event(void *arg, MPT_STRUCT(event) *ev)
{
	VF_CHECK(ev && ev->msg, "model:stream_input:event-without-message", "handler called with %s", ev ? "event without message" : "no event");
	vf_count("input:event", 1);
	return on_message(arg, ev->msg);
}
static int pipe_b_bytes(void)
{
	int n = 0;
	if (ioctl(C.b[0], FIONREAD, &n) < 0) return 0;
	return n;
}
/* one round: poll for input the way the stream input does, then dispatch */
static void do_receive(vf_rng *r)
{
	int ret, waiting = C.delivered > C.received, fast = 1, calls = 0, before = C.received;
	int timeout = -1;

	if (waiting) { size_t u = (size_t) pipe_b_bytes(); if (u > C.peak_unread) C.peak_unread = u; }
	/* real poll() when nothing is readable now and then; the fast path is what mpt_stream_input uses */
	if (vf_chance(r, 1, 4)) { timeout = 0; fast = 0; }
	if (C.rin) {
		/* the input interface: next() is the fast path poll */
		timeout = -1; fast = 1;
		vf_at("input::next");
		vf_count("input::next", 1);
		ret = C.rin->_vptr->next(C.rin, POLLIN);
	} else {
		vf_at("mpt_stream_poll");
		vf_count(fast ? "mpt_stream_poll(fast)" : "mpt_stream_poll(timeout 0)", 1);
		ret = mpt_stream_poll(&C.R, POLLIN, timeout);
	}
	vf_fp_u64(0x4000000 | (timeout & 1));
	vf_log("poll(%d) = %d | %s", timeout, ret, rdesc());
	inv_recv("mpt_stream_poll");
	do {
		int cb = C.cb_calls;
		C.in_dispatch++;
		if (C.rin) {
			vf_at("input::dispatch");
			vf_count("input::dispatch", 1);
			ret = C.rin->_vptr->dispatch(C.rin, on_event, 0);
		} else {
			vf_at("mpt_stream_dispatch");
			vf_count("mpt_stream_dispatch", 1);
			ret = mpt_stream_dispatch(&C.R, on_message, 0);
		}
		C.in_dispatch--;
		C.after_retry = ret >= 0 && (ret & MPT_EVENTFLAG(Retry));
		vf_log("dispatch = %s%#x | %s", ret < 0 ? errname(ret) : "", ret < 0 ? 0 : ret, rdesc());
		inv_recv("mpt_stream_dispatch");
		VF_CHECK(C.cb_calls - cb <= 1, "model:stream_dispatch:handler-called-twice", "one dispatch made %d handler calls", C.cb_calls - cb);
		if (ret < 0) {
			/* nothing there / reader wants space (next poll enlarges) */
			if (ret == MPT_ERROR(MissingData) && (C.rin || !C.R._rd.data.len)) vf_count("dispatch:empty", 1);
			else if (ret == MPT_ERROR(MissingBuffer)) vf_count("dispatch:MissingBuffer", 1);
			else vf_fail("model:stream_dispatch:error", "dispatch = %s on a well-formed stream (%s); next frame %s; %s", errname(ret), framing[C.fr].name,
			             frame_hex(C.received), rdesc());
			break;
		}
		VF_CHECK(!(ret & MPT_EVENTFLAG(CtlError)), "model:stream_dispatch:ctl-error", "dispatch = %#x", ret);
		if (ret & MPT_EVENTFLAG(Retry)) {
			vf_count("dispatch:retry", 1);
			VF_CHECK(C.rin || C.R._rd._state.data.msg >= 0, "model:stream_dispatch:retry-without-message", "Retry but %s", rdesc());
			if (C.received < C.nmsg && !C.exp[C.received].n) vf_count("state:empty-message-announced-by-retry", 1);
		}
		calls++;
		/* sometimes look at the transport before taking the announced message */
		if ((ret & MPT_EVENTFLAG(Retry)) && vf_chance(r, 1, 5)) break;
	} while ((ret & MPT_EVENTFLAG(Retry)) && calls < 4 * MAXMSG);

	if (waiting && C.received == before && fast) {
		size_t flen = C.frame_end[C.received] - frame_start(C.received);
		C.futile++;
		vf_count("monitor:stream-progress-check", 1);
		/* every round enlarges a full read queue by 64 bytes only and fills it at once from the transport:
		 * input that is already on its way has to be drained before the decoder gets its space */
		if ((size_t) C.futile > 2 * flen + 576 + (C.allowance + C.peak_unread) / 16)
			vf_fail("model:stream:stall", "frame %d (%zu bytes: %s) was written completely to the receiver's pipe, %d poll+dispatch rounds delivered nothing; "
			        "%d bytes unread in pipe; %s (%s)", C.received, flen, frame_hex(C.received), C.futile, pipe_b_bytes(), rdesc(), framing[C.fr].name);
	}
}

/* one dispatch call with all checks; returns its result */
static int dispatch_once(void)
{
	int cb = C.cb_calls, ret;
	vf_at("mpt_stream_dispatch");
	vf_count("mpt_stream_dispatch", 1);
	C.in_dispatch++;
	ret = mpt_stream_dispatch(&C.R, on_message, 0);
	C.in_dispatch--;
	C.after_retry = ret >= 0 && (ret & MPT_EVENTFLAG(Retry));
	vf_log("dispatch = %s%#x | %s", ret < 0 ? errname(ret) : "", ret < 0 ? 0 : ret, rdesc());
	inv_recv("mpt_stream_dispatch");
	VF_CHECK(C.cb_calls - cb <= 1, "model:stream_dispatch:handler-called-twice", "one dispatch made %d handler calls", C.cb_calls - cb);
	if (ret >= 0) VF_CHECK(!(ret & MPT_EVENTFLAG(CtlError)), "model:stream_dispatch:ctl-error", "dispatch = %#x", ret);
	return ret;
}
/*
 * reader that asks mpt_stream_poll(.., POLLIN, 0) whether there is something to do:
 *   while (mpt_stream_poll(&rd, POLLIN, 0) > 0) mpt_stream_dispatch(&rd, ...);
 * (buffer space on MissingBuffer is given the way mpt_stream_sync does).  When the loop
 * ends the transport is drained, so every complete frame written to it must be delivered.
 */
static void do_receive_polled(vf_rng *r)
{
	int ret, guard = 0, before = C.received, waiting = C.delivered > C.received, helped = 0;
	(void) r;
	while (++guard < 8 * MAXMSG + 256) {
		int pending = C.R._rd._state.data.msg >= 0, empty_pending = C.R._rd._state.data.msg == 0, unread = pipe_b_bytes();
		vf_at("mpt_stream_poll");
		vf_count("mpt_stream_poll(timeout 0, decides)", 1);
		ret = mpt_stream_poll(&C.R, POLLIN, 0);
		vf_fp_u64(0x4100000 | (ret > 0));
		vf_log("poll(0) = %d%s | %s", ret, C.hung_up ? " (peer gone)" : "", rdesc());
		inv_recv("mpt_stream_poll");
		if (pending && !unread) {
			vf_count("state:poll-asked-with-waiting-message-and-no-input", 1);
			if (empty_pending) vf_count(C.hung_up ? "state:poll-waiting-empty-message-after-hangup" : "state:poll-waiting-empty-message", 1);
		}
		if (ret <= 0) {
			/* The look-ahead of mpt_stream_dispatch() may have stopped on MissingBuffer; its result is not handed on
			 * and poll neither enlarges the queue nor announces the undecoded input when nothing new is readable
			 * (fixes/C02-02-stream-poll-undecoded-input.patch).  Until that is merged the reader looks itself:
			 * bytes behind the decoder's input position -> give space if the ring is full, dispatch. */
			if (!C02_STRICT_POLL && C.R._rd._state.data.msg < 0 && C.R._rd._state.curr < C.R._rd.data.len && ++helped < 64) {
				vf_count("polled:undecoded-input-not-announced", 1);
				if (C.R._rd.data.len >= C.R._rd.data.max) {
					vf_at("mpt_queue_prepare");
					if (!mpt_queue_prepare(&C.R._rd.data, 64)) vf_inconclusive("mpt_queue_prepare failed");
				}
				ret = dispatch_once();
				if (ret < 0 && ret != MPT_ERROR(MissingBuffer) && ret != MPT_ERROR(MissingData))
					vf_fail("model:stream_dispatch:error", "dispatch = %s on a well-formed stream (%s); next frame %s; %s", errname(ret), framing[C.fr].name, frame_hex(C.received), rdesc());
				continue;
			}
			break;
		}
		ret = dispatch_once();
		if (ret == MPT_ERROR(MissingBuffer)) {
			int tries = 0;
			vf_count("dispatch:MissingBuffer", 1);
			while (ret == MPT_ERROR(MissingBuffer) && ++tries < 6) {
				vf_at("mpt_queue_prepare");
				if (!mpt_queue_prepare(&C.R._rd.data, 64)) vf_inconclusive("mpt_queue_prepare failed");
				ret = dispatch_once();
			}
		}
		if (ret < 0) {
			if (ret == MPT_ERROR(MissingData) && !C.R._rd.data.len) vf_count("dispatch:empty", 1);
			else if (ret != MPT_ERROR(MissingBuffer))
				vf_fail("model:stream_dispatch:error", "dispatch = %s on a well-formed stream (%s); next frame %s; %s", errname(ret), framing[C.fr].name, frame_hex(C.received), rdesc());
		}
	}
	vf_count("receive:polled-rounds", 1);
	/* loop ended: nothing readable, nothing announced */
	if (C.delivered > C.received && !pipe_b_bytes()) {
		size_t flen = C.frame_end[C.received] - frame_start(C.received);
		if (C.received == before && waiting) C.futile++;
		vf_count("monitor:stream-progress-check", 1);
		if (C.futile > 8)
			vf_fail("model:stream:stall", "reader driven by mpt_stream_poll(POLLIN, 0): frame %d (%zu bytes: %s) and everything behind it was read from the transport, "
			        "poll reports nothing to do in %d rounds%s; %s (%s)", C.received, flen, frame_hex(C.received), C.futile, C.hung_up ? " (peer gone)" : "", rdesc(), framing[C.fr].name);
	}
}
/* selecting the buffer mode a stream already has changes nothing: no queue is dropped, no coding state touched */
static void do_setmode(int writer)
{
	MPT_STRUCT(stream) *srm = writer ? &C.S : &C.R;
	int flags = mpt_stream_flags(&srm->_info), mode = flags & MPT_STREAMFLAG(Buffer), ret;
	MPT_STRUCT(encode_state) es = srm->_wd._state;
	MPT_STRUCT(decode_state) ds = srm->_rd._state;
	MPT_STRUCT(queue) wq = srm->_wd.data, rq = srm->_rd.data;

	if (writer) {
		if (wq.len) vf_count("state:setmode-writer-with-queued-data", 1);
		if (es.done) vf_count("state:setmode-writer-with-unflushed-frames", 1);
		if (es.scratch) vf_count("state:setmode-writer-with-open-message", 1);
	} else if (rq.len && ds.data.msg < 0 && (ds._ctx || ds.data.len)) vf_count("state:setmode-reader-with-partial-frame", 1);
	else if (ds.data.msg >= 0) vf_count("state:setmode-reader-with-waiting-message", 1);
	vf_at("mpt_stream_setmode");
	vf_count(writer ? "mpt_stream_setmode(writer, same mode)" : "mpt_stream_setmode(reader, same mode)", 1);
	ret = mpt_stream_setmode(srm, mode);
	vf_fp_u64(0x9000000 | writer);
	vf_log("setmode(%s, %#x) = %d | %s | %s", writer ? "S" : "R", mode, ret, sdesc(), rdesc());
	/* (the call clears MesgActive/FlushLine, bits 2 and 3: not part of what is asked here) */
	VF_CHECK(ret >= 0 && ((mpt_stream_flags(&srm->_info) ^ flags) & ~0xc) == 0, "model:stream_setmode:flags", "setmode(%#x) = %d, flags %#x -> %#x", mode, ret, flags, mpt_stream_flags(&srm->_info));
	VF_CHECK(!memcmp(&es, &srm->_wd._state, sizeof(es)) && !memcmp(&wq, &srm->_wd.data, sizeof(wq)), "model:stream_setmode:write-state-changed",
	         "re-selecting mode %#x changed the write side: done %zu -> %zu, scratch %zu -> %zu, queue len %zu -> %zu", mode, es.done, srm->_wd._state.done,
	         es.scratch, srm->_wd._state.scratch, wq.len, srm->_wd.data.len);
	VF_CHECK(!memcmp(&ds, &srm->_rd._state, sizeof(ds)) && !memcmp(&rq, &srm->_rd.data, sizeof(rq)), "model:stream_setmode:read-state-changed",
	         "re-selecting mode %#x changed the read side: ctx %#lx -> %#lx, curr %zu -> %zu, pos %zu -> %zu, len %zu -> %zu, msg %zd -> %zd, queue len %zu -> %zu", mode,
	         (unsigned long) ds._ctx, (unsigned long) srm->_rd._state._ctx, ds.curr, srm->_rd._state.curr, ds.data.pos, srm->_rd._state.data.pos,
	         ds.data.len, srm->_rd._state.data.len, ds.data.msg, srm->_rd._state.data.msg, rq.len, srm->_rd.data.len);
	if (writer) inv_send("mpt_stream_setmode"); else inv_recv("mpt_stream_setmode");
}

/* ------------------------------------------------------------------ case */
static void case_free(void)
{
	int i;
	for (i = 0; i < C.nmsg; i++) free(C.msg[i].d);
	free(C.fly); free(C.wire);
	vf_at("mpt_stream_close");
	mpt_stream_close(&C.S);
	if (C.rin) C.rin->_vptr->meta.unref((void *) C.rin);
	else mpt_stream_close(&C.R);
	close(C.a[0]);
	if (!C.hung_up) close(C.b[1]);
}
static void run_case(uint64_t idx, vf_rng *r)
{
	static const MPT_STRUCT(stream) sinit = MPT_STREAM_INIT;
	MPT_STRUCT(socket) sock = MPT_SOCKET_INIT;
	unsigned wp, wf, wm, wr;
	size_t total = 0;
	unsigned long limit;
	int i, ret, fr = (int) (idx % 4), use_input = (int) ((idx / 4) % 2);
	unsigned ws;

	memset(&C, 0, sizeof(C));
	C.fr = fr;
	C.S = sinit; C.R = sinit;
	if (vf_chance(r, 1, 4)) {
		/* stream sockets: a[1]/b[1] are written, a[0]/b[0] read */
		int sz = 2048;
		if (socketpair(AF_UNIX, SOCK_STREAM | SOCK_NONBLOCK | SOCK_CLOEXEC, 0, C.a) < 0
		    || socketpair(AF_UNIX, SOCK_STREAM | SOCK_NONBLOCK | SOCK_CLOEXEC, 0, C.b) < 0) vf_inconclusive("socketpair: %s", strerror(errno));
		(void) setsockopt(C.a[1], SOL_SOCKET, SO_SNDBUF, &sz, sizeof(sz));
		(void) setsockopt(C.b[1], SOL_SOCKET, SO_SNDBUF, &sz, sizeof(sz));
		vf_count("transport:socketpair", 1);
		C.sockets = 1;
	} else {
		if (pipe2(C.a, O_NONBLOCK | O_CLOEXEC) < 0 || pipe2(C.b, O_NONBLOCK | O_CLOEXEC) < 0) vf_inconclusive("pipe2: %s", strerror(errno));
		/* smallest transport the kernel offers (one page) on the sender side in most cases */
		if (!vf_chance(r, 1, 4)) (void) fcntl(C.a[1], F_SETPIPE_SZ, 4096);
		(void) fcntl(C.b[1], F_SETPIPE_SZ, 4096);
		vf_count("transport:pipe", 1);
	}

	C.S._wd._enc = framing[fr].enc;
	C.R._rd._dec = framing[fr].dec;
	sock._id = C.a[1];
	vf_at("mpt_stream_dopen");
	ret = mpt_stream_dopen(&C.S, &sock, MPT_STREAMFLAG(Write) | MPT_STREAMFLAG(WriteBuf));
	if (ret < 0) vf_inconclusive("dopen(write end) = %d: %s", ret, strerror(errno));
	sock._id = C.b[0];
	if (use_input) {
		static const uint8_t idlens[] = { 1, 2, 4, 8 };
		C.idlen = vf_chance(r, 1, 4) ? idlens[vf_below(r, 4)] : 0;
		vf_at("mpt_stream_input");
		C.rin = mpt_stream_input(&sock, MPT_STREAMFLAG(Read) | MPT_STREAMFLAG(ReadBuf), framing[fr].type, C.idlen);
		if (!C.rin) vf_inconclusive("mpt_stream_input(%s, id length %d) failed: %s", framing[fr].name, C.idlen, strerror(errno));
		vf_count(C.idlen ? "receiver:stream-input-with-id" : "receiver:stream-input", 1);
	} else {
		ret = mpt_stream_dopen(&C.R, &sock, MPT_STREAMFLAG(Read) | MPT_STREAMFLAG(ReadBuf));
		if (ret < 0) vf_inconclusive("dopen(read end) = %d: %s", ret, strerror(errno));
		VF_CHECK(C.R._rd._dec == framing[fr].dec && _mpt_stream_fread(&C.R._info) == C.b[0], "model:stream_dopen:codec-lost", "dopen dropped the configured codec / descriptor");
		C.polled = (int) ((idx / 8) % 2);
		vf_count(C.polled ? "receiver:stream-dispatch-driven-by-poll" : "receiver:stream-dispatch", 1);
	}
	VF_CHECK(C.S._wd._enc == framing[fr].enc && _mpt_stream_fwrite(&C.S._info) == C.a[1], "model:stream_dopen:descriptor",
	         "sender: codec lost or descriptor %d, expected %d", _mpt_stream_fwrite(&C.S._info), C.a[1]);

	C.nmsg = vf_range(r, 4, vf_thorough ? 60 : 30);
	for (i = 0; i < C.nmsg; i++) {
		size_t n = pick_msglen(r);
		/* with message ids the first bytes are the id (request, not reply): the handler gets the rest */
		if (n < (size_t) C.idlen) n = C.idlen;
		C.msg[i].n = n;
		C.msg[i].d = malloc(n + 1);
		fill_msg(r, C.msg[i].d, n, (uint32_t) (idx * 1000 + i + 1));
		if (C.idlen) C.msg[i].d[0] &= 0x7f;
		C.exp[i].d = C.msg[i].d + C.idlen;
		C.exp[i].n = n - C.idlen;
		vf_fp(C.msg[i].d, n);
		total += n;
	}
	C.fly = malloc(FLYMAX);
	C.wire = malloc(FLYMAX);
	wp = 1 + vf_below(r, 8); wf = 1 + vf_below(r, 4); wm = 1 + vf_below(r, 8); wr = 1 + vf_below(r, 8);
	ws = vf_below(r, 3);
	vf_fp_u64(fr); vf_fp_u64(use_input); vf_fp_u64(C.polled);
	vf_log("case: %s %d messages, %zu bytes, weights %u/%u/%u/%u", framing[fr].name, C.nmsg, total, wp, wf, wm, wr);
	limit = 64 * (total + 16 * C.nmsg) + 8192;

	while (C.received < C.nmsg) {
		unsigned k = vf_below(r, wp + wf + wm + wr + ws);
		/* sender done, everything moved: the peer may go away before the reader has looked at all of it */
		if (!C.hung_up && (!C.sockets || C02_HANGUP_ON_SOCKETS) && C.terminated == C.nmsg && !C.S._wd.data.len && !fly_len() && C.nwire == C.pushed_done && vf_chance(r, 1, 8)) {
			close(C.b[1]);
			C.hung_up = 1;
			vf_count("transport:peer-closed-before-all-was-dispatched", 1);
			vf_log("peer closes the receiver's transport");
		}
		if (++C.steps > limit)
			vf_fail("model:schedule:no-termination", "%lu steps: sent %d/%d, delimiters delivered %d, dispatched %d; in flight %zu; %s | %s", C.steps,
			        C.terminated, C.nmsg, C.delivered, C.received, fly_len(), sdesc(), rdesc());
		if (k < wp) {
			if (C.cur < C.nmsg) do_push(r);
			else if (C.S._wd.data.len) do_flush();
		}
		else if (k < wp + wf) do_flush();
		else if (k < wp + wf + wm) { if (!C.hung_up) do_pump(r); }
		else if (k < wp + wf + wm + wr) { if (C.polled) do_receive_polled(r); else do_receive(r); }
		else if (vf_chance(r, 1, 2)) do_setmode(1);
		else if (!C.rin) do_setmode(0);
	}
	/* conservation */
	VF_CHECK(C.cur == C.nmsg && C.terminated == C.nmsg, "model:schedule:received-more-than-sent", "dispatched %d, terminated %d", C.received, C.terminated);
	VF_CHECK(!C.S._wd.data.len && !fly_len() && C.nwire == C.frame_end[C.nmsg - 1] && C.pushed_done == C.nwire, "model:wire:bytes-after-last-delimiter",
	         "all %d messages dispatched but %zu bytes remain in the encode queue, %zu in flight, %zu written after the last delimiter; flushed %zu, wire %zu",
	         C.nmsg, C.S._wd.data.len, fly_len(), C.nwire - C.frame_end[C.nmsg - 1], C.pushed_done, C.nwire);
	{
		int cb = C.cb_calls, rounds;
		for (rounds = 0; rounds < 3; rounds++) {
			C.in_dispatch++;
			if (C.rin) {
				vf_at("input::next");
				(void) C.rin->_vptr->next(C.rin, POLLIN);
				vf_at("input::dispatch");
				ret = C.rin->_vptr->dispatch(C.rin, on_event, 0);
			} else {
				vf_at("mpt_stream_poll");
				(void) mpt_stream_poll(&C.R, POLLIN, rounds ? 0 : -1);
				vf_at("mpt_stream_dispatch");
				ret = mpt_stream_dispatch(&C.R, on_message, 0);
			}
			C.in_dispatch--;
			vf_log("final dispatch = %d | %s", ret, rdesc());
			VF_CHECK(C.cb_calls == cb, "model:stream_dispatch:phantom-message", "handler called after all %d messages were dispatched; %s", C.nmsg, rdesc());
		}
	}
	vf_count("monitor:stream-conservation-at-end", 1);
	vf_count("messages:stream-delivered", C.received);
	if (C.received >= 3 && C.split_frames) vf_nontrivial();
	if (C.enc_wrapped) vf_count("history:stream-enc-wrapped", 1);
	if (C.dec_wrapped) vf_count("history:stream-dec-wrapped", 1);
	if (C.msg_split) vf_count("history:stream-message-split", 1);
	if (C.split_frames) vf_count("history:stream-frame-in-several-segments", 1);
	if (C.flush_full) vf_count("history:flush-met-full-transport", 1);
	vf_max("max:stream-enc-capacity", C.S._wd.data.max);
	if (!C.rin) vf_max("max:stream-dec-capacity", C.R._rd.data.max);
	vf_sample("%s, receiver %s: %d messages / %zu bytes through two streams on pipes, %zu wire bytes in %lu steps, frames cut: %d, first message %s",
	          framing[fr].name, C.rin ? (C.idlen ? "mpt_stream_input with message ids" : "mpt_stream_input") : "mpt_stream_dispatch",
	          C.nmsg, total, C.nwire, C.steps, C.split_frames, vf_hex(hx1, 80, C.msg[0].d, C.msg[0].n));
	case_free();
}


/* ------------------------------------------------------------------ sender without encoder */
/*
 * mpt_stream_push() on a stream without encoder appends the bytes (growing the write
 * queue when only a part fits), the terminating call adds the line separator and commits;
 * mpt_stream_flush() writes committed bytes only.  Byte model: the transport sees exactly
 * message + separator for every terminated message, in order, nothing of an open message.
 */
static void run_raw_sender(uint64_t idx, vf_rng *r)
{
	static const MPT_STRUCT(stream) sinit = MPT_STREAM_INIT;
	MPT_STRUCT(socket) sock = MPT_SOCKET_INIT;
	MPT_STRUCT(stream) S = sinit;
	const char *nl = mpt_newline_string(0);
	size_t nll = strlen(nl), ncommit = 0, nopen = 0, nread = 0, cap = 1u << 20;
	uint8_t *exp = malloc(cap), *got = malloc(65536), next = 0;
	int fd[2], nmsg = vf_range(r, 3, 30), m = 0, ret, partial = 0, steps = 0;

	(void) idx;
	if (pipe2(fd, O_NONBLOCK | O_CLOEXEC) < 0) vf_inconclusive("pipe2: %s", strerror(errno));
	(void) fcntl(fd[1], F_SETPIPE_SZ, 4096);
	sock._id = fd[1];
	vf_at("mpt_stream_dopen");
	ret = mpt_stream_dopen(&S, &sock, MPT_STREAMFLAG(Write) | MPT_STREAMFLAG(WriteBuf));
	if (ret < 0) vf_inconclusive("dopen(write end) = %d: %s", ret, strerror(errno));
	vf_fp_u64(0x5eed);
	vf_log("raw sender case: %d messages", nmsg);
	while (m < nmsg || S._wd.data.len || nread < ncommit) {
		unsigned k = vf_below(r, 10);
		if (++steps > 100000) vf_fail("model:raw_stream:no-termination", "%d steps: %d/%d messages, %zu committed, %zu read; wd{max=%zu len=%zu done=%zu scratch=%zu}",
		                              steps, m, nmsg, ncommit, nread, S._wd.data.max, S._wd.data.len, S._wd._state.done, S._wd._state.scratch);
		if (k < 5 && m < nmsg) {
			size_t nfree = S._wd.data.max - S._wd.data.len, n, i;
			ssize_t pr;
			if (vf_chance(r, 1, 4)) {
				/* terminate: separator + commit */
				vf_at("mpt_stream_push");
				vf_count("mpt_stream_push(raw terminate)", 1);
				pr = mpt_stream_push(&S, 0, 0);
				vf_log("raw terminate = %zd | wd{max=%zu off=%zu len=%zu done=%zu scratch=%zu}", pr, S._wd.data.max, S._wd.data.off, S._wd.data.len, S._wd._state.done, S._wd._state.scratch);
				VF_CHECK(pr >= 0, "model:raw_stream:terminate-error", "terminate = %s", errname(pr));
				memcpy(exp + ncommit + nopen, nl, nll);
				ncommit += nopen + nll; nopen = 0;
				m++;
				VF_CHECK(!S._wd._state.scratch && S._wd._state.done == S._wd.data.len, "model:raw_stream:terminate-accounting",
				         "after terminate: done=%zu scratch=%zu len=%zu", S._wd._state.done, S._wd._state.scratch, S._wd.data.len);
			} else {
				n = vf_chance(r, 1, 2) ? nfree + 1 + vf_below(r, 64) : 1 + vf_below(r, 200);
				if (ncommit + nopen + n + 8 > cap) n = 1;
				uint8_t *d = vf_xalloc(n);
				for (i = 0; i < n; i++) { if (!++next) next = 1; d[i] = next; }
				if (n > nfree && nfree) { partial = 1; vf_count("state:raw-stream-push-larger-than-free-space", 1); }
				vf_at("mpt_stream_push");
				vf_count("mpt_stream_push(raw)", 1);
				pr = mpt_stream_push(&S, n, d);
				vf_fp_u64(0x8000000 | n);
				vf_log("raw stream push(%zu) = %zd | wd{max=%zu off=%zu len=%zu done=%zu scratch=%zu}", n, pr, S._wd.data.max, S._wd.data.off, S._wd.data.len, S._wd._state.done, S._wd._state.scratch);
				/* growable write buffer: everything is taken */
				VF_CHECK(pr == (ssize_t) n, "model:raw_stream:push-return", "push(%zu) with %zu bytes free = %s%zd; wd{max=%zu len=%zu done=%zu scratch=%zu}", n, nfree,
				         pr < 0 ? errname(pr) : "", pr < 0 ? (ssize_t) 0 : pr, S._wd.data.max, S._wd.data.len, S._wd._state.done, S._wd._state.scratch);
				memcpy(exp + ncommit + nopen, d, n);
				nopen += n;
				vf_xfree(d, n);
			}
			/* queue holds exactly what was not flushed yet */
			vf_count("monitor:raw-stream-accounting", 1);
			VF_CHECK(S._wd._state.done + S._wd._state.scratch == S._wd.data.len && S._wd._state.scratch == nopen, "model:raw_stream:accounting",
			         "done=%zu scratch=%zu len=%zu, open message has %zu bytes", S._wd._state.done, S._wd._state.scratch, S._wd.data.len, nopen);
		} else if (k < 7) {
			size_t done = S._wd._state.done, len = S._wd.data.len;
			vf_at("mpt_stream_flush");
			vf_count("mpt_stream_flush(raw)", 1);
			ret = mpt_stream_flush(&S);
			vf_log("raw flush = %d | done=%zu len=%zu", ret, S._wd._state.done, S._wd.data.len);
			VF_CHECK(S._wd._state.done <= done && done - S._wd._state.done == len - S._wd.data.len, "model:raw_stream:flush-accounting",
			         "flush = %d: done %zu -> %zu, length %zu -> %zu", ret, done, S._wd._state.done, len, S._wd.data.len);
		} else {
			ssize_t n = read(fd[0], got, 1 + vf_below(r, 65535));
			if (n > 0) {
				/* only committed bytes, exactly once, in order */
				vf_count("monitor:raw-stream-wire-compare", 1);
				VF_CHECK(nread + n <= ncommit, "model:raw_stream:uncommitted-bytes-sent", "%zu bytes on the transport, only %zu committed", nread + n, ncommit);
				VF_CHECK(!memcmp(got, exp + nread, n), "model:raw_stream:wire-content", "transport bytes at offset %zu differ: %s, expected %s", nread,
				         vf_hex(hx1, 100, got, n), vf_hex(hx2, 100, exp + nread, n));
				nread += n;
			}
		}
	}
	VF_CHECK(nread == ncommit && !nopen, "model:raw_stream:conservation", "committed %zu, read %zu", ncommit, nread);
	vf_count("monitor:raw-stream-conservation-at-end", 1);
	vf_count("messages:raw-stream", m);
	if (partial && m >= 3) vf_nontrivial();
	vf_sample("stream without encoder: %d newline-terminated messages, %zu bytes pushed / flushed / read back from the pipe", m, ncommit);
	vf_at("mpt_stream_close");
	mpt_stream_close(&S);
	close(fd[0]);
	free(exp); free(got);
}

uint64_t vf_cases(void) { return vf_thorough ? 320000 : 20000; }

void vf_case(uint64_t idx, vf_rng *r)
{
	static int once;
	if (!once) { signal(SIGPIPE, SIG_IGN); once = 1; }
	/* every fifth block of eight: sender without encoder against a byte model */
	if ((idx / 8) % 5 == 4) { run_raw_sender(idx, r); return; }
	run_case(idx, r);
}
