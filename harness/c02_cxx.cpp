/*
 * C02 leg (c): message stream integrity through the C++ wrappers
 * mpt::encode_queue -> wire -> mpt::decode_queue (mpt++/queue.cpp).
 *
 * producer:  encode_queue::push() pieces / terminate, done(), trim(k) with k = all
 *            finished bytes, a part of them, 0, or more than finished (must refuse),
 *            mpt_queue_prepare() for growable rings after MissingBuffer;
 * transport: the bytes removed by trim() go to a wire FIFO, mpt_qpush() moves PRNG
 *            chosen cuts of it into the decode ring;
 * consumer:  decode_queue::advance(), pending_message(), current_message() with and
 *            without continuation vector, mpt_queue_shift().
 * Rings: small fixed blocks of 32..128 bytes (never enlarged, so they wrap all the
 * time) or growable ones; five framings (4 COBS variants + command framing).
 *
 * Monitors: sent log vs. received log (exactly once, in order, byte-equal; command
 * framing: 2 byte command header + text); return value vs. effect for every call
 * (a call that reports refusal has not changed content, a call that changed content
 * reports it); trim() removes exactly the first k bytes and nothing else moves;
 * finished bytes are never rewritten; bounded progress; ASan/UBSan.
 */
#include <vector>
#include <string>
#include <cstring>
#include <cstdlib>
#include <sys/uio.h>

#include "queue.h"
#include "message.h"
#include "convert.h"
#include "vf.h"

const char *vf_name = "c02_cxx";

typedef std::vector<uint8_t> bytes;

struct EQ : public mpt::encode_queue
{
	EQ(mpt::data_encoder_t e) : mpt::encode_queue(e) { }
	size_t scratch() const { return _state.scratch; }
	size_t fin() const { return _state.done; }
};
struct DQ : public mpt::decode_queue
{
	DQ(mpt::data_decoder_t d) : mpt::decode_queue(d) { }
	const mpt::decode_state &st() const { return _state; }
};

static const struct {
	const char *name;
	int type;
} framing[5] = {
	{ "cobs",       mpt::EncodingCobs },
	{ "cobs/r",     mpt::EncodingCobsInline },
	{ "cobs/zpe",   mpt::EncodingCobs | mpt::EncodingCompress },
	{ "cobs/zpe+r", mpt::EncodingCobsInline | mpt::EncodingCompress },
	{ "command",    mpt::EncodingCommand }
};
#define FR_COMMAND 4

static char hx1[400], hx2[400];
static std::string hex(const uint8_t *p, size_t n, size_t lim = 120)
{
	char b[400];
	if (lim > sizeof(b)) lim = sizeof(b);
	return vf_hex(b, lim, p, n);
}
static std::string hex(const bytes &b, size_t lim = 120) { return hex(b.data(), b.size(), lim); }

/* logical content, read by walking the ring (not through the library) */
static bytes content(const mpt::queue &q)
{
	bytes v(q.len);
	const uint8_t *b = static_cast<const uint8_t *>(q.base);
	for (size_t i = 0; i < q.len; i++) v[i] = b[(q.off + i) % q.max];
	return v;
}
static bool is_wrapped(const mpt::queue &q) { return q.max && q.len && (q.max - q.len) < q.off; }

struct Case {
	int fr;
	EQ *eq; DQ *dq;
	bool efix, dfix;
	std::vector<bytes> msg;      /* as sent */
	std::vector<bytes> expect;   /* as to be received */
	size_t cur, curpos;
	int terminated;
	bytes wire;                  /* trimmed, not yet fed */
	size_t whead;
	bytes fed;                   /* everything fed to the reader */
	std::vector<size_t> frame_end;
	int delivered;               /* delimiters fed */
	size_t cuts; int split_frames;
	int received;
	int futile;
	bool exhausted;
	bool enc_wrapped, dec_wrapped;
	size_t egrow, dgrow;
	unsigned long steps;
	int push_fail;
};
static Case *C;

static std::string edesc()
{
	char b[200];
	snprintf(b, sizeof(b), "eq{max=%zu off=%zu len=%zu done=%zu scratch=%zu%s}", C->eq->max, C->eq->off, C->eq->len, C->eq->fin(), C->eq->scratch(), C->efix ? " fixed" : "");
	return b;
}
static std::string ddesc()
{
	char b[240];
	const mpt::decode_state &s = C->dq->st();
	snprintf(b, sizeof(b), "dq{max=%zu off=%zu len=%zu curr=%zu pos=%zu len=%zu msg=%zd ctx=%#lx%s}", C->dq->max, C->dq->off, C->dq->len,
	         s.curr, s.data.pos, s.data.len, s.data.msg, (unsigned long) s._ctx, C->dfix ? " fixed" : "");
	return b;
}
static void inv_enc(const char *after)
{
	vf_count("monitor:cxx-enc-invariant", 1);
	VF_CHECK(C->eq->len <= C->eq->max && C->eq->off <= C->eq->max, "cxx:encode_queue:range", "after %s: %s", after, edesc().c_str());
	VF_CHECK(C->eq->fin() + C->eq->scratch() == C->eq->len, "cxx:encode_queue:done-scratch-mismatch", "after %s: %s", after, edesc().c_str());
	if (is_wrapped(*C->eq)) { C->enc_wrapped = true; vf_count("state:cxx-enc-wrapped", 1); }
}
static void inv_dec(const char *after)
{
	const mpt::decode_state &s = C->dq->st();
	vf_count("monitor:cxx-dec-invariant", 1);
	VF_CHECK(C->dq->len <= C->dq->max && C->dq->off <= C->dq->max, "cxx:decode_queue:range", "after %s: %s", after, ddesc().c_str());
	VF_CHECK(s.curr <= C->dq->len && s.data.pos <= s.curr && s.data.len <= s.curr - s.data.pos, "cxx:decode_queue:offsets-outside", "after %s: %s", after, ddesc().c_str());
	if (s.data.msg >= 0) VF_CHECK((size_t) s.data.msg <= s.data.len, "cxx:decode_queue:msg-exceeds-data", "after %s: %s", after, ddesc().c_str());
	if (is_wrapped(*C->dq)) { C->dec_wrapped = true; vf_count("state:cxx-dec-wrapped", 1); }
}

/* ------------------------------------------------------------------ messages */
static size_t pick_msglen(vf_rng *r, size_t limit)
{
	static const uint16_t edge[] = { 4, 5, 29, 30, 31, 32, 33, 221, 222, 223, 224, 225, 253, 254, 255, 256, 257, 445, 446, 508, 509, 510 };
	uint32_t k = vf_below(r, 100);
	size_t n;
	if (k < 10) n = 0;
	else if (k < 16) n = 1 + vf_below(r, 3);
	else if (k < 60) n = 4 + vf_below(r, 44);
	else if (k < 75) n = 4 + vf_below(r, 200);
	else if (k < 92) n = edge[vf_below(r, sizeof(edge) / sizeof(*edge))];
	else n = 4 + vf_below(r, 800);
	if (n > limit) n = limit ? vf_below(r, (uint32_t) limit + 1) : 0;
	return n;
}
static void fill_msg(vf_rng *r, bytes &m, uint32_t id, bool zero_free)
{
	size_t n = m.size(), i = 0;
	uint8_t *d = m.data();
	uint32_t style = vf_below(r, 10);
	switch (style) {
	case 0: vf_bytes(r, d, n); break;
	case 1: for (i = 0; i < n; i++) d[i] = 1 + vf_below(r, 255); break;
	case 2: for (i = 0; i < n; i++) d[i] = (i % 3) ? 0 : 0x41 + (i / 3) % 26; break;
	case 3: memset(d, 0, n); break;
	case 4: for (i = 0; i < n; i++) { static const uint8_t v[] = { 0xde, 0xdf, 0xe0, 0xe1, 0xfe, 0xff, 0, 1, 2 }; d[i] = v[vf_below(r, sizeof(v))]; } break;
	default:
		while (i < n) {
			size_t run = 1 + vf_below(r, vf_chance(r, 1, 3) ? 260 : 12), z = vf_below(r, 5);
			for (; run && i < n; run--) d[i++] = 1 + vf_below(r, 255);
			for (; z && i < n; z--) d[i++] = 0;
		}
	}
	if (n >= 4) { d[0] = 0x80 | (id >> 16); d[1] = id >> 8; d[2] = id; d[3] = (style == 2 || style == 3) ? 0 : 1 + vf_below(r, 255); }
	if (zero_free) for (i = 0; i < n; i++) if (!d[i]) d[i] = 0x20 + (uint8_t) (i % 90);
}

/* ------------------------------------------------------------------ producer */
static void grow(mpt::queue *q, size_t want, const char *which)
{
	size_t before = q->len, left;
	bytes c0 = content(*q);
	vf_at("mpt_queue_prepare");
	vf_count("mpt_queue_prepare", 1);
	left = mpt_queue_prepare(q, want);
	vf_log("  prepare(%s, %zu) -> %zu: max=%zu off=%zu len=%zu", which, want, left, q->max, q->off, q->len);
	if (!left) vf_inconclusive("mpt_queue_prepare(%zu) failed", want);
	VF_CHECK(left >= want && left == q->max - q->len && q->len == before && content(*q) == c0, "cxx:queue_prepare:content",
	         "prepare(%s, %zu) returned %zu: max=%zu len=%zu (before %zu) or content changed", which, want, left, q->max, q->len, before);
}
/* 1 progress, 0 refused */
static int do_push(vf_rng *r)
{
	const bytes &m = C->msg[C->cur];
	size_t left = m.size() - C->curpos, n = 0;
	uint8_t *piece = 0;
	size_t done0 = C->eq->fin(), scr0 = C->eq->scratch(), len0 = C->eq->len;
	bytes c0 = content(*C->eq);
	ssize_t ret;

	if (left) {
		switch (vf_below(r, 8)) {
		case 0: n = 1; break;
		case 1: n = 1 + vf_below(r, 4); break;
		case 2: n = 1 + vf_below(r, 40); break;
		case 3: case 4: case 5: n = left; break;
		default: n = 1 + vf_below(r, (uint32_t) left); break;
		}
		if (n > left) n = left;
		piece = static_cast<uint8_t *>(vf_xalloc(n));
		memcpy(piece, m.data() + C->curpos, n);
	}
	if (n > C->eq->max - C->eq->len && C->eq->off && done0) vf_count("state:cxx-large-push-behind-queued-frames-at-offset", 1);
	vf_at("encode_queue::push");
	vf_count("encode_queue::push", 1);
	ret = C->eq->push(n, piece);
	vf_fp_u64(0x1000000 | n);
	vf_log("push(msg %zu @%zu, %zu) = %zd | %s", C->cur, C->curpos, n, ret, edesc().c_str());
	vf_xfree(piece, n);
	inv_enc("encode_queue::push");
	bytes c1 = content(*C->eq);
	/* finished bytes are never rewritten, whatever the outcome */
	VF_CHECK(C->eq->fin() >= done0 && c1.size() >= done0 && !memcmp(c1.data(), c0.data(), done0), "cxx:push:finished-bytes-changed",
	         "push(%zu) = %zd: the %zu finished bytes in front changed: before %s after %s; %s", n, ret, done0, hex(c0).c_str(), hex(c1).c_str(), edesc().c_str());
	vf_count("monitor:cxx-push-effect", 1);
	if (ret < 0) {
		VF_CHECK(ret == mpt::MissingBuffer, "cxx:push:error", "push(msg %zu of %zu bytes @%zu, %zu) = %zd on %s (%s)", C->cur, m.size(), C->curpos, n, ret,
		         edesc().c_str(), framing[C->fr].name);
		/* refusal: nothing added, nothing dropped */
		VF_CHECK(C->eq->len == len0 && C->eq->fin() == done0 && C->eq->scratch() == scr0, "cxx:push:refused-but-changed",
		         "push(%zu) = MissingBuffer but len %zu->%zu done %zu->%zu scratch %zu->%zu", n, len0, C->eq->len, done0, C->eq->fin(), scr0, C->eq->scratch());
		vf_count("push:cxx-MissingBuffer", 1);
		return 0;
	}
	VF_CHECK((size_t) ret <= n, "cxx:push:consumed-too-much", "push(%zu) returned %zd", n, ret);
	if (!n) {
		VF_CHECK(!C->eq->scratch(), "cxx:push:terminate-left-open-block", "terminate = %zd but %s", ret, edesc().c_str());
		/* (tail inline framings may end a frame without adding a byte) */
		C->terminated++; C->cur++; C->curpos = 0; C->push_fail = 0;
		vf_count("push:cxx-terminate", 1);
		return 1;
	}
	if (!ret) {
		/* nothing taken: then nothing may have been committed either */
		VF_CHECK(C->eq->fin() == done0, "cxx:push:zero-but-changed", "push(%zu) = 0 but done %zu -> %zu", n, done0, C->eq->fin());
		vf_count("push:cxx-zero", 1);
		return 0;
	}
	VF_CHECK(C->eq->len > len0 || c1 != c0, "cxx:push:accepted-without-effect", "push(%zu) = %zd but the queue did not change; %s", n, ret, edesc().c_str());
	C->curpos += ret;
	C->push_fail = 0;
	return 1;
}
/* take k finished bytes to the wire; k may exceed what is finished (must be refused) */
static void do_trim(vf_rng *r, int mode)
{
	size_t done0 = C->eq->fin(), scr0 = C->eq->scratch(), k;
	bytes c0 = content(*C->eq);
	size_t low = C->eq->max ? C->eq->max - C->eq->off : 0;
	bool ok;

	switch (mode >= 0 ? mode : (int) vf_below(r, 10)) {
	case 0: case 1: case 2: case 3: k = done0; break;
	case 4: k = done0 ? 1 + vf_below(r, (uint32_t) done0) : 0; break;
	case 5: k = 1; break;
	case 6: k = done0 > 1 ? done0 - 1 : done0; break;
	case 7: k = 0; break;
	case 8: k = done0 + 1 + vf_below(r, 3); break;
	default: { /* up to the first delimiter */
		size_t z = 0;
		while (z < done0 && c0[z]) z++;
		k = z < done0 ? z + 1 : done0;
		break; }
	}
	VF_CHECK(C->eq->done() == done0, "cxx:done:value", "done() = %zu, state %zu", C->eq->done(), done0);
	vf_at("encode_queue::trim");
	vf_count("encode_queue::trim", 1);
	ok = C->eq->trim(k);
	vf_fp_u64(0x2000000 | k);
	vf_log("trim(%zu) = %d | %s", k, ok, edesc().c_str());
	bytes c1 = content(*C->eq);
	vf_count("monitor:cxx-trim-effect", 1);
	if (k > done0) {
		VF_CHECK(!ok, "cxx:trim:accepted-too-much", "trim(%zu) accepted with %zu finished bytes; %s", k, done0, edesc().c_str());
		VF_CHECK(c1 == c0 && C->eq->fin() == done0, "cxx:trim:refused-but-changed", "trim(%zu) refused (only %zu finished) but content/done changed; %s", k, done0, edesc().c_str());
		vf_count("trim:cxx-refused-too-much", 1);
		inv_enc("encode_queue::trim");
		return;
	}
	if (!ok) {
		/* a call that reports refusal must not have changed anything */
		VF_CHECK(c1 == c0 && C->eq->fin() == done0, "cxx:trim:refused-but-removed",
		         "trim(%zu) = false with %zu finished bytes, yet queue length %zu -> %zu, done %zu -> %zu (first part of the ring %zu bytes); %s",
		         k, done0, c0.size(), c1.size(), done0, C->eq->fin(), low, edesc().c_str());
		vf_fail("cxx:trim:refused", "trim(%zu) = false although %zu bytes are finished (first part of the ring %zu bytes); %s", k, done0, low, edesc().c_str());
	}
	/* exactly the first k bytes are gone, everything else (finished rest and open block) stays */
	VF_CHECK(c1.size() == c0.size() - k && !memcmp(c1.data(), c0.data() + k, c1.size()), "cxx:trim:content",
	         "trim(%zu) with done=%zu scratch=%zu: remaining content %s, expected %s; %s", k, done0, scr0,
	         hex(c1).c_str(), hex(c0.data() + k, c0.size() - k).c_str(), edesc().c_str());
	VF_CHECK(C->eq->fin() == done0 - k && C->eq->scratch() == scr0, "cxx:trim:done", "trim(%zu): done %zu -> %zu scratch %zu -> %zu", k, done0, C->eq->fin(), scr0, C->eq->scratch());
	inv_enc("encode_queue::trim");
	if (k && k == done0 && scr0) vf_count("state:cxx-trim-all-with-unfinished-message", 1);
	if (k && k < done0) vf_count("state:cxx-trim-partial", 1);
	if (k > low && low) vf_count("state:cxx-trim-crossing-storage-end", 1);
	C->wire.insert(C->wire.end(), c0.begin(), c0.begin() + k);
	vf_count("trim:cxx-bytes", k);
}
static void push_refused(vf_rng *r)
{
	size_t nfree = C->eq->max - C->eq->len;
	C->push_fail++;
	if (C->eq->fin() && (C->efix || !vf_chance(r, 1, 5))) { do_trim(r, vf_chance(r, 1, 2) ? 0 : -1); return; }
	if (C->efix) {
		if (C->push_fail > 8) { C->exhausted = true; vf_count("history:cxx-fixed-encode-ring-exhausted", 1); }
		return;
	}
	VF_CHECK(!(nfree >= 1024 && C->push_fail > 2), "cxx:push:stall", "push refused %d times with %zu bytes free; %s", C->push_fail, nfree, edesc().c_str());
	grow(C->eq, nfree + C->egrow * (C->push_fail > 3 ? C->push_fail : 1), "enc");
	inv_enc("mpt_queue_prepare");
}

/* ------------------------------------------------------------------ transport */
static int do_feed(vf_rng *r)
{
	size_t have = C->wire.size() - C->whead, room = C->dq->max - C->dq->len, k, z;
	const uint8_t *p = C->wire.data() + C->whead;
	int ret;
	if (!have || !room) return 0;
	for (z = 0; z < have && p[z]; z++) ;
	switch (vf_below(r, 10)) {
	case 0: case 1: k = 1; break;
	case 2: case 3: k = z < have ? z + 1 : have; break;
	case 4: k = z + 2; break;
	case 5: k = z ? z : 1; break;
	case 6: case 7: k = have; break;
	default: k = 1 + vf_below(r, (uint32_t) have); break;
	}
	if (k > have) k = have;
	if (k > room) k = room;
	uint8_t *buf = static_cast<uint8_t *>(vf_xalloc(k));
	memcpy(buf, p, k);
	vf_at("mpt_qpush");
	vf_count("mpt_qpush", 1);
	ret = mpt_qpush(C->dq, k, buf);
	VF_CHECK(ret >= 0, "cxx:qpush:refused", "qpush(%zu) = %d with %zu free", k, ret, room);
	vf_fp_u64(0x3000000 | k);
	vf_log("feed %zu bytes (%s) | %s", k, hex(buf, k, 60).c_str(), ddesc().c_str());
	vf_xfree(buf, k);
	inv_dec("mpt_qpush");
	for (size_t i = 0; i < k; i++) {
		C->fed.push_back(p[i]);
		if (!p[i]) {
			VF_CHECK(C->delivered < C->terminated, "cxx:wire:extra-delimiter", "delimiter %d on the wire but only %d messages terminated (wire offset %zu)",
			         C->delivered + 1, C->terminated, C->fed.size() - 1);
			C->frame_end.push_back(C->fed.size());
			C->delivered++;
			if (C->cuts) C->split_frames++;
			C->cuts = 0;
		}
	}
	if (p[k - 1]) C->cuts++;
	C->whead += k;
	if (C->whead > 65536) { C->wire.erase(C->wire.begin(), C->wire.begin() + C->whead); C->whead = 0; }
	return 1;
}

/* ------------------------------------------------------------------ consumer */
static std::string frame_hex(int j)
{
	if (j >= C->delivered) return "(frame not complete)";
	size_t s = j ? C->frame_end[j - 1] : 0;
	return hex(C->fed.data() + s, C->frame_end[j] - s, 200);
}
static bool msg_fragmented()
{
	const mpt::decode_state &s = C->dq->st();
	size_t low = C->dq->max - C->dq->off;
	if (low > C->dq->len) low = C->dq->len;
	return s.data.pos < low && s.data.pos + (size_t) s.data.msg > low;
}
/* fetch the current message through current_message() and compare with expect[idx] */
static void check_message(int idx, const char *when, bool with_cont)
{
	mpt::message msg;
	struct iovec vec;
	const mpt::decode_state &s = C->dq->st();
	const uint8_t *rb = static_cast<const uint8_t *>(C->dq->base);
	bool frag = msg_fragmented(), ok;
	bytes got;

	vec.iov_base = 0; vec.iov_len = 0;
	vf_at("decode_queue::current_message");
	vf_count(with_cont ? "decode_queue::current_message" : "decode_queue::current_message(no cont)", 1);
	ok = C->dq->current_message(msg, with_cont ? &vec : 0);
	if (!with_cont) {
		if (!ok) {
			VF_CHECK(frag, "cxx:current_message:refused-contiguous", "%s: current_message without continuation refused a contiguous message; %s", when, ddesc().c_str());
			vf_count("current_message:cxx-fragmented-needs-continuation", 1);
			return;
		}
		VF_CHECK(!frag && !msg.clen, "cxx:current_message:fragmented-without-continuation", "%s: accepted for a message stored across the ring end; %s", when, ddesc().c_str());
	} else {
		/* a pending message has to be handed out, also when it is stored across the ring end */
		VF_CHECK(ok, "cxx:current_message:refused", "%s: current_message() = false although a message of %zd bytes is pending (%s the ring end); %s", when,
		         s.data.msg, frag ? "stored across" : "not touching", ddesc().c_str());
	}
	size_t described = msg.used;
	for (size_t i = 0; i < msg.clen; i++) described += msg.cont[i].iov_len;
	VF_CHECK(described == (size_t) s.data.msg && msg.clen <= 1 && (msg.clen > 0) == frag, "cxx:current_message:length",
	         "%s: message of %zd bytes described as %zu + %zu parts (%zu bytes), fragmented=%d; %s", when, s.data.msg, msg.used, msg.clen, described, frag, ddesc().c_str());
	if (msg.used) {
		const uint8_t *p = static_cast<const uint8_t *>(msg.base);
		VF_CHECK(p >= rb && p + msg.used <= rb + C->dq->max, "cxx:current_message:outside-ring", "%s: first part %zd..+%zu outside ring of %zu", when, (ssize_t) (p - rb), msg.used, C->dq->max);
		got.insert(got.end(), p, p + msg.used);
	}
	for (size_t i = 0; i < msg.clen; i++) {
		const uint8_t *p = static_cast<const uint8_t *>(msg.cont[i].iov_base);
		size_t l = msg.cont[i].iov_len;
		VF_CHECK(!l || (p >= rb && p + l <= rb + C->dq->max), "cxx:current_message:outside-ring", "%s: part %zu outside ring", when, i + 1);
		got.insert(got.end(), p, p + l);
	}
	if (frag) vf_count("state:cxx-wrapped-message-via-continuation", 1);
	/* the C++ reader of the message gives the same bytes */
	{
		mpt::message m2 = msg;
		bytes rd(described + 1);
		size_t n = m2.read(described + 1, rd.data());
		VF_CHECK(msg.length() == described && n == described && !memcmp(rd.data(), got.data(), described), "cxx:message:read",
		         "%s: message::length() = %zu, read() = %zu of %zu", when, msg.length(), n, described);
	}
	vf_count("monitor:cxx-message-compare", 1);
	if (idx >= C->terminated)
		vf_fail("cxx:advance:phantom-message", "%s: message %d handed out (%zu bytes: %s) but only %d were terminated; %s", when, idx, got.size(), hex(got).c_str(), C->terminated, ddesc().c_str());
	const bytes &e = C->expect[idx];
	if (got == e) return;
	for (int j = 0; j < (int) C->expect.size(); j++) {
		if (j == idx || C->msg[j].size() < 4 || C->expect[j] != got) continue;
		vf_fail(j < idx ? "cxx:advance:duplicate-message" : "cxx:advance:skipped-message", "%s: delivery %d is message %d (%zu bytes), expected message %d (%zu bytes); %s",
		        when, idx, j, got.size(), idx, e.size(), ddesc().c_str());
	}
	vf_fail(got.size() == e.size() ? "cxx:advance:message-content" : "cxx:advance:message-length", "%s (%s): message %d: got %zu bytes %s, expected %zu bytes %s; wire frame %s; %s",
	        when, framing[C->fr].name, idx, got.size(), hex(got).c_str(), e.size(), hex(e).c_str(), frame_hex(idx).c_str(), ddesc().c_str());
}
/* 1 delivered, 0 nothing, -1 reader was refused on a full ring and got space */
static int advance_once(vf_rng *r)
{
	size_t qlen = C->dq->len;
	bool ok, pend, gave = false;

	vf_at("decode_queue::advance");
	vf_count("decode_queue::advance", 1);
	ok = C->dq->advance();
	pend = C->dq->pending_message();
	vf_fp_u64(0x4000000 | (ok ? 2 : 0) | (pend ? 1 : 0));
	vf_log("advance = %d pending = %d | %s", ok, pend, ddesc().c_str());
	inv_dec("decode_queue::advance");
	vf_count("monitor:cxx-advance-effect", 1);
	/* advance() takes the current message away: what is pending afterwards is the next one.
	 * A failed advance leaves nothing to fetch (the C call consumes first, then reports). */
	VF_CHECK(ok || !pend, "cxx:advance:failed-but-message-pending", "advance() = false on a queue of %zu bytes, pending_message() still true (message of %zd bytes, %d already handed out); %s",
	         qlen, C->dq->st().data.msg, C->received, ddesc().c_str());
	if (pend) {
		VF_CHECK(C->received < C->delivered, "cxx:advance:message-before-delimiter", "delivery %d although only %d delimiters reached the decode queue (message of %zd bytes); %s",
		         C->received, C->delivered, C->dq->st().data.msg, ddesc().c_str());
		check_message(C->received, "after advance()", true);
		if (vf_chance(r, 1, 3)) check_message(C->received, "after advance()", false);
		if (!C->expect[C->received].size() || (C->fr == FR_COMMAND && C->msg[C->received].empty())) {
			if (C->dq->len <= (size_t) C->dq->st().data.msg) vf_count("state:cxx-empty-message-last-in-data", 1);
		}
		C->received++;
		C->futile = 0;
		vf_count("advance:cxx-message", 1);
		return 1;
	}
	if (!ok && !qlen) { vf_count("advance:cxx-empty", 1); return 0; }
	if (!ok) {
		/* the only admissible refusal on a well-formed stream: decoder wants space */
		vf_count("advance:cxx-refused", 1);
		if (C->dq->len >= C->dq->max) {
			if (C->dfix) { C->exhausted = true; vf_count("history:cxx-fixed-decode-ring-exhausted", 1); return 0; }
			grow(C->dq, C->dgrow, "dec");
			inv_dec("mpt_queue_prepare");
			gave = true;
		}
	} else vf_count("advance:cxx-incomplete", 1);
	if (C->delivered > C->received) {
		size_t s = C->received ? C->frame_end[C->received - 1] : 0, flen = C->frame_end[C->received] - s;
		vf_count("monitor:cxx-progress-check", 1);
		if ((size_t) ++C->futile > 2 * flen + 16)
			vf_fail("cxx:decode_queue:stall", "frame %d (%zu bytes: %s) is completely in the decode queue, %d advance() calls delivered nothing; %s (%s)",
			        C->received, flen, frame_hex(C->received).c_str(), C->futile, ddesc().c_str(), framing[C->fr].name);
	}
	return gave ? -1 : 0;
}
static int do_advance(vf_rng *r)
{
	int ret, tries = 0;
	/* space given to the reader is his: he uses it before the transport fills it */
	while ((ret = advance_once(r)) < 0 && ++tries < 8) vf_count("advance:cxx-retry-with-space", 1);
	return ret > 0;
}
static void do_reget(vf_rng *r)
{
	mpt::message msg;
	struct iovec vec;
	if (C->dq->pending_message()) {
		check_message(C->received - 1, "re-read before next advance()", !vf_chance(r, 1, 4));
		vf_count("monitor:cxx-message-still-there", 1);
		return;
	}
	vf_at("decode_queue::current_message");
	VF_CHECK(!C->dq->current_message(msg, &vec), "cxx:current_message:phantom", "current_message() = true without pending message; %s", ddesc().c_str());
}
static void do_shift(vf_rng *r)
{
	bytes c0 = content(*C->dq);
	vf_at("mpt_queue_shift");
	vf_count("mpt_queue_shift", 1);
	mpt_queue_shift(C->dq);
	vf_log("shift | %s", ddesc().c_str());
	inv_dec("mpt_queue_shift");
	bytes c1 = content(*C->dq);
	VF_CHECK(c1.size() <= c0.size() && !memcmp(c1.data(), c0.data() + (c0.size() - c1.size()), c1.size()), "cxx:queue_shift:content", "shift changed more than the front of the queue; %s", ddesc().c_str());
	do_reget(r);
}
static void dec_full()
{
	if (C->dq->len < C->dq->max) return;
	if (C->dfix) {
		/* full, nothing pending, cannot grow: the ring is too small for what is in it */
		if (!C->dq->pending_message()) { C->exhausted = true; vf_count("history:cxx-fixed-decode-ring-exhausted", 1); }
		return;
	}
	grow(C->dq, C->dgrow, "dec");
	inv_dec("mpt_queue_prepare");
}

/* ------------------------------------------------------------------ case */
static void run_case(uint64_t idx, vf_rng *r)
{
	static const uint16_t fixcaps[] = { 32, 40, 48, 64, 96, 128 };
	static const uint16_t grows[] = { 1, 7, 16, 64, 256 };
	Case c = Case();
	int fr = (int) (idx % 5), kind = (int) ((idx / 5) % 4);
	size_t ecap, dcap, limit = 800, total = 0;
	unsigned wp, wt, wf, wa, wo;

	C = &c;
	c.fr = fr;
	c.efix = kind & 1; c.dfix = kind & 2;
	EQ eq(mpt::mpt_message_encoder(framing[fr].type));
	DQ dq(mpt::mpt_message_decoder(framing[fr].type));
	c.eq = &eq; c.dq = &dq;
	if (!eq.encoded() || !dq.encoded()) vf_inconclusive("no codec for %s", framing[fr].name);
	ecap = c.efix ? fixcaps[vf_below(r, 6)] : (vf_chance(r, 1, 4) ? 0 : 8 + vf_below(r, 300));
	dcap = c.dfix ? fixcaps[vf_below(r, 6)] : (vf_chance(r, 1, 4) ? 0 : 8 + vf_below(r, 300));
	if (ecap) { eq.base = vf_xalloc(ecap); memset(eq.base, 0xEE, ecap); eq.max = ecap; eq.off = vf_below(r, (uint32_t) ecap); }
	if (dcap) { dq.base = vf_xalloc(dcap); memset(dq.base, 0xEE, dcap); dq.max = dcap; dq.off = vf_below(r, (uint32_t) dcap); }
	if (c.efix && ecap / 3 < limit) limit = ecap / 3;
	if (c.dfix && dcap / 5 < limit) limit = dcap / 5;
	c.egrow = grows[vf_below(r, 5)]; c.dgrow = grows[vf_below(r, 5)];

	int nmsg = vf_range(r, 5, vf_thorough ? 60 : 40);
	uint8_t hdr[2];
	{ mpt::msgtype mt(mpt::msgtype::Command, ' '); memcpy(hdr, &mt, 2); }
	for (int i = 0; i < nmsg; i++) {
		bytes m(pick_msglen(r, limit));
		fill_msg(r, m, (uint32_t) (idx * 64 + i + 1), fr == FR_COMMAND);
		vf_fp(m.data(), m.size());
		total += m.size();
		c.msg.push_back(m);
		if (fr == FR_COMMAND) { bytes e(hdr, hdr + 2); e.insert(e.end(), m.begin(), m.end()); c.expect.push_back(e); }
		else c.expect.push_back(m);
	}
	wp = 1 + vf_below(r, 8); wt = 1 + vf_below(r, 6); wf = 1 + vf_below(r, 8); wa = 1 + vf_below(r, 8); wo = vf_below(r, 4);
	vf_fp_u64(fr); vf_fp_u64(kind); vf_fp_u64(ecap); vf_fp_u64(eq.off); vf_fp_u64(dcap); vf_fp_u64(dq.off);
	vf_log("case: %s enc{max=%zu off=%zu %s} dec{max=%zu off=%zu %s} %d messages, %zu bytes (limit %zu), weights %u/%u/%u/%u/%u", framing[fr].name,
	       ecap, eq.off, c.efix ? "fixed" : "growable", dcap, dq.off, c.dfix ? "fixed" : "growable", nmsg, total, limit, wp, wt, wf, wa, wo);
	unsigned long lim = 64 * (total + 16 * nmsg) + 4096;

	while (c.received < nmsg && !c.exhausted) {
		unsigned k = vf_below(r, wp + wt + wf + wa + wo);
		if (++c.steps > lim)
			vf_fail("cxx:schedule:no-termination", "%lu steps: sent %d/%d, delimiters fed %d, received %d; %s | %s", c.steps, c.terminated, nmsg, c.delivered, c.received,
			        edesc().c_str(), ddesc().c_str());
		if (k < wp) {
			if (c.cur >= (size_t) nmsg) { if (eq.len) do_trim(r, 0); continue; }
			if (!do_push(r)) push_refused(r);
		} else if (k < wp + wt) {
			do_trim(r, -1);
		} else if (k < wp + wt + wf) {
			if (!do_feed(r) && c.wire.size() > c.whead && dq.len >= dq.max) {
				if (!do_advance(r) && !c.exhausted) dec_full();
			}
		} else if (k < wp + wt + wf + wa) {
			/* catch up completely now and then, and look once more at the drained queue */
			if (vf_chance(r, 1, 4)) {
				int guard = 0;
				while (do_advance(r) && ++guard < 200) ;
				if (!c.exhausted && vf_chance(r, 1, 2)) do_advance(r);
			} else {
				if (!dq.len && !vf_chance(r, 1, 8)) continue;
				do_advance(r);
			}
		} else if (vf_chance(r, 1, 2)) do_shift(r);
		else do_reget(r);
	}
	if (!c.exhausted) {
		VF_CHECK(c.cur == (size_t) nmsg && c.terminated == nmsg, "cxx:schedule:received-more-than-sent", "received %d, terminated %d", c.received, c.terminated);
		VF_CHECK(!eq.len && c.wire.size() == c.whead && c.fed.size() == c.frame_end[nmsg - 1], "cxx:wire:bytes-after-last-delimiter",
		         "all %d messages received but %zu bytes remain in the encode queue, %zu on the wire, %zu fed behind the last delimiter", nmsg, eq.len,
		         c.wire.size() - c.whead, c.fed.size() - c.frame_end[nmsg - 1]);
		for (int i = 0; i < 3; i++) {
			vf_at("decode_queue::advance");
			vf_count("decode_queue::advance", 1);
			bool ok = dq.advance();
			vf_log("final advance = %d pending = %d | %s", ok, dq.pending_message(), ddesc().c_str());
			VF_CHECK(!dq.pending_message(), "cxx:advance:phantom-message", "advance() = %d after all %d messages were received: a message of %zd bytes is pending; %s",
			         ok, nmsg, dq.st().data.msg, ddesc().c_str());
			if (vf_chance(r, 1, 2)) do_shift(r);
		}
		vf_count("monitor:cxx-conservation-at-end", 1);
		if (c.received >= 3 && (c.enc_wrapped || c.dec_wrapped) && c.split_frames) vf_nontrivial();
	} else if (c.received >= 3 && (c.enc_wrapped || c.dec_wrapped)) vf_nontrivial();
	vf_count("messages:cxx-delivered", c.received);
	if (c.enc_wrapped) vf_count("history:cxx-enc-wrapped", 1);
	if (c.dec_wrapped) vf_count("history:cxx-dec-wrapped", 1);
	vf_count(c.efix ? "history:cxx-fixed-encode-ring" : "history:cxx-growable-encode-ring", 1);
	vf_count(c.dfix ? "history:cxx-fixed-decode-ring" : "history:cxx-growable-decode-ring", 1);
	vf_sample("%s enc{max=%zu %s} dec{max=%zu %s} %d messages / %zu bytes, %zu wire bytes in %lu steps, frames cut: %d, received %d%s", framing[fr].name,
	          ecap, c.efix ? "fixed" : "growable", dcap, c.dfix ? "fixed" : "growable", nmsg, total, c.fed.size(), c.steps, c.split_frames, c.received,
	          c.exhausted ? " (fixed ring too small, history ended)" : "");
	free(eq.base); eq.base = 0; eq.max = eq.len = eq.off = 0;
	free(dq.base); dq.base = 0; dq.max = dq.len = dq.off = 0;
	C = 0;
}


/* ------------------------------------------------------------------ raw (codec-less) mpt::encode_queue */
/* push() takes what fits (pending), push(0,0) commits, push(1,0) rolls back, trim() hands finished bytes out.
 * Byte model: finished F, pending P; content == F+P, done() == |F|, scratch == |P|. */
struct Raw {
	EQ *eq;
	bytes F, P, committed;
	size_t taken;
	uint8_t next;
};
static std::string rawdesc(Raw &w)
{
	char b[240];
	snprintf(b, sizeof(b), "raw eq{max=%zu off=%zu len=%zu done=%zu scratch=%zu} model{finished=%zu pending=%zu}", w.eq->max, w.eq->off, w.eq->len,
	         w.eq->fin(), w.eq->scratch(), w.F.size(), w.P.size());
	return b;
}
static void raw_check(Raw &w, const char *op)
{
	vf_count("monitor:cxx-raw-model-compare", 1);
	VF_CHECK(w.eq->len <= w.eq->max && w.eq->off <= w.eq->max, "cxx:raw:range", "after %s: %s", op, rawdesc(w).c_str());
	VF_CHECK(w.eq->done() == w.F.size() && w.eq->scratch() == w.P.size() && w.eq->len == w.F.size() + w.P.size(), "cxx:raw:accounting",
	         "after %s: finished/pending sizes differ from the byte model: %s", op, rawdesc(w).c_str());
	bytes c = content(*w.eq), m = w.F;
	m.insert(m.end(), w.P.begin(), w.P.end());
	VF_CHECK(c == m, "cxx:raw:content", "after %s: content %s, model %s; %s", op, hex(c).c_str(), hex(m).c_str(), rawdesc(w).c_str());
	if (is_wrapped(*w.eq)) vf_count("state:cxx-raw-wrapped", 1);
}
/* returns bytes accepted */
static size_t raw_push(Raw &w, size_t n, const char *why)
{
	size_t nfree = w.eq->max - w.eq->len, exp = n < nfree ? n : nfree;
	size_t off = w.eq->off, len = w.eq->len, max = w.eq->max;
	uint8_t *d = static_cast<uint8_t *>(vf_xalloc(n));
	for (size_t i = 0; i < n; i++) { if (!++w.next) w.next = 1; d[i] = w.next; }
	vf_at("encode_queue::push");
	vf_count("encode_queue::push(raw)", 1);
	ssize_t ret = w.eq->push(n, d);
	vf_fp_u64(0x6000000 | n);
	vf_log("raw push(%zu) [%s] = %zd | %s", n, why, ret, rawdesc(w).c_str());
	if (!nfree) {
		VF_CHECK(ret == mpt::MissingBuffer, "cxx:raw:push-full-queue", "push(%zu) on a full queue = %zd; %s", n, ret, rawdesc(w).c_str());
		exp = 0;
	} else {
		VF_CHECK(ret == (ssize_t) exp, "cxx:raw:push-return", "push(%zu) with %zu bytes free = %zd, expected %zu; %s", n, nfree, ret, exp, rawdesc(w).c_str());
		w.P.insert(w.P.end(), d, d + exp);
		if (exp < n) {
			vf_count("state:cxx-raw-partial-accept", 1);
			if (max && off + len < max && off + len + exp > max) vf_count("state:cxx-raw-partial-accept-wrapping", 1);
		}
	}
	vf_xfree(d, n);
	raw_check(w, "push");
	return exp;
}
static void raw_commit(Raw &w)
{
	vf_at("encode_queue::push");
	vf_count("encode_queue::push(raw commit)", 1);
	ssize_t ret = w.eq->push(0, 0);
	vf_log("raw commit = %zd | %s", ret, rawdesc(w).c_str());
	VF_CHECK(ret == (ssize_t) (w.F.size() + w.P.size()), "cxx:raw:commit-return", "commit = %zd, queue holds %zu bytes; %s", ret, w.F.size() + w.P.size(), rawdesc(w).c_str());
	w.committed.insert(w.committed.end(), w.P.begin(), w.P.end());
	w.F.insert(w.F.end(), w.P.begin(), w.P.end());
	w.P.clear();
	raw_check(w, "commit");
}
static void raw_rollback(Raw &w, size_t n)
{
	vf_at("encode_queue::push");
	vf_count("encode_queue::push(raw rollback)", 1);
	ssize_t ret = w.eq->push(n, 0);
	vf_log("raw rollback(%zu) = %zd | %s", n, ret, rawdesc(w).c_str());
	if (n == 1 && !w.P.empty()) {
		VF_CHECK(ret == 0, "cxx:raw:rollback-refused", "push(1, 0) with %zu pending bytes = %zd; %s", w.P.size(), ret, rawdesc(w).c_str());
		w.P.clear();
		vf_count("raw:cxx-rollback", 1);
	} else VF_CHECK(ret < 0, "cxx:raw:rollback-accepted", "push(%zu, 0) with %zu pending bytes = %zd; %s", n, w.P.size(), ret, rawdesc(w).c_str());
	raw_check(w, "rollback");
}
static void raw_trim(Raw &w, vf_rng *r, bool all)
{
	size_t done = w.eq->done(), k;
	switch (all ? 0 : vf_below(r, 6)) {
	case 0: case 1: k = done; break;
	case 2: k = done ? 1 + vf_below(r, (uint32_t) done) : 0; break;
	case 3: k = 0; break;
	case 4: k = done + 1 + vf_below(r, 3); break;
	default: k = done > 1 ? done - 1 : done; break;
	}
	bytes c0 = content(*w.eq);
	size_t low = w.eq->max ? w.eq->max - w.eq->off : 0;
	vf_at("encode_queue::trim");
	vf_count("encode_queue::trim(raw)", 1);
	bool ok = w.eq->trim(k);
	vf_fp_u64(0x7000000 | k);
	vf_log("raw trim(%zu) = %d | %s", k, ok, rawdesc(w).c_str());
	if (k > done) {
		VF_CHECK(!ok, "cxx:raw:trim-accepted-too-much", "trim(%zu) accepted with %zu finished bytes; %s", k, done, rawdesc(w).c_str());
	} else {
		if (!ok) VF_CHECK(content(*w.eq) == c0, "cxx:raw:trim-refused-but-removed", "trim(%zu) = false but content changed; %s", k, rawdesc(w).c_str());
		VF_CHECK(ok, "cxx:raw:trim-refused", "trim(%zu) = false with %zu finished bytes; %s", k, done, rawdesc(w).c_str());
		/* committed bytes leave exactly once and in order */
		vf_count("monitor:cxx-raw-wire-compare", 1);
		VF_CHECK(w.taken + k <= w.committed.size() && !memcmp(c0.data(), w.committed.data() + w.taken, k), "cxx:raw:wire-content",
		         "bytes trimmed differ from the committed stream at offset %zu (+%zu); %s", w.taken, k, rawdesc(w).c_str());
		w.taken += k;
		w.F.erase(w.F.begin(), w.F.begin() + k);
		if (k && !w.P.empty()) vf_count("state:cxx-raw-trim-with-pending", 1);
		if (k > low && low) vf_count("state:cxx-raw-trim-crossing-storage-end", 1);
	}
	raw_check(w, "trim");
}
static void run_raw(uint64_t idx, vf_rng *r)
{
	static const uint16_t caps[] = { 0, 1, 2, 3, 4, 5, 8, 12, 16, 17, 32, 33, 64, 100, 256 };
	EQ eq(0);
	Raw w = Raw();
	size_t cap = caps[vf_below(r, sizeof(caps) / sizeof(*caps))], growby = 1 + vf_below(r, vf_chance(r, 1, 2) ? 8 : 300);
	int nops = vf_range(r, 20, vf_thorough ? 300 : 150);
	bool partial = false;
	(void) idx;
	w.eq = &eq;
	VF_CHECK(!eq.encoded(), "cxx:raw:encoded", "default encode_queue claims an encoder");
	if (cap) { eq.base = vf_xalloc(cap); memset(eq.base, 0xEE, cap); eq.max = cap; eq.off = vf_below(r, (uint32_t) cap); }
	vf_fp_u64(0xdaa); vf_fp_u64(cap); vf_fp_u64(eq.off);
	vf_log("raw case: max=%zu off=%zu grow=%zu", cap, eq.off, growby);
	for (int i = 0; i < nops; i++) {
		size_t nfree = eq.max - eq.len, n;
		switch (vf_below(r, 12)) {
		case 0: case 1: case 2:
			n = vf_chance(r, 1, 3) ? nfree + 1 + vf_below(r, 20) : 1 + vf_below(r, (uint32_t) nfree + 4);
			if (eq.len > 30000) n = 1;
			raw_push(w, n, "single");
			break;
		case 3: case 4: case 5: {
			size_t left = vf_chance(r, 1, 2) ? nfree + 1 + vf_below(r, 40) : 1 + vf_below(r, 300);
			int guard = 0;
			if (eq.len > 30000) left = 1;
			while (left && ++guard < 64) {
				size_t a = raw_push(w, left, "loop");
				if (a) {
					if (a < left) partial = true;
					left -= a;
					if (left) vf_count("state:cxx-raw-continued-after-partial-accept", 1);
					continue;
				}
				grow(&eq, vf_chance(r, 1, 2) ? growby : left + growby, "raw");
				raw_check(w, "prepare");
			}
			break; }
		case 6: case 7: raw_commit(w); break;
		case 8: raw_rollback(w, vf_chance(r, 1, 5) ? 2 + vf_below(r, 5) : 1); break;
		default: raw_trim(w, r, false); break;
		}
	}
	raw_commit(w);
	raw_trim(w, r, true);
	VF_CHECK(w.taken == w.committed.size() && !eq.len, "cxx:raw:conservation", "committed %zu bytes, trimmed %zu, %zu left", w.committed.size(), w.taken, eq.len);
	vf_count("monitor:cxx-raw-conservation-at-end", 1);
	if (partial && w.committed.size() > 8) vf_nontrivial();
	vf_sample("raw mpt::encode_queue max=%zu: %d operations (push loops with partial acceptance, commit, rollback, trim), %zu bytes committed and trimmed", cap, nops, w.committed.size());
	free(eq.base); eq.base = 0; eq.max = eq.len = eq.off = 0;
}

static uint64_t n_framed(void) { return vf_thorough ? 400000 : 24000; }
static uint64_t n_raw(void) { return vf_thorough ? 100000 : 8000; }

uint64_t vf_cases(void) { return n_framed() + n_raw(); }

void vf_case(uint64_t idx, vf_rng *r)
{
	if (idx < n_framed()) run_case(idx, r);
	else run_raw(idx - n_framed(), r);
}
