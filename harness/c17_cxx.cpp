/*
 * C17 (C++ leg): mpt::message::read / length on fragment lists against the
 * concatenated byte string.
 *
 * Cases: every fragment list (compositions of the length with an optional
 * empty fragment in every gap) of lengths 0..8 (thorough 10) with PRNG
 * content, then PRNG strings up to 300 bytes in up to 40 fragments.  Each
 * case runs every first-read length followed by the rest, equal-step plans
 * and a PRNG plan, on the cursor "first fragment + list", "everything in the
 * list" and the contiguous copy.
 */
#include <vector>
#include <string>
#include <cstring>
#include <sys/uio.h>

#include "message.h"
#include "graphic.h"
#include "layout.h"
#include "vf.h"

const char *vf_name = "c17_cxx";

struct testobj {
	std::vector<uint8_t> S;
	std::vector<size_t> flen;
	std::vector<uint8_t *> fblk;
	struct iovec *vec;
	uint8_t *flat;
	std::string desc;
};
static char hx1[160], hx2[160];

static void build(testobj &t)
{
	size_t pos = 0, k = t.flen.size();
	t.vec = static_cast<struct iovec *>(vf_xalloc(k * sizeof(struct iovec)));
	t.desc = "len " + std::to_string(t.S.size()) + " as [";
	for (size_t i = 0; i < k; i++) {
		uint8_t *b = static_cast<uint8_t *>(vf_xalloc(t.flen[i]));
		if (t.flen[i]) memcpy(b, t.S.data() + pos, t.flen[i]);
		pos += t.flen[i];
		t.fblk.push_back(b);
		t.vec[i].iov_base = b;
		t.vec[i].iov_len = t.flen[i];
		t.desc += (i ? "," : "") + std::to_string(t.flen[i]);
	}
	t.desc += "]";
	t.flat = static_cast<uint8_t *>(vf_xalloc(t.S.size()));
	if (!t.S.empty()) memcpy(t.flat, t.S.data(), t.S.size());
}
static void destroy(testobj &t)
{
	size_t pos = 0;
	for (size_t i = 0; i < t.flen.size(); i++) {
		VF_CHECK(t.vec[i].iov_base == t.fblk[i] && t.vec[i].iov_len == t.flen[i], "cxx:read:fragment-list-modified", "%s: entry %zu changed", t.desc.c_str(), i);
		VF_CHECK(!t.flen[i] || !memcmp(t.fblk[i], t.S.data() + pos, t.flen[i]), "cxx:read:data-modified", "%s: fragment %zu changed", t.desc.c_str(), i);
		pos += t.flen[i];
		vf_xfree(t.fblk[i], t.flen[i]);
	}
	vf_xfree(t.vec, t.flen.size() * sizeof(struct iovec));
	vf_xfree(t.flat, t.S.size());
	t.fblk.clear();
}
enum { VFirstRest, VAllInList, VFlat, VCount };
static const char *vname[VCount] = { "first+rest", "all-in-list", "contiguous" };
static bool make_msg(const testobj &t, int v, mpt::message &m)
{
	switch (v) {
	case VFirstRest:
		if (t.flen.empty()) return false;
		m = mpt::message(t.fblk[0], t.flen[0]);
		m.cont = t.vec + 1; m.clen = t.flen.size() - 1;
		return true;
	case VAllInList:
		m = mpt::message();
		m.cont = t.vec; m.clen = t.flen.size();
		return true;
	default:
		m = mpt::message(t.flat, t.S.size());
		return true;
	}
}
struct rstep { size_t len; bool dest; };
static void run_plan(const testobj &t, const std::vector<rstep> &plan)
{
	size_t L = t.S.size();
	for (int v = 0; v < VCount; v++) {
		mpt::message m;
		size_t pos = 0;
		if (!make_msg(t, v, m)) continue;
		vf_at("message::length"); vf_count("message::length", 1);
		size_t l0 = m.length();
		VF_CHECK(l0 == L, v == VFlat ? "cxx:length:contiguous" : "cxx:length:fragmented", "%s (%s): length() = %zu", t.desc.c_str(), vname[v], l0);
		for (const rstep &st : plan) {
			size_t left = L - pos, exp = st.len < left ? st.len : left;
			uint8_t *d = st.dest ? static_cast<uint8_t *>(vf_xalloc(st.len)) : 0;
			if (d && st.len) memset(d, 0xEE, st.len);
			vf_at("message::read"); vf_count("message::read", 1);
			if (vf_logging) vf_log("read(%zu%s) at %zu of %s (%s)", st.len, d ? "" : ", no target", pos, t.desc.c_str(), vname[v]);
			size_t r = d ? m.read(st.len, d) : m.read(st.len);
			VF_CHECK(r == exp, v == VFlat ? "cxx:read:contiguous-return" : "cxx:read:fragmented-return", "%s (%s): read(%zu) at position %zu returned %zu, expected %zu",
			         t.desc.c_str(), vname[v], st.len, pos, r, exp);
			if (d) {
				VF_CHECK(!exp || !memcmp(d, t.S.data() + pos, exp), v == VFlat ? "cxx:read:contiguous-bytes" : "cxx:read:fragmented-bytes", "%s (%s): read(%zu) at position %zu delivered %s, expected %s",
				         t.desc.c_str(), vname[v], st.len, pos, vf_hex(hx1, sizeof(hx1), d, exp > 40 ? 40 : exp), vf_hex(hx2, sizeof(hx2), t.S.data() + pos, exp > 40 ? 40 : exp));
				for (size_t j = exp; j < st.len; j++) {
					VF_CHECK(d[j] == 0xEE, "cxx:read:wrote-beyond-result", "%s (%s): read(%zu) returned %zu but changed target byte %zu", t.desc.c_str(), vname[v], st.len, r, j);
				}
			}
			vf_xfree(d, st.len);
			pos += exp;
			vf_at("message::length"); vf_count("message::length", 1);
			size_t l = m.length();
			VF_CHECK(l == L - pos, v == VFlat ? "cxx:read:contiguous-remaining" : "cxx:read:fragmented-remaining", "%s (%s): after read(%zu) to position %zu length() = %zu, expected %zu",
			         t.desc.c_str(), vname[v], st.len, pos, l, L - pos);
			vf_count("monitor:read-step", 1);
		}
	}
}
static int nonempty, empties;
static void battery(testobj &t, vf_rng *r, bool full)
{
	size_t L = t.S.size();
	build(t);
	nonempty = empties = 0;
	for (size_t n : t.flen) { if (n) nonempty++; else empties++; }
	vf_count(nonempty >= 2 ? "state:two-or-more-fragments" : "state:at-most-one-fragment", 1);
	if (empties) vf_count("state:has-empty-fragment", 1);
	std::vector<rstep> plan;
	for (size_t a = 0; a <= L + 2; a++) {
		if (!full && a > 3 && a + 3 < L && !vf_chance(r, 1, 8)) continue;
		for (int d = 0; d < 2; d++) {
			plan.clear();
			plan.push_back(rstep{ a, d != 0 });
			plan.push_back(rstep{ L + 2, true });
			plan.push_back(rstep{ 1, true });
			run_plan(t, plan);
		}
	}
	for (size_t s = 1; s <= 3; s++) {
		plan.clear();
		for (size_t p = 0; p <= L + s; p += s) plan.push_back(rstep{ s, ((p / s + s) & 1) != 0 });
		run_plan(t, plan);
	}
	plan.clear();
	for (int i = 0, n = 1 + vf_below(r, 6); i < n; i++) plan.push_back(rstep{ vf_below(r, (uint32_t) L + 3), vf_chance(r, 2, 3) != 0 });
	plan.push_back(rstep{ 0, true });
	plan.push_back(rstep{ L + 1, true });
	run_plan(t, plan);
	destroy(t);
}
static uint64_t lists_for(size_t L)
{
	if (!L) return 3;
	uint64_t n = 4;
	for (size_t i = 1; i < L; i++) n *= 3;
	return n;
}
static void decode_list(testobj &t, size_t L, uint64_t j)
{
	t.flen.clear();
	if (!L) { t.flen.assign(j, 0); return; }
	for (uint32_t mask = 0; mask < (1u << (L - 1)); mask++) {
		int parts = __builtin_popcount(mask) + 1;
		uint64_t cnt = 1ull << (parts + 1);
		if (j >= cnt) { j -= cnt; continue; }
		size_t run = 0;
		int p = 0;
		for (size_t i = 0; i < L; i++) {
			run++;
			if (i == L - 1 || (mask >> i & 1)) {
				if (j >> p & 1) t.flen.push_back(0);
				t.flen.push_back(run);
				run = 0; p++;
			}
		}
		if (j >> p & 1) t.flen.push_back(0);
		return;
	}
	vf_inconclusive("harness: fragment list index out of range");
}
static size_t ex_len() { return vf_thorough ? 10 : 8; }
static uint64_t n_ex()
{
	uint64_t n = 0;
	for (size_t L = 0; L <= ex_len(); L++) n += lists_for(L);
	return n;
}
static uint64_t n_prng() { return vf_thorough ? 300000 : 10000; }

/* -------------------------------------------- graphic::target / get_item */
/*
 * The C++ layer's own consumer of fragmented messages: "layout:graph:world[:dim]"
 * addresses are split at ':' across the fragment list.  A case is one text;
 * it is run contiguous and in every cut into 1..5 fragments (empty ones
 * included), every fragment and the fragment list in exact-size blocks.
 * target() is called twice (the second call works on the cursor the first one
 * left): return codes, destination and remaining length must equal the
 * contiguous run.
 */
static mpt::graphic *the_graphic;
static void graphic_setup()
{
	if (the_graphic) return;
	mpt::graphic *g = new mpt::graphic;
	mpt::layout *l = g->create_layout();
	mpt::identifier id;
	l->set_alias("lay");
	for (int i = 1; i <= 2; ++i) {
		char name[8];
		mpt::layout::graph *gr = new mpt::reference<mpt::layout::graph>::type;
		id.set_name("w1");
		gr->append(&id, new mpt::reference<mpt::layout::graph::world>::type);
		id.set_name("w2");
		gr->append(&id, new mpt::reference<mpt::layout::graph::world>::type);
		snprintf(name, sizeof(name), "g%d", i);
		id.set_name(name);
		l->append(&id, gr);
	}
	if (l->bind(0) < 0 || l->graphs().size() != 2 || g->add_layout(l) != 0) vf_inconclusive("harness: graphic setup failed");
	the_graphic = g;
}
struct gresult {
	int r[2];
	mpt::laydest d[2];
	size_t left[2];
	mpt::convertable *item;
	size_t item_left;
};
static std::string gshow(const gresult &r)
{
	char b[200];
	snprintf(b, sizeof(b), "target #1 ret=%d dest=%d/%d/%d/%d left=%zu, #2 ret=%d dest=%d/%d/%d/%d left=%zu, get_item %s left=%zu",
	         r.r[0], r.d[0].lay, r.d[0].grf, r.d[0].wld, r.d[0].dim, r.left[0], r.r[1], r.d[1].lay, r.d[1].grf, r.d[1].wld, r.d[1].dim, r.left[1],
	         r.item ? "found" : "none", r.item_left);
	return b;
}
static bool gsame(const gresult &a, const gresult &b, bool items)
{
	for (int i = 0; i < 2; i++) {
		if (a.r[i] != b.r[i] || a.left[i] != b.left[i]) return false;
		if (a.d[i].lay != b.d[i].lay || a.d[i].grf != b.d[i].grf || a.d[i].wld != b.d[i].wld || a.d[i].dim != b.d[i].dim) return false;
	}
	return !items || (a.item == b.item && a.item_left == b.item_left);
}
static bool with_items;
static gresult grun(const std::string &txt, const std::vector<size_t> &cuts)
{
	size_t k = cuts.size(), pos = 0;
	std::vector<uint8_t *> blk(k);
	struct iovec *vec = static_cast<struct iovec *>(vf_xalloc((k - 1) * sizeof(struct iovec)));
	for (size_t i = 0; i < k; i++) {
		blk[i] = static_cast<uint8_t *>(vf_xalloc(cuts[i]));
		if (cuts[i]) memcpy(blk[i], txt.data() + pos, cuts[i]);
		pos += cuts[i];
		if (i) { vec[i - 1].iov_base = blk[i]; vec[i - 1].iov_len = cuts[i]; }
	}
	gresult res;
	mpt::message msg(blk[0], cuts[0]);
	msg.cont = k > 1 ? vec : 0;
	msg.clen = k - 1;
	mpt::laydest d(0, 0, 1, 0);
	for (int i = 0; i < 2; i++) {
		vf_at("graphic::target"); vf_count("graphic::target", 1);
		res.r[i] = the_graphic->target(d, msg);
		res.d[i] = d;
		res.left[i] = msg.length();
	}
	res.item = 0; res.item_left = 0;
	if (with_items) {
		mpt::message m2(blk[0], cuts[0]);
		m2.cont = k > 1 ? vec : 0;
		m2.clen = k - 1;
		vf_at("graphic::get_item"); vf_count("graphic::get_item", 1);
		res.item = the_graphic->get_item(m2);
		res.item_left = m2.length();
	}
	pos = 0;
	for (size_t i = 0; i < k; i++) {
		VF_CHECK(!cuts[i] || !memcmp(blk[i], txt.data() + pos, cuts[i]), "cxx:graphic:data-modified", "'%s': fragment %zu changed", txt.c_str(), i);
		pos += cuts[i];
		vf_xfree(blk[i], cuts[i]);
	}
	vf_xfree(vec, (k - 1) * sizeof(struct iovec));
	return res;
}
static std::vector<std::string> gtexts;
static void gtexts_setup()
{
	if (!gtexts.empty()) return;
	static const char *lays_q[] = { "lay", "1", "", "no" }, *lays_t[] = { "lay", "1", "", "no", "2", "la", "lay1" };
	static const char *grfs_q[] = { "g2", "2", "", "g3" }, *grfs_t[] = { "g1", "g2", "1", "2", "", "g3", "g" };
	static const char *wlds_q[] = { "w2", "1", "", "w3" }, *wlds_t[] = { "w1", "w2", "1", "2", "", "w3", "w" };
	static const char *dims_q[] = { "", ":y", ":q" }, *dims_t[] = { "", ":x", ":y", ":z", ":1", ":q", ":", ":y " };
	const char **L = vf_thorough ? lays_t : lays_q, **G = vf_thorough ? grfs_t : grfs_q, **W = vf_thorough ? wlds_t : wlds_q, **D = vf_thorough ? dims_t : dims_q;
	size_t nl = vf_thorough ? 7 : 4, ng = vf_thorough ? 7 : 4, nw = vf_thorough ? 7 : 4, nd = vf_thorough ? 8 : 3;
	for (size_t a = 0; a < nl; a++) for (size_t b = 0; b < ng; b++) for (size_t c = 0; c < nw; c++) for (size_t d = 0; d < nd; d++)
		gtexts.push_back(std::string(L[a]) + ":" + G[b] + ":" + W[c] + D[d]);
	/* two addresses in one message: the second call starts where the first stopped */
	static const char *two[] = { "lay:g2::y lay:g1:w1", "lay:g1::x :g2::z", "1:1:1:0 1:2:2:1", "lay:g2:w2:y :::z", "lay:g1:w1:x\tlay:g2:w2", "lay", "lay:g1", ":", "::", "lay:g2:w2:y:", "" };
	for (const char *t : two) gtexts.push_back(t);
}
static uint64_t n_graphic() { gtexts_setup(); return gtexts.size(); }
static unsigned long g_third;
static void gcompare(const std::string &txt, const std::vector<size_t> &cuts, const gresult &ref)
{
	gresult cur = grun(txt, cuts);
	/* position of the fragment the last ':' lies in */
	size_t pos = 0, k = cuts.size();
	bool third = false;
	for (size_t i = 0; i < k; i++) {
		if (i >= 2 && cuts[i] && memchr(txt.data() + pos, ':', cuts[i])) third = true;
		pos += cuts[i];
	}
	if (k >= 3 && third) { vf_count("graphic:colon-in-third-or-later-fragment", 1); g_third++; }
	if (!gsame(ref, cur, with_items)) {
		std::string c;
		for (size_t i = 0; i < k; i++) c += (i ? "," : "") + std::to_string(cuts[i]);
		bool t = gsame(ref, cur, false);
		vf_fail(t ? "cxx:graphic-get_item:fragmented-differs" : "cxx:graphic-target:fragmented-differs", "'%s' cut as {%s}: %s; contiguous: %s", txt.c_str(), c.c_str(), gshow(cur).c_str(), gshow(ref).c_str());
	}
	vf_count("monitor:graphic-compared", 1);
}
static void gcuts(const std::string &txt, std::vector<size_t> &cuts, size_t k, size_t left, const gresult &ref)
{
	if (cuts.size() + 1 == k) {
		cuts.push_back(left);
		gcompare(txt, cuts, ref);
		cuts.pop_back();
		return;
	}
	for (size_t n = 0; n <= left; n++) {
		cuts.push_back(n);
		gcuts(txt, cuts, k, left - n, ref);
		cuts.pop_back();
	}
}
static void case_graphic(uint64_t idx, vf_rng *r)
{
	graphic_setup();
	gtexts_setup();
	const std::string &txt = gtexts[idx];
	size_t len = txt.size();
	/*
	 * get_item() is not driven: on this tree it faults on *contiguous* input already
	 * ("lay:g2:w2": global-buffer-overflow in collection::relation::find called from
	 * graphic.cpp get_item) - a defect outside "fragmented reads like contiguous"
	 * that would void every comparison.  The code path stays here, switched off.
	 */
	with_items = false;
	std::vector<size_t> cuts(1, len);
	gresult ref = grun(txt, cuts);
	vf_fp_u64(0xC17E); vf_fp(txt.data(), len);
	vf_count(ref.r[0] >= 0 ? "graphic:contiguous-target-accepted" : "graphic:contiguous-target-refused", 1);
	if (ref.r[1] >= 0) vf_count("graphic:contiguous-second-target-accepted", 1);
	g_third = 0;
	size_t maxk = len <= 14 ? 5 : 4;
	for (size_t k = 2; k <= maxk; k++) {
		cuts.clear();
		gcuts(txt, cuts, k, len, ref);
	}
	/* PRNG lists with more fragments */
	for (int i = 0; i < 20; i++) {
		cuts.clear();
		size_t left = len;
		int k = 3 + vf_below(r, 6);
		for (int j = 0; j + 1 < k; j++) { size_t n = vf_chance(r, 1, 4) ? 0 : vf_below(r, (uint32_t) left + 1); if (n > 4 && vf_chance(r, 1, 2)) n = vf_below(r, 4); cuts.push_back(n); left -= n; }
		cuts.push_back(left);
		gcompare(txt, cuts, ref);
	}
	if (g_third) vf_nontrivial();
	if (idx % 37 == 5) vf_sample("graphic: '%s' contiguous -> %s; every cut into 2..%zu fragments + 20 PRNG lists", txt.c_str(), gshow(ref).c_str(), maxk);
}

uint64_t vf_cases(void) { return n_ex() + n_prng() + n_graphic(); }

void vf_case(uint64_t idx, vf_rng *r)
{
	testobj t;
	if (idx < n_ex()) {
		uint64_t j = idx;
		size_t L = 0;
		while (j >= lists_for(L)) { j -= lists_for(L); L++; }
		decode_list(t, L, j);
		t.S.resize(L);
		vf_bytes(r, t.S.data(), L);
		vf_fp_u64(0xC17C); vf_fp(t.S.data(), L); for (size_t n : t.flen) vf_fp_u64(n);
		battery(t, r, true);
		if (nonempty >= 2 || (L && empties)) vf_nontrivial();
		if (idx % 1499 == 7) vf_sample("every-fragment-list: data %s %s, read plans", vf_hex(hx1, sizeof(hx1), t.S.data(), L), t.desc.c_str());
		return;
	}
	if (idx >= n_ex() + n_prng()) { case_graphic(idx - n_ex() - n_prng(), r); return; }
	size_t L = vf_chance(r, 1, 10) ? vf_below(r, 300) : vf_below(r, 49), left = L;
	size_t maxk = vf_chance(r, 1, 4) ? 40 : 8;
	while ((left || t.flen.empty() || vf_chance(r, 1, 6)) && t.flen.size() < maxk) {
		size_t n;
		if (vf_chance(r, 1, 6)) n = 0;
		else if (vf_chance(r, 1, 3)) n = 1 + vf_below(r, 3);
		else n = 1 + vf_below(r, (uint32_t) (left > 40 ? 40 : left));
		if (n > left) n = left;
		t.flen.push_back(n);
		left -= n;
	}
	if (left || vf_chance(r, 1, 2)) t.flen.push_back(left);
	t.S.resize(L);
	vf_bytes(r, t.S.data(), L);
	vf_fp_u64(0xC17D); vf_fp(t.S.data(), L); for (size_t n : t.flen) vf_fp_u64(n);
	battery(t, r, false);
	if (nonempty >= 2) vf_nontrivial();
	vf_sample("random: data %s.. %s, read plans", vf_hex(hx1, sizeof(hx1), t.S.data(), L > 40 ? 40 : L), t.desc.c_str());
}
