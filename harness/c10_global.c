/*
 * C10 (global leg): the process-wide configuration and sub-tree views of it
 * behave as a map from element paths to values.
 *
 * One history per process (the store is process-global).  Reference model:
 * table of all universe paths and their prefixes with (exists, has value,
 * value).  After every mutating operation every entry of the table is queried
 * (value and existence) through the global interface.
 */
#include <stdlib.h>
#include <errno.h>

#include "meta.h"
#include "types.h"
#include "config.h"
#include "vf.h"
#include <sys/uio.h>

/* text of a stored value: short values convert to 's'; values of 255 bytes and more live in a
 * buffer-backed metatype that offers its content as character vector (terminator included) */
static char longtext[70000];
static int text_fallback(int rc, MPT_INTERFACE(config) *cfg, const MPT_STRUCT(path) *p, const char *dotpath, const char **got)
{
	struct iovec vec = { 0, 0 };
	if (rc != MPT_ERROR(BadType)) return rc;
	if (p) rc = mpt_config_getp(cfg, p, MPT_type_toVector('c'), &vec);
	else rc = mpt_config_get(0, dotpath, MPT_type_toVector('c'), &vec);
	if (rc < 0) return rc;
	if (vec.iov_len >= sizeof(longtext)) return MPT_ERROR(MissingBuffer);
	if (vec.iov_len) memcpy(longtext, vec.iov_base, vec.iov_len);
	longtext[vec.iov_len] = 0;
	*got = longtext;
	vf_count("monitor:long-value-via-vector", 1);
	return rc;
}

const char *vf_name = "c10_global";

#define MAXNAMES 8
#define MAXDEPTH 4
#define MAXU     96
#define MAXVAL   320
#define LONGVAL  250   /* beyond the small text metatype */

static char names[MAXNAMES][260];
static size_t namelen[MAXNAMES];
static int nnames;

struct entry {
	int n, e[MAXDEPTH];
	int exists, hasval;
	size_t vlen;
	char val[MAXVAL];
};
static struct entry U[MAXU];
static int nu;
static const char seps[] = { '.', '/', ':' };

static int find_entry(int n, const int *e)
{
	for (int i = 0; i < nu; i++) if (U[i].n == n && !memcmp(U[i].e, e, sizeof(int) * (size_t) n)) return i;
	return -1;
}
static int add_entry(int n, const int *e)
{
	int i = find_entry(n, e);
	if (i >= 0) return i;
	if (nu >= MAXU) return -1;
	memset(&U[nu], 0, sizeof(U[nu]));
	U[nu].n = n;
	memcpy(U[nu].e, e, sizeof(int) * (size_t) n);
	return nu++;
}
static int is_prefix(const struct entry *p, const struct entry *x)   /* p is prefix of (or equal to) x */
{
	return p->n <= x->n && !memcmp(p->e, x->e, sizeof(int) * (size_t) p->n);
}
/* render elements [from, to) of an entry with separator */
static size_t render(char *dst, const struct entry *x, int from, int to, int sep)
{
	size_t o = 0;
	for (int k = from; k < to; k++) {
		memcpy(dst + o, names[x->e[k]], namelen[x->e[k]]); o += namelen[x->e[k]];
		if (k + 1 < to) dst[o++] = (char) sep;
	}
	dst[o] = 0;
	return o;
}
static const char *show(const struct entry *x)
{
	static char b[2][200];
	static int k;
	char *d = b[k++ & 1];
	size_t o = 0;
	for (int i = 0; i < x->n && o < 150; i++) {
		size_t l = namelen[x->e[i]];
		if (l > 8) o += (size_t) snprintf(d + o, 200 - o, "%s<%zu>", i ? "." : "", l);
		else o += (size_t) snprintf(d + o, 200 - o, "%s%s", i ? "." : "", l ? names[x->e[i]] : "\"\"");
	}
	d[o] = 0;
	return d;
}

/* element names whose stored length equals the inline capacity exactly, per level */
static void count_capacity_levels(const struct entry *x)
{
	static const char *lv[MAXDEPTH] = { "state:capacity-name-level1", "state:capacity-name-level2", "state:capacity-name-level3", "state:capacity-name-level4" };
	for (int k = 0; k < x->n; k++) {
		size_t l = namelen[x->e[k]];
		if (l == 19 || l == 83 || l == 211) vf_count(lv[k], 1);
	}
}
/* --------------------------------------------------------------- model ops */
static void m_set(int i, const char *val, size_t vlen)
{
	for (int j = 0; j < nu; j++) if (is_prefix(&U[j], &U[i])) U[j].exists = 1;
	U[i].hasval = 1; U[i].vlen = vlen;
	memcpy(U[i].val, val, vlen + 1);
	count_capacity_levels(&U[i]);
}
static void m_remove(int i, int self)
{
	for (int j = 0; j < nu; j++) {
		if (!is_prefix(&U[i], &U[j]) || (j == i && !self)) continue;
		U[j].exists = U[j].hasval = 0;
	}
}
static void m_touch(int i)   /* path created without value */
{
	for (int j = 0; j < nu; j++) if (is_prefix(&U[j], &U[i])) U[j].exists = 1;
}

/* ------------------------------------------------------------------- views */
struct view { MPT_INTERFACE(metatype) *mt; MPT_INTERFACE(config) *cfg; int base; char *str; size_t slen; };
static struct view views[4];
static int nviews;

static MPT_INTERFACE(config) *global_cfg(void)
{
	MPT_INTERFACE(metatype) *mt;
	MPT_INTERFACE(config) *cfg = 0;
	vf_at("mpt_config_global");
	mt = mpt_config_global(0);
	VF_CHECK(mt != 0, "model:config_global:null", "mpt_config_global(NULL) returned NULL");
	VF_CHECK(MPT_metatype_convert(mt, MPT_ENUM(TypeConfigPtr), &cfg) >= 0 && cfg, "model:config_global:no-config", "global metatype has no config interface");
	return cfg;
}

/* path in binary (length-linked) format, built the way the parser does;
 * returns 0 when the entry cannot be expressed (element > 255 bytes, leading
 * empty element without storage) */
static int binpath(MPT_STRUCT(path) *p, const struct entry *x)
{
	static const MPT_STRUCT(path) init = MPT_PATH_INIT;
	*p = init;
	p->flags = MPT_PATHFLAG(SepBinary);
	if (!x->n || !namelen[x->e[0]]) return 0;
	for (int k = 0; k < x->n; k++) if (namelen[x->e[k]] > 255) return 0;
	for (int k = 0; k < x->n; k++) {
		size_t l = namelen[x->e[k]];
		for (size_t i = 0; i < l; i++) {
			vf_at("mpt_path_addchar");
			if (mpt_path_addchar(p, names[x->e[k]][i]) < 0) vf_fail("model:path_addchar:refused", "binary path for '%s'", show(x));
			mpt_path_valid(p);
		}
		vf_at("mpt_path_add");
		if (mpt_path_add(p, (int) l) < 0) vf_fail("model:path_add:refused", "binary path for '%s' element %d", show(x), k);
	}
	vf_count("state:binary-path", 1);
	return 1;
}

/* --------------------------------------------------------------- the audit */
static char pbuf[4 * 262 + 16];

static void audit_one(const char *after, int i, MPT_INTERFACE(config) *cfg, int from, const char *via)
{
	const struct entry *x = &U[i];
	int sep = seps[(i + from) % 3];
	MPT_STRUCT(path) p = MPT_PATH_INIT;
	const char *got = (const char *) 1;
	int rc;
	int bin = !from && !cfg && (i % 4 == 3) && binpath(&p, x);
	if (!bin) {
		static const MPT_STRUCT(path) init = MPT_PATH_INIT;
		p = init;
		render(pbuf, x, from, x->n, sep);
		p.sep = (char) sep;
		if (from < x->n) mpt_path_set(&p, pbuf, -1);
	} else via = "binary-path";
	/* value */
	vf_at("mpt_config_getp");
	rc = mpt_config_getp(cfg, &p, 's', &got);
	rc = text_fallback(rc, cfg, &p, 0, &got);
	vf_count("mpt_config_getp", 1);
	if (x->hasval) {
		VF_CHECK(rc >= 0, "model:query:value-missing", "after %s: %s query of '%s' returned %d, model holds a value of %zu bytes", after, via, show(x), rc, x->vlen);
		VF_CHECK(got && got != (const char *) 1, "model:query:value-null", "after %s: %s query of '%s' succeeded without a string", after, via, show(x));
		size_t gl = strlen(got);
		VF_CHECK(gl == x->vlen && !memcmp(got, x->val, gl), "model:query:value-differs",
		         "after %s: %s query of '%s' returned %zu bytes '%.24s', last assigned %zu bytes '%.24s'", after, via, show(x), gl, got, x->vlen, x->val);
		vf_count("monitor:value-compares", 1);
	} else {
		VF_CHECK(rc < 0, "model:query:phantom-value", "after %s: %s query of '%s' returned %d ('%.24s'), model has %s", after, via, show(x), rc,
		         (got && got != (const char *) 1) ? got : "", x->exists ? "a node without value" : "nothing");
		vf_count("monitor:absence-compares", 1);
	}
	/* existence */
	rc = mpt_config_getp(cfg, &p, 0, 0);
	if (x->exists) VF_CHECK(rc >= 0, "model:query:node-missing", "after %s: %s existence query of '%s' returned %d, model has the node", after, via, show(x), rc);
	else VF_CHECK(rc < 0, "model:query:phantom-node", "after %s: %s existence query of '%s' returned %d, model has no such node", after, via, show(x), rc);
	vf_count("monitor:existence-compares", 1);
	if (bin) mpt_path_fini(&p);
}
static void audit(const char *after)
{
	for (int i = 0; i < nu; i++) audit_one(after, i, 0, 0, "global");
	/* the same entries through every view that is a prefix */
	for (int v = 0; v < nviews; v++) {
		const struct entry *b = &U[views[v].base];
		for (int i = 0; i < nu; i++) {
			if (!is_prefix(b, &U[i])) continue;
			audit_one(after, i, views[v].cfg, b->n, "sub-tree view");
			vf_count("monitor:view-compares", 1);
		}
	}
	vf_count("monitor:audits", 1);
}
/* '.'-separated convenience interface */
static void audit_get(const char *after)
{
	for (int i = 0; i < nu; i++) {
		const struct entry *x = &U[i];
		const char *got = 0;
		int dot = 0;
		for (int k = 0; k < x->n; k++) if (memchr(names[x->e[k]], '.', namelen[x->e[k]])) dot = 1;
		if (dot) continue;
		render(pbuf, x, 0, x->n, '.');
		vf_at("mpt_config_get");
		int rc = mpt_config_get(0, pbuf, 's', &got);
		rc = text_fallback(rc, 0, 0, pbuf, &got);
		vf_count("mpt_config_get", 1);
		if (x->hasval) {
			VF_CHECK(rc >= 0 && got && strlen(got) == x->vlen && !memcmp(got, x->val, x->vlen), "model:config_get:value",
			         "after %s: mpt_config_get('%s') returned %d '%.24s', last assigned '%.24s'", after, show(x), rc, got ? got : "(null)", x->val);
		} else {
			VF_CHECK(rc < 0, "model:config_get:phantom-value", "after %s: mpt_config_get('%s') returned %d, model has no value there", after, show(x), rc);
		}
	}
}

/* ----------------------------------------------------------------- history */
static size_t gen_value(vf_rng *r, char *dst)
{
	static const size_t vl[] = { 0, 1, 2, 3, 8, 17, 40, 100, 253, 254, 255, 256, 257, 300 };
	size_t l = vf_chance(r, 1, 4) ? vl[vf_below(r, 14)] : vf_below(r, 12);
	for (size_t i = 0; i < l; i++) dst[i] = (char) (0x20 + vf_below(r, 0x5f));
	dst[l] = 0;
	return l;
}

uint64_t vf_cases(void) { return vf_thorough ? 40000 : 3000; }

void vf_case(uint64_t idx, vf_rng *r)
{
	static const size_t nl[] = { 1, 1, 2, 3, 1, 2, 2, 3 };
	/* lengths around the inline name capacity of the elements (text + terminator == capacity) */
	static const size_t bl[13] = { 18, 19, 19, 20, 82, 83, 83, 84, 210, 211, 211, 212, 11 };
	int sets = 0, removes = 0, overw = 0, viewops = 0, i;
	char val[MAXVAL];
	(void) idx;
	/* names: no separator characters, no '=', distinct */
	nnames = 5 + (int) vf_below(r, 4);
	for (i = 0; i < nnames; i++) {
		size_t l = nl[i];
		if (i == 3 && vf_chance(r, 1, 2)) l = 254 + vf_below(r, 4);
		if (i == 4 && vf_chance(r, 1, 2)) l = 0;
		if (i >= 5 || (i == 2 && vf_chance(r, 1, 2))) { l = bl[vf_below(r, 13)]; vf_count("universe:boundary-element", 1); }
		if (l == 19 || l == 83 || l == 211) vf_count("universe:capacity-element", 1);
		namelen[i] = l;
		for (size_t k = 0; k < l; k++) names[i][k] = (char) ('a' + (k ? vf_below(r, 26) : (uint32_t) i));
		names[i][l] = 0;
		vf_fp(names[i], l);
		if (l > 250) vf_count("universe:long-element", 1);
		if (!l) vf_count("universe:empty-element", 1);
	}
	/* universe: paths with shared prefixes, prefix-of-another, repeated elements */
	nu = 0; nviews = 0;
	int npaths = 6 + (int) vf_below(r, 15);
	for (i = 0; i < npaths; i++) {
		int e[MAXDEPTH], n = 1 + (int) vf_below(r, MAXDEPTH);
		if (nu && vf_chance(r, 1, 2)) {
			/* extend / shorten / vary an existing path */
			const struct entry *b = &U[vf_below(r, (uint32_t) nu)];
			n = b->n;
			memcpy(e, b->e, sizeof(e));
			if (n < MAXDEPTH && vf_chance(r, 2, 3)) e[n++] = vf_chance(r, 1, 3) ? e[n - 1] : (int) vf_below(r, (uint32_t) nnames);
			else e[n - 1] = (int) vf_below(r, (uint32_t) nnames);
		} else {
			for (int k = 0; k < n; k++) e[k] = (int) vf_below(r, (uint32_t) nnames);
		}
		for (int k = 1; k <= n; k++) if (add_entry(k, e) < 0) break;
	}
	vf_max("max:universe", (uint64_t) nu);
	(void) global_cfg();
	audit("start");

	int nops = vf_range(r, 50, vf_thorough ? 400 : 250);
	for (int op = 0; op < nops; op++) {
		char what[160];
		int k = (int) vf_below(r, 100);
		int t = (int) vf_below(r, (uint32_t) nu);
		struct entry *x = &U[t];
		int sep = seps[vf_below(r, 3)];
		vf_fp_u64((uint64_t) k << 16 | (uint64_t) t << 4 | (uint64_t) (sep & 3));
		if (k < 40) {
			/* assign through the global interface */
			size_t vl = gen_value(r, val);
			int end = vf_chance(r, 1, 6) ? '=' : 0;
			size_t o = render(pbuf, x, 0, x->n, sep);
			if (end) { memcpy(pbuf + o, "=ignored", 9); }
			snprintf(what, sizeof(what), "set('%s', %zu bytes, sep '%c'%s)", show(x), vl, sep, end ? ", end '='" : "");
			vf_log("%s", what);
			vf_at("mpt_config_set");
			vf_count("mpt_config_set:assign", 1);
			if (x->hasval) { overw++; vf_count("state:overwrite", 1); }
			if (vl >= LONGVAL) vf_count("state:long-value", 1);
			vf_fp(val, vl);
			int rc = mpt_config_set(0, pbuf, val, sep, end);
			if (rc < 0 && vl >= LONGVAL) {
				/* long values are the business of the value storage (C04/C05/C09):
				 * a refusal must leave the map as it was */
				vf_count("outcome:long-value-refused", 1);
			} else {
				VF_CHECK(rc >= 0, "model:assign:refused", "%s returned %d", what, rc);
				m_set(t, val, vl);
				if (vl >= LONGVAL) vf_count("outcome:long-value-stored", 1);
				sets++;
			}
		}
		else if (k < 54) {
			/* remove through the global interface */
			render(pbuf, x, 0, x->n, sep);
			snprintf(what, sizeof(what), "remove('%s'%s, sep '%c')", show(x), x->exists ? "" : " [absent]", sep);
			vf_log("%s", what);
			vf_at("mpt_config_set");
			vf_count("mpt_config_set:remove", 1);
			int inner = 0;
			for (int j = 0; j < nu; j++) if (j != t && U[j].exists && is_prefix(x, &U[j])) inner = 1;
			if (x->exists && inner) vf_count("state:remove-inner-node", 1);
			if (!x->exists) vf_count("state:remove-absent", 1);
			int rc = mpt_config_set(0, pbuf, 0, sep, 0);
			if (x->exists) VF_CHECK(rc >= 0, "model:remove:refused", "%s returned %d", what, rc);
			m_remove(t, 1);
			removes++;
		}
		else if (k < 59) {
			/* assign / remove with a binary path through the config interface */
			MPT_STRUCT(path) bp;
			MPT_INTERFACE(config) *cfg = global_cfg();
			if (!binpath(&bp, x)) { mpt_path_fini(&bp); continue; }
			if (vf_chance(r, 2, 3)) {
				size_t vl = vf_below(r, 12);
				for (size_t q = 0; q < vl; q++) val[q] = (char) ('0' + vf_below(r, 10));
				val[vl] = 0;
				const char *vp = val;
				MPT_STRUCT(value) d = MPT_VALUE_INIT('s', &vp);
				snprintf(what, sizeof(what), "assign(binary path '%s', %zu bytes)", show(x), vl);
				vf_log("%s", what);
				vf_at("config::assign");
				vf_count("config::assign:binary-path", 1);
				if (x->hasval) { overw++; vf_count("state:overwrite", 1); }
				vf_fp(val, vl);
				int rc = cfg->_vptr->assign(cfg, &bp, &d);
				VF_CHECK(rc >= 0, "model:assign:refused", "%s returned %d", what, rc);
				m_set(t, val, vl);
				sets++;
			} else {
				snprintf(what, sizeof(what), "remove(binary path '%s')%s", show(x), x->exists ? "" : " [absent]");
				vf_log("%s", what);
				vf_at("config::remove");
				vf_count("config::remove:binary-path", 1);
				int rc = cfg->_vptr->remove(cfg, &bp);
				if (x->exists) VF_CHECK(rc >= 0, "model:remove:refused", "%s returned %d", what, rc);
				m_remove(t, 1);
				removes++;
			}
			mpt_path_fini(&bp);
		}
		else if (k < 60) {
			snprintf(what, sizeof(what), "clear everything");
			vf_log("%s", what);
			vf_at("mpt_config_set");
			vf_count("mpt_config_set:clear", 1);
			mpt_config_set(0, 0, 0, '.', 0);
			for (int j = 0; j < nu; j++) U[j].exists = U[j].hasval = 0;
		}
		else if (k < 66 && nviews < 4) {
			/* new sub-tree view on a universe path (existing or not) */
			MPT_STRUCT(path) p = MPT_PATH_INIT;
			struct view *v = &views[nviews];
			v->slen = render(pbuf, x, 0, x->n, sep);
			v->str = vf_xalloc(v->slen + 1);
			memcpy(v->str, pbuf, v->slen + 1);
			p.sep = (char) sep;
			mpt_path_set(&p, v->str, -1);
			snprintf(what, sizeof(what), "view on '%s'%s", show(x), x->exists ? "" : " [absent]");
			vf_log("%s", what);
			vf_at("mpt_config_global");
			vf_count("mpt_config_global:view", 1);
			v->mt = mpt_config_global(&p);
			VF_CHECK(v->mt != 0, "model:view:null", "%s: NULL", what);
			/* the view must not depend on the caller's string */
			memset(v->str, '#', v->slen);
			vf_xfree(v->str, v->slen + 1);
			v->cfg = 0;
			VF_CHECK(MPT_metatype_convert(v->mt, MPT_ENUM(TypeConfigPtr), &v->cfg) >= 0 && v->cfg, "model:view:no-config", "%s: no config interface", what);
			v->base = t;
			nviews++;
			for (int q = 0; q < x->n; q++) { size_t l = namelen[x->e[q]]; if (l == 19 || l == 83 || l == 211) { vf_count("state:view-base-capacity-name", 1); break; } }
		}
		else if (k < 92 && nviews) {
			/* assign / remove relative to a view */
			struct view *v = &views[vf_below(r, (uint32_t) nviews)];
			const struct entry *b = &U[v->base];
			int cand[MAXU], nc = 0;
			for (int j = 0; j < nu; j++) if (is_prefix(b, &U[j])) cand[nc++] = j;
			t = cand[vf_below(r, (uint32_t) nc)];
			x = &U[t];
			int self = x->n == b->n;
			render(pbuf, x, b->n, x->n, sep);
			viewops++;
			if (k < 80) {
				size_t vl = gen_value(r, val);
				snprintf(what, sizeof(what), "view('%s').set('%s', %zu bytes)%s", show(b), self ? "" : show(x), vl, U[v->base].exists ? "" : " [base absent]");
				vf_log("%s", what);
				vf_at("mpt_config_set");
				vf_count("view:assign", 1);
				if (self) vf_count("view:assign-self", 1);
				if (!U[v->base].exists) vf_count("state:view-base-created", 1);
				vf_fp(val, vl);
				int rc = mpt_config_set(v->cfg, self ? 0 : pbuf, val, sep, 0);
				if (rc < 0 && vl >= LONGVAL) {
					vf_count("outcome:long-value-refused", 1);
					m_touch(v->base);   /* the base path of the view is created first */
				} else {
					VF_CHECK(rc >= 0, "model:view-assign:refused", "%s returned %d", what, rc);
					m_set(t, val, vl);
					for (int q = b->n; q < x->n; q++) { size_t l = namelen[x->e[q]]; if (l == 19 || l == 83 || l == 211) { vf_count("view:assign-capacity-name", 1); break; } }
					if (vl >= LONGVAL) vf_count("outcome:long-value-stored", 1);
					sets++;
				}
			} else {
				snprintf(what, sizeof(what), "view('%s').remove('%s')%s", show(b), self ? "" : show(x), x->exists ? "" : " [absent]");
				vf_log("%s", what);
				vf_at("mpt_config_set");
				vf_count("view:remove", 1);
				int rc = mpt_config_set(v->cfg, self ? 0 : pbuf, 0, sep, 0);
				if (x->exists) VF_CHECK(rc >= 0, "model:view-remove:refused", "%s returned %d", what, rc);
				/* empty relative path: documented as "clear the children of the base" */
				if (U[v->base].exists) m_remove(t, !self);
				removes++;
			}
		}
		else if (k < 95 && nviews) {
			/* node conversion of a view creates the base path */
			struct view *v = &views[vf_below(r, (uint32_t) nviews)];
			void *node = 0;
			snprintf(what, sizeof(what), "view('%s') as node", show(&U[v->base]));
			vf_log("%s", what);
			vf_at("mpt_config_global");
			vf_count("view:node-conversion", 1);
			int rc = MPT_metatype_convert(v->mt, MPT_ENUM(TypeNodePtr), &node);
			VF_CHECK(rc >= 0 && node, "model:view-node:refused", "%s returned %d", what, rc);
			m_touch(v->base);
		}
		else if (k < 97 && nviews) {
			/* drop a view: the store must not change */
			int vi = (int) vf_below(r, (uint32_t) nviews);
			snprintf(what, sizeof(what), "drop view('%s')", show(&U[views[vi].base]));
			vf_log("%s", what);
			vf_count("view:unref", 1);
			views[vi].mt->_vptr->unref(views[vi].mt);
			views[vi] = views[--nviews];
		}
		else if ((k >= 97 && k < 99) || (k < 97 && vf_chance(r, 1, 4))) {
			/* assignment the store refuses (value without type / with a type nobody registered,
			 * no text form): the map must be exactly as before */
			static const int dummy = 0;
			int untyped = vf_chance(r, 1, 2);
			MPT_STRUCT(value) d = MPT_VALUE_INIT(0, 0);
			MPT_STRUCT(path) p = MPT_PATH_INIT;
			MPT_INTERFACE(config) *cfg = global_cfg();
			struct view *v = (nviews && vf_chance(r, 1, 3)) ? &views[vf_below(r, (uint32_t) nviews)] : 0;
			int from = 0;
			if (!untyped) { d._type = 0xfe; d._addr = &dummy; }
			if (v) {
				const struct entry *b = &U[v->base];
				int cand[MAXU], nc = 0;
				for (int j = 0; j < nu; j++) if (is_prefix(b, &U[j]) && U[j].n > b->n) cand[nc++] = j;
				if (!nc) v = 0;
				else { t = cand[vf_below(r, (uint32_t) nc)]; x = &U[t]; from = b->n; cfg = v->cfg; }
			}
			render(pbuf, x, from, x->n, sep);
			p.sep = (char) sep;
			mpt_path_set(&p, pbuf, -1);
			snprintf(what, sizeof(what), "%sassign('%s', %s value)%s", v ? "view." : "", show(x), untyped ? "untyped" : "unregistered-type", x->exists ? "" : " [absent]");
			vf_log("%s", what);
			vf_at("config::assign");
			int rc = cfg->_vptr->assign(cfg, &p, &d);
			if (rc < 0) {
				vf_count("config::assign:refused", 1);
				if (!x->exists) vf_count("state:refused-on-absent-path", 1);
				if (v) m_touch(v->base);   /* a view creates its base path before it looks at the value */
			} else {
				vf_count("config::assign:odd-value-accepted", 1);
				m_touch(t);
				mpt_config_set(0, (render(pbuf, x, 0, x->n, sep), pbuf), 0, sep, 0);
				m_remove(t, 1);
			}
		}
		else {
			snprintf(what, sizeof(what), "query only");
			audit_get(what);
			continue;
		}
		audit(what);
		if (!(op & 7)) audit_get(what);
	}
	while (nviews) { --nviews; views[nviews].mt->_vptr->unref(views[nviews].mt); }
	if (vf_chance(r, 1, 2)) {
		/* leave the rest to the library's exit handler in half of the cases */
		vf_at("mpt_config_set");
		mpt_config_set(0, 0, 0, '.', 0);
		for (int j = 0; j < nu; j++) U[j].exists = U[j].hasval = 0;
		audit("final clear");
	}
	if (sets >= 10 && removes >= 3 && overw >= 2) vf_nontrivial();
	vf_sample("global store: %d names, %d universe paths, %d ops: %d assigns (%d overwrites), %d removes, %d through views", nnames, nu, nops, sets, overw, removes, viewops);
}
