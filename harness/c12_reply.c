/*
 * C12 leg (b): reply context histories.
 *
 * One context from mpt_reply_deferrable(idlen, send, transport) per case.  The
 * harness is the transport: its send callback records (id bytes, message) and
 * rejects PRNG-chosen calls.  Model: a set of requests, each armed either on
 * the context itself or owned by a deferred handle; per request the number of
 * accepted sends.  Before every library call the harness states which request
 * (if any) the call may answer; the callback compares what arrives with it.
 *
 * Handle protocol followed (source of reply_deferrable.c / Appendix A):
 *   - the harness owns exactly one metatype reference; dropping it detaches the
 *     transport (the library must not call send afterwards);
 *   - a deferred handle is consumed by reply(msg) >= 0 and by reply(NULL)
 *     (default reply + release) whatever the latter returns; it stays usable
 *     after reply(msg) < 0.
 */
#include <stdlib.h>
#include <inttypes.h>
#include <sys/uio.h>

#if defined(__SANITIZE_ADDRESS__)
# include <sanitizer/asan_interface.h>
#endif

#include "meta.h"
#include "message.h"
#include "types.h"
#include "event.h"
#include "vf.h"

const char *vf_name = "c12_reply";

#define MAXREQ   64
#define MAXDEF   3
#define MAXID    64
#define MAXMSG   96

struct request {
	uint8_t id[MAXID];
	size_t  len;
	int     serial;
	int     accepted;   /* sends the transport accepted */
	int     rejected;   /* sends the transport rejected */
};
struct deferred {
	MPT_INTERFACE(reply_context_detached) *h;
	struct request *req;
};
static struct {
	int magic;
} transport;

static struct request reqs[MAXREQ];
static int nreq;

static MPT_INTERFACE(metatype) *mt;
static MPT_INTERFACE(reply_context) *rc;
static MPT_STRUCT(reply_data) *rd;
static size_t idlen;
static uint8_t *blk;          /* heap block of the context object */
static size_t blklen;
static size_t rd_off, rd_len; /* reply_data region inside the block */
static int attached;          /* transport attached (metatype reference held) */

static struct request *ctx_req;
static struct deferred defs[MAXDEF];
static int ndef;

/* expectation for the call in progress */
static struct request *exp_req;
static const uint8_t *exp_msg;   /* flattened expected message, NULL = default reply */
static size_t exp_msglen;
static int exp_fail;             /* transport verdict for the next send */
static int exp_code;             /* value returned to the library */
static int send_calls;
static const char *cur_op = "";

/* statistics of the case */
static int n_accept, n_reject, n_defer, n_default, n_refused_reply;

static char hx1[160], hx2[160];

static size_t flatten(const MPT_STRUCT(message) *msg, uint8_t *dst, size_t max)
{
	size_t n = 0;
	if (msg->used) {
		if (n + msg->used > max) return max + 1;
		memcpy(dst + n, msg->base, msg->used);
		n += msg->used;
	}
	for (size_t i = 0; i < msg->clen; i++) {
		if (!msg->cont[i].iov_len) continue;
		if (n + msg->cont[i].iov_len > max) return max + 1;
		memcpy(dst + n, msg->cont[i].iov_base, msg->cont[i].iov_len);
		n += msg->cont[i].iov_len;
	}
	return n;
}

/* ------------------------------------------------------------- transport */
static int hsend(void *ptr, const MPT_STRUCT(reply_data) *r, const MPT_STRUCT(message) *msg)
{
	uint8_t got[MAXMSG + 8];
	vf_count("callback:send", 1);
	VF_CHECK(ptr == &transport, "model:send:wrong-transport-pointer", "%s: send called with %p, transport is %p", cur_op, ptr, (void *) &transport);
	VF_CHECK(attached, "model:send:after-detach",
	         "%s: send called although the metatype reference (transport owner) was released before", cur_op);
	VF_CHECK(r != 0, "model:send:null-reply-data", "%s: send called without reply data", cur_op);
	VF_CHECK(exp_req != 0, "model:send:unexpected",
	         "%s: send called (id %s) although no armed request is addressed by this call", cur_op,
	         vf_hex(hx1, sizeof(hx1), r->val, r->len < 32 ? r->len : 32));
	VF_CHECK(send_calls == 0, "model:send:repeated-in-one-operation", "%s: second send call for request #%d", cur_op, exp_req->serial);
	send_calls++;
	VF_CHECK(!exp_req->accepted, "model:send:request-already-answered",
	         "%s: send for request #%d which the transport already accepted a reply for", cur_op, exp_req->serial);
	vf_count("monitor:send-id-compared", 1);
	{
		uint8_t want[MAXID];
		memcpy(want, exp_req->id, exp_req->len);
		want[0] |= 0x80;
		VF_CHECK(r->len == exp_req->len && !memcmp(r->val, want, exp_req->len), "model:send:wrong-id",
		         "%s: reply for request #%d carries id %s (len %u), expected %s (request id with reply bit)", cur_op, exp_req->serial,
		         vf_hex(hx1, sizeof(hx1), r->val, r->len < 40 ? r->len : 40), (unsigned) r->len,
		         vf_hex(hx2, sizeof(hx2), want, exp_req->len));
	}
	vf_count("monitor:send-message-compared", 1);
	if (!exp_msg) {
		VF_CHECK(msg == 0, "model:send:wrong-message", "%s: default reply for request #%d arrived with a message", cur_op, exp_req->serial);
		n_default++;
	} else {
		size_t n;
		VF_CHECK(msg != 0, "model:send:wrong-message", "%s: reply for request #%d arrived without message", cur_op, exp_req->serial);
		n = flatten(msg, got, MAXMSG);
		VF_CHECK(n == exp_msglen && !memcmp(got, exp_msg, n), "model:send:wrong-message",
		         "%s: reply for request #%d carries message %s, expected %s", cur_op, exp_req->serial,
		         vf_hex(hx1, sizeof(hx1), got, n > MAXMSG ? MAXMSG : n), vf_hex(hx2, sizeof(hx2), exp_msg, exp_msglen));
	}
	if (exp_fail) {
		exp_req->rejected++;
		n_reject++;
		vf_count("transport:rejected", 1);
		vf_log("   send(#%d, %s) -> rejected %d", exp_req->serial, msg ? "message" : "default", exp_code);
		return exp_code;
	}
	exp_req->accepted++;
	n_accept++;
	vf_count("transport:accepted", 1);
	vf_log("   send(#%d, %s) -> accepted %d", exp_req->serial, msg ? "message" : "default", exp_code);
	return exp_code;
}

/* --------------------------------------------------------------- helpers */
static void locate_block(void)
{
#if defined(__SANITIZE_ADDRESS__)
	char name[32];
	void *start = 0;
	size_t size = 0;
	const char *kind = __asan_locate_address(mt, name, sizeof(name), &start, &size);
	if (!kind || strcmp(kind, "heap") || !start || !size)
		vf_inconclusive("context object %p is not a heap block (%s)", (void *) mt, kind ? kind : "?");
	blk = start;
	blklen = size;
#else
	vf_inconclusive("needs an ASan build");
#endif
}
static int inside(const void *p, size_t n)
{
	const uint8_t *b = p;
	return b >= blk && b + n <= blk + blklen;
}
static int overlap(const void *a, size_t na, const void *b, size_t nb)
{
	const uint8_t *x = a, *y = b;
	return x < y + nb && y < x + na;
}
static struct request *new_request(vf_rng *r, size_t len, int zero)
{
	struct request *q;
	if (nreq >= MAXREQ) return 0;
	q = &reqs[nreq];
	memset(q, 0, sizeof(*q));
	q->serial = nreq++;
	q->len = len;
	if (!zero) {
		vf_bytes(r, q->id, len);
		if (len) q->id[0] &= 0x7f;
		/* small ids in wide headers */
		if (len > 1 && vf_chance(r, 1, 3)) memset(q->id, 0, vf_below(r, (uint32_t) len));
		if (len && vf_chance(r, 1, 8)) q->id[0] = 0x7f;
	}
	return q;
}
static void plan_send(vf_rng *r, int failmode)
{
	static const int bad[] = { -1, -2, -3, -4, -16, -17, -100 };
	static const int good[] = { 0, 0, 0, 1, 2, 7, 100 };
	switch (failmode) {
	case 0: exp_fail = 0; break;
	case 1: exp_fail = 1; break;
	default: exp_fail = vf_chance(r, 1, 3);
	}
	exp_code = exp_fail ? bad[vf_below(r, 7)] : good[vf_below(r, 7)];
	send_calls = 0;
}
struct msgbuf {
	MPT_STRUCT(message) msg;
	struct iovec cont[2];
	uint8_t *part[3];
	size_t plen[3];
	uint8_t flat[MAXMSG];
	size_t flen;
};
static void make_msg(vf_rng *r, struct msgbuf *m)
{
	int parts = 1 + (int) vf_below(r, 3);
	memset(m, 0, sizeof(*m));
	for (int i = 0; i < parts; i++) {
		m->plen[i] = vf_chance(r, 1, 5) ? 0 : 1 + vf_below(r, 24);
		m->part[i] = vf_xalloc(m->plen[i]);
		if (m->plen[i]) vf_bytes(r, m->part[i], m->plen[i]);
		if (m->plen[i]) memcpy(m->flat + m->flen, m->part[i], m->plen[i]);
		m->flen += m->plen[i];
	}
	m->msg.base = m->part[0];
	m->msg.used = m->plen[0];
	for (int i = 1; i < parts; i++) {
		m->cont[i - 1].iov_base = m->part[i];
		m->cont[i - 1].iov_len = m->plen[i];
	}
	m->msg.cont = parts > 1 ? m->cont : 0;
	m->msg.clen = (size_t) parts - 1;
}
static void free_msg(struct msgbuf *m)
{
	for (int i = 0; i < 3; i++) if (m->part[i]) vf_xfree(m->part[i], m->plen[i]);
}
static void drop_def(int i)
{
	defs[i] = defs[--ndef];
}

/* ------------------------------------------------------------- operations */
enum { OpArm, OpArmOversize, OpDisarm, OpReply, OpDefer, OpDefReply, OpDefRelease, OpUnref, OpCount };
static const char *opname[OpCount] = { "arm", "arm-oversize", "arm-empty", "reply", "defer", "deferred-reply", "deferred-release", "unref" };

static void op_arm(vf_rng *r, int kind)
{
	uint8_t *snap = vf_xalloc(blklen);
	uint8_t *data = 0;
	struct request *q = 0;
	size_t len;
	int ret, usenull = 0;
	const void *vmt = mt->_vptr, *vrc = rc->_vptr;

	if (kind == OpArmOversize) len = idlen + 1 + vf_below(r, 4);
	else if (kind == OpDisarm) len = 0;
	else if (idlen && vf_chance(r, 3, 4)) len = idlen;
	else len = idlen ? 1 + vf_below(r, (uint32_t) idlen) : 0;

	if (kind == OpArmOversize) {
		data = vf_xalloc(len);
		vf_bytes(r, data, len);
		data[0] &= 0x7f;
	} else {
		usenull = len && vf_chance(r, 1, 12);
		if (!(q = new_request(r, len, usenull))) { vf_xfree(snap, blklen); return; }
		if (!usenull) { data = vf_xalloc(len); if (len) memcpy(data, q->id, len); }
	}
	vf_fp_u64(0xa0 + (unsigned) kind); vf_fp_u64(len);
	if (q) vf_fp(q->id, q->len);
	memcpy(snap, blk, blklen);
	exp_req = 0;
	send_calls = 0;
	cur_op = opname[kind];
	vf_at("mpt_reply_set");
	vf_count("mpt_reply_set", 1);
	ret = mpt_reply_set(rd, len, data);
	vf_log("%s(len=%zu id=%s) = %d", opname[kind], len, q ? vf_hex(hx1, sizeof(hx1), q->id, q->len) : "-", ret);

	vf_count("monitor:arm-context-compared", 1);
	if (kind == OpArmOversize) {
		VF_CHECK(ret < 0, "model:arm:oversize-accepted", "mpt_reply_set(len=%zu) on a context created for %zu id bytes returned %d", len, idlen, ret);
		VF_CHECK(!memcmp(snap, blk, blklen), "model:arm:refused-modified", "refused mpt_reply_set(len=%zu) changed the context object", len);
		vf_xfree(data, len);
		vf_xfree(snap, blklen);
		return;
	}
	VF_CHECK(ret >= 0, "model:arm:refused", "mpt_reply_set(len=%zu) on a context created for %zu id bytes returned %d", len, idlen, ret);
	/* nothing but the reply_data may differ */
	for (size_t i = 0; i < blklen; i++) {
		if (i >= rd_off && i < rd_off + rd_len) continue;
		if (snap[i] != blk[i])
			vf_fail("model:arm:context-modified",
			        "mpt_reply_set(len=%zu) changed byte %zu of the %zu-byte context object (reply_data occupies %zu..%zu): %02x -> %02x",
			        len, i, blklen, rd_off, rd_off + rd_len, snap[i], blk[i]);
	}
	VF_CHECK(mt->_vptr == vmt && rc->_vptr == vrc, "model:arm:context-modified",
	         "mpt_reply_set(len=%zu) changed an interface pointer of the context (metatype %p -> %p, reply_context %p -> %p)",
	         len, vmt, (const void *) mt->_vptr, vrc, (const void *) rc->_vptr);
	VF_CHECK(rd->len == len && (!len || !memcmp(rd->val, q->id, len)), "model:arm:not-stored",
	         "after mpt_reply_set(len=%zu, %s) reply_data holds len=%u %s", len, vf_hex(hx1, sizeof(hx1), q->id, len),
	         (unsigned) rd->len, vf_hex(hx2, sizeof(hx2), rd->val, len));
	if (ctx_req) vf_count("request:overwritten-unanswered", 1);
	ctx_req = len ? q : 0;
	if (len) vf_count("request:armed", 1);
	vf_xfree(data, len);
	vf_xfree(snap, blklen);
}

static void after_send_op(const char *what, struct request *target, int ret, int explicit_msg)
{
	/* target: request the call had to answer (NULL: none) */
	if (!target) return;
	VF_CHECK(send_calls == 1, "model:reply:no-send", "%s: request #%d is armed and the transport attached, but send was not called (return %d)",
	         what, target->serial, ret);
	if (!exp_fail) {
		VF_CHECK(ret >= 0, "model:reply:accepted-reported-failure", "%s: transport accepted the reply for request #%d but the call returned %d",
		         what, target->serial, ret);
	} else if (explicit_msg) {
		VF_CHECK(ret < 0, "model:reply:rejected-reported-success", "%s: transport rejected (%d) the reply for request #%d but the call returned %d",
		         what, exp_code, target->serial, ret);
	}
}

static void op_reply(vf_rng *r, int failmode)
{
	struct msgbuf m;
	struct request *target = ctx_req;
	int usemsg = !vf_chance(r, 1, 6), ret;

	make_msg(r, &m);
	plan_send(r, failmode);
	exp_req = target;
	exp_msg = usemsg ? m.flat : 0;
	exp_msglen = m.flen;
	cur_op = "reply";
	vf_fp_u64(0xb0 + (unsigned) usemsg); vf_fp(m.flat, m.flen); vf_fp_u64((uint64_t) exp_fail);
	vf_at("reply_context.reply");
	vf_count("reply_context.reply", 1);
	ret = rc->_vptr->reply(rc, usemsg ? &m.msg : 0);
	vf_log("reply(%s) on %s = %d", usemsg ? "message" : "NULL", target ? "armed context" : "unarmed context", ret);
	if (!target) {
		vf_count("monitor:further-reply-refused", 1);
		n_refused_reply++;
		VF_CHECK(ret < 0, "model:reply:unarmed-accepted", "reply() on a context without armed request returned %d", ret);
	} else {
		after_send_op("reply", target, ret, 1);
		if (!exp_fail) {
			ctx_req = 0;
		} else {
			vf_count("monitor:rejected-still-armed", 1);
			VF_CHECK(rd->len == target->len && !memcmp(rd->val, target->id, target->len), "model:reply:rejected-changed-request",
			         "after a rejected send request #%d (id %s) is stored as len=%u %s", target->serial,
			         vf_hex(hx1, sizeof(hx1), target->id, target->len), (unsigned) rd->len, vf_hex(hx2, sizeof(hx2), rd->val, target->len));
		}
	}
	exp_req = 0;
	free_msg(&m);
}

static void op_defer(void)
{
	MPT_INTERFACE(reply_context_detached) *h;
	exp_req = 0;
	send_calls = 0;
	cur_op = "defer";
	vf_fp_u64(0xc0);
	vf_at("reply_context.defer");
	vf_count("reply_context.defer", 1);
	h = rc->_vptr->defer(rc);
	vf_log("defer() on %s = %p", ctx_req ? "armed context" : "unarmed context", (void *) h);
	if (!h) {
		vf_count(ctx_req ? "defer:refused-armed" : "defer:refused-unarmed", 1);
		return;
	}
	VF_CHECK(!overlap(h, sizeof(*h), blk, blklen), "model:defer:handle-inside-context", "deferred handle %p lies inside the context object", (void *) h);
	defs[ndef].h = h;
	defs[ndef].req = ctx_req;   /* NULL when nothing was armed: nothing may ever be sent through it */
	ndef++;
	if (ctx_req) { n_defer++; vf_count("defer:accepted", 1); }
	else vf_count("defer:handle-without-request", 1);
	ctx_req = 0;
}

static void op_defreply(vf_rng *r, int i, int release, int failmode)
{
	struct msgbuf m;
	struct request *target = attached ? defs[i].req : 0;
	MPT_INTERFACE(reply_context_detached) *h = defs[i].h;
	int ret;

	make_msg(r, &m);
	plan_send(r, failmode);
	exp_req = target;
	exp_msg = release ? 0 : m.flat;
	exp_msglen = m.flen;
	cur_op = release ? "deferred-release" : "deferred-reply";
	vf_fp_u64(0xd0 + (unsigned) release); vf_fp_u64((uint64_t) i); vf_fp(m.flat, m.flen); vf_fp_u64((uint64_t) exp_fail);
	vf_at("reply_context_detached.reply");
	vf_count(release ? "reply_context_detached.reply(NULL)" : "reply_context_detached.reply", 1);
	ret = h->_vptr->reply(h, release ? 0 : &m.msg);
	vf_log("%s(handle of #%d, transport %s) = %d", cur_op, defs[i].req ? defs[i].req->serial : -1, attached ? "attached" : "detached", ret);
	if (target) {
		if (release) {
			VF_CHECK(send_calls == 1, "model:release:no-default-reply",
			         "deferred handle of request #%d released with transport attached: send was not called", target->serial);
		}
		after_send_op(cur_op, target, ret, !release);
	}
	if (!attached) vf_count("monitor:detached-no-send", 1);
	/* handle consumed? */
	if (release || ret >= 0) drop_def(i);
	else vf_count("deferred:kept-after-reject", 1);
	exp_req = 0;
	free_msg(&m);
}

static void op_unref(vf_rng *r, int failmode)
{
	struct request *target = ctx_req;
	plan_send(r, failmode);
	exp_req = target;
	exp_msg = 0;
	exp_msglen = 0;
	cur_op = "unref";
	vf_fp_u64(0xe0); vf_fp_u64((uint64_t) exp_fail);
	vf_at("metatype.unref");
	vf_count("metatype.unref", 1);
	mt->_vptr->unref(mt);
	vf_log("unref(metatype) with %s, %d deferred handle(s) outstanding", target ? "armed context" : "unarmed context", ndef);
	if (target) {
		vf_count("monitor:release-default-reply", 1);
		if (ndef) {
			VF_CHECK(send_calls == 1, "model:release:no-default-reply-while-deferred",
			         "context released with request #%d armed, transport attached and %d deferred handle(s) outstanding: no default reply was sent",
			         target->serial, ndef);
		} else {
			VF_CHECK(send_calls == 1, "model:release:no-default-reply",
			         "context released with request #%d armed and transport attached: no default reply was sent", target->serial);
		}
	}
	attached = 0;
	mt = 0; rc = 0; rd = 0;
	ctx_req = 0;
	exp_req = 0;
}

/* ------------------------------------------------------------------ case */
static const size_t idlens[] = { 1, 2, 3, 4, 5, 6, 7, 8, 9, 1, 2, 4, 8, 0, 12, 40 };

void vf_case(uint64_t idx, vf_rng *r)
{
	int nops = vf_range(r, 4, vf_thorough ? 40 : 24);
	int failmode = (int) vf_below(r, 4);   /* 0 never, 1 always, 2/3 random */
	char desc[1500];
	size_t dl = 0;
	int conv;

	(void) idx;
	nreq = 0; ndef = 0; ctx_req = 0; exp_req = 0;
	n_accept = n_reject = n_defer = n_default = n_refused_reply = 0;
	idlen = idlens[vf_below(r, sizeof(idlens) / sizeof(*idlens))];
	vf_fp_u64(idlen); vf_fp_u64((uint64_t) failmode);

	cur_op = "create";
	vf_at("mpt_reply_deferrable");
	vf_count("mpt_reply_deferrable", 1);
	mt = mpt_reply_deferrable(idlen, hsend, &transport);
	VF_CHECK(mt != 0, "model:create:refused", "mpt_reply_deferrable(%zu) returned NULL", idlen);
	attached = 1;
	locate_block();

	vf_at("metatype.convert");
	rc = 0; rd = 0;
	conv = MPT_metatype_convert(mt, MPT_ENUM(TypeReplyPtr), &rc);
	VF_CHECK(conv >= 0 && rc, "model:convert:no-reply-context", "conversion to TypeReplyPtr returned %d, pointer %p", conv, (void *) rc);
	conv = MPT_metatype_convert(mt, MPT_ENUM(TypeReplyDataPtr), &rd);
	VF_CHECK(conv >= 0 && rd, "model:convert:no-reply-data", "conversion to TypeReplyDataPtr returned %d, pointer %p", conv, (void *) rd);
	vf_count("monitor:reply-data-placement", 1);
	rd_len = sizeof(*rd) + (idlen > sizeof(rd->val) ? idlen - sizeof(rd->val) : 0);
	VF_CHECK(inside(rc, sizeof(*rc)), "model:convert:reply-context-outside", "reply_context %p outside the context object %p+%zu", (void *) rc, (void *) blk, blklen);
	VF_CHECK(inside(rd, rd_len), "model:convert:reply-data-outside",
	         "reply_data %p (+%zu for %zu id bytes) not inside the context object %p+%zu", (void *) rd, rd_len, idlen, (void *) blk, blklen);
	VF_CHECK(!overlap(rd, rd_len, rc, sizeof(*rc)) && !overlap(rd, rd_len, mt, sizeof(*mt)), "model:convert:reply-data-is-interface",
	         "TypeReplyDataPtr conversion returned %p which overlaps the %s interface of the context (metatype %p, reply_context %p): arming would overwrite it",
	         (void *) rd, overlap(rd, rd_len, rc, sizeof(*rc)) ? "reply_context" : "metatype", (void *) mt, (void *) rc);
	rd_off = (size_t) ((uint8_t *) rd - blk);
	vf_log("context idlen=%zu block=%zu bytes, metatype@%zu reply_context@%zu reply_data@%zu+%zu", idlen, blklen,
	       (size_t) ((uint8_t *) mt - blk), (size_t) ((uint8_t *) rc - blk), rd_off, rd_len);
	dl += (size_t) snprintf(desc + dl, sizeof(desc) - dl, "idlen=%zu transport=%s:", idlen,
	                        failmode == 0 ? "accepting" : failmode == 1 ? "rejecting" : "flaky");

	for (int i = 0; i < nops && (attached || ndef); i++) {
		int op, di = ndef ? (int) vf_below(r, (uint32_t) ndef) : 0;
		uint32_t c = vf_below(r, 100);
		if (attached) {
			if (c < 30) op = OpArm;
			else if (c < 33) op = OpArmOversize;
			else if (c < 35) op = OpDisarm;
			else if (c < 58) op = OpReply;
			else if (c < 74) op = OpDefer;
			else if (c < 86) op = OpDefReply;
			else if (c < 94) op = OpDefRelease;
			else op = OpUnref;
			/* mostly answer or defer an armed request before arming the next one */
			if (op == OpArm && ctx_req && !vf_chance(r, 1, 4)) op = vf_chance(r, 1, 2) ? OpReply : OpDefer;
			/* make progress: arm when nothing is outstanding and a send-type op was drawn */
			if (!ctx_req && !ndef && (op == OpDefer || op == OpDefReply || op == OpDefRelease) ) op = OpArm;
			if ((op == OpDefReply || op == OpDefRelease) && !ndef) op = OpReply;
			if (op == OpDefer && ndef >= MAXDEF) op = OpDefReply;
			if ((op == OpArm || op == OpDisarm) && nreq >= MAXREQ) op = OpReply;
		} else {
			op = c < 60 ? OpDefReply : OpDefRelease;
		}
		switch (op) {
		case OpArm: case OpArmOversize: case OpDisarm: op_arm(r, op); break;
		case OpReply: op_reply(r, failmode); break;
		case OpDefer: op_defer(); break;
		case OpDefReply: op_defreply(r, di, 0, failmode); break;
		case OpDefRelease: op_defreply(r, di, 1, failmode); break;
		case OpUnref: op_unref(r, failmode); break;
		}
		if (dl + 40 < sizeof(desc)) dl += (size_t) snprintf(desc + dl, sizeof(desc) - dl, " %s", opname[op]);
	}
	/* teardown: everything still held is released, in PRNG order */
	while (attached || ndef) {
		uint32_t k = vf_below(r, (uint32_t) ndef + (attached ? 1 : 0));
		if (attached && k == (uint32_t) ndef) {
			op_unref(r, failmode);
			if (dl + 40 < sizeof(desc)) dl += (size_t) snprintf(desc + dl, sizeof(desc) - dl, " unref");
		} else {
			op_defreply(r, (int) k, 1, failmode);
			if (dl + 40 < sizeof(desc)) dl += (size_t) snprintf(desc + dl, sizeof(desc) - dl, " deferred-release");
		}
	}
	/* per request: at most one accepted send (re-checked from the records) */
	for (int i = 0; i < nreq; i++) {
		vf_count("monitor:request-accounted", 1);
		VF_CHECK(reqs[i].accepted <= 1, "model:send:request-already-answered", "request #%d: %d accepted sends", i, reqs[i].accepted);
		if (reqs[i].accepted) vf_count("request:answered", 1);
		else if (reqs[i].len) vf_count("request:unanswered", 1);
	}
	if (n_accept) vf_count("history:with-accepted-send", 1);
	if (n_reject) vf_count("history:with-rejected-send", 1);
	if (n_defer) vf_count("history:with-defer", 1);
	if (n_default) vf_count("history:with-default-reply", 1);
	if (n_refused_reply) vf_count("history:with-refused-further-reply", 1);
	if (n_accept + n_reject >= 2 && nreq >= 2) vf_nontrivial();
	vf_sample("%s  => %d requests, %d accepted / %d rejected sends, %d defers, %d default replies", desc, nreq, n_accept, n_reject, n_defer, n_default);
}

uint64_t vf_cases(void) { return vf_thorough ? 1500000 : 150000; }
