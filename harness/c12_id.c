/*
 * C12 leg (a): request id <-> header bytes.
 *
 * Monitor: mpt_message_id2buf(id, buf, w) followed by mpt_message_buf2id(buf, w, &out)
 * must give out == id whenever id fits w bytes with the top bit of the first
 * byte left free for the reply marker (id < 2^(8w-1); every 64-bit id fits 9
 * bytes; only id 0 fits width 0), and id2buf must refuse every other id.
 * A header that denotes a value above 2^64-1 (width 9, first byte non-zero)
 * must be refused by buf2id.  Buffers are exact-size heap blocks.
 *
 * Cases: [0, NB*10) boundary ids x widths 0..9 (independent of the seed);
 * then PRNG cases: one random id (uniform bit length) x widths 0..9 plus one
 * random header per width 1..9 decoded and re-encoded.
 */
#include <stdlib.h>
#include <inttypes.h>
#include <sys/uio.h>

#include "message.h"
#include "vf.h"

const char *vf_name = "c12_id";

#define SENTINEL 0xA5C3A5C3A5C3A5C3ULL

static char hx[64];

/* does id fit a header of w bytes (top bit of byte 0 reserved)? */
static int fits(uint64_t id, size_t w)
{
	if (!w) return id == 0;
	if (w >= 9) return 1;
	return id < ((uint64_t) 1 << (8 * w - 1));
}
static unsigned bitlen(uint64_t id)
{
	unsigned n = 0;
	while (id) { n++; id >>= 1; }
	return n;
}

/* one (id, width) evaluation; returns 1 when the id was accepted */
static int eval_id(uint64_t id, size_t w)
{
	uint8_t *buf = vf_xalloc(w);
	uint8_t copy[16];
	uint64_t out = SENTINEL;
	int r, r2, r3, ok = fits(id, w);

	if (w) memset(buf, 0xEE, w);
	vf_at("mpt_message_id2buf");
	vf_count("mpt_message_id2buf", 1);
	r = mpt_message_id2buf(id, buf, w);
	vf_log("id2buf(id=%#" PRIx64 ", w=%zu) = %d buf=%s", id, w, r, vf_hex(hx, sizeof(hx), w ? buf : (uint8_t *) "", w));

	if (!ok) {
		vf_count("monitor:refusal-expected", 1);
		VF_CHECK(r < 0, "model:id2buf:accepted-oversize",
		         "id2buf(id=%#" PRIx64 ", width=%zu) returned %d although the id needs %u bits", id, w, r, bitlen(id));
		vf_xfree(buf, w);
		return 0;
	}
	vf_count("monitor:roundtrip-expected", 1);
	VF_CHECK(r >= 0, "model:id2buf:refused-fitting",
	         "id2buf(id=%#" PRIx64 ", width=%zu) returned %d although the id needs only %u bits", id, w, r, bitlen(id));
	VF_CHECK((size_t) r <= w, "model:id2buf:return-exceeds-width",
	         "id2buf(id=%#" PRIx64 ", width=%zu) returned %d", id, w, r);
	if (w) {
		VF_CHECK(!(buf[0] & 0x80), "model:id2buf:marker-bit-set",
		         "id2buf(id=%#" PRIx64 ", width=%zu) accepted but first byte %02x has the reply bit set", id, w, buf[0]);
		memcpy(copy, buf, w);
	}
	vf_at("mpt_message_buf2id");
	vf_count("mpt_message_buf2id", 1);
	r2 = mpt_message_buf2id(buf, w, &out);
	vf_log("buf2id(%s, w=%zu) = %d out=%#" PRIx64, vf_hex(hx, sizeof(hx), w ? buf : (uint8_t *) "", w), w, r2, out);
	VF_CHECK(r2 >= 0, "model:buf2id:refused-own-encoding",
	         "buf2id(%s, width=%zu) returned %d for the encoding of id %#" PRIx64, vf_hex(hx, sizeof(hx), copy, w), w, r2, id);
	VF_CHECK(out == id, "model:buf2id:roundtrip",
	         "id %#" PRIx64 " written with width %zu (%s) read back as %#" PRIx64 "%s (return %d)", id, w,
	         vf_hex(hx, sizeof(hx), copy, w), out, out == SENTINEL ? " (= untouched sentinel: nothing stored)" : "", r2);
	VF_CHECK(r2 <= 8, "model:buf2id:return-exceeds-id-size", "buf2id(width=%zu) returned %d", w, r2);
	if (w) VF_CHECK(!memcmp(copy, buf, w), "model:buf2id:modified-source", "buf2id changed its input (width %zu)", w);
	/* query form: no destination */
	vf_count("mpt_message_buf2id", 1);
	r3 = mpt_message_buf2id(buf, w, 0);
	VF_CHECK(r3 == r2, "model:buf2id:query-differs",
	         "buf2id(%s, width=%zu) returns %d with destination, %d without", vf_hex(hx, sizeof(hx), copy, w), w, r2, r3);

	/* the same header with the reply marker, treated the way the receivers do */
	if (w) {
		uint8_t *rb = vf_xalloc(w);
		memcpy(rb, buf, w);
		rb[0] |= 0x80;
		rb[0] &= 0x7f;
		out = SENTINEL;
		r3 = mpt_message_buf2id(rb, w, &out);
		VF_CHECK(r3 >= 0 && out == id, "model:buf2id:roundtrip",
		         "reply header of id %#" PRIx64 " width %zu read back as %#" PRIx64 " (return %d)", id, w, out, r3);
		vf_xfree(rb, w);
	}
	vf_xfree(buf, w);
	vf_count("monitor:roundtrip-equal", 1);
	return 1;
}

/* random header bytes: decode, and when the value is representable compare with the re-encoding */
static void eval_header(vf_rng *r, size_t w)
{
	uint8_t *buf = vf_xalloc(w), *enc;
	uint64_t val = 0, out = SENTINEL;
	int over = 0, rd, re;
	unsigned lead;

	vf_bytes(r, buf, w);
	buf[0] &= 0x7f;
	/* leading zero bytes make short ids in wide headers */
	lead = vf_below(r, (uint32_t) w + 1);
	if (vf_chance(r, 1, 2)) memset(buf, 0, lead);
	for (size_t i = 0; i < w; i++) {
		if (val >> 56) over = 1;
		val = (val << 8) | buf[i];
	}
	vf_fp(buf, w);
	vf_at("mpt_message_buf2id");
	vf_count("mpt_message_buf2id", 1);
	rd = mpt_message_buf2id(buf, w, &out);
	vf_log("buf2id(%s, w=%zu) = %d out=%#" PRIx64, vf_hex(hx, sizeof(hx), buf, w), w, rd, out);
	if (over) {
		vf_count("monitor:header-above-64bit", 1);
		VF_CHECK(rd < 0, "model:buf2id:accepted-oversize",
		         "buf2id(%s, width=%zu) returned %d (id %#" PRIx64 ") for a value above 2^64-1", vf_hex(hx, sizeof(hx), buf, w), w, rd, out);
		vf_xfree(buf, w);
		return;
	}
	/* value representable: the library's own encoding of it decides what the header means */
	enc = vf_xalloc(w);
	memset(enc, 0xEE, w);
	vf_at("mpt_message_id2buf");
	vf_count("mpt_message_id2buf", 1);
	re = mpt_message_id2buf(val, enc, w);
	if (re >= 0 && !memcmp(enc, buf, w)) {
		vf_count("monitor:header-decoded", 1);
		VF_CHECK(rd >= 0, "model:buf2id:refused-own-encoding",
		         "buf2id(%s, width=%zu) returned %d; id2buf(%#" PRIx64 ") produces exactly these bytes", vf_hex(hx, sizeof(hx), buf, w), w, rd, val);
		VF_CHECK(out == val, "model:buf2id:roundtrip",
		         "header %s (width %zu) is the encoding of %#" PRIx64 " but reads as %#" PRIx64 "%s", vf_hex(hx, sizeof(hx), buf, w), w, val, out,
		         out == SENTINEL ? " (= untouched sentinel: nothing stored)" : "");
	} else {
		VF_CHECK(re >= 0, "model:id2buf:refused-fitting", "id2buf(%#" PRIx64 ", width=%zu) = %d", val, w, re);
		/* not the library's own spelling of that value: nothing is claimed */
		vf_count("monitor:header-not-own-encoding", 1);
	}
	vf_xfree(enc, w);
	vf_xfree(buf, w);
}

/* ---------------------------------------------------------------- cases */
#define NB (4 + 64 * 3 + 1)
static uint64_t boundary(unsigned i)
{
	static const uint64_t fix[4] = { 0, 1, 0x7f, 0x80 };
	if (i < 4) return fix[i];
	i -= 4;
	if (i < 64 * 3) {
		unsigned k = i / 3;
		uint64_t p = (uint64_t) 1 << k;
		switch (i % 3) { case 0: return p - 1; case 1: return p; default: return p + 1; }
	}
	return UINT64_MAX;
}
static uint64_t n_random(void) { return vf_thorough ? 2000000 : 200000; }

uint64_t vf_cases(void) { return (uint64_t) NB * 10 + n_random(); }

void vf_case(uint64_t idx, vf_rng *r)
{
	if (idx < (uint64_t) NB * 10) {
		uint64_t id = boundary((unsigned) (idx / 10));
		size_t w = idx % 10;
		int acc;
		vf_fp_u64(0xb0); vf_fp_u64(id); vf_fp_u64(w);
		acc = eval_id(id, w);
		if (acc && w && id) vf_nontrivial();
		/* a refusal right at the edge of a width is as informative as a round trip */
		if (!acc && w && w < 9 && bitlen(id) <= 8 * w + 1) vf_nontrivial();
		vf_count(acc ? "boundary:accepted" : "boundary:refused", 1);
		vf_sample("boundary id %#" PRIx64 " (%u bits) width %zu: %s", id, bitlen(id), w, acc ? "round trip" : "refused");
		return;
	}
	/* random id with uniformly chosen bit length, every width */
	unsigned bits = vf_below(r, 65);
	uint64_t id = vf_u64(r);
	int nacc = 0;
	if (bits < 64) id &= ((uint64_t) 1 << bits) - 1;
	if (bits && vf_chance(r, 3, 4)) id |= (uint64_t) 1 << (bits - 1);
	vf_fp_u64(0xb1); vf_fp_u64(id);
	for (size_t w = 0; w <= 9; w++) nacc += eval_id(id, w);
	for (size_t w = 1; w <= 9; w++) eval_header(r, w);
	if (id && nacc) vf_nontrivial();
	vf_count("random:ids", 1);
	vf_max("max:accepted-widths-per-id", (uint64_t) nacc);
	vf_sample("random id %#" PRIx64 " (%u bits): accepted by %d of widths 0..9, refused by the others; 9 random headers decoded", id, bitlen(id), nacc);
}
