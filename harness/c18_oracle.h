/*
 * C18 oracle shared by the C and the C++ leg (implementation: c18_oracle.c,
 * listed in `src` of both legs so that it is part of the build key).
 */
#ifndef C18_ORACLE_H
#define C18_ORACLE_H

#include <stdint.h>
#include <stddef.h>

#ifdef __cplusplus
extern "C" {
#endif

/* same layout as struct mpt_linepart / mpt::linepart */
struct c18_part { uint16_t raw, usr, cut, trim; };

enum {
	C18_COMPLETE    = 1,  /* every call saw all remaining data: each crossing segment has to be drawn */
	C18_STRUCT_ONLY = 2,  /* non-finite data/range: progress and totals only */
	C18_ENDS_FREE   = 4   /* combined dimensions: nothing is asserted about the first/last drawn point and the fractions */
};

/*
 * Decide the property on a sequence of parts over v[0..n).
 *   pfx     key prefix ("linear", "join", "array", ...): keys are model:<pfx>:<what>
 *   range   NULL (no range) or {min, max}
 *   window  window[k] = number of values the call producing part k was given
 *           (before the 65535 cap); NULL: unknown (merged lists)
 * Leaves the process through vf_fail on a violation.
 */
void c18_check_parts(const char *pfx, const double *v, size_t n, const double *range,
                     const struct c18_part *p, size_t np, const size_t *window, int flags);

/*
 * Several limited dimensions applied in turn to one list of parts
 * (linepart::array::apply, polyline::set): v[d][0..n) against range[d] = {min, max}.
 * A point is visible when it is in range in every dimension.  Per dimension the
 * rules of the property hold for the drawn portions (interior points in range,
 * first/last point out of range only next to an in-range neighbour); the line
 * enters the visible box at the largest entering fraction of the dimensions
 * whose first point is outside (leaves it at the largest leaving fraction,
 * measured from the last point), which is what _cut / _trim have to reproduce
 * within the 16 bit precision.  Key prefix model:<pfx>:
 */
void c18_check_parts_nd(const char *pfx, const double * const *v, int dims, size_t n, const double (*range)[2],
                        const struct c18_part *p, size_t np);

/* true when any value or bound is NaN/inf, or the spread of values and bounds overflows double */
int c18_nonfinite(const double *v, size_t n, const double *range);

/* number of segments (i,i+1) with exactly one end in range */
size_t c18_crossings(const double *v, size_t n, const double *range);

#ifdef __cplusplus
}
#endif
#endif
