/*
 * C01 (C++ leg): mpt::encode_array::push() / data().
 *
 * A case pushes 1..3 messages in pieces into one encode_array and terminates
 * each with push(0, 0).  The finished bytes reported by data() must be the
 * concatenation of well shaped frames; every frame must decode to its message
 * with the reference decoder and with the library decoder (plain caller of
 * examples/core/coding.c on a linear buffer).
 */
#include <vector>
#include <string>
#include <cstring>
#include <cstdlib>
#include <sys/uio.h>
#include <unistd.h>

#include "array.h"
#include "message.h"
#include "convert.h"

#include "vf.h"
#include "c01_refcodec.h"
#include "c01_gen.h"

const char *vf_name = "c01_cxx";
using namespace mpt;

typedef ssize_t (*enc_t)(mpt::encode_state *, const struct iovec *, const struct iovec *);
typedef int (*dec_t)(mpt::decode_state *, const struct iovec *, size_t);
static enc_t const enc_fn[RC_NFMT] = { mpt_encode_cobs, mpt_encode_cobs_r, mpt_encode_cobs_zpe, mpt_encode_cobs_zpe_r, mpt_encode_string };
static dec_t const dec_fn[RC_NFMT] = { mpt_decode_cobs, mpt_decode_cobs_r, mpt_decode_cobs_zpe, mpt_decode_cobs_zpe_r, mpt_decode_command };
static const char *const dec_api[RC_NFMT] = { "mpt_decode_cobs", "mpt_decode_cobs_r", "mpt_decode_cobs_zpe", "mpt_decode_cobs_zpe_r", "mpt_decode_command" };

static char hx1[700], hx2[700], kbuf[128];
static const char *key(int fmt, const char *what)
{
	snprintf(kbuf, sizeof(kbuf), "cxx:encode_array:%s:%s", rc_name[fmt], what);
	return kbuf;
}

#define MAXMSG 1300
#define MAXMSGS 8
#define BIGMAX 70001

/* counting wrapper around the real encoder: what was consumed is known exactly */
static enc_t wrap_real;
static size_t wrap_consumed, wrap_progress;
static ssize_t enc_wrap(mpt::encode_state *st, const struct iovec *to, const struct iovec *from)
{
	ssize_t r = wrap_real(st, to, from);
	if (to && from && r > 0) { wrap_consumed += (size_t) r; wrap_progress++; }
	return r;
}

/* protected members made readable (like Q in c13_cxx.cpp) */
class EA : public mpt::encode_array
{
public:
	EA(enc_t e) : mpt::encode_array(e) { }
	const mpt::encode_state &state() const { return _state; }
	const mpt::array &store() const { return _d; }
};
/*
 * shift(0): "move used segment to buffer front".  Model: `front` released bytes sit before the
 * finished + pending bytes; the call reports whether there was anything to drop, afterwards the
 * array holds exactly the finished + pending bytes, unchanged.
 */
static void compact(EA &arr, int fmt, size_t &front)
{
	const mpt::encode_state &st = arr.state();
	size_t keep = st.done + st.scratch, len = arr.store().length();
	char kb[128];
	snprintf(kb, sizeof(kb), "cxx:encode_array:%s:shift0-", rc_name[fmt]);
	std::string k(kb);
	VF_CHECK(len == front + keep, (k + "model-length").c_str(), "before shift(0): array length %zu, model %zu released + %zu finished + %zu pending", len, front, st.done, st.scratch);
	std::vector<uint8_t> snap;
	if (keep) { const uint8_t *b = static_cast<const uint8_t *>(arr.store().base()); snap.assign(b + front, b + len); }
	size_t done = st.done, scratch = st.scratch;
	vf_at("encode_array::shift(0)");
	vf_count("encode_array::shift(0)", 1);
	bool ok = arr.shift(0);
	vf_log("%s shift(0) with %zu released in front, %zu finished, %zu pending = %d", rc_name[fmt], front, done, scratch, (int) ok);
	VF_CHECK(ok == (front > 0), (k + "return").c_str(), "shift(0) = %d with %zu released bytes in front (%zu finished, %zu pending)", (int) ok, front, done, scratch);
	VF_CHECK(st.done == done && st.scratch == scratch, (k + "state-changed").c_str(), "shift(0) changed done %zu -> %zu / scratch %zu -> %zu", done, st.done, scratch, st.scratch);
	size_t nlen = arr.store().length();
	VF_CHECK(nlen == keep + (ok ? 0 : front), (k + "length").c_str(), "after shift(0)=%d: array length %zu, expected %zu (%zu released, %zu finished, %zu pending)",
	         (int) ok, nlen, keep + (ok ? 0 : front), front, done, scratch);
	if (keep) {
		const uint8_t *b = static_cast<const uint8_t *>(arr.store().base());
		size_t off = ok ? 0 : front;
		VF_CHECK(b && !memcmp(b + off, snap.data(), keep), (k + "content").c_str(),
		         "shift(0) with %zu released, %zu finished, %zu pending bytes: kept bytes changed: before=%s after=%s", front, done, scratch,
		         vf_hex(hx1, sizeof(hx1), snap.data(), keep), vf_hex(hx2, sizeof(hx2), b ? b + off : snap.data(), keep));
	}
	mpt::span<const uint8_t> d = arr.data();
	VF_CHECK(d.size() >= 0 && (size_t) d.size() == done && (!done || !memcmp(d.begin(), snap.data(), done)), (k + "data").c_str(),
	         "after shift(0) data() has %ld bytes / other content, expected the %zu finished bytes", (long) d.size(), done);
	vf_count("monitor:shift0-compare", 1);
	if (ok) {
		vf_count("state:shift0-with-released-bytes-in-front", 1);
		if (scratch) vf_count("state:shift0-with-open-block", 1);
		vf_count(keep > front ? "state:shift0-kept-longer-than-released(overlap)" : "state:shift0-kept-not-longer-than-released", 1);
		front = 0;
	} else vf_count("state:shift0-nothing-released", 1);
}

uint64_t vf_cases(void) { return vf_thorough ? 400000 : 16000; }

static size_t fill_message(vf_rng *r, int fmt, uint8_t *m, size_t lo, size_t hi)
{
	size_t n = 0;
	for (int t = 0; t < 4 && n < lo; t++) n = gen_message(r, fmt, m, hi);
	if (n < lo) {
		n = lo + vf_below(r, (uint32_t) (hi - lo) + 1);
		gen_pattern(r, fmt, (int) vf_below(r, 6), m, n);
	}
	return n;
}

void vf_case(uint64_t, vf_rng *r)
{
	static uint8_t msgbuf[MAXMSGS][MAXMSG], bigbuf[BIGMAX + 8];
	static size_t cut[GEN_MAXPIECES];
	const uint8_t *msg[MAXMSGS];
	size_t mlen[MAXMSGS];
	int fmt = (int) vf_below(r, RC_NFMT);
	int history = vf_chance(r, 1, 2);
	unsigned nmsg = history ? 3 + vf_below(r, MAXMSGS - 2) : (vf_chance(r, 1, 2) ? 1 : 1 + vf_below(r, 3));
	int big = !history && vf_chance(r, 1, 150);
	std::vector<uint8_t> expect_frames;
	size_t released = 0;          /* finished bytes handed to the consumer with shift() */
	size_t front = 0;             /* of these: still in front of the array buffer (not yet dropped by shift(0)) */
	bool nontrivial = false;

	wrap_real = enc_fn[fmt];
	EA arr(enc_wrap);
	vf_fp_u64(0xC01C00 + fmt + 16 * history);
	size_t done_prev = 0;
	if (big) nmsg = 1;
	for (unsigned i = 0; i < nmsg; i++) {
		size_t n;
		if (big) {
			n = vf_chance(r, 1, 2) ? (vf_chance(r, 1, 2) ? 40000 : 70001) : 30000 + vf_below(r, BIGMAX - 30000 + 1);
			for (size_t k = 0; k < n; k++) bigbuf[k] = (uint8_t) (1 + (k * 7 + 3) % 250);
			msg[i] = bigbuf;
		} else {
			if (history) n = (i + 1 < nmsg) ? fill_message(r, fmt, msgbuf[i], 40, 200) : fill_message(r, fmt, msgbuf[i], 150, MAXMSG - 50);
			else n = vf_chance(r, 1, 12) ? 0 : gen_message(r, fmt, msgbuf[i], nmsg > 1 ? 300 : 700);
			msg[i] = msgbuf[i];
		}
		mlen[i] = n;
		int split = big ? 0 : (history ? (vf_chance(r, 2, 3) ? 0 : (int) vf_below(r, 4)) : (int) vf_below(r, 4));
		size_t np = gen_split(r, msg[i], n, split, cut), pos = 0;
		const bool single = (np == 1);
		vf_fp(msg[i], n); vf_fp_u64(split);
		if (n && (memchr(msg[i], 0, n) || n >= 222 || np > 1)) nontrivial = true;
		wrap_consumed = wrap_progress = 0;
		if (np >= 1 && np <= 9 && vf_chance(r, 1, 2)) {
			/* hand the pieces over as one fragmented mpt::message */
			struct iovec frag[20];
			uint8_t *blk[20];
			size_t bl[20], nf = 0;
			for (size_t p = 0; p < np; p++) {
				size_t l = cut[p] - pos;
				if (p && nf < 9 && vf_chance(r, 1, 5)) { bl[nf] = 0; blk[nf] = static_cast<uint8_t *>(vf_xalloc(0)); nf++; }
				bl[nf] = l; blk[nf] = static_cast<uint8_t *>(vf_xalloc(l));
				memcpy(blk[nf], msg[i] + pos, l);
				nf++;
				pos = cut[p];
			}
			for (size_t k = 1; k < nf; k++) { frag[k - 1].iov_base = blk[k]; frag[k - 1].iov_len = bl[k]; }
			mpt::message mm(blk[0], bl[0]);
			mm.cont = frag; mm.clen = nf - 1;
			vf_at("encode_array::push(message)");
			vf_count("encode_array::push(message)", 1);
			alarm(20);   /* a spinning push() grows the array without bound: stop it early */
			bool ok = arr.push(mm);
			alarm(0);
			vf_log("%s push(message of %zu bytes in %zu fragments) = %d, encoder consumed %zu", rc_name[fmt], n, nf, (int) ok, wrap_consumed);
			for (size_t k = 0; k < nf; k++) vf_xfree(blk[k], bl[k]);
			VF_CHECK(ok, key(fmt, "push-message-refused"), "push(message) with %zu fragments failed for message %u (%zu bytes) %s", nf, i, n, vf_hex(hx1, sizeof(hx1), msg[i], n));
			np = 0;
		}
		for (size_t p = 0; p < np; p++) {
			/* in the middle of a message: drop released bytes while data is pending */
			if (p && vf_chance(r, 1, front ? 3 : 40)) compact(arr, fmt, front);
			/* caller that advances by the returned size */
			size_t l = cut[p] - pos;
			const uint8_t *ptr = msg[i] + pos;
			int rounds = 0;
			while (l) {
				uint8_t *src = static_cast<uint8_t *>(vf_xalloc(l));
				size_t before = wrap_consumed;
				memcpy(src, ptr, l);
				vf_at("encode_array::push");
				vf_count("encode_array::push", 1);
				ssize_t rr = arr.push(l, src);
				vf_log("%s push(%zu) = %zd, encoder consumed %zu", rc_name[fmt], l, rr, wrap_consumed - before);
				vf_xfree(src, l);
				VF_CHECK(rr > 0 && (size_t) rr <= l && ++rounds < 64, key(fmt, "push-refused"), "push(%zu) = %zd for piece %zu of message %u (%zu bytes) %s", l, rr, p, i, n,
				         vf_hex(hx1, sizeof(hx1), msg[i], n));
				VF_CHECK((size_t) rr == wrap_consumed - before, key(fmt, "return-differs-from-consumed"),
				         "push(%zu) returned %zd but the encoder consumed %zu bytes (message %u, %zu bytes released in front)", l, rr, wrap_consumed - before, i, released);
				vf_count("monitor:push-return-vs-consumed", 1);
				ptr += rr; l -= (size_t) rr;
			}
			pos = cut[p];
		}
		/* every message byte must have gone through the encoder exactly once */
		VF_CHECK(wrap_consumed == n, key(fmt, "consumed-differs-from-message"),
		         "message %u has %zu bytes, the encoder was given %zu bytes in total (%zu progressing calls, %zu bytes released in front of the buffer)",
		         i, n, wrap_consumed, wrap_progress, released);
		vf_count("monitor:consumed-equals-message", 1);
		if (wrap_progress >= 3) vf_count("state:message-with-3+-progressing-encoder-calls", 1);
		if (single && wrap_progress >= 3) vf_count("state:single-piece-with-3+-progressing-encoder-calls", 1);
		vf_at("encode_array::push");
		vf_count("encode_array::push", 1);
		ssize_t rr = arr.push(0, 0);
		VF_CHECK(rr >= 0, key(fmt, "terminate-refused"), "push(0,0) = %zd after message %u (%zu bytes)", rr, i, n);
		vf_at("encode_array::data");
		vf_count("encode_array::data", 1);
		mpt::span<const uint8_t> d = arr.data();
		size_t done = d.size() < 0 ? 0 : (size_t) d.size();
		VF_CHECK(d.begin() && done > done_prev, key(fmt, "finished-data"), "data() has %zu bytes after message %u, %zu before", done, i, done_prev);
		const uint8_t *f = d.begin() + done_prev;
		size_t flen = done - done_prev;
		VF_CHECK(rc_frame_shape_ok(f, flen), key(fmt, "frame-shape"), "frame of %zu bytes for a %zu byte message is not <zero-free bytes> 00: frame=%s msg=%s",
		         flen, n, vf_hex(hx1, sizeof(hx1), f, flen), vf_hex(hx2, sizeof(hx2), msg[i], n));
		std::vector<uint8_t> dec(rc_msg_bound(flen));
		size_t dl = 0;
		int v = rc_decode(fmt, f, flen - 1, dec.data(), &dl);
		size_t hdr = (fmt == RC_CMD) ? 2 : 0;
		VF_CHECK(v == RC_OK && dl == n + hdr && !memcmp(dec.data() + hdr, msg[i], n), key(fmt, "reference-decode-differs"),
		         "reference decoder: verdict %d, %zu bytes; message %zu bytes %s; frame %zu bytes %s", v, dl, n, vf_hex(hx1, sizeof(hx1), msg[i], n),
		         flen, vf_hex(hx2, sizeof(hx2), f, flen));
		/* earlier, not yet released frames still there */
		VF_CHECK(released + done_prev == expect_frames.size() && (!done_prev || !memcmp(d.begin(), expect_frames.data() + released, done_prev)), key(fmt, "earlier-frames-changed"),
		         "finished bytes in front of message %u changed (%zu released, %zu kept, %zu produced)", i, released, done_prev, expect_frames.size());
		expect_frames.insert(expect_frames.end(), f, f + flen);
		done_prev = done;
		vf_count("monitor:frame-shape+reference-decode", 1);
		/* consumer takes finished bytes and releases them: they stay in front of the array buffer */
		if (vf_chance(r, history ? 7 : 4, 8)) {
			size_t k = vf_chance(r, 3, 4) ? done : 1 + vf_below(r, (uint32_t) done);
			vf_at("encode_array::shift");
			vf_count("encode_array::shift", 1);
			bool ok = arr.shift(k);
			VF_CHECK(ok, key(fmt, "shift-refused"), "shift(%zu) refused with %zu finished bytes", k, done);
			mpt::span<const uint8_t> d2 = arr.data();
			VF_CHECK(d2.size() >= 0 && (size_t) d2.size() == done - k
			         && (done == k || !memcmp(d2.begin(), expect_frames.data() + released + k, done - k)), key(fmt, "shift-result"),
			         "after shift(%zu) of %zu finished bytes data() has %ld bytes / other content", k, done, (long) d2.size());
			released += k;
			front += k;
			done_prev = done - k;
			if (front >= 256) vf_count("state:256+-released-bytes-in-front", 1);
		}
		/* between messages (no open block) */
		if (vf_chance(r, 1, front ? 3 : 12)) compact(arr, fmt, front);
	}
	/* library decoder over the finished bytes, linear buffer with slack in front */
	{
		size_t slack = (fmt == RC_CMD) ? 2 : vf_below(r, 3), n = slack + expect_frames.size();
		uint8_t *buf = static_cast<uint8_t *>(vf_xalloc(n));
		mpt::decode_state st;
		struct iovec vec;
		memset(buf, 0xA5, slack);
		memcpy(buf + slack, expect_frames.data(), expect_frames.size());
		st.curr = slack;
		for (unsigned i = 0; i < nmsg; i++) {
			int ret, guard = 0;
			while (true) {
				vec.iov_base = buf; vec.iov_len = n;
				vf_at(dec_api[fmt]);
				vf_count(dec_api[fmt], 1);
				ret = dec_fn[fmt](&st, &vec, 1);
				if (ret != mpt::MissingBuffer) break;
				VF_CHECK(++guard < 4000, key(fmt, "decode-no-progress"), "decoder keeps asking for buffer");
				/* insert 8 bytes at curr */
				uint8_t *nb = static_cast<uint8_t *>(vf_xalloc(n + 8));
				memcpy(nb, buf, st.curr);
				memset(nb + st.curr, 0xEE, 8);
				memcpy(nb + st.curr + 8, buf + st.curr, n - st.curr);
				vf_xfree(buf, n);
				buf = nb; n += 8; st.curr += 8;
			}
			size_t hdr = (fmt == RC_CMD) ? 2 : 0;
			VF_CHECK(ret == 1 && st.data.msg >= 0 && (size_t) st.data.msg == mlen[i] + hdr
			         && st.data.pos + st.data.msg <= n && !memcmp(buf + st.data.pos + hdr, msg[i], mlen[i]), key(fmt, "decoded-message-differs"),
			         "message %u: decoder returned %d, %zd bytes %s; sent %zu bytes %s", i, ret, st.data.msg,
			         (ret == 1 && st.data.msg >= 0 && st.data.pos + st.data.msg <= n) ? vf_hex(hx1, sizeof(hx1), buf + st.data.pos, st.data.msg) : "-",
			         mlen[i], vf_hex(hx2, sizeof(hx2), msg[i], mlen[i]));
			vf_count("monitor:library-decode-compare", 1);
		}
		vf_xfree(buf, n);
	}
	if (nontrivial) vf_nontrivial();
	vf_sample("encode_array(%s)%s: %u message(s) handed over by push(len,data) loops advancing by the return value or as fragmented mpt::message, %zu bytes released with shift() in between; last message %zu bytes %s -> %zu frame bytes in total",
	          rc_name[fmt], history ? " producer/consumer history" : "", nmsg, released, mlen[nmsg - 1], vf_hex(hx1, 80, msg[nmsg - 1], mlen[nmsg - 1]), expect_frames.size());
}
