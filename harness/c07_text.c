/*
 * C07 (text leg): numeric text -> scalar conversion is exact or refused.
 *
 * case = (function variant, base, block); a block runs a systematic list of
 * numerals (every boundary magnitude x sign, rendered for the base) plus PRNG
 * decorated numerals (leading space, sign, base prefixes, leading zeros,
 * trailing garbage, over-long digit strings) plus fixed malformed inputs.
 * Every numeral is converted twice: with destination (sentinel-filled
 * exact-size heap block; the text lives in an exact-size block as well) and
 * with NULL destination.
 *
 * Oracle: the characters reported as consumed are parsed by an independent
 * parser (C numeral conventions for the base) into an exact big number; they
 * must be exactly [space] [sign] digits, and the stored target must equal that
 * number.  Floating targets: the consumed text must be a floating numeral, a
 * finite numeral must not become inf/NaN, the result must equal glibc's
 * correctly rounded strtof/strtod/strtold of exactly the consumed text, and for
 * plain decimal integers below 2^64 additionally the exactly computed nearest
 * value.  Refusal (negative return) is always acceptable; return 0 means
 * "nothing converted".
 */
#include <stdlib.h>
#include <ctype.h>
#include <math.h>
#include <float.h>
#include <limits.h>
#include <errno.h>
#include <sys/uio.h>

#include "types.h"
#include "convert.h"

#include "vf.h"

const char *vf_name = "c07_text";

typedef __int128 i128;
typedef unsigned __int128 u128;

/* ---------------------------------------------------------------- bignum -- */
#define BL 7   /* 224 bits */
typedef struct { uint32_t l[BL]; int huge; } big;

static void big_set(big *b, uint64_t v) { memset(b, 0, sizeof(*b)); b->l[0] = (uint32_t) v; b->l[1] = (uint32_t) (v >> 32); }
static void big_muladd(big *b, uint32_t m, uint32_t a)
{
	uint64_t c = a;
	int i;
	for (i = 0; i < BL; i++) { c += (uint64_t) b->l[i] * m; b->l[i] = (uint32_t) c; c >>= 32; }
	if (c) b->huge = 1;
}
static void big_pow2(big *b, int k) { memset(b, 0, sizeof(*b)); b->l[k / 32] = 1u << (k % 32); }
static void big_add(big *b, const big *a)
{
	uint64_t c = 0; int i;
	for (i = 0; i < BL; i++) { c += (uint64_t) b->l[i] + a->l[i]; b->l[i] = (uint32_t) c; c >>= 32; }
	if (c) b->huge = 1;
}
static void big_sub(big *b, const big *a)   /* b >= a */
{
	int64_t c = 0; int i;
	for (i = 0; i < BL; i++) { c += (int64_t) b->l[i] - a->l[i]; b->l[i] = (uint32_t) c; c >>= 32; }
}
static uint32_t big_divsmall(big *b, uint32_t d)
{
	uint64_t r = 0; int i;
	for (i = BL - 1; i >= 0; i--) { r = (r << 32) | b->l[i]; b->l[i] = (uint32_t) (r / d); r %= d; }
	return (uint32_t) r;
}
static int big_zero(const big *b) { int i; for (i = 0; i < BL; i++) if (b->l[i]) return 0; return !b->huge; }
/* fits into 127 bits? then value in *v */
static int big_u128(const big *b, u128 *v)
{
	int i;
	if (b->huge) return 0;
	for (i = 4; i < BL; i++) if (b->l[i]) return 0;
	if (b->l[3] >> 31) return 0;
	*v = ((u128) b->l[3] << 96) | ((u128) b->l[2] << 64) | ((u128) b->l[1] << 32) | b->l[0];
	return 1;
}
static size_t big_render(const big *v, int base, int upper, char *out)
{
	char tmp[256]; int p = 0; size_t n = 0;
	big b = *v;
	do {
		uint32_t d = big_divsmall(&b, (uint32_t) base);
		tmp[p++] = (char) (d < 10 ? '0' + d : (upper ? 'A' : 'a') + (d - 10));
	} while (!big_zero(&b) && p < 250);
	while (p) out[n++] = tmp[--p];
	out[n] = 0;
	return n;
}

/* ----------------------------------------------- independent integer parser -- */
static int digit_of(int c)
{
	if (c >= '0' && c <= '9') return c - '0';
	if (c >= 'a' && c <= 'z') return c - 'a' + 10;
	if (c >= 'A' && c <= 'Z') return c - 'A' + 10;
	return 99;
}
static int is_cspace(int c) { return c == ' ' || c == '\t' || c == '\n' || c == '\v' || c == '\f' || c == '\r'; }

enum { PNumeral, PSpaceOnly, PBad };
/*
 * p[0..n) must be: space* [+-] digits, digits by the C convention for `base`
 * (0: 0x.. hex, 0.. octal, else decimal; 16: optional 0x).
 */
static int parse_int_text(const char *p, size_t n, int base, int *neg, big *mag)
{
	size_t i = 0, nd = 0;
	*neg = 0;
	big_set(mag, 0);
	while (i < n && is_cspace((unsigned char) p[i])) i++;
	if (i == n) return PSpaceOnly;
	if (p[i] == '+' || p[i] == '-') { *neg = p[i] == '-'; i++; }
	if ((base == 0 || base == 16) && i + 2 < n && p[i] == '0' && (p[i + 1] == 'x' || p[i + 1] == 'X') && digit_of(p[i + 2]) < 16) {
		i += 2; base = 16;
	} else if (base == 0) {
		base = (i < n && p[i] == '0') ? 8 : 10;
	}
	for (; i < n; i++, nd++) {
		int d = digit_of((unsigned char) p[i]);
		if (d >= base) return PBad;
		big_muladd(mag, (uint32_t) base, (uint32_t) d);
	}
	return nd ? PNumeral : PBad;
}

/* ------------------------------------------------- floating numeral grammar -- */
enum { FFinite, FInf, FNan, FBad, FSpaceOnly };
static int ci_prefix(const char *p, size_t n, const char *w)
{
	size_t k = strlen(w), i;
	if (n < k) return 0;
	for (i = 0; i < k; i++) if (tolower((unsigned char) p[i]) != w[i]) return 0;
	return 1;
}
static int parse_float_text(const char *p, size_t n, int *plain_int)
{
	size_t i = 0, nd = 0;
	*plain_int = 0;
	while (i < n && is_cspace((unsigned char) p[i])) i++;
	if (i == n) return FSpaceOnly;
	if (p[i] == '+' || p[i] == '-') i++;
	if (ci_prefix(p + i, n - i, "infinity")) return (i + 8 == n) ? FInf : FBad;
	if (ci_prefix(p + i, n - i, "inf")) return (i + 3 == n) ? FInf : FBad;
	if (ci_prefix(p + i, n - i, "nan")) {
		i += 3;
		if (i == n) return FNan;
		if (p[i] != '(' || p[n - 1] != ')') return FBad;
		for (i++; i + 1 < n; i++) if (!isalnum((unsigned char) p[i]) && p[i] != '_') return FBad;
		return FNan;
	}
	if (i + 1 < n && p[i] == '0' && (p[i + 1] == 'x' || p[i + 1] == 'X')) {
		size_t j = i + 2, hd = 0;
		while (j < n && isxdigit((unsigned char) p[j])) { j++; hd++; }
		if (j < n && p[j] == '.') { j++; while (j < n && isxdigit((unsigned char) p[j])) { j++; hd++; } }
		if (hd) {
			if (j < n && (p[j] == 'p' || p[j] == 'P')) {
				size_t ed = 0;
				j++;
				if (j < n && (p[j] == '+' || p[j] == '-')) j++;
				while (j < n && isdigit((unsigned char) p[j])) { j++; ed++; }
				if (!ed) return FBad;
			}
			return j == n ? FFinite : FBad;
		}
		/* "0x" without hex digits: the numeral is the "0" */
	}
	{
		size_t j = i, fd = 0, start = i;
		while (j < n && isdigit((unsigned char) p[j])) { j++; nd++; }
		if (j == n && nd) { *plain_int = (int) (n - start); return FFinite; }
		if (j < n && p[j] == '.') { j++; while (j < n && isdigit((unsigned char) p[j])) { j++; fd++; } }
		if (!nd && !fd) return FBad;
		if (j < n && (p[j] == 'e' || p[j] == 'E')) {
			size_t ed = 0;
			j++;
			if (j < n && (p[j] == '+' || p[j] == '-')) j++;
			while (j < n && isdigit((unsigned char) p[j])) { j++; ed++; }
			if (!ed) return FBad;
		}
		return j == n ? FFinite : FBad;
	}
}

/* ------------------------------------------------------ function variants -- */
enum { KInt, KRawInt, KRawUint, KFlt, KNumber, KString };
typedef struct {
	const char *name;
	int kind;
	int tchar;      /* canonical type: b n i x y q u t, f d e, c */
	size_t size;
	int is_signed;
} variant;

static const char NUMTYPES[] = "cbynqiuxtlfdesz";   /* targets of convert_number / convert_string; s, z: no number */
#define NNUMT 15
static const size_t rawlen[] = { 1, 2, 4, 8, 3 };

#define NINTFN 14
static const variant intfn[NINTFN] = {
	{ "mpt_cint8",  KInt, 'b', 1, 1 }, { "mpt_cint16", KInt, 'n', 2, 1 }, { "mpt_cint32", KInt, 'i', 4, 1 }, { "mpt_cint64", KInt, 'x', 8, 1 },
	{ "mpt_cchar",  KInt, 'b', sizeof(char), 1 }, { "mpt_cint", KInt, 'i', sizeof(int), 1 }, { "mpt_clong", KInt, 'x', sizeof(long), 1 },
	{ "mpt_cuint8", KInt, 'y', 1, 0 }, { "mpt_cuint16", KInt, 'q', 2, 0 }, { "mpt_cuint32", KInt, 'u', 4, 0 }, { "mpt_cuint64", KInt, 't', 8, 0 },
	{ "mpt_cuchar", KInt, 'y', sizeof(unsigned char), 0 }, { "mpt_cuint", KInt, 'u', sizeof(unsigned), 0 }, { "mpt_culong", KInt, 't', sizeof(unsigned long), 0 }
};
#define NVARIANT (NINTFN + 5 + 5 + 3 + NNUMT + NNUMT)
static const int bases[] = { 0, 10, 16, 8, 2, 36 };
#define NBASE 6

static variant cur;      /* variant of the running case */
static int cur_fnidx;    /* index into intfn for KInt */
static int cur_type;     /* type argument of convert_number / convert_string */

static void variant_of(int v)
{
	if (v < NINTFN) { cur = intfn[v]; cur_fnidx = v; return; }
	v -= NINTFN;
	if (v < 5) { cur.name = "_mpt_convert_int"; cur.kind = KRawInt; cur.size = rawlen[v]; cur.is_signed = 1; cur.tchar = rawlen[v] == 3 ? 0 : 'x'; return; }
	v -= 5;
	if (v < 5) { cur.name = "_mpt_convert_uint"; cur.kind = KRawUint; cur.size = rawlen[v]; cur.is_signed = 0; cur.tchar = rawlen[v] == 3 ? 0 : 't'; return; }
	v -= 5;
	if (v < 3) {
		cur.kind = KFlt; cur.tchar = "fde"[v]; cur.is_signed = 1;
		cur.name = v == 0 ? "mpt_cfloat" : v == 1 ? "mpt_cdouble" : "mpt_cldouble";
		cur.size = v == 0 ? sizeof(float) : v == 1 ? sizeof(double) : sizeof(long double);
		return;
	}
	v -= 3;
	cur.kind = v < NNUMT ? KNumber : KString;
	cur_type = NUMTYPES[v % NNUMT];
	cur.name = v < NNUMT ? "mpt_convert_number" : "mpt_convert_string";
	switch (cur_type) {
	case 'c': cur.tchar = 'c'; cur.size = 1; cur.is_signed = 1; break;
	case 'b': cur.tchar = 'b'; cur.size = 1; cur.is_signed = 1; break;
	case 'y': cur.tchar = 'y'; cur.size = 1; cur.is_signed = 0; break;
	case 'n': cur.tchar = 'n'; cur.size = 2; cur.is_signed = 1; break;
	case 'q': cur.tchar = 'q'; cur.size = 2; cur.is_signed = 0; break;
	case 'i': cur.tchar = 'i'; cur.size = 4; cur.is_signed = 1; break;
	case 'u': cur.tchar = 'u'; cur.size = 4; cur.is_signed = 0; break;
	case 'x': cur.tchar = 'x'; cur.size = 8; cur.is_signed = 1; break;
	case 't': cur.tchar = 't'; cur.size = 8; cur.is_signed = 0; break;
	case 'l': cur.tchar = 'x'; cur.size = sizeof(long); cur.is_signed = 1; break;
	case 'f': cur.tchar = 'f'; cur.size = sizeof(float); cur.is_signed = 1; break;
	case 'd': cur.tchar = 'd'; cur.size = sizeof(double); cur.is_signed = 1; break;
	case 'e': cur.tchar = 'e'; cur.size = sizeof(long double); cur.is_signed = 1; break;
	case 's': cur.tchar = 's'; cur.size = sizeof(char *); cur.is_signed = 0; break;
	default:  cur.tchar = 0; cur.size = 16; cur.is_signed = 0; break;   /* no such number type */
	}
}
static int target_is_float(void) { return cur.tchar == 'f' || cur.tchar == 'd' || cur.tchar == 'e'; }

/* range arguments, one storage for all element types */
static union {
	int8_t i8[2]; int16_t i16[2]; int32_t i32[2]; int64_t i64[2]; char c[2]; int i[2]; long l[2];
	uint8_t u8[2]; uint16_t u16[2]; uint32_t u32[2]; uint64_t u64[2]; unsigned char uc[2]; unsigned u[2]; unsigned long ul[2];
	float f[2]; double d[2]; long double e[2];
} rng;
static int have_range;
static i128 range_lo, range_hi;
static long double frange_lo, frange_hi;

static void type_limits(i128 *lo, i128 *hi)
{
	if (cur.size > 8) { *lo = 0; *hi = -1; return; }   /* no number type */
	if (cur.is_signed) { *lo = -((i128) 1 << (8 * cur.size - 1)); *hi = ((i128) 1 << (8 * cur.size - 1)) - 1; }
	else { *lo = 0; *hi = ((i128) 1 << (8 * cur.size)) - 1; }
}
static void set_int_range(i128 lo, i128 hi)
{
	have_range = 1; range_lo = lo; range_hi = hi;
	switch (cur_fnidx) {
	case 0: rng.i8[0] = (int8_t) lo; rng.i8[1] = (int8_t) hi; break;
	case 1: rng.i16[0] = (int16_t) lo; rng.i16[1] = (int16_t) hi; break;
	case 2: rng.i32[0] = (int32_t) lo; rng.i32[1] = (int32_t) hi; break;
	case 3: rng.i64[0] = (int64_t) lo; rng.i64[1] = (int64_t) hi; break;
	case 4: rng.c[0] = (char) lo; rng.c[1] = (char) hi; break;
	case 5: rng.i[0] = (int) lo; rng.i[1] = (int) hi; break;
	case 6: rng.l[0] = (long) lo; rng.l[1] = (long) hi; break;
	case 7: rng.u8[0] = (uint8_t) lo; rng.u8[1] = (uint8_t) hi; break;
	case 8: rng.u16[0] = (uint16_t) lo; rng.u16[1] = (uint16_t) hi; break;
	case 9: rng.u32[0] = (uint32_t) lo; rng.u32[1] = (uint32_t) hi; break;
	case 10: rng.u64[0] = (uint64_t) lo; rng.u64[1] = (uint64_t) hi; break;
	case 11: rng.uc[0] = (unsigned char) lo; rng.uc[1] = (unsigned char) hi; break;
	case 12: rng.u[0] = (unsigned) lo; rng.u[1] = (unsigned) hi; break;
	default: rng.ul[0] = (unsigned long) lo; rng.ul[1] = (unsigned long) hi; break;
	}
}
static void set_flt_range(long double lo, long double hi)
{
	have_range = 1;
	switch (cur.tchar) {
	case 'f': rng.f[0] = (float) lo; rng.f[1] = (float) hi; frange_lo = rng.f[0]; frange_hi = rng.f[1]; break;
	case 'd': rng.d[0] = (double) lo; rng.d[1] = (double) hi; frange_lo = rng.d[0]; frange_hi = rng.d[1]; break;
	default: rng.e[0] = lo; rng.e[1] = hi; frange_lo = lo; frange_hi = hi; break;
	}
}

static int call_fn(void *dest, const char *src, int base)
{
	const void *rg = have_range ? (const void *) &rng : 0;
	switch (cur.kind) {
	case KInt:
		switch (cur_fnidx) {
		case 0: return mpt_cint8(dest, src, base, rg);
		case 1: return mpt_cint16(dest, src, base, rg);
		case 2: return mpt_cint32(dest, src, base, rg);
		case 3: return mpt_cint64(dest, src, base, rg);
		case 4: return mpt_cchar(dest, src, base, rg);
		case 5: return mpt_cint(dest, src, base, rg);
		case 6: return mpt_clong(dest, src, base, rg);
		case 7: return mpt_cuint8(dest, src, base, rg);
		case 8: return mpt_cuint16(dest, src, base, rg);
		case 9: return mpt_cuint32(dest, src, base, rg);
		case 10: return mpt_cuint64(dest, src, base, rg);
		case 11: return mpt_cuchar(dest, src, base, rg);
		case 12: return mpt_cuint(dest, src, base, rg);
		default: return mpt_culong(dest, src, base, rg);
		}
	case KRawInt: return _mpt_convert_int(dest, cur.size, src, base);
	case KRawUint: return _mpt_convert_uint(dest, cur.size, src, base);
	case KFlt:
		switch (cur.tchar) {
		case 'f': return mpt_cfloat(dest, src, rg);
		case 'd': return mpt_cdouble(dest, src, rg);
		default: return mpt_cldouble(dest, src, rg);
		}
	case KNumber: return mpt_convert_number(src, cur_type, dest);
	default: return mpt_convert_string(src, (MPT_TYPE(type)) cur_type, dest);
	}
}

/* ------------------------------------------------------------ monitoring -- */
static struct {
	uint64_t calls, accepted, refused, zero, int_compared, flt_compared, flt_exact, query, range_checked,
	         refused_unrepr, refused_repr, space_only, zero_wrote, char_compared, refused_finite_overflow;
} cnt;
static char keybuf[96];
static const char *mkkey(const char *what)
{
	const char *n = cur.name;
	while (*n == '_') n++;
	if (!strncmp(n, "mpt_", 4)) n += 4;
	snprintf(keybuf, sizeof(keybuf), "model:%s:%s", n, what);
	return keybuf;
}
#define SENT 0xA5
static char esc[700];
static const char *show(const char *s)
{
	size_t o = 0;
	for (; *s && o + 6 < sizeof(esc); s++) {
		unsigned char c = (unsigned char) *s;
		if (c >= 0x20 && c < 0x7f && c != '\\') esc[o++] = (char) c;
		else o += (size_t) snprintf(esc + o, sizeof(esc) - o, "\\x%02x", c);
	}
	esc[o] = 0;
	return esc;
}
static void i128str(char *dst, size_t n, i128 v)
{
	char tmp[48]; int p = 47, neg = v < 0;
	u128 u = neg ? -(u128) v : (u128) v;
	tmp[p] = 0;
	do { tmp[--p] = (char) ('0' + (int) (u % 10)); u /= 10; } while (u);
	if (neg) tmp[--p] = '-';
	snprintf(dst, n, "%s", tmp + p);
}
static i128 read_int(const uint8_t *d)
{
	switch (cur.size) {
	case 1: return cur.is_signed ? (i128) *(const int8_t *) d : (i128) *d;
	case 2: { uint16_t v; memcpy(&v, d, 2); return cur.is_signed ? (i128) (int16_t) v : (i128) v; }
	case 4: { uint32_t v; memcpy(&v, d, 4); return cur.is_signed ? (i128) (int32_t) v : (i128) v; }
	default: { uint64_t v; memcpy(&v, d, 8); return cur.is_signed ? (i128) (int64_t) v : (i128) v; }
	}
}
static long double read_flt(const uint8_t *d)
{
	switch (cur.tchar) {
	case 'f': { float v; memcpy(&v, d, sizeof(v)); return v; }
	case 'd': { double v; memcpy(&v, d, sizeof(v)); return v; }
	default: { long double v; memcpy(&v, d, sizeof(v)); return v; }
	}
}
static long double ref_strto(const char *txt, char **end)
{
	switch (cur.tchar) {
	case 'f': return strtof(txt, end);
	case 'd': return strtod(txt, end);
	default: return strtold(txt, end);
	}
}
static long double round_to_target(long double v)
{
	volatile float f; volatile double d;
	switch (cur.tchar) {
	case 'f': f = (float) v; return f;
	case 'd': d = (double) v; return d;
	default: return v;
	}
}

static void evaluate(const char *text, int base, uint8_t *dest)
{
	size_t tl = strlen(text), k;
	char *src = vf_xalloc(tl + 1);
	int rp, rq, wrote = 0;
	char ctx[900];
	size_t skip = 0;

	memcpy(src, text, tl + 1);
	memset(dest, SENT, cur.size);
	vf_at(cur.name);
	rp = call_fn(dest, src, base);
	rq = call_fn(0, src, base);
	cnt.calls += 2;
	for (k = 0; k < cur.size; k++) if (dest[k] != SENT) { wrote = 1; break; }
	if (vf_logging) vf_log("%s('%s', base %d, type %c%s) -> %d, query %d%s", cur.name, show(text), base, cur_type ? cur_type : '-', have_range ? ", range" : "", rp, rq, wrote ? " (written)" : "");
	snprintf(ctx, sizeof(ctx), "%s('%s'%s%s) base %d", cur.name, show(text), (cur.kind >= KNumber) ? ", type " : "",
	         (cur.kind >= KNumber) ? (char[]) { (char) cur_type, 0 } : "", base);

	VF_CHECK((rp > 0) == (rq > 0) && (rp < 0) == (rq < 0), mkkey("query-differs"), "%s: with destination %d, without destination %d", ctx, rp, rq);
	cnt.query++;
	VF_CHECK(memcmp(src, text, tl + 1) == 0, mkkey("source-modified"), "%s: the text was changed", ctx);

	if (rp < 0) {
		cnt.refused++;
		/* classification for the evidence only */
		if (cur.tchar && cur.tchar != 's' && cur.tchar != 'c' && !target_is_float()) {
			int neg; big mag; u128 m; i128 lo, hi;
			type_limits(&lo, &hi);
			if (parse_int_text(text, tl, cur.kind >= KNumber ? 0 : base, &neg, &mag) == PNumeral && big_u128(&mag, &m)
			    && (neg ? -(i128) m : (i128) m) >= lo && (neg ? -(i128) m : (i128) m) <= hi && !have_range) cnt.refused_repr++;
			else cnt.refused_unrepr++;
		}
		vf_xfree(src, tl + 1);
		return;
	}
	if (rp == 0) {
		cnt.zero++;
		if (wrote && cur.tchar != 's') cnt.zero_wrote++;
		vf_xfree(src, tl + 1);
		return;
	}
	cnt.accepted++;
	VF_CHECK((size_t) rp <= tl, mkkey("consumed-beyond-end"), "%s: reports %d characters consumed, text has %zu", ctx, rp, tl);

	/* types without number semantics */
	if (cur.tchar == 's') {
		const char *ptr;
		memcpy(&ptr, dest, sizeof(ptr));
		VF_CHECK(ptr == src, mkkey("string-pointer"), "%s: string target does not point to the text", ctx);
		vf_xfree(src, tl + 1);
		return;
	}
	VF_CHECK(cur.tchar, mkkey("accepted-unknown-target"), "%s: accepted (%d) for a type that is no number type", ctx, rp);

	if (cur.tchar == 'c') {
		size_t i = 0;
		while (i < (size_t) rp && is_cspace((unsigned char) src[i])) i++;
		if (i == (size_t) rp) {
			VF_CHECK(!wrote, mkkey("value-from-space"), "%s: consumed %d space characters and stored a value", ctx, rp);
			cnt.space_only++;
			vf_xfree(src, tl + 1);
			return;
		}
		VF_CHECK(i + 1 == (size_t) rp && isgraph((unsigned char) src[i]), mkkey("consumed-not-one-character"), "%s: consumed %d characters for a character target", ctx, rp);
		VF_CHECK(*(char *) dest == src[i], mkkey("value-changed"), "%s: character target holds 0x%02x, text has 0x%02x", ctx, dest[0], (unsigned char) src[i]);
		cnt.char_compared++;
		vf_xfree(src, tl + 1);
		return;
	}
	/* mpt_convert_string skips space itself before the number function does */
	if (!target_is_float()) {
		int neg, what;
		big mag;
		u128 m = 0;
		i128 lo, hi, t, v = 0;
		int fits;
		char b1[64], b2[64];
		what = parse_int_text(src, (size_t) rp, cur.kind >= KNumber ? 0 : base, &neg, &mag);
		if (what == PSpaceOnly) {
			VF_CHECK(!wrote, mkkey("value-from-space"), "%s: consumed %d space characters and stored a value", ctx, rp);
			cnt.space_only++;
			vf_xfree(src, tl + 1);
			return;
		}
		VF_CHECK(what == PNumeral, mkkey("consumed-not-a-numeral"), "%s: the %d consumed characters are not [space][sign]digits of that base", ctx, rp);
		type_limits(&lo, &hi);
		fits = big_u128(&mag, &m);
		if (fits) v = neg ? -(i128) m : (i128) m;
		t = read_int(dest);
		i128str(b2, sizeof(b2), t);
		if (!fits || v < lo || v > hi) {
			const char *why = (!cur.is_signed && neg && !big_zero(&mag)) ? "negative-to-unsigned" : (t == lo || t == hi) ? "saturated" : "wrapped";
			if (fits) i128str(b1, sizeof(b1), v); else snprintf(b1, sizeof(b1), "%s(more than 127 bits)", neg ? "-" : "");
			vf_fail(mkkey(why), "%s: consumed %d characters denoting %s, outside the %zu byte %s target; accepted, target holds %s",
			        ctx, rp, b1, cur.size, cur.is_signed ? "signed" : "unsigned", b2);
		}
		i128str(b1, sizeof(b1), v);
		VF_CHECK(t == v, mkkey("value-changed"), "%s: consumed %d characters denoting %s, target holds %s%s", ctx, rp, b1, b2, wrote ? "" : " (destination not written)");
		cnt.int_compared++;
		if (have_range) {
			VF_CHECK(t >= range_lo && t <= range_hi, mkkey("outside-range"), "%s: accepted %s outside of the range argument", ctx, b2);
			cnt.range_checked++;
		}
		vf_xfree(src, tl + 1);
		return;
	}
	/* floating target */
	{
		int plain, cls = parse_float_text(src, (size_t) rp, &plain);
		long double t, ref;
		char copy[600], *end = 0;
		if (cls == FSpaceOnly) {
			VF_CHECK(!wrote, mkkey("value-from-space"), "%s: consumed %d space characters and stored a value", ctx, rp);
			cnt.space_only++;
			vf_xfree(src, tl + 1);
			return;
		}
		VF_CHECK(cls != FBad, mkkey("consumed-not-a-numeral"), "%s: the %d consumed characters are not a floating point numeral", ctx, rp);
		t = read_flt(dest);
		if (cls == FFinite) {
			VF_CHECK(!isnan(t), mkkey("finite-to-nan"), "%s: finite numeral of %d characters stored as NaN", ctx, rp);
			VF_CHECK(!isinf(t), mkkey("finite-to-inf"), "%s: finite numeral of %d characters stored as %Lg", ctx, rp, t);
		}
		if (cls == FNan) VF_CHECK(isnan(t), mkkey("value-changed"), "%s: NaN text stored as %Lg", ctx, t);
		if (cls == FInf) VF_CHECK(isinf(t), mkkey("value-changed"), "%s: infinity text stored as %Lg", ctx, t);
		/* reference: glibc on exactly the consumed characters */
		if ((size_t) rp >= sizeof(copy)) vf_inconclusive("numeral too long for the reference buffer");
		memcpy(copy, src, (size_t) rp); copy[rp] = 0;
		errno = 0;
		ref = ref_strto(copy, &end);
		if (end != copy + rp) vf_inconclusive("oracle inconsistency: grammar accepts '%s' as numeral, strto* stops after %d characters", show(copy), (int) (end - copy));
		if (isnan(ref)) VF_CHECK(isnan(t), mkkey("value-changed"), "%s: stored %Lg, consumed text denotes NaN", ctx, t);
		else VF_CHECK(t == ref && signbit(t) == signbit(ref), mkkey("not-nearest"), "%s: stored %La, correctly rounded value of the %d consumed characters is %La", ctx, t, rp, ref);
		cnt.flt_compared++;
		/* exact: decimal integers below 2^64 */
		if (plain && plain <= 19) {
			uint64_t m = 0; size_t i = (size_t) rp - (size_t) plain;
			int neg = i && src[i - 1] == '-';
			long double ex;
			for (; i < (size_t) rp; i++) m = m * 10 + (uint64_t) (src[i] - '0');
			ex = round_to_target((long double) m);
			if (neg) ex = -ex;
			VF_CHECK(t == ex, mkkey("not-nearest"), "%s: stored %La, nearest value of the type to %s%llu is %La", ctx, t, neg ? "-" : "", (unsigned long long) m, ex);
			cnt.flt_exact++;
		}
		if (have_range && !isnan(t)) {
			VF_CHECK(t >= frange_lo && t <= frange_hi, mkkey("outside-range"), "%s: accepted %Lg outside of the range argument [%Lg, %Lg]", ctx, t, frange_lo, frange_hi);
			cnt.range_checked++;
		}
		(void) skip;
	}
	vf_xfree(src, tl + 1);
}

/* ---------------------------------------------------------- magnitudes -- */
#define MAXMAG 160
static big mags[MAXMAG];
static int nmags;
static void mag_u64(uint64_t v) { if (nmags < MAXMAG) big_set(&mags[nmags++], v); }
static void mag_pow2(int k, int delta)
{
	big one;
	if (nmags >= MAXMAG) return;
	big_pow2(&mags[nmags], k);
	big_set(&one, (uint64_t) (delta < 0 ? -delta : delta));
	if (delta > 0) big_add(&mags[nmags], &one);
	if (delta < 0) big_sub(&mags[nmags], &one);
	nmags++;
}
static void mag_2p64_minus(uint64_t m)
{
	big s;
	if (nmags >= MAXMAG) return;
	big_pow2(&mags[nmags], 64);
	big_set(&s, m);
	big_sub(&mags[nmags], &s);
	nmags++;
}
static void build_mags(void)
{
	static const uint64_t small[] = { 0, 1, 2, 7, 8, 9, 10, 15, 16, 17, 35, 36, 37, 100, 126, 129, 254, 257, 32766, 32769, 65534, 65537 };
	static const int pw[] = { 7, 8, 15, 16, 31, 32, 63, 64, 65, 127, 128 };
	static const uint64_t below[] = { 1, 2, 127, 128, 129, 255, 256, 32767, 32768, 65535, 65536, 0x7fffffffULL, 0x80000000ULL, 0xffffffffULL, 0x100000000ULL, 0x7fffffffffffffffULL };
	size_t i;
	int k;
	nmags = 0;
	for (i = 0; i < sizeof(small) / sizeof(*small); i++) mag_u64(small[i]);
	for (i = 0; i < sizeof(pw) / sizeof(*pw); i++) { mag_pow2(pw[i], -1); mag_pow2(pw[i], 0); mag_pow2(pw[i], 1); }
	for (i = 0; i < sizeof(below) / sizeof(*below); i++) mag_2p64_minus(below[i]);
	mag_pow2(64, 127); mag_pow2(64, 255); mag_pow2(64, 65535);
	/* powers of ten */
	for (k = 18; k <= 21; k++) {
		if (nmags + 2 >= MAXMAG) break;
		big_set(&mags[nmags], 1);
		for (i = 0; i < (size_t) k; i++) big_muladd(&mags[nmags], 10, 0);
		mags[nmags + 1] = mags[nmags];
		{ big one; big_set(&one, 1); big_sub(&mags[nmags + 1], &one); }
		nmags += 2;
	}
	if (nmags < MAXMAG) { big_set(&mags[nmags], 1); for (i = 0; i < 40; i++) big_muladd(&mags[nmags], 10, 7); nmags++; }
}

/* -------------------------------------------------------------- numerals -- */
static const char *ws_choices[] = { "", "", "", " ", "\t", "  ", "\n ", " \t\r\n\v\f" };
static const char *trail_choices[] = { "", "", "", " ", "x", ".5", "e3", "abc", " 12", ",", "g", "_", "-", "+1", "\x80", "L", "h" };

/* render magnitude for base parameter; form: 0 natural, 1 with 0x (hex), 2 with leading 0 (octal), 3 leading zeros */
static size_t render_int(char *out, const char *ws, const char *sign, const big *m, int base, int form, int upper, const char *trail)
{
	size_t n = 0;
	int digits_base = base ? base : 10;
	n += (size_t) sprintf(out + n, "%s%s", ws, sign);
	if (form == 1) { digits_base = 16; n += (size_t) sprintf(out + n, upper ? "0X" : "0x"); }
	else if (form == 2) { digits_base = 8; out[n++] = '0'; }
	else if (form == 3) { n += (size_t) sprintf(out + n, "000"); }
	n += big_render(m, digits_base, upper, out + n);
	n += (size_t) sprintf(out + n, "%s", trail);
	return n;
}
static const char *bad_int_texts[] = {
	"", " ", "  \t", "-", "+", "- 1", "+-1", "--1", "-+1", "0x", "0X", "0xg", "-0x", "0x 1", "x1", "1 2", "\t\n 5", "08", "09", "0b1", "0b101", "0B1",
	"1e3", "1.0", ".5", "１", "\xff", "z", "Z9", "9Z", "1_000", "1,000", "0x7fffffffffffffff", "0x8000000000000000", "0xffffffffffffffff", "0x10000000000000000",
	"-0", "+0", "-00", "-0x0", "0777", "-0200", "0377", "0400", "01777777777777777777777", "02000000000000000000000", "-9223372036854775808", "-9223372036854775809",
	"9223372036854775807", "9223372036854775808", "18446744073709551615", "18446744073709551616", "-18446744073709551615", "-18446744073709551616", "-18446744073709551617",
	"-1", "-128", "-129", "-255", "-256", "-32768", "-32769", "-65535", "-65536", "-2147483648", "-2147483649", "-4294967295", "-4294967296",
	"340282366920938463463374607431768211455", "340282366920938463463374607431768211456", "-340282366920938463463374607431768211201",
	"99999999999999999999999999999999999999999999999999999999999999999999"
};
#define NBADINT ((int) (sizeof(bad_int_texts) / sizeof(*bad_int_texts)))

static const char *float_texts[] = {
	"", " ", "0", "-0", "+0", "0.0", "-0.0", "1", "-1", "1.5", "-2.5", ".5", "-.5", "5.", "1e0", "1e+0", "1e-0", "1E3", "1e", "1e+", "1e-", ".", "e5", "-", "+", "+-1", "--1",
	"0x", "0x.", "0xp1", "0x.p1", "0x1", "0x1p", "0x1p+", "0x1p-1", "0x.8p1", "0X1.8P+1", "0x1.fffffep127", "0x1.ffffffp127", "0x1.fffffefp127", "0x1p128", "-0x1p128",
	"0x1.fffffffffffffp1023", "0x1.fffffffffffff8p1023", "0x1.fffffffffffff7p1023", "0x1p1024", "-0x1p1024", "0x1p16383", "0x1.fffffffffffffffep16383", "0x1p16384", "-0x1p16384", "0x1p99999",
	"0x1p-126", "0x1p-149", "0x1p-150", "0x1.8p-150", "0x1p-151", "0x1p-1074", "0x1p-1075", "0x1.8p-1075", "0x1p-1076", "0x1p-16445", "0x1p-16446", "0x1p-16447", "0x1p-99999",
	"3.4028234e38", "3.4028235e38", "3.40282346638528859811704183484516925440e38", "3.4028235677973366e38", "3.4028235677973367e38", "3.40282356e38", "3.4028236e38", "3.5e38", "1e38", "1e39", "-1e39", "9e99",
	"1.7976931348623157e308", "1.7976931348623158e308", "1.797693134862315807e308", "1.797693134862315808e308", "1.7976931348623159e308", "1.8e308", "1e308", "1e309", "-1e309", "2e400",
	"1.18973149535723176502e4932", "1.18973149535723176505e4932", "1.18973149535723176506e4932", "1.18973149535723176509e4932", "1.19e4932", "1e4932", "1e4933", "-1e4933", "1e5000", "1e99999",
	"1e-37", "1.17549435e-38", "1e-38", "1.4e-45", "1e-45", "7e-46", "7.1e-46", "1e-46", "1e-307", "2.2250738585072014e-308", "2.2250738585072011e-308", "4.9e-324", "2.5e-324", "2.4e-324", "1e-324", "1e-400",
	"3.6451995318824746025e-4951", "1.8e-4951", "1e-4951", "1e-4966", "1e-5000", "1e-99999",
	"inf", "-inf", "+inf", "INF", "Inf", "infinity", "-INFINITY", "infinit", "infinityx", "in", "i", "nan", "-nan", "NaN", "NAN", "nan()", "nan(123)", "nan(abc_1)", "nan(", "nan(1", "nan(!)", "na", "n",
	"16777216", "16777217", "16777218", "16777219", "9007199254740992", "9007199254740993", "9007199254740994", "9007199254740995", "18446744073709551615", "18446744073709551616", "18446744073709551617",
	"0.1", "0.3", "1.0000001", "1.00000001", "123456789", "1234567890123456789", "12345678901234567890", "0.000001", "100000000000000000000", "0.9999999999999999999999",
	"1e1000000000000000000000", "1e-1000000000000000000000", "000000000000000000000000000000000000000001", "0.00000000000000000000000000000000000000001e41", "1 2", "1,5", "1.5.2", "1e5e2", "1e5.5", "0x1.8p1p1", "1d5", "1f", "1L"
};
#define NFLTTXT ((int) (sizeof(float_texts) / sizeof(*float_texts)))

static char gbuf[800];
static void random_digits(vf_rng *r, char *out, int n, int base, int upper)
{
	int i;
	for (i = 0; i < n; i++) {
		uint32_t d = vf_below(r, (uint32_t) base);
		if (!i && n > 1 && !d) d = 1;
		out[i] = (char) (d < 10 ? '0' + d : (upper ? 'A' : 'a') + (d - 10));
	}
	out[n] = 0;
}
static void random_int_numeral(vf_rng *r, int base)
{
	const char *ws = ws_choices[vf_below(r, 8)];
	const char *sign = vf_chance(r, 1, 3) ? "-" : vf_chance(r, 1, 4) ? "+" : "";
	const char *trail = trail_choices[vf_below(r, 17)];
	int upper = (int) vf_below(r, 2);
	int form = 0;
	if (vf_chance(r, 1, 3)) form = (int) vf_below(r, 4);   /* prefix possibly not matching the base */
	if (vf_chance(r, 3, 4)) {
		render_int(gbuf, ws, sign, &mags[vf_below(r, (uint32_t) nmags)], base, form, upper, trail);
	} else {
		char dg[80];
		int db = form == 1 ? 16 : form == 2 ? 8 : base ? base : 10;
		size_t n = (size_t) sprintf(gbuf, "%s%s%s", ws, sign, form == 1 ? "0x" : form == 2 ? "0" : form == 3 ? "00" : "");
		random_digits(r, dg, vf_range(r, 1, vf_chance(r, 1, 4) ? 70 : 22), db, upper);
		sprintf(gbuf + n, "%s%s", dg, trail);
	}
}
static void random_float_numeral(vf_rng *r)
{
	const char *ws = ws_choices[vf_below(r, 8)];
	const char *sign = vf_chance(r, 1, 3) ? "-" : vf_chance(r, 1, 5) ? "+" : "";
	const char *trail = trail_choices[vf_below(r, 17)];
	char a[80], b[80];
	size_t n = (size_t) sprintf(gbuf, "%s%s", ws, sign);
	switch (vf_below(r, 6)) {
	case 0:   /* integer magnitude from the boundary list */
		n += big_render(&mags[vf_below(r, (uint32_t) nmags)], 10, 0, gbuf + n);
		break;
	case 1:   /* digits.digits */
		random_digits(r, a, vf_range(r, 1, 25), 10, 0); random_digits(r, b, vf_range(r, 1, 25), 10, 0);
		n += (size_t) sprintf(gbuf + n, "%s.%s", a, b);
		break;
	case 2: case 3: {   /* with exponent, concentrated at the limits of the three types */
		static const int centers[] = { 0, 38, -38, -45, 308, -308, -324, 4932, -4932, -4951, 20, -5 };
		int e = centers[vf_below(r, 12)] + vf_range(r, -2, 2);
		random_digits(r, a, vf_range(r, 1, 22), 10, 0);
		n += (size_t) sprintf(gbuf + n, "%c.%s%c%s%d", a[0], a[1] ? a + 1 : "0", vf_chance(r, 1, 2) ? 'e' : 'E', e >= 0 && vf_chance(r, 1, 3) ? "+" : "", e);
		break; }
	case 4: {   /* hexadecimal floating */
		static const int centers[] = { 0, 127, -126, -149, 1023, -1022, -1074, 16383, -16382, -16445, 64, 10 };
		int e = centers[vf_below(r, 12)] + vf_range(r, -3, 3);
		random_digits(r, a, vf_range(r, 1, 18), 16, (int) vf_below(r, 2));
		n += (size_t) sprintf(gbuf + n, "0x1.%sp%d", a, e);
		break; }
	default:  /* plain integer digits, up to 45 */
		random_digits(r, a, vf_range(r, 1, vf_chance(r, 1, 3) ? 45 : 19), 10, 0);
		n += (size_t) sprintf(gbuf + n, "%s", a);
	}
	sprintf(gbuf + n, "%s", trail);
}

/* ----------------------------------------------------------------- cases -- */
static int n_blocks(void) { return vf_thorough ? 120 : 12; }
static int n_random(void) { return vf_thorough ? 1500 : 400; }
static int variant_bases(int v) { return v < NINTFN + 10 ? NBASE : 1; }
static uint64_t cases_of(int v) { return (uint64_t) variant_bases(v) * (uint64_t) n_blocks() * (v < NINTFN + 10 ? 1 : 3); }
uint64_t vf_cases(void)
{
	uint64_t n = 0; int v;
	for (v = 0; v < NVARIANT; v++) n += cases_of(v);
	return n;
}

void vf_case(uint64_t idx, vf_rng *r)
{
	int v, base, block, i, s;
	uint8_t *dest;
	uint64_t h = 0xcbf29ce484222325ULL, nnum = 0;
	int intlike;
	uint64_t case_idx = idx;

	for (v = 0; v < NVARIANT; v++) { if (idx < cases_of(v)) break; idx -= cases_of(v); }
	variant_of(v);
	if (variant_bases(v) > 1) { base = bases[idx % NBASE]; block = (int) (idx / NBASE); }
	else { base = 0; block = (int) idx; }
	if (!nmags) build_mags();
	memset(&cnt, 0, sizeof(cnt));
	have_range = 0;
	dest = vf_xalloc(cur.size);
	intlike = !target_is_float();

#define RUN(txt) do { const char *t_ = (txt); evaluate(t_, base, dest); nnum++; \
		for (const char *q_ = t_; *q_; q_++) h = (h ^ (uint8_t) *q_) * 0x100000001b3ULL; h *= 31; } while (0)

	if (intlike) {
		i128 lo, hi;
		type_limits(&lo, &hi);
		/* systematic: every boundary magnitude x sign, rendered for this base */
		for (i = 0; i < nmags; i++) {
			for (s = 0; s < 3; s++) {
				int form = 0;
				if (base == 0) form = (block + i) % 3;           /* decimal / 0x / 0 */
				else if (base == 16) form = (block + i) & 1;     /* with and without 0x */
				else if (base == 8) form = ((block + i) & 1) ? 2 : 0;
				/* range argument on odd blocks of the typed functions */
				have_range = 0;
				if (cur.kind == KInt && (block & 1)) {
					u128 m; i128 val, a, b;
					if (big_u128(&mags[i], &m) && m < ((u128) 1 << 70)) {
						val = s == 1 ? -(i128) m : (i128) m;
						a = val + (i128) ((i % 5) - 2); b = a + (i128) (i % 7);
						if (a < lo) a = lo;
						if (b > hi) b = hi;
						if (a > hi) a = hi;
						if (b < lo) b = lo;
						if (a <= b) set_int_range(a, b);
					}
				}
				render_int(gbuf, (block & 2) && !(i % 4) ? " " : "", s == 0 ? "" : s == 1 ? "-" : "+", &mags[i], base, form, (block >> 1) & 1, "");
				RUN(gbuf);
			}
		}
		have_range = 0;
		for (i = 0; i < NBADINT; i++) RUN(bad_int_texts[i]);
		for (i = 0; i < n_random(); i++) {
			have_range = 0;
			if (cur.kind == KInt && vf_chance(r, 1, 4)) {
				i128 a = lo + (i128) (vf_u64(r) % 300), b = hi - (i128) (vf_u64(r) % 300);
				if (vf_chance(r, 1, 2)) { a = (i128) vf_range(r, -200, 200); b = a + vf_range(r, 0, 300); }
				if (a < lo) a = lo;
				if (b > hi) b = hi;
				if (a <= b) set_int_range(a, b);
			}
			random_int_numeral(r, cur.kind >= KNumber ? (int) (vf_below(r, 3) ? 0 : 16) : base);
			RUN(gbuf);
		}
		/* character target and text target see floating texts too */
		if (cur.tchar == 'c' || cur.tchar == 's' || !cur.tchar) for (i = 0; i < NFLTTXT; i++) RUN(float_texts[i]);
	} else {
		for (i = 0; i < NFLTTXT; i++) {
			have_range = 0;
			if (cur.kind == KFlt && (block & 1) && (i % 3) == 0) set_flt_range(-1e30L, 1e30L);
			RUN(float_texts[i]);
		}
		have_range = 0;
		for (i = 0; i < nmags; i++) {
			big_render(&mags[i], 10, 0, gbuf); RUN(gbuf);
			gbuf[0] = '-'; big_render(&mags[i], 10, 0, gbuf + 1); RUN(gbuf);
		}
		for (i = 0; i < NBADINT; i++) RUN(bad_int_texts[i]);
		for (i = 0; i < n_random(); i++) {
			have_range = 0;
			if (cur.kind == KFlt && vf_chance(r, 1, 5)) {
				long double a = (long double) vf_range(r, -1000, 1000), b = a + (long double) vf_range(r, 0, 100000);
				if (vf_chance(r, 1, 3)) { a = -INFINITY; }
				if (vf_chance(r, 1, 3)) { b = INFINITY; }
				set_flt_range(a, b);
			}
			random_float_numeral(r);
			RUN(gbuf);
		}
	}
#undef RUN
	vf_xfree(dest, cur.size);
	vf_fp_u64(((uint64_t) v << 32) ^ ((uint64_t) base << 16) ^ (uint64_t) block);
	vf_fp_u64(h);

	{
		/* counter names must be distinct objects (the runtime caches by address) */
		static char tn[128][12];
		int tc = cur.tchar ? cur.tchar : '?';
		snprintf(tn[tc], sizeof(tn[tc]), "target:%c", tc);
		vf_count(cur.name, cnt.calls);
		vf_count(tn[tc], nnum);
	}
	vf_count("eval:numerals", nnum);
	vf_count("eval:accepted", cnt.accepted);
	vf_count("eval:refused", cnt.refused);
	vf_count("eval:nothing-converted", cnt.zero);
	vf_count("monitor:integer-value-compared", cnt.int_compared);
	vf_count("monitor:float-value-compared", cnt.flt_compared);
	vf_count("monitor:float-exact-integer-compared", cnt.flt_exact);
	vf_count("monitor:character-compared", cnt.char_compared);
	vf_count("monitor:query-verdict-compared", cnt.query);
	vf_count("monitor:range-argument-checked", cnt.range_checked);
	vf_count("monitor:refused-not-representable", cnt.refused_unrepr);
	vf_count("observe:refused-although-representable", cnt.refused_repr);
	vf_count("observe:consumed-space-only", cnt.space_only);
	vf_count("observe:zero-return-wrote-destination", cnt.zero_wrote);
	if (cnt.int_compared + cnt.flt_compared + cnt.char_compared && cnt.refused) vf_nontrivial();
	if (case_idx % 13 == 1) vf_sample("%s%s%c base %d block %d: %llu numerals; accepted %llu (int compared %llu, float compared %llu), refused %llu, nothing converted %llu",
	          cur.name, cur.kind >= KNumber ? " type " : cur.kind == KRawInt || cur.kind == KRawUint ? " len " : "", cur.kind >= KNumber ? cur_type : cur.kind == KRawInt || cur.kind == KRawUint ? (char) ('0' + cur.size) : ' ',
	          base, block, (unsigned long long) nnum, (unsigned long long) cnt.accepted, (unsigned long long) cnt.int_compared,
	          (unsigned long long) cnt.flt_compared, (unsigned long long) cnt.refused, (unsigned long long) cnt.zero);
}
