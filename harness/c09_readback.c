/*
 * C09: configuration text is read back faithfully.
 *
 * One case = (section style, format string, name flag sets, PRNG tree).  The
 * tree is rendered three times - canonical (the layout of the repo's example
 * files), compact (optional whitespace removed), noisy (spaces/tabs around
 * tokens, blank lines, comment lines, trailing comments) - each rendering is
 * parsed with mpt_parse_node() into an empty root and the resulting node tree
 * is compared with the source tree: nesting, order, names, values, links.
 *
 * Spellings used (sources: doc comments of mpt_parse_format_pre/_enc/_sep,
 * mpt_parse_format, examples/core/{online,layout,config}.txt, subsect.lay,
 * dat.lay, mpt.conf and the ctest format strings):
 *   prefix     name S ... E            "eins { 1 = 1; } zwei {mal=alles;}"
 *   enclosed   S name<space> ... E     (doc comment only; after the fix of E)
 *   separated  S name E ...            "[first] ... [ nextsection ] ... []"
 *   option     name = value;  |  name = value<newline>
 *   quoted     `...\`...`  with one of the format's escape characters
 *   data       value;                   (dat.lay "eins;", prefix style only)
 */
#define _GNU_SOURCE
#include <stdio.h>
#include <stdlib.h>
#include <ctype.h>
#include <unistd.h>
#include <sys/mman.h>
#include <sys/uio.h>

#include "config.h"
#include "types.h"
#include "parse.h"
#include "node.h"
#include "meta.h"

#include "c09_tree.h"
#include "vf.h"

const char *vf_name = "c09_readback";

/* ------------------------------------------------------------------ parse */
typedef struct { const uint8_t *d; size_t n, pos; uint64_t calls; } input;
static int h_getc(void *arg)
{
	input *in = arg;
	in->calls++;
	if (in->calls > 4 * (in->n + 16)) vf_fail("model:termination:getc-bound", "%llu getc calls for %zu bytes", (unsigned long long) in->calls, in->n);
	if (in->pos >= in->n) return -2;
	return in->d[in->pos++];
}

/* ------------------------------------------------------------------ cases */
static void check_format(const format *f)
{
	/* the harness' reading of the format string must be the library's */
	MPT_STRUCT(parser_format) pf;
	int type;
	vf_at("mpt_parse_format");
	type = mpt_parse_format(&pf, f->str);
	int want = f->style == StylePrefix ? '*' : f->style == StyleEnclosed ? 'x' : ' ';
	int ok = type == want && pf.sstart == f->sstart && pf.send == f->send && pf.assign == f->assign
	         && pf.oend == f->oend && !pf.ostart;
	for (int i = 0; ok && i < 4; i++) ok = pf.com[i] == (i < (int) strlen(f->com) ? (uint8_t) f->com[i] : 0);
	for (int i = 0; ok && i < 3; i++) ok = pf.esc[i] == (i < (int) strlen(f->esc) ? (uint8_t) f->esc[i] : 0);
	VF_CHECK(ok, "model:parse_format:fields", "mpt_parse_format(\"%s\") = '%c' start=%02x end=%02x ostart=%02x assign=%02x oend=%02x com=%02x%02x%02x%02x esc=%02x%02x%02x",
	         f->str ? f->str : "(null)", type, pf.sstart, pf.send, pf.ostart, pf.assign, pf.oend, pf.com[0], pf.com[1], pf.com[2], pf.com[3], pf.esc[0], pf.esc[1], pf.esc[2]);
	vf_count("monitor:format-fields", 1);
}

uint64_t vf_cases(void) { return vf_thorough ? 2000000 : 120000; }

void vf_case(uint64_t idx, vf_rng *r)
{
	static const struct { unsigned sect, opt; } flagsets[] = {
		{ 0xff, 0xff },            /* MPT_PARSER_INIT */
		{ 0x10, 0x01 },            /* "Ef"   parse_online */
		{ 0x10, 0x0f },            /* "Esnw" parse_layout */
		{ 0x10, 0x00 },            /* "E"    parse_subsect */
		{ 0x10, 0x06 },            /* "Esc"  parse_config */
		{ 0x00, 0x07 },            /* "ns"   mpt_node_parse default */
		{ 0x0e, 0x02 },            /* config_parser defaults */
	};
	const format *f = &c09_formats[idx % c09_nformats];
	tnode *root = c09_t_new(1);
	gen g;
	char fl[16], desc[160];
	render ro[3];
	vf_rng deco;

	memset(&g, 0, sizeof(g));
	g.f = f;
	if (vf_chance(r, 2, 3)) {
		uint32_t k = vf_below(r, sizeof(flagsets) / sizeof(*flagsets));
		g.sect = flagsets[k].sect; g.opt = flagsets[k].opt;
	} else {
		g.sect = 0x3f & (unsigned) vf_u64(r); g.opt = 0x3f & (unsigned) vf_u64(r);
	}
	g.maxdepth = vf_range(r, 0, 5);
	check_format(f);
	c09_gen_children(r, &g, root, 0);

	if (g.sect == 0xff) strcpy(fl, "(all)"); else c09_flags_string(fl, g.sect, g.opt);
	snprintf(desc, sizeof(desc), "%s fmt=%s%s%s flags=%s tree: %zu nodes (%zu sections, depth %zu)", c09_style_name[f->style],
	         f->str ? "\"" : "", f->str ? f->str : "NULL", f->str ? "\"" : "", fl, g.nodes, g.sections, g.depth);
	vf_fp_u64(idx % c09_nformats);
	vf_fp_u64(((uint64_t) g.sect << 16) | g.opt);
	c09_t_fp(root);

	deco = *r;
	for (int mode = 0; mode < 3; mode++) {
		MPT_STRUCT(parser_context) ctx = MPT_PARSER_INIT;
		MPT_STRUCT(node) target = MPT_NODE_INIT;
		input in;
		cmp c;
		uint8_t *text;
		int ret, highbytes, has_fe;

		memset(&ro[mode], 0, sizeof(ro[mode]));
		ro[mode].f = f; ro[mode].mode = mode; ro[mode].r = &deco;
		c09_render_doc(&ro[mode], root);

		text = vf_xalloc(ro[mode].out.n);
		memcpy(text, ro[mode].out.d, ro[mode].out.n);
		highbytes = has_fe = 0;
		for (size_t i = 0; i < ro[mode].out.n; i++) {
			if (text[i] >= 0x80) highbytes = 1;
			if (text[i] >= 0xfe) has_fe = 1;
		}
		in.d = text; in.n = ro[mode].out.n; in.pos = 0; in.calls = 0;
		ctx.src.getc = h_getc;
		ctx.src.arg = &in;
		if (g.sect != 0xff) { ctx.name.sect = (uint16_t) g.sect; ctx.name.opt = (uint16_t) g.opt; }

		memset(&c, 0, sizeof(c));
		c.phase = mode == Canonical ? "readback" : "decoration";
		c.style = c09_style_name[f->style];
		c.fstyle = f->style;
		c.desc = desc;
		c.text = &ro[mode].out;
		if (vf_logging) {
			vf_log("%s rendering (%s), %zu bytes:", mode == Canonical ? "canonical" : mode == Compact ? "compact" : "noisy", desc, in.n);
			fwrite(text, 1, in.n > 4000 ? 4000 : in.n, stderr);
			fprintf(stderr, "\n----\n");
		}
		vf_at("mpt_parse_node");
		vf_count("mpt_parse_node", 1);
		ret = mpt_parse_node(&target, &ctx, f->str);
		vf_log("mpt_parse_node = %d line=%zu getc=%llu", ret, ctx.src.line, (unsigned long long) in.calls);
		if (ret < 0) {
			const char *what = g.huge ? "rejected-with-value-over-65535" : (g.val250 && g.val255) ? "rejected-with-value-250..260"
			                   : g.val250 ? "rejected-with-value-250..254" : g.val255 ? "rejected-with-value-255..260"
			                   : g.longname ? "rejected-with-name-250..260" : "rejected";
			vf_fail(c09_mkkey(&c, what), "%s: mpt_parse_node returned %d at line %zu (parser state %x) after %zu of %zu bytes; text: %s",
			        desc, ret, ctx.src.line, ctx.curr, in.pos, in.n, c09_excerpt(&ro[mode].out));
		}
		c09_compare(&c, root, &target, target.children);
		vf_count("monitor:names-compared", c.names);
		vf_count("monitor:values-compared", c.values);
		vf_count("monitor:links-compared", c.links);
		vf_count(mode == Canonical ? "monitor:trees-equal:canonical" : mode == Compact ? "monitor:trees-equal:compact" : "monitor:trees-equal:noisy", 1);
		vf_at("mpt_node_clear");
		mpt_node_clear(&target);

		/* the same text through the library's own readers */
		if (in.n && mode == (int) ((idx + 1) % 3)) {
			MPT_STRUCT(parser_context) c2 = MPT_PARSER_INIT;
			FILE *fp = fmemopen(text, in.n, "r");
			if (!fp) vf_inconclusive("fmemopen of %zu bytes failed", in.n);
			c2.src.getc = (int (*)(void *)) mpt_getchar_stdio;
			c2.src.arg = fp;
			if (g.sect != 0xff) { c2.name.sect = (uint16_t) g.sect; c2.name.opt = (uint16_t) g.opt; }
			c.phase = "stdio-reader";
			c.names = c.values = c.links = 0;
			vf_at("mpt_getchar_stdio");
			vf_count("mpt_parse_node", 1);
			ret = mpt_parse_node(&target, &c2, f->str);
			if (ret < 0) {
				vf_fail(c09_mkkey(&c, "rejected"), "%s: read with mpt_getchar_stdio: mpt_parse_node returned %d at line %zu; text: %s",
				        desc, ret, c2.src.line, c09_excerpt(&ro[mode].out));
			}
			c09_compare(&c, root, &target, target.children);
			vf_count("monitor:trees-equal:stdio-reader", 1);
			if (highbytes) vf_count("monitor:trees-equal:stdio-reader-with-high-bytes", 1);
			mpt_node_clear(&target);
			fclose(fp);
		}
		/* one byte per read(): one rendering per case, texts up to 3000 bytes */
		if (in.n && in.n <= 3000 && mode == (int) (idx % 3)) {
			MPT_STRUCT(parser_context) c3 = MPT_PARSER_INIT;
			int fd = memfd_create("c09", 0);
			if (fd < 0 || write(fd, text, in.n) != (ssize_t) in.n || lseek(fd, 0, SEEK_SET)) vf_inconclusive("memfd for %zu bytes failed", in.n);
			c3.src.getc = mpt_getchar_file;
			c3.src.arg = (void *) (intptr_t) fd;
			if (g.sect != 0xff) { c3.name.sect = (uint16_t) g.sect; c3.name.opt = (uint16_t) g.opt; }
			c.phase = "descriptor-reader";
			c.names = c.values = c.links = 0;
			vf_at("mpt_getchar_file");
			vf_count("mpt_parse_node", 1);
			ret = mpt_parse_node(&target, &c3, f->str);
			if (ret < 0) {
				vf_fail(c09_mkkey(&c, "rejected"), "%s: read with mpt_getchar_file: mpt_parse_node returned %d at line %zu; text: %s",
				        desc, ret, c3.src.line, c09_excerpt(&ro[mode].out));
			}
			c09_compare(&c, root, &target, target.children);
			vf_count("monitor:trees-equal:descriptor-reader", 1);
			if (highbytes) vf_count("monitor:trees-equal:descriptor-reader-with-high-bytes", 1);
			if (has_fe) vf_count("monitor:trees-equal:descriptor-reader-with-0xfe-0xff", 1);
			mpt_node_clear(&target);
			close(fd);
		}
		vf_xfree(text, in.n);
	}
	vf_count(f->style == StylePrefix ? "style:prefix" : f->style == StyleEnclosed ? "style:enclosed" : "style:separated", 1);
	vf_count("decoration:comments", ro[Noisy].comments);
	vf_count("decoration:blank-lines", ro[Noisy].blanks);
	vf_count("decoration:crlf", ro[Noisy].crlf);
	vf_count("decoration:trailing-comments", ro[Noisy].trailing);
	vf_count("tree:nodes", g.nodes);
	vf_count("tree:sections", g.sections);
	if (g.val250) vf_count("tree:with-value-250..254", 1);
	if (g.val255) vf_count("tree:with-value-255..260", 1);
	if (g.huge) vf_count("tree:with-value-65530..65540", 1);
	if (g.comchar) vf_count("tree:comment-char-inside-plain-value", 1);
	if (g.longname) vf_count("tree:with-name-250..260", 1);
	if (g.depth >= 3) vf_count("tree:depth>=3", 1);
	vf_max("max:tree-depth", g.depth);
	if (g.nodes >= 3 && (g.sections || f->style == StyleSeparated)) vf_nontrivial();
	if (vf_logging || idx < 64) {
		char sm[1500];
		snprintf(sm, sizeof(sm), "%s | canonical text: %s", desc, c09_excerpt(&ro[Canonical].out));
		vf_sample("%s", sm);
	}
	for (int mode = 0; mode < 3; mode++) free(ro[mode].out.d);
	c09_t_free(root);
}
