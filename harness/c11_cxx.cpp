/*
 * C11 (C++ leg): mpt::dispatch wrappers of mpt++/event.cpp.
 *
 * Same model as the C leg (id -> registration, default id, fallback) driven
 * through dispatch::set_handler / handler / set_default / set_error and the
 * destructor; events are emitted with mpt_dispatch_emit on the C++ object.
 */
#include <map>
#include <vector>
#include <string>
#include <memory>
#include <cstring>
#include <cinttypes>
#include <sys/uio.h>

#include "array.h"
#include "message.h"
#include "event.h"
#include "vf.h"

const char *vf_name = "c11_cxx";

class D : public mpt::dispatch
{
public:
	uintptr_t def() const { return _def; }
};

enum { RegNever, RegLive, RegDead };
struct reg {
	int serial;
	int state;
	uintptr_t id;
	bool fallback;
	int fin;
	bool fin_allowed;
};
static std::vector<std::unique_ptr<reg> > regs;
static std::map<uintptr_t, reg *> model;
static reg *fb;
static uintptr_t mdef;

static reg *exp_reg;
static uintptr_t exp_id;
static int op_events, op_fins;
static const char *cur_op = "";
static int plan_ret, plan_idmode;
static uintptr_t plan_newid;
static int last_ret;
static uintptr_t last_id;

static const uintptr_t dom[] = { 0, 1, 2, 3, 7, 0xff, 0x100, 0x2b5d6, 0x1000, 0x1003, 0x1006, 0x1009, 0x100c, 0x100f, 0x1012, 0x1015 };
#define NDOM (sizeof(dom) / sizeof(*dom))

static reg *new_reg(uintptr_t id)
{
	regs.emplace_back(new reg());
	reg *g = regs.back().get();
	g->serial = (int) regs.size() - 1;
	g->state = RegNever;
	g->id = id;
	return g;
}
static bool known(const void *p)
{
	for (auto &g : regs) if (g.get() == p) return true;
	return false;
}
static int hnd(void *arg, mpt::event *ev)
{
	reg *g = static_cast<reg *>(arg);
	vf_count("callback:handler", 1);
	VF_CHECK(known(arg), "model:handler:foreign-argument", "%s: handler called with argument %p which is no registration of this case", cur_op, arg);
	if (!ev) {
		g->fin++;
		op_fins++;
		vf_log("   end-of-life reg#%d (id %#" PRIxPTR ")", g->serial, g->id);
		VF_CHECK(g->fin == 1, "model:finalise:twice", "%s: registration #%d (id %#" PRIxPTR ") received end-of-life notification number %d", cur_op, g->serial, g->id, g->fin);
		if (g->state == RegNever) { vf_count("finalise:refused-registration", 1); return 0; }
		VF_CHECK(g->fin_allowed, "model:finalise:unexpected", "%s: registration #%d (id %#" PRIxPTR ") received an end-of-life notification although this operation does not remove it",
		         cur_op, g->serial, g->id);
		g->state = RegDead;
		return 0;
	}
	VF_CHECK(g->state != RegDead, "model:event:after-finalise", "%s: registration #%d (id %#" PRIxPTR ") invoked after its end-of-life notification", cur_op, g->serial, g->id);
	VF_CHECK(g->state == RegLive, "model:event:unregistered-handler", "%s: handler of the refused registration #%d invoked", cur_op, g->serial);
	VF_CHECK(exp_reg != 0, "model:emit:unexpected-delivery", "%s: registration #%d (id %#" PRIxPTR ") invoked with event id %#" PRIxPTR " although the model has no harness handler for this emit",
	         cur_op, g->serial, g->id, ev->id);
	VF_CHECK(g == exp_reg, "model:emit:wrong-handler", "%s: event id %#" PRIxPTR " delivered to registration #%d (id %#" PRIxPTR "), model says #%d (id %#" PRIxPTR ")",
	         cur_op, ev->id, g->serial, g->id, exp_reg->serial, exp_reg->id);
	op_events++;
	VF_CHECK(op_events == 1, "model:emit:delivered-twice", "%s: delivery number %d in one emit", cur_op, op_events);
	VF_CHECK(ev->id == exp_id, "model:emit:event-id", "%s: handler #%d sees event id %#" PRIxPTR ", expected %#" PRIxPTR, cur_op, g->serial, ev->id, exp_id);
	vf_count("monitor:delivery-compared", 1);
	if (plan_idmode == 1) ev->id = 0;
	else if (plan_idmode == 2) ev->id = plan_newid;
	last_ret = plan_ret;
	last_id = ev->id;
	vf_log("   delivery reg#%d (id %#" PRIxPTR "%s) -> %d, ev->id left %#" PRIxPTR, g->serial, g->id, g->fallback ? ", fallback" : "", plan_ret, ev->id);
	return plan_ret;
}
static void begin_op(const char *name)
{
	cur_op = name;
	exp_reg = 0; op_events = 0; op_fins = 0; last_ret = 0; last_id = 0;
}
static void check_fins(int expected)
{
	VF_CHECK(op_fins == expected, "model:finalise:count", "%s: %d end-of-life notification(s), expected %d", cur_op, op_fins, expected);
	for (auto &g : regs) {
		if (g->fin_allowed) {
			VF_CHECK(g->fin == 1, "model:finalise:missing", "%s: registration #%d (id %#" PRIxPTR ") was removed but received %d end-of-life notifications", cur_op, g->serial, g->id, g->fin);
			g->fin_allowed = false;
		}
	}
	vf_count("monitor:finalise-compared", 1);
}
static void check_table(D &d)
{
	for (size_t i = 0; i < NDOM; i++) {
		mpt::command *c = d.handler(dom[i]);
		auto it = model.find(dom[i]);
		if (it != model.end()) {
			VF_CHECK(c != 0, "model:table:registration-lost", "after %s: id %#" PRIxPTR " (registration #%d) is not found by dispatch::handler()", cur_op, dom[i], it->second->serial);
			VF_CHECK(c->arg == it->second && c->id == dom[i], "model:table:wrong-entry", "after %s: id %#" PRIxPTR " resolves to argument %p, model says registration #%d",
			         cur_op, dom[i], c->arg, it->second->serial);
		} else {
			VF_CHECK(c == 0, "model:table:stale-entry", "after %s: id %#" PRIxPTR " resolves to an entry although nothing is registered", cur_op, dom[i]);
		}
	}
	for (auto &kv : model) {
		mpt::command *c = d.handler(kv.first);
		VF_CHECK(c != 0, "model:table:registration-lost", "after %s: id %#" PRIxPTR " (registration #%d) is not found by dispatch::handler()", cur_op, kv.first, kv.second->serial);
		VF_CHECK(c->arg == kv.second, "model:table:wrong-entry", "after %s: id %#" PRIxPTR " resolves to argument %p, model says registration #%d", cur_op, kv.first, c->arg, kv.second->serial);
	}
	vf_count("monitor:table-compared", 1);
	VF_CHECK(d.def() == mdef, "model:default:bookkeeping", "after %s: dispatcher default id %#" PRIxPTR ", model %#" PRIxPTR, cur_op, d.def(), mdef);
}
/* dispatch::resize(): slots cut off end their registrations (traits fini), slots added are created by the
 * traits' init and must be unused */
static int rawtable, stale_behind;
static void check_table(D &d);
static void op_resize(D &d, vf_rng *r, char *one, size_t n)
{
	long L = d.length(), to;
	uint32_t c = vf_below(r, 10);
	int want = 0;
	std::vector<reg *> ending;
	if (c < 4) to = L - 1 - (long) vf_below(r, 3);
	else if (c < 8) to = L + 1 + (long) vf_below(r, 3);
	else if (c < 9) to = 0;
	else to = L;
	if (to < 0) to = 0;
	begin_op("dispatch::resize");
	for (long i = to; i < L; i++) {
		mpt::command *s = d.get(i);
		if (s && s->cmd && known(s->arg)) ending.push_back(static_cast<reg *>(s->arg));
	}
	for (reg *g : ending) g->fin_allowed = true;
	vf_fp_u64(0x800); vf_fp_u64((uint64_t) L); vf_fp_u64((uint64_t) to);
	vf_at("dispatch::resize");
	vf_count("dispatch::resize", 1);
	bool ok = d.resize(to);
	vf_log("resize(%ld) on %ld slots = %d, %zu live registrations in the part cut off", to, L, ok, ending.size());
	snprintf(one, n, " resize(%ld->%ld)%s", L, to, ok ? "" : "!");
	VF_CHECK(op_events == 0, "model:emit:unexpected-delivery", "dispatch::resize delivered an event");
	if (!ok) {
		vf_count("resize:refused", 1);
		for (reg *g : ending) if (!g->fin) g->fin_allowed = false;
		VF_CHECK(op_fins == 0 && d.length() == L, "model:resize:refused-modified", "refused resize(%ld) changed the table (%ld -> %ld slots, %d end-of-life calls)", to, L, (long) d.length(), op_fins);
		return;
	}
	want = (int) ending.size();
	VF_CHECK(d.length() == to, "model:resize:length", "after resize(%ld) the table has %ld slots", to, (long) d.length());
	check_fins(want);
	for (reg *g : ending) model.erase(g->id);
	if (to < L) { vf_count("resize:shrink", 1); if (want) { vf_count("resize:shrink-ended-registrations", 1); stale_behind = 1; } }
	for (long i = L; i < to; i++) {
		mpt::command *s = d.get(i);
		vf_count("monitor:traits-slot-compared", 1);
		VF_CHECK(s != 0, "model:resize:length", "slot %ld missing after resize(%ld)", i, to);
		VF_CHECK(!s->cmd, "model:table:traits-slot-not-empty",
		         "slot %ld created by resize(%ld -> %ld) holds handler %p with argument %p (id %#" PRIxPTR ")%s", i, L, to, (void *) s->cmd, s->arg, s->id,
		         known(s->arg) ? ": a registration that already ended" : "");
	}
	if (to > L) { vf_count("resize:grow", 1); if (stale_behind) vf_count("resize:grow-over-ended-registrations", 1); stale_behind = 0; }
}
static void op_insert(D &d, vf_rng *r, char *one, size_t n)
{
	long L = d.length(), pos = (long) vf_below(r, (uint32_t) L + 1);
	if (vf_chance(r, 1, 4)) pos = 0;
	begin_op("dispatch::insert");
	vf_fp_u64(0x900); vf_fp_u64((uint64_t) pos);
	vf_at("dispatch::insert");
	vf_count("dispatch::insert", 1);
	mpt::command *s = d.insert(pos);
	vf_log("insert(%ld) on %ld slots = %p", pos, L, (void *) s);
	snprintf(one, n, " insert(%ld)%s", pos, s ? "" : "!");
	VF_CHECK(op_events == 0 && op_fins == 0, "model:insert:handler-invoked", "dispatch::insert invoked a handler");
	if (!s) { vf_count("insert:refused", 1); return; }
	vf_count("monitor:traits-slot-compared", 1);
	VF_CHECK(d.length() == L + 1, "model:resize:length", "after insert(%ld) the table has %ld slots, had %ld", pos, (long) d.length(), L);
	VF_CHECK(!s->cmd, "model:table:traits-slot-not-empty", "slot created by insert(%ld) holds handler %p with argument %p (id %#" PRIxPTR ")", pos, (void *) s->cmd, s->arg, s->id);
	vf_count("insert:accepted", 1);
	if (stale_behind) vf_count("insert:over-ended-registrations", 1);
	stale_behind = 0;
}
/* dispatch::reserve(): reply id reservation on the dispatcher's own table */
static void op_reserve(D &d, vf_rng *r, char *one, size_t n, bool first)
{
	size_t width = 1 + vf_below(r, 8);
	uintptr_t wmax = width >= 8 ? (uintptr_t) INT64_MAX : ((uintptr_t) 1 << (8 * width - 1)) - 1;
	begin_op("dispatch::reserve");
	vf_fp_u64(0x700 + width);
	vf_at("dispatch::reserve");
	vf_count("dispatch::reserve", 1);
	bool nobuf = d.begin() == 0;   /* the reservation creates the table: raw buffer without element traits */
	mpt::command *c = d.reserve(width);
	vf_log("reserve(%zu)%s = %p id=%#" PRIxPTR, width, first ? " [first table operation]" : "", (void *) c, c ? c->id : 0);
	snprintf(one, n, " reserve(%zu)%s%s", width, first ? "[first]" : "", c ? "" : "!");
	VF_CHECK(op_events == 0 && op_fins == 0, "model:reserve:handler-invoked", "dispatch::reserve invoked a handler");
	if (!c) { vf_count("reserve:refused", 1); return; }
	vf_count("monitor:reserved-id-unique", 1);
	VF_CHECK(c->id != 0, "model:reserve:zero-id", "reserve(%zu) returned id 0", width);
	VF_CHECK(model.find(c->id) == model.end(), "model:reserve:duplicate-id", "reserve(%zu) returned id %#" PRIxPTR " which is registered", width, c->id);
	VF_CHECK(c->id <= wmax, "model:reserve:id-exceeds-width", "reserve(%zu) returned id %#" PRIxPTR, width, c->id);
	reg *g = new_reg(c->id);
	g->state = RegLive;
	c->cmd = (int (*)(void *, void *)) hnd;
	c->arg = g;
	model[c->id] = g;
	if (nobuf) rawtable = 1;
	vf_count(first ? "reserve:first-table-operation" : "reserve:accepted", 1);
}
static void make_plan(vf_rng *r)
{
	static const int errs[] = { -1, -2, -3, -16, -128 };
	if (vf_chance(r, 1, 6)) plan_ret = errs[vf_below(r, 5)];
	else {
		plan_ret = (int) vf_below(r, 8);
		if (vf_chance(r, 1, 3)) plan_ret |= mpt::event::Default;
	}
	plan_idmode = (int) vf_below(r, 8);
	if (plan_idmode > 2) plan_idmode = 0;
	plan_newid = dom[vf_below(r, NDOM)];
	if (!model.empty() && vf_chance(r, 2, 3)) {
		auto it = model.begin();
		std::advance(it, vf_below(r, (uint32_t) model.size()));
		plan_newid = it->first;
	}
	vf_fp_u64((uint64_t) (uint32_t) plan_ret); vf_fp_u64((uint64_t) plan_idmode);
}
static void after_delivery(const char *what, int ret)
{
	if (last_ret < 0) {
		VF_CHECK(ret == last_ret, "model:emit:error-not-propagated", "%s: handler returned %d, emit returned %d", what, last_ret, ret);
		return;
	}
	if (last_ret & mpt::event::Default) mdef = last_id;
	int want = (last_ret & ~mpt::event::Default) | (mdef ? mpt::event::Default : 0);
	vf_count("monitor:flags-compared", 1);
	VF_CHECK(ret == want, "model:emit:return-flags", "%s: handler returned %#x leaving id %#" PRIxPTR " (default now %#" PRIxPTR "), emit returned %#x, expected %#x",
	         what, last_ret, last_id, mdef, ret, want);
}

void vf_case(uint64_t, vf_rng *r)
{
	int nops = vf_range(r, 8, vf_thorough ? 100 : 50);
	std::string desc;
	int emits = 0;
	size_t maxlive = 0;
	char one[96];

	regs.clear(); model.clear(); fb = 0; mdef = 0;
	{
		D d;
		vf_count("dispatch::dispatch", 1);
		bool libfb = vf_chance(r, 1, 5);
		if (!libfb) {
			begin_op("set_error");
			fb = new_reg(0); fb->fallback = true; fb->state = RegLive;
			vf_at("dispatch::set_error");
			vf_count("dispatch::set_error", 1);
			d.set_error(hnd, fb);
			check_fins(0);
		}
		desc = libfb ? "fallback=library:" : "fallback=harness:";
		vf_fp_u64(libfb);
		rawtable = 0; stale_behind = 0;
		if (vf_chance(r, 1, 4)) {
			op_reserve(d, r, one, sizeof(one), true);
			check_table(d);
			desc += one;
		}
		for (int i = 0; i < nops; i++) {
			uint32_t c = vf_below(r, 100);
			uintptr_t id = dom[vf_below(r, NDOM)];
			if (!model.empty() && vf_chance(r, 1, 2) && c >= 25) {
				auto it = model.begin();
				std::advance(it, vf_below(r, (uint32_t) model.size()));
				id = it->first;
			}
			auto cur = model.find(id);
			reg *have = cur != model.end() ? cur->second : 0;
			one[0] = 0;
			if (c < 25) {
				begin_op("set_handler");
				reg *g = new_reg(id);
				vf_fp_u64(0x100); vf_fp_u64(id);
				vf_at("dispatch::set_handler");
				vf_count("dispatch::set_handler", 1);
				bool ok = d.set_handler(id, hnd, g);
				vf_log("set_handler(%#" PRIxPTR ", reg#%d) = %d%s", id, g->serial, ok, have ? " (id taken)" : "");
				snprintf(one, sizeof(one), " set(%#" PRIxPTR ")%s", id, have ? "!" : "");
				if (have) VF_CHECK(!ok, "model:set:duplicate-accepted", "set_handler(id=%#" PRIxPTR ") accepted although registration #%d holds the id", id, have->serial);
				else {
					VF_CHECK(ok, "model:set:refused", "set_handler(id=%#" PRIxPTR ") refused for a free id", id);
					g->state = RegLive; model[id] = g;
				}
				check_fins(0);
			} else if (c < 38) {
				begin_op("set_handler(clear)");
				if (have) have->fin_allowed = true;
				vf_fp_u64(0x200); vf_fp_u64(id);
				vf_at("dispatch::set_handler");
				vf_count("dispatch::set_handler(clear)", 1);
				bool ok = d.set_handler(id, 0, 0);
				vf_log("set_handler(%#" PRIxPTR ", NULL) = %d", id, ok);
				snprintf(one, sizeof(one), " clear(%#" PRIxPTR ")%s", id, have ? "" : "!");
				if (have) { VF_CHECK(ok, "model:clear:refused", "clearing registered id %#" PRIxPTR " refused", id); check_fins(1); model.erase(id); }
				else { VF_CHECK(!ok, "model:clear:unregistered-accepted", "clearing unregistered id %#" PRIxPTR " accepted", id); check_fins(0); }
			} else if (c < 50) {
				begin_op("set_default");
				vf_fp_u64(0x300); vf_fp_u64(id);
				vf_at("dispatch::set_default");
				vf_count("dispatch::set_default", 1);
				bool ok = d.set_default(id);
				vf_log("set_default(%#" PRIxPTR ") = %d (%sregistered)", id, ok, have ? "" : "un");
				snprintf(one, sizeof(one), " default(%#" PRIxPTR ")%s", id, have ? "" : "?");
				if (have && id) {
					vf_count("monitor:set-default-registered", 1);
					VF_CHECK(ok, "model:default:registered-id-refused", "set_default(%#" PRIxPTR ") refused although registration #%d holds the id", id, have->serial);
					mdef = id;
				} else if (!ok) {
					/* a refused request changes nothing */
					vf_count("monitor:set-default-refused", 1);
					if (mdef && model.find(mdef) != model.end()) vf_count("default:refused-while-valid-default", 1);
					VF_CHECK(d.def() == mdef, "model:default:refused-call-changed-default",
					         "set_default(%#" PRIxPTR ") was refused (no such handler) but the default id changed from %#" PRIxPTR " to %#" PRIxPTR, id, mdef, d.def());
				} else {
					/* accepted although unregistered or zero: outcome not specified, adopt */
					mdef = d.def();
				}
				check_fins(0);
			} else if (c < 56) {
				begin_op("set_error");
				if (fb) fb->fin_allowed = true;
				int want = fb ? 1 : 0;
				reg *g = new_reg(0); g->fallback = true; g->state = RegLive;
				vf_fp_u64(0x400);
				vf_at("dispatch::set_error");
				vf_count("dispatch::set_error", 1);
				d.set_error(hnd, g);
				vf_log("set_error(reg#%d)", g->serial);
				snprintf(one, sizeof(one), " set_error");
				check_fins(want);
				fb = g;
			} else if (c < 60) {
				op_reserve(d, r, one, sizeof(one), false);
			} else if (c < 69 && !rawtable) {
				/* (tables created by a reservation carry no element traits: not resized here) */
				if (c < 66) op_resize(d, r, one, sizeof(one));
				else op_insert(d, r, one, sizeof(one));
			} else if (c < 88) {
				begin_op("emit");
				make_plan(r);
				mpt::event ev;
				ev.id = id;
				reg *target = have ? have : fb;
				exp_reg = target; exp_id = id;
				vf_fp_u64(0x500); vf_fp_u64(id);
				vf_at("mpt_dispatch_emit");
				vf_count("mpt_dispatch_emit(id)", 1);
				int ret = mpt::mpt_dispatch_emit(&d, &ev);
				vf_log("emit(id=%#" PRIxPTR ") = %d", id, ret);
				snprintf(one, sizeof(one), " emit(%#" PRIxPTR ")", id);
				if (!target) {
					VF_CHECK(op_events == 0, "model:emit:unexpected-delivery", "emit of unregistered id %#" PRIxPTR " delivered to a harness handler", id);
					mdef = d.def();
				} else {
					VF_CHECK(op_events == 1, "model:emit:no-delivery", "emit of id %#" PRIxPTR " reached no handler, model says #%d", id, target->serial);
					vf_count(target->fallback ? "emit:delivered-fallback" : "emit:delivered-registered", 1);
					after_delivery("emit", ret);
				}
				check_fins(0);
				emits++;
			} else {
				begin_op("emit(default)");
				make_plan(r);
				auto dt = model.find(mdef);
				reg *target = (mdef && dt != model.end()) ? dt->second : 0;
				exp_reg = target; exp_id = mdef;
				vf_fp_u64(0x600);
				vf_at("mpt_dispatch_emit");
				vf_count("mpt_dispatch_emit(default)", 1);
				int ret = mpt::mpt_dispatch_emit(&d, 0);
				vf_log("emit(default %#" PRIxPTR ") = %d", mdef, ret);
				snprintf(one, sizeof(one), " emit(default=%#" PRIxPTR ")", mdef);
				if (!mdef) {
					VF_CHECK(op_events == 0 && ret == 0, "model:emit:default-without-id", "default emit without default id returned %d (%d deliveries)", ret, op_events);
				} else if (!target) {
					VF_CHECK(op_events == 0, "model:emit:unexpected-delivery", "default emit for unregistered default id %#" PRIxPTR " delivered an event", mdef);
					mdef = d.def();
				} else {
					VF_CHECK(op_events == 1, "model:emit:no-delivery", "default emit (id %#" PRIxPTR ") reached no handler, model says #%d", mdef, target->serial);
					vf_count("emit:delivered-default", 1);
					after_delivery("default emit", ret);
				}
				check_fins(0);
				emits++;
			}
			check_table(d);
			if (model.size() > maxlive) maxlive = model.size();
			if (desc.size() + strlen(one) < 1800) desc += one;
		}
		/* destructor: every live registration and the fallback end here */
		begin_op("dispatch::~dispatch");
		{
			int live = 0;
			for (auto &g : regs) if (g->state == RegLive && !g->fallback) live++;
			if (rawtable && live) vf_count("fini:reserve-created-table-with-live-handlers", 1);
		}
		for (auto &g : regs) if (g->state == RegLive) g->fin_allowed = true;
		vf_at("dispatch::~dispatch");
		vf_count("dispatch::~dispatch", 1);
	}
	{
		int want = 0;
		for (auto &g : regs) if (g->fin_allowed) want++;
		VF_CHECK(op_events == 0, "model:emit:unexpected-delivery", "destructor delivered an event");
		check_fins(want);
	}
	for (auto &g : regs) {
		if (g->state == RegNever) continue;
		vf_count("monitor:lifetime-accounted", 1);
		VF_CHECK(g->fin == 1 && g->state == RegDead, "model:finalise:missing", "at the end registration #%d (id %#" PRIxPTR "%s) has %d end-of-life notifications",
		         g->serial, g->id, g->fallback ? ", fallback" : "", g->fin);
	}
	vf_max("max:live-registrations", maxlive);
	if (emits >= 3 && maxlive >= 2) vf_nontrivial();
	vf_sample("%s ~dispatch  => %zu registrations, max %zu live", desc.c_str(), regs.size(), maxlive);
	regs.clear(); model.clear();
}

uint64_t vf_cases(void) { return vf_thorough ? 300000 : 30000; }
