/*
 * Independent reference codec for the five message framings (C01, C03).
 *
 * Written from the format definitions, not from the library code:
 *
 *  COBS (Cheshire/Baker): a frame is a chain of blocks followed by one zero
 *  delimiter.  A block is a code byte c (never zero) and its data bytes.
 *    c = 1 .. M-1 : c-1 data bytes, followed by an implied zero unless the
 *                   block is the last one of the frame
 *    c = M        : M-1 data bytes, no implied zero
 *  with M = 0xFF.  The empty message is the single block 01.
 *
 *  COBS/R (tail inline): as COBS, but the last block may be cut short: if
 *  fewer than the announced data bytes are left before the delimiter, the code
 *  byte itself is the final data byte of the message (an encoder does this
 *  when the final data byte is larger than the code it would have to write).
 *
 *  COBS/ZPE in the wire variant this library documents (MPT_COBS_MAXLEN 0xdf,
 *  "code offset 0xE0"): M = 0xDF (222 data bytes, no implied zero); codes
 *  0xE0+n (n = 0..30) are n data bytes followed by a *pair* of zeros, pair
 *  always emitted (also at the end of the frame).  This differs by one from
 *  the table in the COBS paper (0xE0 = 223 data bytes, 0xE1+n = pairs); the
 *  property is about the library's encoder/decoder pair, so the library's
 *  constants are the format.  Code 0xFF is outside the range any encoder
 *  uses (the paper reserves it): frames that use it as a code byte are
 *  "unclaimed" here.
 *
 *  COBS/ZPE+R: ZPE with tail inline; only values 0x01..0xDF are inlined by an
 *  encoder; a cut-short last block whose code is >= 0xE0 is "unclaimed".
 *
 *  Command text: the message bytes (zero free) followed by one zero.  The
 *  decoder documents that it delivers the text behind a two byte header
 *  { MessageCommand (0x04), ' ' }.
 */
#ifndef C01_REFCODEC_H
#define C01_REFCODEC_H

#include <stdint.h>
#include <stddef.h>
#include <string.h>

enum { RC_COBS, RC_COBS_R, RC_ZPE, RC_ZPE_R, RC_CMD, RC_NFMT };
static const char *const rc_name[RC_NFMT] = { "cobs", "cobs_r", "cobs_zpe", "cobs_zpe_r", "command" };

enum { RC_OK = 0, RC_EMPTY = 1, RC_MALFORMED = 2, RC_UNCLAIMED = 3 };

#define RC_CMD_HDR0 0x04
#define RC_CMD_HDR1 0x20

static int rc_is_zpe(int fmt) { return fmt == RC_ZPE || fmt == RC_ZPE_R; }
static int rc_is_r(int fmt)   { return fmt == RC_COBS_R || fmt == RC_ZPE_R; }
static unsigned rc_maxcode(int fmt) { return rc_is_zpe(fmt) ? 0xDF : 0xFF; }

/* upper bound of the frame length (with delimiter) for an n byte message */
static size_t rc_frame_bound(size_t n) { return n + n / 200 + 4; }
/* upper bound of the message length decoded from an n byte chunk (+ header) */
static size_t rc_msg_bound(size_t n) { return 2 * n + 4; }

/*
 * reference encoder: message -> frame including the delimiter.
 * Look-ahead over runs (not byte-wise with a patched code slot as the library
 * does it).  Returns the frame length, 0 when the framing does not admit the
 * message (command text containing a zero).
 */
static size_t rc_encode(int fmt, const uint8_t *msg, size_t n, uint8_t *out)
{
	size_t o = 0, i = 0;
	unsigned M = rc_maxcode(fmt);

	if (fmt == RC_CMD) {
		if (n && memchr(msg, 0, n)) return 0;
		if (n) memcpy(out, msg, n);
		out[n] = 0;
		return n + 1;
	}
	if (!n) { out[o++] = 1; out[o++] = 0; return o; }
	while (i < n) {
		size_t r = 0;
		while (i + r < n && msg[i + r] && r < M - 1) r++;
		if (r == M - 1) {
			/* full block, no implied zero */
			out[o++] = (uint8_t) M;
			memcpy(out + o, msg + i, r); o += r; i += r;
			continue;
		}
		if (i + r == n) {
			/* last block of the message, r >= 1 */
			uint8_t last = msg[n - 1];
			if (rc_is_r(fmt) && last > r + 1 && (!rc_is_zpe(fmt) || last <= 0xDF)) {
				out[o++] = last;
				memcpy(out + o, msg + i, r - 1); o += r - 1;
			} else {
				out[o++] = (uint8_t) (r + 1);
				memcpy(out + o, msg + i, r); o += r;
			}
			i = n;
			break;
		}
		/* msg[i+r] is a zero */
		if (rc_is_zpe(fmt) && r <= 30 && i + r + 1 < n && !msg[i + r + 1]) {
			out[o++] = (uint8_t) (0xE0 + r);
			memcpy(out + o, msg + i, r); o += r;
			i += r + 2;
			/* pair is always emitted by the decoder: nothing to add at the end */
			continue;
		}
		out[o++] = (uint8_t) (r + 1);
		memcpy(out + o, msg + i, r); o += r;
		i += r + 1;
		if (i == n) {
			/* message ends in this zero: it needs a following (empty) block */
			out[o++] = 1;
		}
	}
	out[o++] = 0;
	return o;
}

/* what the last rc_decode() call met (evidence counters of the harnesses) */
static struct { unsigned inline_tail, pairs, full_blocks, blocks; } rc_seen;

/*
 * reference decoder for one chunk = the bytes between two delimiters (zero
 * free by construction).  out must hold rc_msg_bound(n) bytes.
 */
static int rc_decode(int fmt, const uint8_t *in, size_t n, uint8_t *out, size_t *outlen)
{
	size_t o = 0, i = 0;
	unsigned M = rc_maxcode(fmt);

	*outlen = 0;
	memset(&rc_seen, 0, sizeof(rc_seen));
	if (fmt == RC_CMD) {
		out[o++] = RC_CMD_HDR0;
		out[o++] = RC_CMD_HDR1;
		if (n) memcpy(out + o, in, n);
		*outlen = o + n;
		return RC_OK;
	}
	if (!n) return RC_EMPTY;
	while (i < n) {
		unsigned c = in[i++];
		size_t nd, nz;
		if (rc_is_zpe(fmt) && c == 0xFF) return RC_UNCLAIMED;
		if (rc_is_zpe(fmt) && c >= 0xE0) { nd = c - 0xE0; nz = 2; }
		else { nd = c - 1; nz = (c < M) ? 1 : 0; }
		rc_seen.blocks++;
		if (nz == 2) rc_seen.pairs++;
		if (c == M) rc_seen.full_blocks++;
		if (nd > n - i) {
			/* block is cut short by the delimiter */
			if (!rc_is_r(fmt)) return RC_MALFORMED;
			if (rc_is_zpe(fmt) && c >= 0xE0) return RC_UNCLAIMED;
			memcpy(out + o, in + i, n - i); o += n - i;
			out[o++] = (uint8_t) c;
			*outlen = o;
			rc_seen.inline_tail = 1;
			return RC_OK;
		}
		memcpy(out + o, in + i, nd); o += nd; i += nd;
		if (nz == 2) { out[o++] = 0; out[o++] = 0; }
		else if (nz == 1 && i < n) out[o++] = 0;
	}
	*outlen = o;
	return RC_OK;
}

/* a frame: zero free, then exactly one zero at the end */
static int rc_frame_shape_ok(const uint8_t *f, size_t n)
{
	if (!n || f[n - 1]) return 0;
	return n == 1 || !memchr(f, 0, n - 1);
}

#endif /* C01_REFCODEC_H */
