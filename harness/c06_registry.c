/*
 * C06: type registry hands out unique, stable, correctly described types.
 *
 * The registry is process-global and append-only: the leg runs with batch=1,
 * every case is one history in a fresh process.
 *
 * Monitor: shadow table id -> {state, kind, name, size, init, fini}.  Every
 * registration result and every lookup (by id: mpt_type_traits,
 * mpt_interface_traits, mpt_metatype_traits; by name: mpt_named_traits exact /
 * length-limited / alias, mpt_alias_typeid) is compared with it; complete sweep
 * over ids 0..0x1100 at the end of a case and after every refused registration
 * in the exhaustion cases.
 *
 * Cases: [0, NB) built-in sweeps with different first calls (lazy init order);
 *        [NB, NB+NX) exhaustion histories; the rest PRNG histories.
 */
#include <stdlib.h>
#include <errno.h>
#include <ctype.h>
#include <sys/uio.h>

#include "types.h"
#include "convert.h"
#include "meta.h"
#include "object.h"
#include "array.h"
#include "event.h"
#include "message.h"

#include "vf.h"

const char *vf_name = "c06_registry";

#define IDMAX 0x1100

enum { KNone, KCore, KScalar, KVector, KIface, KBasic, KMeta, KManaged, KGeneric };
static const char *kindname[] = { "none", "core", "scalar", "vector", "interface", "basic", "metatype", "managed", "generic" };

/* state of an id in the shadow table */
enum {
	SAbsent,        /* must not resolve */
	SPresent,       /* must resolve to the recorded description */
	SUnspec,        /* nothing known: first answer is adopted, must stay the same */
	SAdoptAbsent,
	SAdoptPresent
};
typedef struct {
	uint8_t state, kind, builtin, named_known;
	size_t  size;
	int   (*init)(void *, const void *);
	void  (*fini)(void *);
	int     ops_known;
	char   *name;       /* valid when named_known; NULL = anonymous */
} entry;
static entry tab[IDMAX + 1];

static int n_basic, n_generic, n_iface, n_meta;   /* successful registrations */
static int refused_ops, accepted_ops;
static int kinds_seen;

static uint64_t ophash;
static void op_fp(uint64_t a, uint64_t b) { vf_fp_u64(a * 0x9e3779b97f4a7c15ULL ^ b); ophash++; }

/* ---------------------------------------------------------------- names -- */
static char *xstrdup(const char *s)
{
	size_t n = strlen(s) + 1;
	char *p = malloc(n);
	if (!p) vf_inconclusive("out of memory");
	memcpy(p, s, n);
	return p;
}
static int name_eq(const char *a, const char *b)
{
	if (!a || !b) return a == b;
	return !strcmp(a, b);
}
static const char *alias_of(const char *s)
{
	if (!strcmp(s, "log")) return "logger";
	if (!strcmp(s, "iter")) return "iterator";
	if (!strcmp(s, "out")) return "output";
	if (!strcmp(s, "meta")) return "metatype";
	return 0;
}
/* name of a built-in known from outside the registry implementation
 * (alias table of mpt_named_traits, examples/cxx/types.cpp) */
static const char *documented_name(int id)
{
	switch (id) {
	case MPT_ENUM(TypeConvertablePtr): return "convertable";
	case MPT_ENUM(TypeLoggerPtr):      return "logger";
	case MPT_ENUM(TypeOutputPtr):      return "output";
	case MPT_ENUM(TypeIteratorPtr):    return "iterator";
	case MPT_ENUM(TypeMetaPtr):        return "metatype";
	default: return 0;
	}
}

/* -------------------------------------------------------- builtin table -- */
static void set_builtin(int id, int kind, size_t size, int plain_ops)
{
	entry *e = &tab[id];
	e->state = SPresent; e->kind = kind; e->builtin = 1; e->size = size;
	e->ops_known = plain_ops; e->init = 0; e->fini = 0;
	e->named_known = 0; e->name = 0;
}
static void model_init(void)
{
	static const struct { char id; size_t size; } sc[] = {
		{ 'c', sizeof(char) }, { 'b', sizeof(int8_t) }, { 'y', sizeof(uint8_t) },
		{ 'n', sizeof(int16_t) }, { 'q', sizeof(uint16_t) },
		{ 'i', sizeof(int32_t) }, { 'u', sizeof(uint32_t) },
		{ 'x', sizeof(int64_t) }, { 't', sizeof(uint64_t) },
		{ 'f', sizeof(float) }, { 'd', sizeof(double) },
#ifdef _MPT_FLOAT_EXTENDED_H
		{ 'e', sizeof(long double) },
#endif
		{ 's', sizeof(const char *) }
	};
	int i;
	memset(tab, 0, sizeof(tab));
	for (i = 0; i <= IDMAX; i++) tab[i].state = SUnspec;
	/* ranges in which only registration creates entries */
	for (i = MPT_ENUM(_TypeInterfaceAdd); i <= MPT_ENUM(_TypeInterfaceMax); i++) { tab[i].state = SAbsent; tab[i].kind = KIface; }
	for (i = MPT_ENUM(_TypeDynamicBase); i <= MPT_ENUM(_TypeDynamicMax); i++) { tab[i].state = SAbsent; tab[i].kind = KBasic; }
	for (i = MPT_ENUM(_TypeMetaPtrBase) + 1; i <= MPT_ENUM(_TypeMetaPtrMax); i++) { tab[i].state = SAbsent; tab[i].kind = KMeta; }
	for (i = MPT_ENUM(_TypeValueAdd); i <= MPT_ENUM(_TypeValueMax); i++) { tab[i].state = SAbsent; tab[i].kind = KGeneric; }
	/* scalars and their vectors */
	for (i = 0; i < (int) (sizeof(sc) / sizeof(*sc)); i++) {
		set_builtin(sc[i].id, KScalar, sc[i].size, 1);
		set_builtin(MPT_type_toVector(sc[i].id), KVector, sizeof(struct iovec), 1);
	}
	/* core types */
	set_builtin(MPT_ENUM(TypeUnixSocket),   KCore, sizeof(int), 1);
	set_builtin(MPT_ENUM(TypeFilePtr),      KCore, sizeof(void *), 1);
	set_builtin(MPT_ENUM(TypeAddressPtr),   KCore, sizeof(void *), 1);
	set_builtin(MPT_ENUM(TypeReplyDataPtr), KCore, sizeof(void *), 1);
	set_builtin(MPT_ENUM(TypeNodePtr),      KCore, sizeof(void *), 1);
	set_builtin(MPT_ENUM(TypeBufferPtr),    KCore, sizeof(void *), 1);
	set_builtin(MPT_ENUM(TypeValFmt),       KCore, sizeof(MPT_STRUCT(value_format)), 1);
	set_builtin(MPT_ENUM(TypeValue),        KCore, sizeof(MPT_STRUCT(value)), 1);
	set_builtin(MPT_ENUM(TypeProperty),     KCore, sizeof(MPT_STRUCT(property)), 1);
	/* interface pointers */
	for (i = MPT_ENUM(TypeConvertablePtr); i <= MPT_ENUM(TypeSolverPtr); i++) {
		set_builtin(i, KIface, sizeof(void *), 1);
	}
	set_builtin(MPT_ENUM(TypeMetaPtr), KMeta, sizeof(void *), 1);
	/* managed content: size of the C type, operations are the library's */
	set_builtin(MPT_ENUM(TypeIdentifier), KManaged, sizeof(MPT_STRUCT(identifier)), 0);
	set_builtin(MPT_ENUM(TypeMetaRef),    KManaged, sizeof(MPT_INTERFACE(metatype) *), 0);
	set_builtin(MPT_ENUM(TypeArray),      KManaged, sizeof(MPT_STRUCT(array)), 0);
	set_builtin(MPT_ENUM(TypeCommand),    KManaged, sizeof(MPT_STRUCT(command)), 0);
	/* names known from documentation */
	for (i = 0; i <= IDMAX; i++) {
		const char *n = documented_name(i);
		if (n) { tab[i].named_known = 1; tab[i].name = xstrdup(n); }
	}
	n_basic = n_generic = n_iface = n_meta = 0;
	refused_ops = accepted_ops = kinds_seen = 0;
}

/* ------------------------------------------------------- lookup monitors -- */
static void check_traits_content(uintptr_t id, const MPT_STRUCT(type_traits) *t, const char *api)
{
	entry *e = &tab[id];
	if (e->builtin) {
		VF_CHECK(t->size == e->size, "model:type_traits:builtin-size",
		         "%s(0x%zx) [%s] reports size %zu (0x%zx), C type has %zu", api, (size_t) id, kindname[e->kind], t->size, t->size, e->size);
	} else {
		VF_CHECK(t->size == e->size, "model:type_traits:size-changed",
		         "%s(0x%zx) [%s] reports size %zu, registered/first seen with %zu", api, (size_t) id, kindname[e->kind], t->size, e->size);
	}
	if (e->ops_known) {
		VF_CHECK(t->init == e->init && t->fini == e->fini, "model:type_traits:operations-changed",
		         "%s(0x%zx) [%s] init/fini differ from the registered description", api, (size_t) id, kindname[e->kind]);
	}
	vf_count("monitor:traits-compared", 1);
}
static void look_traits(uintptr_t id)
{
	const MPT_STRUCT(type_traits) *t;
	vf_at("mpt_type_traits");
	t = mpt_type_traits(id);
	vf_count("mpt_type_traits", 1);
	if (vf_logging) vf_log("type_traits(0x%zx) -> %s size=%zu", (size_t) id, t ? "traits" : "NULL", t ? t->size : 0);
	if (id > IDMAX) return;   /* private/local id space: only "does not fault" */
	entry *e = &tab[id];
	switch (e->state) {
	case SAbsent:
	case SAdoptAbsent:
		VF_CHECK(!t, e->state == SAbsent ? "model:type_traits:unregistered-id-resolves" : "model:type_traits:answer-changed",
		         "mpt_type_traits(0x%zx) [%s] returns traits (size %zu) for an id that %s", (size_t) id, kindname[e->kind],
		         t ? t->size : 0, e->state == SAbsent ? "was never handed out" : "did not resolve before");
		break;
	case SPresent:
		VF_CHECK(t, e->builtin ? "model:type_traits:builtin-missing" : "model:type_traits:registered-id-missing",
		         "mpt_type_traits(0x%zx) [%s%s] returns NULL", (size_t) id, e->builtin ? "built-in " : "registered ", kindname[e->kind]);
		if (!e->builtin && !e->size) {   /* basic type registered with size 0: adopt */
			VF_CHECK(t->size, "model:type_traits:zero-size", "mpt_type_traits(0x%zx) describes a type of size 0", (size_t) id);
			e->size = t->size;
		}
		check_traits_content(id, t, "mpt_type_traits");
		break;
	case SAdoptPresent:
		VF_CHECK(t, "model:type_traits:answer-changed", "mpt_type_traits(0x%zx) resolved before, returns NULL now", (size_t) id);
		check_traits_content(id, t, "mpt_type_traits");
		break;
	default:
		if (t) {
			e->state = SAdoptPresent; e->size = t->size; e->init = t->init; e->fini = t->fini; e->ops_known = 1;
			VF_CHECK(t->size, "model:type_traits:zero-size", "mpt_type_traits(0x%zx) describes a type of size 0", (size_t) id);
		} else {
			e->state = SAdoptAbsent;
		}
	}
}
/* named_traits record returned by a by-id or by-name lookup, or by registration */
static void check_named_record(const MPT_STRUCT(named_traits) *nt, uintptr_t id, const char *api)
{
	entry *e = &tab[id];
	VF_CHECK(nt->type == id, "model:named:record-type", "%s: record found for 0x%zx carries type 0x%zx", api, (size_t) id, (size_t) nt->type);
	VF_CHECK(nt->traits, "model:named:record-without-traits", "%s: record of 0x%zx has no traits", api, (size_t) id);
	if (e->named_known) {
		VF_CHECK(name_eq(nt->name, e->name), "model:named:name-changed", "%s: id 0x%zx is named '%s', registered/first seen as '%s'",
		         api, (size_t) id, nt->name ? nt->name : "(null)", e->name ? e->name : "(null)");
	} else {
		e->named_known = 1;
		e->name = nt->name ? xstrdup(nt->name) : 0;
	}
	check_traits_content(id, nt->traits, api);
	vf_count("monitor:named-record-compared", 1);
}
static void look_byid(uintptr_t id, int meta)
{
	const MPT_STRUCT(named_traits) *nt;
	const char *api = meta ? "mpt_metatype_traits" : "mpt_interface_traits";
	int inrange = meta ? MPT_type_isMetaPtr(id) : MPT_type_isInterface(id);
	vf_at(api);
	nt = meta ? mpt_metatype_traits(id) : mpt_interface_traits(id);
	vf_count(api, 1);
	if (vf_logging) vf_log("%s(0x%zx) -> %s", api, (size_t) id, nt ? (nt->name ? nt->name : "(anonymous)") : "NULL");
	if (!inrange) {
		VF_CHECK(!nt, "model:named:id-outside-range-resolves", "%s(0x%zx) returns a record for an id outside its range", api, (size_t) id);
		return;
	}
	entry *e = &tab[id];
	switch (e->state) {
	case SAbsent: case SAdoptAbsent:
		VF_CHECK(!nt, e->state == SAbsent ? "model:named:unregistered-id-resolves" : "model:named:answer-changed",
		         "%s(0x%zx) returns a record ('%s') for an id that does not exist", api, (size_t) id, nt && nt->name ? nt->name : "");
		break;
	case SPresent: case SAdoptPresent:
		VF_CHECK(nt, e->builtin ? "model:named:builtin-missing" : "model:named:registered-id-missing",
		         "%s(0x%zx) returns NULL for a %s id", api, (size_t) id, e->builtin ? "built-in" : "registered");
		check_named_record(nt, id, api);
		break;
	default:
		if (nt) {
			e->state = SAdoptPresent; e->kind = meta ? KMeta : KIface;
			e->size = nt->traits ? nt->traits->size : 0; e->ops_known = 0;
			check_named_record(nt, id, api);
		} else {
			e->state = SAdoptAbsent;
		}
	}
}
/* ids carrying that name according to the shadow table */
static int ids_named(const char *key, int *out, int max)
{
	int n = 0, i;
	for (i = 0; i <= IDMAX && n < max; i++) {
		entry *e = &tab[i];
		if ((e->state == SPresent || e->state == SAdoptPresent) && e->named_known && e->name && !strcmp(e->name, key)) out[n++] = i;
	}
	return n;
}
/* the names of built-in interfaces are adopted on first sight: make them known
 * before a by-name expectation is computed */
static void adopt_builtin_names(void)
{
	int i;
	for (i = MPT_ENUM(_TypeInterfaceBase); i < MPT_ENUM(_TypeInterfaceAdd); i++) {
		if (!tab[i].named_known) look_byid(i, 0);
	}
	if (!tab[MPT_ENUM(TypeMetaPtr)].named_known) look_byid(MPT_ENUM(TypeMetaPtr), 1);
}
/* lookup by name; str is NUL terminated, len < 0: whole string with aliases */
static void look_name(const char *str, int len, int force_adopt)
{
	const MPT_STRUCT(named_traits) *nt;
	char key[128];
	int ids[8], n = 0, must_null = 0;
	size_t sl = strlen(str);
	char *blk;

	if (sl >= sizeof(key)) return;
	/* builtin names other than the documented ones are only known after a by-id lookup */
	if (force_adopt) adopt_builtin_names();

	if (len < 0) {
		const char *al = alias_of(str);
		n = ids_named(str, ids, 4);
		if (al) n += ids_named(al, ids + n, 4);
		if (!sl) must_null = 1;
	} else if (!len || !sl) {
		must_null = 1;
	} else if ((size_t) len > sl) {
		n = 0;  /* text shorter than the requested name length cannot match */
	} else {
		memcpy(key, str, len); key[len] = 0;
		n = ids_named(key, ids, 8);
	}
	/* exact-size block: reads behind the terminator are reported by ASan */
	blk = vf_xalloc(sl + 1);
	memcpy(blk, str, sl + 1);
	vf_at("mpt_named_traits");
	nt = mpt_named_traits(blk, len);
	vf_count(len < 0 ? "mpt_named_traits:full" : "mpt_named_traits:limited", 1);
	if (vf_logging) vf_log("named_traits('%s', %d) -> %s type=0x%zx", str, len, nt ? "record" : "NULL", nt ? (size_t) nt->type : 0);

	if (must_null) {
		VF_CHECK(!nt, "model:named_traits:empty-name-resolves", "mpt_named_traits('%s', %d) returns type 0x%zx", str, len, nt ? (size_t) nt->type : 0);
	}
	else if (!n) {
		/* a built-in whose name was not seen yet may legitimately answer */
		int unknown_builtin = 0, i;
		for (i = MPT_ENUM(_TypeInterfaceBase); i < MPT_ENUM(_TypeInterfaceAdd); i++) if (!tab[i].named_known) unknown_builtin = 1;
		if (nt && unknown_builtin && nt->type < (uintptr_t) MPT_ENUM(_TypeInterfaceAdd) && nt->type >= (uintptr_t) MPT_ENUM(_TypeInterfaceBase)) {
			vf_count("observe:builtin-name-first-seen-by-name", 1);
		} else {
			VF_CHECK(!nt, "model:named_traits:unknown-name-resolves", "mpt_named_traits('%s', %d) returns type 0x%zx ('%s'), no such name was registered",
			         str, len, nt ? (size_t) nt->type : 0, nt && nt->name ? nt->name : "");
		}
	}
	else {
		int i, hit = 0;
		VF_CHECK(nt, "model:named_traits:registered-name-missing", "mpt_named_traits('%s', %d) returns NULL, name belongs to id 0x%x", str, len, ids[0]);
		for (i = 0; i < n; i++) if ((uintptr_t) ids[i] == nt->type) hit = 1;
		VF_CHECK(hit, "model:named_traits:wrong-entry", "mpt_named_traits('%s', %d) returns type 0x%zx ('%s'), name belongs to id 0x%x",
		         str, len, (size_t) nt->type, nt->name ? nt->name : "", ids[0]);
		check_named_record(nt, nt->type, "mpt_named_traits");
		if (n > 1) vf_count("observe:name-held-by-two-kinds", 1);
		vf_count("monitor:name-to-id", 1);
	}
	vf_xfree(blk, sl + 1);
}
/* "name [ws] : [ws] rest" descriptions */
static void look_alias(const char *name, int form)
{
	char desc[160];
	const char *end = 0;
	int ids[8], n, ret;
	size_t sl = strlen(name), dl;
	char *blk;
	size_t expect_end;

	if (sl > 100) return;
	adopt_builtin_names();
	switch (form) {
	case 0: snprintf(desc, sizeof(desc), "%s", name); break;
	case 1: snprintf(desc, sizeof(desc), "%s:sym", name); break;
	case 2: snprintf(desc, sizeof(desc), "%s : sym", name); break;
	default: snprintf(desc, sizeof(desc), "%s \t:  ", name); break;
	}
	dl = strlen(desc);
	if (form == 0) {
		const char *al = alias_of(name);
		if (strchr(name, ':')) return;
		n = ids_named(name, ids, 4);
		if (al) n += ids_named(al, ids + n, 4);
		expect_end = dl;
	} else {
		if (strchr(name, ':')) return;
		/* trailing space of the name part is not part of the name */
		while (sl && isspace((unsigned char) name[sl - 1])) sl--;
		if (sl != strlen(name)) return;
		n = sl ? ids_named(name, ids, 8) : 0;
		expect_end = (form == 1) ? sl + 1 : (form == 2) ? sl + 3 : dl;
	}
	blk = vf_xalloc(dl + 1);
	memcpy(blk, desc, dl + 1);
	vf_at("mpt_alias_typeid");
	ret = mpt_alias_typeid(blk, &end);
	vf_count("mpt_alias_typeid", 1);
	if (vf_logging) vf_log("alias_typeid('%s') -> %d", desc, ret);
	if (!n || !sl) {
		VF_CHECK(ret < 0, "model:alias_typeid:unknown-name-resolves", "mpt_alias_typeid('%s') returns 0x%x, no such name was registered", desc, ret);
	} else {
		int i, hit = 0;
		VF_CHECK(ret >= 0, "model:alias_typeid:registered-name-missing", "mpt_alias_typeid('%s') = %d, name belongs to id 0x%x", desc, ret, ids[0]);
		for (i = 0; i < n; i++) if (ids[i] == ret) hit = 1;
		VF_CHECK(hit, "model:alias_typeid:wrong-entry", "mpt_alias_typeid('%s') returns 0x%x, name belongs to id 0x%x", desc, ret, ids[0]);
		VF_CHECK(end >= blk && end <= blk + dl, "model:alias_typeid:end-outside", "mpt_alias_typeid('%s'): end pointer outside the description", desc);
		VF_CHECK((size_t) (end - blk) == expect_end, "model:alias_typeid:end-position", "mpt_alias_typeid('%s'): end at offset %zu, expected %zu", desc, (size_t) (end - blk), expect_end);
		vf_count("monitor:name-to-id", 1);
	}
	vf_xfree(blk, dl + 1);
}

static void sweep(const char *why)
{
	uintptr_t id;
	if (vf_logging) vf_log("-- sweep (%s)", why);
	for (id = 0; id <= IDMAX; id++) look_traits(id);
	for (id = MPT_ENUM(_TypeInterfaceBase) - 4; id <= (uintptr_t) MPT_ENUM(_TypeInterfaceMax) + 4; id++) look_byid(id, 0);
	for (id = MPT_ENUM(_TypeMetaPtrBase) - 4; id <= (uintptr_t) MPT_ENUM(_TypeMetaPtrMax) + 4; id++) look_byid(id, 1);
	/* every name in the table leads back to an id that carries it
	 * (large tables: built-ins, chunk boundaries and every 7th name) */
	int named = n_iface + n_meta, k = 0;
	for (id = 0; id <= IDMAX; id++) {
		entry *e = &tab[id];
		if ((e->state == SPresent || e->state == SAdoptPresent) && e->named_known && e->name && strlen(e->name) < 100) {
			int pos = (int) (id - MPT_ENUM(_TypeMetaPtrBase)) % 30;
			if (named > 200 && !e->builtin && (k++ % 7) && pos > 1 && pos < 28) continue;
			look_name(e->name, -1, 1);
			look_name(e->name, (int) strlen(e->name), 1);
		}
	}
	vf_count("monitor:sweeps", 1);
}

/* -------------------------------------------------------- registrations -- */
static int dummy_init(void *p, const void *s) { (void) p; (void) s; return 0; }
static void dummy_fini(void *p) { (void) p; }
static int dummy_init2(void *p, const void *s) { (void) p; (void) s; return 1; }

#define NGT 1800
static MPT_STRUCT(type_traits) *gtraits;   /* heap: const members */
static int gt_used;

static void new_id(const char *api, int id, int lo, int hi, int kind)
{
	VF_CHECK(id >= lo && id <= hi, "model:register:id-outside-range", "%s returned id 0x%x, range of kind %s is 0x%x..0x%x", api, id, kindname[kind], lo, hi);
	VF_CHECK(tab[id].state != SPresent && tab[id].state != SAdoptPresent, "model:register:id-handed-out-twice",
	         "%s returned id 0x%x which already denotes a %s type", api, id, kindname[tab[id].kind]);
	VF_CHECK(tab[id].state == SAbsent, "model:register:id-seen-before", "%s returned id 0x%x whose lookup state was %d", api, id, tab[id].state);
	kinds_seen |= 1 << kind;
	accepted_ops++;
}
static int op_basic(size_t size)
{
	int r;
	vf_at("mpt_type_basic_add");
	r = mpt_type_basic_add(size);
	vf_count("mpt_type_basic_add", 1);
	op_fp(1, size);
	if (vf_logging) vf_log("basic_add(%zu) -> %d (0x%x)", size, r, r);
	if (r < 0) {
		refused_ops++;
		if (n_basic < 64) vf_count("observe:refused-below-capacity", 1);
		vf_count("refused:basic", 1);
		return r;
	}
	new_id("mpt_type_basic_add", r, MPT_ENUM(_TypeDynamicBase), MPT_ENUM(_TypeDynamicMax), KBasic);
	entry *e = &tab[r];
	e->state = SPresent; e->kind = KBasic; e->size = size; e->init = 0; e->fini = 0; e->ops_known = 1;
	e->named_known = 1; e->name = 0;
	n_basic++;
	vf_max("capacity:basic", n_basic);
	look_traits(r);
	return r;
}
static int op_generic(int variant)
{
	MPT_STRUCT(type_traits) tmp = MPT_TYPETRAIT_INIT(0);
	const MPT_STRUCT(type_traits) *arg;
	int r;
	if (gt_used >= NGT) return -1;
	/* distinct description per registration */
	*((size_t *) &tmp.size) = 1 + (size_t) gt_used + (variant == 3 ? 100000 : 0);
	if (variant & 1) *((int (**)(void *, const void *)) &tmp.init) = (variant & 4) ? dummy_init2 : dummy_init;
	if (variant & 2) *((void (**)(void *)) &tmp.fini) = dummy_fini;
	if (variant == 8) *((size_t *) &tmp.size) = 0;   /* invalid: no size */
	memcpy(&gtraits[gt_used], &tmp, sizeof(tmp));
	arg = (variant == 9) ? 0 : &gtraits[gt_used];
	vf_at("mpt_type_add");
	r = mpt_type_add(arg);
	vf_count("mpt_type_add", 1);
	op_fp(2, variant);
	if (vf_logging) vf_log("type_add(size=%zu%s%s) -> %d (0x%x)", arg ? arg->size : 0, tmp.init ? ",init" : "", tmp.fini ? ",fini" : "", r, r);
	if (variant == 8 || variant == 9) {
		VF_CHECK(r < 0, "model:type_add:accepted-invalid-traits", "mpt_type_add(%s) returned 0x%x", variant == 9 ? "NULL" : "size 0", r);
		refused_ops++;
		return r;
	}
	if (r < 0) {
		refused_ops++;
		if (n_generic < 1792) vf_count("observe:refused-below-capacity", 1);
		vf_count("refused:generic", 1);
		return r;
	}
	new_id("mpt_type_add", r, MPT_ENUM(_TypeValueAdd), MPT_ENUM(_TypeValueMax), KGeneric);
	entry *e = &tab[r];
	e->state = SPresent; e->kind = KGeneric; e->size = tmp.size; e->init = tmp.init; e->fini = tmp.fini; e->ops_known = 1;
	e->named_known = 1; e->name = 0;
	gt_used++;
	n_generic++;
	vf_max("capacity:generic", n_generic);
	look_traits(r);
	return r;
}
/* interface (meta == 0) or metatype registration with optional name */
static int op_named(int meta, const char *name)
{
	const MPT_STRUCT(named_traits) *nt;
	const char *api = meta ? "mpt_type_metatype_add" : "mpt_type_interface_add";
	int ids[8], n = 0, samekind = 0, i, id;
	size_t sl = name ? strlen(name) : 0;
	char *blk = 0;

	if (name) {
		adopt_builtin_names();
		n = ids_named(name, ids, 8);
		for (i = 0; i < n; i++) if (tab[ids[i]].kind == (meta ? KMeta : KIface)) samekind = 1;
		blk = vf_xalloc(sl + 1);
		memcpy(blk, name, sl + 1);
	}
	vf_at(api);
	nt = meta ? mpt_type_metatype_add(blk) : mpt_type_interface_add(blk);
	vf_count(api, 1);
	op_fp(meta ? 4 : 3, name ? sl : 99);
	if (name) vf_fp(name, sl);
	if (vf_logging) vf_log("%s(%s%s%s) -> %s type=0x%zx", api, name ? "'" : "", name ? name : "NULL", name ? "'" : "", nt ? "record" : "NULL", nt ? (size_t) nt->type : 0);
	/* the caller's text goes away: the registry has to keep its own copy */
	if (blk) { memset(blk, '#', sl); vf_xfree(blk, sl + 1); }

	if (name && sl < 4) {
		VF_CHECK(!nt, "model:register:accepted-short-name", "%s('%s') accepted a name of %zu characters as type 0x%zx", api, name, sl, nt ? (size_t) nt->type : 0);
		vf_count("refused:short-name", 1);
		refused_ops++;
		return -1;
	}
	if (name && samekind) {
		VF_CHECK(!nt, "model:register:accepted-duplicate-name", "%s('%s') accepted as type 0x%zx, name already belongs to 0x%x", api, name, nt ? (size_t) nt->type : 0, ids[0]);
		vf_count("refused:duplicate-name", 1);
		refused_ops++;
		return -1;
	}
	if (!nt) {
		refused_ops++;
		if ((meta ? n_meta < 1791 : n_iface < 48) && !n) vf_count("observe:refused-below-capacity", 1);
		vf_count(meta ? "refused:metatype" : "refused:interface", 1);
		if (n) vf_count("observe:cross-kind-duplicate-refused", 1);
		return -1;
	}
	if (n) vf_count("observe:cross-kind-duplicate-accepted", 1);
	id = (int) nt->type;
	VF_CHECK(nt->type <= IDMAX, "model:register:id-outside-range", "%s returned id 0x%zx", api, (size_t) nt->type);
	if (meta) new_id(api, id, MPT_ENUM(_TypeMetaPtrBase) + 1, MPT_ENUM(_TypeMetaPtrMax), KMeta);
	else new_id(api, id, MPT_ENUM(_TypeInterfaceAdd), MPT_ENUM(_TypeInterfaceMax), KIface);
	entry *e = &tab[id];
	e->state = SPresent; e->kind = meta ? KMeta : KIface; e->size = sizeof(void *); e->init = 0; e->fini = 0; e->ops_known = 1;
	e->named_known = 1; e->name = name ? xstrdup(name) : 0;
	if (meta) { n_meta++; vf_max("capacity:metatype", n_meta); }
	else { n_iface++; vf_max("capacity:interface", n_iface); }
	/* what registration returned */
	VF_CHECK(name_eq(nt->name, name), "model:register:record-name", "%s('%s') returned a record named '%s'", api, name ? name : "(null)", nt->name ? nt->name : "(null)");
	check_named_record(nt, id, api);
	look_byid(id, meta);
	look_traits(id);
	if (name) look_name(name, -1, 1);
	return id;
}

/* ----------------------------------------------------------- name pool -- */
static const char *fixed_names[] = {
	"", "v", "vf", "vfa", "vfab", "vfabc", "vfabcd", "vfab.x", "vfabcdefghijklmnopqrstuvwxyz0123456789ABCD",
	"vfabcdefghijklmnopqrstuvwxyz0123456789ABC", "vfabcdefghijklmnopqrstuvwxyz0123456789A", "VFAB", "vfAB", "vf b", " vfab", "vfab ",
	"mpt.vf", "mpt.vf.input", "mpt.vf.in", "iter", "meta", "log", "out", "logg", "logger", "iterator", "output", "metatype",
	"convertable", "convertabl", "convertables", "vf:ab", "vf\xc3\xa4" "bc", "vf\x01" "ab", "basic", "mpt.input", "mpt.client"
};
#define NFIXED ((int) (sizeof(fixed_names) / sizeof(*fixed_names)))
static char rnd_name[64];
static const char *pick_name(vf_rng *r)
{
	if (vf_chance(r, 3, 5)) return fixed_names[vf_below(r, NFIXED)];
	/* generated: "vf" + up to 6 letters from a tiny alphabet -> collisions and prefixes */
	int n = vf_range(r, 0, 6), i;
	rnd_name[0] = 'v'; rnd_name[1] = 'f';
	for (i = 0; i < n; i++) rnd_name[2 + i] = "ab"[vf_below(r, 2)];
	rnd_name[2 + n] = 0;
	return rnd_name;
}
static void random_lookup(vf_rng *r)
{
	switch (vf_below(r, 10)) {
	case 0: case 1: case 2: {
		uintptr_t id;
		switch (vf_below(r, 6)) {
		case 0: id = vf_below(r, 0x100); break;
		case 1: id = MPT_ENUM(_TypeMetaPtrBase) + vf_below(r, 64); break;
		case 2: id = MPT_ENUM(_TypeValueAdd) + vf_below(r, 64); break;
		case 3: id = vf_below(r, IDMAX + 1); break;
		case 4: id = (uintptr_t) vf_u64(r); break;
		default: id = IDMAX + vf_below(r, 0x10000); break;
		}
		look_traits(id);
		break; }
	case 3: look_byid(MPT_ENUM(_TypeInterfaceBase) - 8 + vf_below(r, 80), 0); break;
	case 4: look_byid(vf_chance(r, 1, 8) ? (uintptr_t) vf_u64(r) : MPT_ENUM(_TypeMetaPtrBase) - 8 + vf_below(r, 100), 1); break;
	case 5: case 6: look_name(pick_name(r), -1, vf_chance(r, 1, 2)); break;
	case 7: case 8: {
		const char *n = pick_name(r);
		int len = (int) strlen(n);
		switch (vf_below(r, 4)) {
		case 0: break;
		case 1: len = vf_range(r, 0, len); break;
		case 2: len = len + 1; break;
		default: len = vf_range(r, 0, 8); break;
		}
		look_name(n, len, vf_chance(r, 1, 2));
		break; }
	default: look_alias(pick_name(r), vf_below(r, 4)); break;
	}
}

/* ------------------------------------------- ids derived from sizes/codes -- */
/* class of a built-in scalar id: 1 signed integer, 2 unsigned integer, 3 floating, 0 other */
static int scalar_class(int id)
{
	switch (id) {
	case 'b': case 'n': case 'i': case 'x': return 1;
	case 'y': case 'q': case 'u': case 't': return 2;
	case 'f': case 'd': case 'e': return 3;
	default: return 0;
	}
}
/* id must be a built-in scalar id of the shadow table; returns its traits */
static const MPT_STRUCT(type_traits) *builtin_scalar(const char *api, const char *what, long arg, int id)
{
	const MPT_STRUCT(type_traits) *t;
	VF_CHECK(id > 0 && id <= IDMAX && MPT_type_isScalar(id) && tab[id].state == SPresent && tab[id].builtin && tab[id].kind == KScalar,
	         what, "%s(0x%lx) returns id %d (0x%x), which is no built-in scalar type id (range 0x%x..0x%x)",
	         api, arg, id, id, MPT_ENUM(_TypeScalarBase), MPT_ENUM(_TypeScalarMax));
	vf_at("mpt_type_traits");
	t = mpt_type_traits(id);
	VF_CHECK(t, "model:type_traits:builtin-missing", "mpt_type_traits('%c') returns NULL (id from %s(0x%lx))", id, api, arg);
	check_traits_content(id, t, api);
	return t;
}
/*
 * element width of a transport value format byte, read from the documented
 * layout (message.h, enum Value): bit 0x80 byte order, bits 0x60 class
 * (0x20 unsigned, 0x40 float, 0x60 signed integer, none: big number),
 * "size = (val & 0x1f) + 1" for the three normal classes,
 * "size = ((val & 0x1f) + 1) * BigAtom" (BigAtom = 0x40) for big numbers.
 * Written with literals on purpose: independent of mpt_msgvalfmt_size().
 */
_Static_assert(MPT_MESGVAL(Unsigned) == 0x20 && MPT_MESGVAL(Float) == 0x40 && MPT_MESGVAL(Integer) == 0x60
               && MPT_MESGVAL(Normal) == 0x60 && MPT_MESGVAL(BigAtom) == 0x40 && MPT_MESGVAL(ByteOrderLittle) == 0x80,
               "format byte layout differs from the one documented in message.h");
static size_t documented_width(int fmt)
{
	size_t field = (size_t) (fmt & 0x1f) + 1;
	return (fmt & 0x60) ? field : field * 0x40;
}
/*
 * message value format codes (all 256) and byte sizes 0..17: every id derived
 * from them is refused or is a built-in scalar type of exactly that size
 */
static void check_derived_ids(void)
{
	static const char ids[] = "bnixyqutfde";
	const MPT_STRUCT(type_traits) *t;
	int fmt, i;
	size_t len;

	for (fmt = 0; fmt < 0x100; fmt++) {
		size_t size;
		int id, cls;
		vf_at("mpt_msgvalfmt_size");
		size = mpt_msgvalfmt_size((uint8_t) fmt);
		vf_count("mpt_msgvalfmt_size", 1);
		VF_CHECK(size == documented_width(fmt), "model:msgvalfmt_size:width",
		         "mpt_msgvalfmt_size(0x%02x) = %zu, the format byte (class bits 0x%02x, width field %d) stands for %zu bytes",
		         fmt, size, fmt & 0x60, fmt & 0x1f, documented_width(fmt));
		vf_count("monitor:msgvalfmt-width-compared", 1);
		vf_at("mpt_msgvalfmt_typeid");
		id = mpt_msgvalfmt_typeid((uint8_t) fmt);
		vf_count("mpt_msgvalfmt_typeid", 1);
		if (vf_logging) vf_log("msgvalfmt_typeid(0x%02x) -> %d, element size %zu", fmt, id, size);
		if (id < 0) { vf_count("refused:msgvalfmt", 1); continue; }
		t = builtin_scalar("mpt_msgvalfmt_typeid", "model:msgvalfmt_typeid:id-not-builtin-scalar", fmt, id);
		VF_CHECK(t->size == documented_width(fmt) && t->size == size, "model:msgvalfmt_typeid:size",
		         "mpt_msgvalfmt_typeid(0x%02x) = '%c' of size %zu, format element has %zu bytes (mpt_msgvalfmt_size: %zu)", fmt, id, t->size, documented_width(fmt), size);
		cls = scalar_class(id);
		switch (fmt & MPT_MESGVAL(Normal)) {
		case MPT_MESGVAL(Integer):  VF_CHECK(cls == 1, "model:msgvalfmt_typeid:kind", "signed integer format 0x%02x maps to '%c'", fmt, id); break;
		case MPT_MESGVAL(Unsigned): VF_CHECK(cls == 2, "model:msgvalfmt_typeid:kind", "unsigned integer format 0x%02x maps to '%c'", fmt, id); break;
		case MPT_MESGVAL(Float):    VF_CHECK(cls == 3, "model:msgvalfmt_typeid:kind", "floating point format 0x%02x maps to '%c'", fmt, id); break;
		default: vf_fail("model:msgvalfmt_typeid:kind", "big number format 0x%02x maps to '%c'", fmt, id);
		}
		vf_count("monitor:msgvalfmt-id-compared", 1);
	}
	/* built-in numeric id -> code -> id */
	for (i = 0; ids[i]; i++) {
		int code, back;
		vf_at("mpt_msgvalfmt_code");
		code = mpt_msgvalfmt_code(ids[i]);
		vf_count("mpt_msgvalfmt_code", 1);
		if (code < 0) { vf_count("observe:no-format-code-for-scalar", 1); continue; }
		VF_CHECK(code <= 0xff, "model:msgvalfmt_code:outside-byte", "mpt_msgvalfmt_code('%c') = 0x%x", ids[i], code);
		VF_CHECK(documented_width(code) == tab[(int) ids[i]].size && mpt_msgvalfmt_size((uint8_t) code) == tab[(int) ids[i]].size, "model:msgvalfmt_code:size",
		         "mpt_msgvalfmt_code('%c') = 0x%02x with element size %zu, type has %zu", ids[i], code, mpt_msgvalfmt_size((uint8_t) code), tab[(int) ids[i]].size);
		vf_at("mpt_msgvalfmt_typeid");
		back = mpt_msgvalfmt_typeid((uint8_t) code);
		VF_CHECK(back == ids[i], "model:msgvalfmt_code:round-trip", "mpt_msgvalfmt_code('%c') = 0x%02x, mpt_msgvalfmt_typeid(0x%02x) = %d", ids[i], code, code, back);
		vf_count("monitor:msgvalfmt-round-trip", 1);
	}
	/* integer id for a byte size: none (0 / negative), or an integer type of that size and signedness */
	for (len = 0; len <= 17; len++) {
		int sgn;
		for (sgn = 0; sgn < 2; sgn++) {
			const char *api = sgn ? "mpt_type_int" : "mpt_type_uint";
			int id;
			vf_at(api);
			id = sgn ? mpt_type_int(len) : mpt_type_uint(len);
			vf_count(api, 1);
			if (vf_logging) vf_log("%s(%zu) -> %d", api, len, id);
			if (id <= 0) { vf_count("refused:type_int", 1); continue; }
			t = builtin_scalar(api, "model:type_int:id-not-builtin-scalar", (long) len, id);
			VF_CHECK(t->size == len, "model:type_int:size", "%s(%zu) = '%c' of size %zu", api, len, id, t->size);
			VF_CHECK(scalar_class(id) == (sgn ? 1 : 2), "model:type_int:kind", "%s(%zu) = '%c'", api, len, id);
			vf_count("monitor:type_int-compared", 1);
		}
	}
}

/* ----------------------------------------------------------------- cases -- */
#define NB 24
#define NX 12
static uint64_t n_hist(void) { return vf_thorough ? 30000 : 2500; }
uint64_t vf_cases(void) { return NB + NX + n_hist(); }

/* built-in description, different first calls */
static void case_builtin(uint64_t idx, vf_rng *r)
{
	static const char *bn[] = { "convertable", "logger", "log", "iterator", "iter", "output", "out", "metatype", "meta" };
	int i;
	op_fp(0xb0, idx);
	switch (idx % 8) {
	case 0: break;
	case 1: look_traits(MPT_ENUM(TypeConvertablePtr)); break;
	case 2: look_name("logger", -1, 0); break;
	case 3: look_byid(MPT_ENUM(TypeMetaPtr), 1); break;
	case 4: look_name("meta", -1, 0); break;
	case 5: look_traits('d'); look_traits('D'); break;
	case 6: look_byid(MPT_ENUM(TypeSolverPtr), 0); break;
	default: look_alias("iterator", 1); break;
	}
	if (idx >= 8) {
		/* one registration of some kind before the built-ins are inspected */
		switch ((idx / 8) * 8 + idx % 4) {
		case 8: op_basic(24); break;
		case 9: op_named(0, 0); break;
		case 10: op_named(1, 0); break;
		case 11: op_generic(0); break;
		case 16: op_named(0, "vfabc"); break;
		case 17: op_named(1, "vfabc"); break;
		case 18: op_named(1, "logger"); break;
		default: op_named(0, "metatype"); break;
		}
	}
	for (i = 0; i < 9; i++) {
		int k = (int) ((idx + i) % 9);
		look_name(bn[k], -1, 0);
		if (vf_chance(r, 1, 2)) look_name(bn[k], (int) strlen(bn[k]), 0);
	}
	if (idx & 1) check_derived_ids();   /* before any scalar lookup initialised the tables */
	sweep("built-in");
	check_derived_ids();
	/* built-in ids by documented name */
	{
		static const struct { const char *n; int id; } want[] = {
			{ "convertable", MPT_ENUM(TypeConvertablePtr) }, { "logger", MPT_ENUM(TypeLoggerPtr) }, { "log", MPT_ENUM(TypeLoggerPtr) },
			{ "iterator", MPT_ENUM(TypeIteratorPtr) }, { "iter", MPT_ENUM(TypeIteratorPtr) }, { "output", MPT_ENUM(TypeOutputPtr) },
			{ "out", MPT_ENUM(TypeOutputPtr) }, { "metatype", MPT_ENUM(TypeMetaPtr) }, { "meta", MPT_ENUM(TypeMetaPtr) }
		};
		for (i = 0; i < 9; i++) {
			const MPT_STRUCT(named_traits) *nt;
			int ids[4];
			/* skip when a registration of this case took the name in another kind */
			if (ids_named(alias_of(want[i].n) ? alias_of(want[i].n) : want[i].n, ids, 4) != 1) continue;
			vf_at("mpt_named_traits");
			nt = mpt_named_traits(want[i].n, -1);
			VF_CHECK(nt && nt->type == (uintptr_t) want[i].id, "model:named_traits:builtin-name", "mpt_named_traits('%s') -> 0x%zx, expected 0x%x",
			         want[i].n, nt ? (size_t) nt->type : 0, want[i].id);
			vf_count("monitor:builtin-name", 1);
		}
	}
	vf_nontrivial();
	if (idx % 8 == 0) vf_sample("built-in sweep variant %d: ids 0..0x%x by id, interface/metatype records, names", (int) idx, IDMAX);
}
static int register_one(int range, int k, vf_rng *r)
{
	char nm[48];
	switch (range) {
	case 0: return op_basic((size_t) (1 + (k * 7) % 200));
	case 1: return op_generic(k % 4);
	case 2:
		if (k % 3 == 0) return op_named(0, 0);
		snprintf(nm, sizeof(nm), "vf.if.%d%s", k, (k % 5) ? "" : ".long-name-suffix-0123456789");
		return op_named(0, nm);
	default:
		if (k % 3 == 1) return op_named(1, 0);
		snprintf(nm, sizeof(nm), "vf.mt.%d%s", k, (k % 7) ? "" : ".long-name-suffix-0123456789");
		(void) r;
		return op_named(1, nm);
	}
}
static void case_exhaust(uint64_t idx, vf_rng *r)
{
	static const int cap[4] = { 64, 1792, 48, 1791 };
	static const char *rn[4] = { "basic", "generic", "interface", "metatype" };
	static const uint8_t orders[8][4] = {
		{ 0, 1, 2, 3 }, { 3, 2, 1, 0 }, { 2, 0, 3, 1 }, { 1, 3, 0, 2 },
		{ 0, 2, 1, 3 }, { 3, 1, 2, 0 }, { 2, 3, 0, 1 }, { 1, 0, 3, 2 }
	};
	int nr, i, k, total = 0;
	uint8_t order[4];
	char desc[200] = "";

	op_fp(0xe0, idx);
	if (idx < 4) { nr = 1; order[0] = (uint8_t) idx; }
	else { nr = 4; memcpy(order, orders[(idx - 4) % 8], 4); }
	/* some unrelated registrations first, so chunk positions are not aligned to the range start */
	if (idx & 1) { op_named(1, "vf.pre.meta"); op_named(0, "vf.pre.iface"); op_generic(3); op_basic(3); }

	for (i = 0; i < nr; i++) {
		int range = order[i], got = 0, fails = 0, extra;
		for (k = 0; k < cap[range] + 8; k++) {
			int ret = register_one(range, k + 1000 * i, r);
			if (ret < 0) { fails++; break; }
			got++;
			if ((k % 30) == 29 || (k % 30) == 0) random_lookup(r);   /* chunk boundaries */
		}
		VF_CHECK(fails, "model:register:range-never-exhausted", "%d registrations of kind %s accepted, range holds %d ids", got, rn[range], cap[range]);
		total += got;
		snprintf(desc + strlen(desc), sizeof(desc) - strlen(desc), "%s%s:%d", i ? " " : "", rn[range], got);
		/* the refused registration must not have disturbed anything */
		sweep("after refused registration");
		vf_count("monitor:sweep-after-exhaustion", 1);
		for (extra = 0; extra < 3; extra++) {
			int ret = register_one(range, 5000 + extra + 10 * i, r);
			if (ret >= 0) vf_count("observe:accepted-after-refusal", 1);
			/* interface range: named/anonymous/duplicate/short all must leave the table alone */
			if (range >= 2) { op_named(range == 3, "vf"); op_named(range == 3, range == 3 ? "metatype" : "logger"); }
		}
		sweep("after 3 further registrations");
		switch (range) {
		case 0: vf_count("exhausted:basic", 1); break;
		case 1: vf_count("exhausted:generic", 1); break;
		case 2: vf_count("exhausted:interface", 1); break;
		default: vf_count("exhausted:metatype", 1);
		}
	}
	for (i = 0; i < 60; i++) random_lookup(r);
	sweep("end");
	check_derived_ids();   /* with every dynamic id (0xc0..0xff) registered */
	vf_nontrivial();
	vf_sample("exhaustion %s: %d accepted registrations, then refused; full sweeps after refusal", desc, total);
}
static void case_history(uint64_t idx, vf_rng *r)
{
	int nops = vf_range(r, 40, 420), i;
	int heavy = (int) vf_below(r, 6);  /* which kind this history prefers */
	char desc[256];
	op_fp(0x41, idx);
	for (i = 0; i < nops; i++) {
		uint32_t w = vf_below(r, 100);
		if (w < 45) { random_lookup(r); continue; }
		if (w < 50) { sweep("mid"); continue; }
		int kind = (w < 75 && heavy < 4) ? heavy : (int) vf_below(r, 4);
		switch (kind) {
		case 0: op_basic(vf_chance(r, 1, 10) ? 0 : (size_t) vf_range(r, 1, 4096)); break;
		case 1: op_generic(vf_chance(r, 1, 12) ? 8 + (int) vf_below(r, 2) : (int) vf_below(r, 8)); break;
		case 2: op_named(0, vf_chance(r, 1, 4) ? 0 : pick_name(r)); break;
		default: op_named(1, vf_chance(r, 1, 4) ? 0 : pick_name(r)); break;
		}
	}
	sweep("end");
	if (accepted_ops >= 3 && refused_ops >= 1 && __builtin_popcount(kinds_seen) >= 2) vf_nontrivial();
	snprintf(desc, sizeof(desc), "history of %d ops: registered basic=%d generic=%d interface=%d metatype=%d, refused=%d; sweep at end",
	         nops, n_basic, n_generic, n_iface, n_meta, refused_ops);
	if (idx % 5 == 0) vf_sample("%s", desc);
}

void vf_case(uint64_t idx, vf_rng *r)
{
	if (!gtraits && !(gtraits = calloc(NGT, sizeof(*gtraits)))) vf_inconclusive("out of memory");
	/* the registry cannot be reset: one history per process */
	static int ran;
	if (ran++) vf_inconclusive("c06_registry needs batch=1 (one case per process)");
	model_init();
	if (idx < NB) { case_builtin(idx, r); return; }
	idx -= NB;
	if (idx < NX) { case_exhaust(idx, r); return; }
	case_history(idx - NX, r);
}
