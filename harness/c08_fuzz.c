/*
 * C08 (thorough tier): coverage-guided documents through the monitored parser
 * drivers of c08_parse.c (same oracles: callback bound, sanitizers, tree
 * snapshot on failure, event nesting).  Input layout: byte 0 format string
 * index (or bytes 3.. up to the first NUL as format string when byte 0 is
 * 0xff), byte 1 section name flags, byte 2 option name flags, rest document.
 */
#define vf_name c08_parse_vf_name
#define vf_cases c08_parse_vf_cases
#define vf_case c08_parse_vf_case
#include "c08_parse.c"
#undef vf_name
#undef vf_cases
#undef vf_case

const char *vf_name = "c08_fuzz";
uint64_t vf_cases(void) { return 0; }
void vf_case(uint64_t idx, vf_rng *r) { (void) idx; (void) r; }

static const char *const fz_formats[] = {
	"{*} =;!# `", "[*] = ", "[*] = !", "{*} =;!#", "[ ] = #", "{*} =;#! '\"",
	"{x} =;#", "{x} = #", "|x| = #", "|x| =;#", "(x) :,!", "[ ] =;#", "[ [ = #",
	"<_> = #", "<_> =;#", "<_>  ;#", "{*}>=;#", "{x}>=;#", "[ ]>= #", "{*}  ;#", "{*}   #", "{*} = "
};
#define FZ_N (sizeof(fz_formats) / sizeof(*fz_formats))

int LLVMFuzzerTestOneInput(const uint8_t *data, size_t size)
{
	testcase tc;
	vf_rng rng;
	uint64_t h = 0xcbf29ce484222325ULL;
	size_t off = 3;

	if (size < 4) return 0;
	memset(&tc, 0, sizeof(tc));
	if (data[0] == 0xff) {
		size_t n = 0;
		while (off < size && data[off] && n < sizeof(tc.f.str) - 1) tc.f.str[n++] = (char) data[off++];
		if (off < size) off++;
	} else {
		strcpy(tc.f.str, fz_formats[data[0] % FZ_N]);
	}
	vf_at("mpt_parse_format");
	tc.f.type = mpt_parse_format(&tc.f.pf, tc.f.str);
	vf_at("mpt_parse_next_fcn");
	tc.f.next = mpt_parse_next_fcn(tc.f.type);
	tc.sect = data[1] == 0xff ? 0xff : data[1] & 0x3f;
	tc.opt = data[2] == 0xff ? 0xff : data[2] & 0x3f;
	/* document in an exact-size block of its own */
	tc.doc.n = size - off;
	tc.doc.d = vf_xalloc(tc.doc.n);
	memcpy(tc.doc.d, data + off, tc.doc.n);
	tc.pristine = 0;
	snprintf(tc.desc, sizeof(tc.desc), "fuzz fmt=\"%s\" sect=%x opt=%x doc[%zu]", tc.f.str, tc.sect, tc.opt, tc.doc.n);
	for (size_t i = 0; i < size; i++) { h ^= data[i]; h *= 0x100000001b3ULL; }
	vf_seed_rng(&rng, h, size);
	if (tc.f.next) {
		drive_config(&tc, &rng);
		if (data[1] & 0x40) drive_loop(&tc, &rng);
	}
	if (!tc.f.next || (data[2] & 0x40)) drive_node(&tc, &rng);
	vf_count("fuzz:documents", 1);
	vf_xfree(tc.doc.d, tc.doc.n);
	return 0;
}
