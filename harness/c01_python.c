/*
 * C01 (Python client leg): frames produced by the encoders of the bundled
 * Python client ($VERIF_REPO/mpt.py: encode_cobs, encode_command) must be
 * well shaped and decode - reference decoder and the library's C decoders -
 * to the message that was encoded.
 *
 * The Python functions run in a co-process (harness/c01_pyenc.py) started
 * once per harness process; a case is still a pure function of (seed, index):
 * the co-process is a stateless function message -> frame.
 *
 * Cases: [0, R) non-zero ramp of every length 0..R-1 through encode_cobs;
 * then PRNG structured messages, 3/4 through encode_cobs, 1/4 zero-free text
 * through encode_command.
 */
#define _GNU_SOURCE
#include <stdlib.h>
#include <unistd.h>
#include <signal.h>
#include <sys/uio.h>

#include "convert.h"

#include "vf.h"
#include "c01_refcodec.h"
#include "c01_gen.h"
#include "c03_driver.h"

const char *vf_name = "c01_python";

#define MAXMSG 1100
static FILE *py_in, *py_out;
static char line[8 * MAXMSG];
static char hx1[700], hx2[700];

static void py_start(void)
{
	int a[2], b[2];
	pid_t pid;
	const char *dir = getenv("VERIF_DIR");
	char script[1024];

	if (!dir) vf_inconclusive("VERIF_DIR not set: cannot locate harness/c01_pyenc.py");
	snprintf(script, sizeof(script), "%s/harness/c01_pyenc.py", dir);
	signal(SIGPIPE, SIG_IGN);
	if (pipe(a) < 0 || pipe(b) < 0) vf_inconclusive("pipe failed");
	if ((pid = fork()) < 0) vf_inconclusive("fork failed");
	if (!pid) {
		dup2(a[0], 0); dup2(b[1], 1);
		close(a[0]); close(a[1]); close(b[0]); close(b[1]);
		unsetenv("LD_PRELOAD");
		execlp("python3", "python3", script, (char *) 0);
		_exit(127);
	}
	close(a[0]); close(b[1]);
	py_in = fdopen(a[1], "w");
	py_out = fdopen(b[0], "r");
	if (!py_in || !py_out || !fgets(line, sizeof(line), py_out) || strncmp(line, "ready", 5)) {
		vf_inconclusive("python co-process did not start (python3 %s, VERIF_REPO=%s): %s", script, getenv("VERIF_REPO") ? getenv("VERIF_REPO") : "?", line);
	}
}
/* returns frame length, or -1 when the encoder raised */
static long py_encode(const char *kind, const uint8_t *m, size_t n, uint8_t *frame, size_t max)
{
	static const char hx[] = "0123456789abcdef";
	size_t i, l;
	if (!py_in) py_start();
	fputs(kind, py_in); fputc(' ', py_in);
	if (!n) fputc('-', py_in);
	for (i = 0; i < n; i++) { fputc(hx[m[i] >> 4], py_in); fputc(hx[m[i] & 15], py_in); }
	fputc('\n', py_in);
	fflush(py_in);
	if (!fgets(line, sizeof(line), py_out)) vf_inconclusive("python co-process closed its output");
	l = strlen(line);
	while (l && (line[l - 1] == '\n' || line[l - 1] == '\r')) line[--l] = 0;
	if (!strncmp(line, "err ", 4)) return -1;
	if (strncmp(line, "ok ", 3)) vf_inconclusive("unexpected reply of python co-process: %.80s", line);
	if (!strcmp(line + 3, "-")) return 0;
	l -= 3;
	if (l % 2 || l / 2 > max) vf_inconclusive("bad frame reply length %zu", l);
	for (i = 0; i < l / 2; i++) {
		unsigned v;
		if (sscanf(line + 3 + 2 * i, "%2x", &v) != 1) vf_inconclusive("bad hex in reply");
		frame[i] = (uint8_t) v;
	}
	return (long) (l / 2);
}

static uint64_t n_ramp(void) { return vf_thorough ? 1021 : 601; }
static uint64_t n_rand(void) { return vf_thorough ? 40000 : 1800; }
uint64_t vf_cases(void) { return n_ramp() + n_rand(); }

void vf_case(uint64_t idx, vf_rng *r)
{
	static uint8_t msg[MAXMSG], frame[2 * MAXMSG], dec[2 * (2 * MAXMSG) + 8];
	size_t n, dl = 0;
	int fmt = RC_COBS, v;
	long fl;
	const char *fn;
	char key[120];
	dd_sched sc;
	dd_result res;

	if (idx < n_ramp()) {
		n = (size_t) idx;
		for (size_t i = 0; i < n; i++) msg[i] = (uint8_t) (i % 255 + 1);
		vf_count("cases:ramp-every-length", 1);
	} else {
		if (vf_chance(r, 1, 4)) fmt = RC_CMD;
		n = gen_message(r, fmt, msg, 1000);
		vf_count("cases:prng", 1);
	}
	fn = (fmt == RC_CMD) ? "encode_command" : "encode_cobs";
	vf_fp_u64(fmt); vf_fp(msg, n);
	if (n && (fmt == RC_CMD || memchr(msg, 0, n) || n >= 254)) vf_nontrivial();
	vf_at(fmt == RC_CMD ? "mpt.py:encode_command" : "mpt.py:encode_cobs");
	vf_count(fmt == RC_CMD ? "mpt.py:encode_command" : "mpt.py:encode_cobs", 1);
	fl = py_encode(fmt == RC_CMD ? "command" : "cobs", msg, n, frame, sizeof(frame));
	if (vf_logging) vf_log("%s(%zu bytes %s) -> %ld bytes %s", fn, n, vf_hex(hx1, sizeof(hx1), msg, n), fl, fl > 0 ? vf_hex(hx2, sizeof(hx2), frame, (size_t) fl) : "");

	snprintf(key, sizeof(key), "model:mpt.py:%s:raised", fn);
	VF_CHECK(fl >= 0, key, "%s raised %s for the admissible %zu byte message %s", fn, line + 4, n, vf_hex(hx1, sizeof(hx1), msg, n));
	snprintf(key, sizeof(key), "model:mpt.py:%s:frame-shape", fn);
	VF_CHECK(rc_frame_shape_ok(frame, (size_t) fl), key, "frame of %ld bytes for a %zu byte message is not <zero-free bytes> 00: frame=%s msg=%s",
	         fl, n, vf_hex(hx1, sizeof(hx1), frame, (size_t) fl), vf_hex(hx2, sizeof(hx2), msg, n));
	v = rc_decode(fmt, frame, (size_t) fl - 1, dec, &dl);
	snprintf(key, sizeof(key), "model:mpt.py:%s:reference-decode-differs", fn);
	if (fmt == RC_CMD) {
		VF_CHECK(v == RC_OK && dl == n + 2 && !memcmp(dec + 2, msg, n), key, "frame %s for text %s", vf_hex(hx1, sizeof(hx1), frame, (size_t) fl), vf_hex(hx2, sizeof(hx2), msg, n));
	} else {
		VF_CHECK(v == RC_OK && dl == n && !memcmp(dec, msg, n), key, "reference decoder: verdict %d, %zu bytes %s; message %zu bytes %s; frame %ld bytes %s",
		         v, dl, vf_hex(hx1, 200, dec, dl), n, vf_hex(hx2, 200, msg, n), fl, vf_hex(hx1 + 210, 400, frame, (size_t) fl));
	}
	vf_count("monitor:frame-shape+reference-decode", 1);
	/* the library's decoder on the Python frame (dd_run compares with the reference = message) */
	for (int k = 0; k < 2; k++) {
		memset(&sc, 0, sizeof(sc));
		sc.fmt = fmt; sc.mbk = 8;
		sc.slack = (fmt == RC_CMD) ? 2 : 0;
		if (k == 0) sc.deliver = DD_ONESHOT;
		else { sc.deliver = (n > 400 && !vf_thorough) ? DD_CUTS : DD_BYTEWISE; sc.frag = 1; sc.slack += (int) vf_below(r, 9); }
		dd_run(&sc, frame, (size_t) fl, r, 1, &res);
		snprintf(key, sizeof(key), "model:mpt.py:%s:c-decoder-result", fn);
		VF_CHECK(res.messages == 1 && !res.errors, key, "C decoder %s on the Python frame: %u messages, %u errors (last return %d); frame=%s",
		         dd_api[fmt], res.messages, res.errors, res.last_ret, vf_hex(hx1, sizeof(hx1), frame, (size_t) fl));
		vf_count("monitor:python-frame-through-c-decoder", 1);
	}
	vf_sample("mpt.py %s(%zu bytes %s) -> frame of %ld bytes, decoded by %s", fn, n, vf_hex(hx1, 60, msg, n), fl, dd_api[fmt]);
}
