/*
 * C07 (multi-element leg): sources of several elements consumed one by one
 * with mpt_iterator_consume() by the library's multi-value setters
 *   mpt_fpoint_set()  two 'f' coordinates, a single element stands for both
 *   mpt_range_set()   two 'd' limits
 * Sources: a harness iterator over typed scalar elements, the library's
 * mpt_iterator_string() over words, mpt_iterator_values() over numerals.
 *
 * Oracle (c07_oracle.h): an accepted assignment stores for every element the
 * exact value / the round-to-nearest image of that element; an element that is
 * present but is no number or lies outside the target type must not be
 * replaced by another number (the assignment has to be refused); only a
 * missing second element lets mpt_fpoint_set() use the first one twice; a
 * refused assignment leaves the target unchanged.
 */
#include <stdlib.h>
#include <sys/uio.h>

#include "types.h"
#include "convert.h"
#include "meta.h"
#include "values.h"

#include "c07_oracle.h"

const char *vf_name = "c07_multi";

#define MAXEL 4
typedef struct {
	int type;            /* scalar type of a typed element, 0 for a word */
	uint8_t raw[16];
	char word[64];
	num v;               /* the number the element denotes */
	int notnum;          /* element denotes no number at all */
	int unsure;          /* decimal text: only its magnitude class is used (it is far outside the target) */
} elem;

/* ---------------------------------------------------- harness iterator -- */
struct hsrc {
	MPT_INTERFACE(convertable) conv;
	MPT_INTERFACE(iterator) it;
	MPT_STRUCT(value) val;
	const elem *el;
	int n, pos;
	int advances;
};
static struct hsrc *from_it(MPT_INTERFACE(iterator) *it) { return (struct hsrc *) ((char *) it - offsetof(struct hsrc, it)); }
static const MPT_STRUCT(value) *h_value(MPT_INTERFACE(iterator) *it)
{
	struct hsrc *h = from_it(it);
	if (h->pos >= h->n) return 0;
	h->val._type = (MPT_TYPE(type)) h->el[h->pos].type;
	h->val._addr = h->el[h->pos].raw;
	return &h->val;
}
static int h_advance(MPT_INTERFACE(iterator) *it)
{
	struct hsrc *h = from_it(it);
	if (h->pos >= h->n) return MPT_ERROR(MissingData);
	h->advances++;
	return (++h->pos < h->n) ? h->el[h->pos].type : 0;
}
static int h_reset(MPT_INTERFACE(iterator) *it) { from_it(it)->pos = 0; return from_it(it)->n; }
static const MPT_INTERFACE_VPTR(iterator) h_it_vptr = { h_value, h_advance, h_reset };
static int h_convert(MPT_INTERFACE(convertable) *c, MPT_TYPE(type) type, void *dest)
{
	struct hsrc *h = (struct hsrc *) c;
	if (!type) {
		static const uint8_t fmt[] = { MPT_ENUM(TypeIteratorPtr), 0 };
		if (dest) *((const uint8_t **) dest) = fmt;
		return MPT_ENUM(TypeIteratorPtr);
	}
	if (type == MPT_ENUM(TypeIteratorPtr)) {
		if (dest) *((void **) dest) = &h->it;
		return MPT_ENUM(TypeIteratorPtr);
	}
	return MPT_ERROR(BadType);
}
static const MPT_INTERFACE_VPTR(convertable) h_conv_vptr = { h_convert };

/* ------------------------------------------------------------- elements -- */
static void typed_elem(elem *e, vf_rng *r)
{
	static const char types[] = "bynqiuxtfde";
	int t = types[vf_below(r, 11)];
	memset(e, 0, sizeof(*e));
	e->type = t;
	if (!is_float(t)) {
		i128 lo, hi, c;
		irange(t, &lo, &hi);
		switch (vf_below(r, 5)) {
		case 0: c = vf_range(r, -5, 5); break;
		case 1: c = ((i128) 1 << 24) + vf_range(r, -2, 3); break;
		case 2: c = vf_chance(r, 1, 2) ? hi - (i128) vf_below(r, 3) : lo + (i128) vf_below(r, 3); break;
		case 3: c = ((i128) 1 << 53) + vf_range(r, -2, 3); break;
		default: c = (i128) (vf_u64(r) >> vf_below(r, 64)); if (vf_chance(r, 1, 2)) c = -c;
		}
		if (c < lo) c = lo;
		if (c > hi) c = hi;
		switch (tsize(t)) {
		case 1: { int8_t x = (int8_t) c; memcpy(e->raw, &x, 1); break; }
		case 2: { int16_t x = (int16_t) c; memcpy(e->raw, &x, 2); break; }
		case 4: { int32_t x = (int32_t) c; memcpy(e->raw, &x, 4); break; }
		default: { uint64_t x = (uint64_t) c; memcpy(e->raw, &x, 8); }
		}
	} else {
		static const long double sp[] = { 0.0L, 0.5L, -1.25L, 1e10L, 16777217.0L, 1e38L, 3.5e38L, 1e39L, -1e40L, 1e300L, -1e300L, 1e308L, 1.8e308L, 1e400L, -1e4000L, 1e-50L, 1e-320L };
		long double c;
		switch (vf_below(r, 6)) {
		case 0: c = sp[vf_below(r, sizeof(sp) / sizeof(*sp))]; break;
		case 1: c = (long double) FLT_MAX + ldexpl((long double) vf_range(r, -3, 3), 102); break;
		case 2: c = (long double) DBL_MAX + ldexpl((long double) vf_range(r, -3, 3), 969); break;
		case 3: c = vf_chance(r, 1, 3) ? (long double) NAN : vf_chance(r, 1, 2) ? (long double) INFINITY : -(long double) INFINITY; break;
		case 4: c = (long double) vf_range(r, -1000, 1000) / 8.0L; break;
		default: c = ldexpl((long double) (vf_u64(r) | 1), vf_range(r, -1140, 1000)); if (vf_chance(r, 1, 2)) c = -c;
		}
		switch (t) {
		case 'f': { float x = (float) c; memcpy(e->raw, &x, sizeof(x)); break; }
		case 'd': { double x = (double) c; memcpy(e->raw, &x, sizeof(x)); break; }
		default: memcpy(e->raw, &c, sizeof(c));
		}
	}
	e->v = rd(t, e->raw);
}
/* word denoting a number exactly (decimal integer / hexadecimal floating), or a word that is none */
static void word_elem(elem *e, vf_rng *r, int numeric_only)
{
	/* words without any numeric prefix (a numeral followed by garbage is consumed as the numeral: the string
	 * iterator continues behind the characters reported as consumed, cf. the text leg) */
	static const char *junk[] = { "abc", "x1", "--1", "+-2", ",", "one", "e5", "#3" };
	/* decimal texts far outside float (first three) and double range */
	static const char *big[] = { "1e40", "-1e39", "1e300", "1e400", "-1e4000" };
	memset(e, 0, sizeof(*e));
	switch (vf_below(r, numeric_only ? 6 : 8)) {
	case 0: case 1: {
		i128 c = (i128) (vf_u64(r) >> vf_below(r, 64));
		if (vf_chance(r, 1, 3)) c = -c;
		if (vf_chance(r, 1, 4)) c = ((i128) 1 << 24) + vf_range(r, -2, 3);
		e->v.cls = NInt; e->v.i = c; e->v.f = (long double) c;
		i128str(e->word, sizeof(e->word), c);
		break; }
	case 2: case 3: {
		long double c = ldexpl((long double) (vf_u64(r) >> vf_below(r, 60)), vf_range(r, -80, 40));
		if (vf_chance(r, 1, 3)) c = -c;
		if (vf_chance(r, 1, 4)) c = (long double) FLT_MAX + ldexpl((long double) vf_range(r, -3, 3), 102);
		e->v.cls = NFin; e->v.f = c;
		snprintf(e->word, sizeof(e->word), "%La", c);
		break; }
	case 4: {
		long double c = (long double) vf_range(r, -4000, 4000) / 16.0L;
		e->v.cls = NFin; e->v.f = c;
		snprintf(e->word, sizeof(e->word), "%.4Lf", c);   /* sixteenths: exact with 4 decimals */
		break; }
	case 5: {
		const char *w = big[vf_below(r, 5)];
		snprintf(e->word, sizeof(e->word), "%s", w);
		e->v.cls = NFin; e->v.f = strtold(w, 0); e->unsure = 1;
		break; }
	default:
		snprintf(e->word, sizeof(e->word), "%s", junk[vf_below(r, 8)]);
		e->notnum = 1;
	}
}

/* ------------------------------------------------------------ judgement -- */
static c07_stats jst;
static uint64_t n_elem_judged;
/* element e was accepted into a target of floating type t holding *dest */
static void judge_elem(const char *fn, const char *ctx, const elem *e, int k, int t, const void *dest)
{
	char c2[400], nb[80];
	snprintf(c2, sizeof(c2), "%s, element %d %s%s%s", ctx, k + 1, e->type ? "" : "'", e->type ? numstr(nb, e->v) : e->word, e->type ? "" : "'");
	if (e->notnum) vf_fail(c07_key(fn, "non-number-accepted"), "%s: is no number, the assignment succeeded", c2);
	if (e->unsure) {
		/* decimal text whose exact value is not tracked: it is far outside the type when its image overflows */
		if (isinf(fround(t, e->v.f))) vf_fail(c07_key(fn, "saturated"), "%s: lies outside the range of the target type '%c', the assignment succeeded", c2, t);
		return;
	}
	c07_judge(fn, c2, e->v, t, dest, 1, &jst);
	n_elem_judged++;
}

/* ----------------------------------------------------------------- cases -- */
enum { SrcTyped, SrcString, SrcValues, NSRCKIND };
static const char *srcname[] = { "typed elements", "mpt_iterator_string", "mpt_iterator_values" };

uint64_t vf_cases(void) { return vf_thorough ? 60000 : 4000; }

static void one_assignment(vf_rng *r, int consumer)
{
	elem el[MAXEL];
	struct hsrc h;
	MPT_INTERFACE(metatype) *mt = 0;
	MPT_INTERFACE(convertable) *src;
	MPT_INTERFACE(iterator) *it = 0;
	int kind = (int) vf_below(r, NSRCKIND), n = vf_range(r, 0, 3), i, ret;
	char text[300] = "", ctx[360];
	const char *fn = consumer ? "range_set" : "fpoint_set";

	if (vf_chance(r, 3, 4)) n = vf_range(r, 1, 2);
	for (i = 0; i < n; i++) {
		if (kind == SrcTyped) typed_elem(&el[i], r);
		else word_elem(&el[i], r, kind == SrcValues);
		if (kind != SrcTyped) snprintf(text + strlen(text), sizeof(text) - strlen(text), "%s%s", i ? " " : "", el[i].word);
	}
	if (kind == SrcTyped) {
		memset(&h, 0, sizeof(h));
		h.conv._vptr = &h_conv_vptr; h.it._vptr = &h_it_vptr; h.el = el; h.n = n;
		src = &h.conv; it = &h.it;
		for (i = 0; i < n; i++) snprintf(text + strlen(text), sizeof(text) - strlen(text), "%s%c", i ? " " : "", el[i].type);
	} else {
		char *blk = vf_xalloc(strlen(text) + 1);
		memcpy(blk, text, strlen(text) + 1);
		vf_at(kind == SrcString ? "mpt_iterator_string" : "mpt_iterator_values");
		mt = kind == SrcString ? mpt_iterator_string(blk, 0) : mpt_iterator_values(blk);
		vf_xfree(blk, strlen(text) + 1);
		if (!mt) { vf_count("observe:source-not-created", 1); return; }
		src = (MPT_INTERFACE(convertable) *) mt;
		if (MPT_metatype_convert(mt, MPT_ENUM(TypeIteratorPtr), &it) < 0 || !it) { mt->_vptr->unref(mt); vf_count("observe:source-without-iterator", 1); return; }
	}
	snprintf(ctx, sizeof(ctx), "mpt_%s from %s [%s]", fn, srcname[kind], text);
	vf_fp(text, strlen(text)); vf_fp_u64((uint64_t) kind * 4 + (uint64_t) consumer);
	for (i = 0; i < n; i++) vf_fp(el[i].raw, 16);

	if (!consumer) {
		MPT_STRUCT(fpoint) *pt = vf_xalloc(sizeof(*pt));
		const float sx = -77.25f, sy = -78.5f;
		pt->x = sx; pt->y = sy;
		vf_at("mpt_fpoint_set");
		ret = mpt_fpoint_set(pt, src, 0);
		vf_count("mpt_fpoint_set", 1);
		if (vf_logging) vf_log("%s -> %d, point (%a, %a)", ctx, ret, pt->x, pt->y);
		if (ret < 0) {
			VF_CHECK(pt->x == sx && pt->y == sy, "model:fpoint_set:refused-changed-target", "%s: refused (%d) but the point is now (%g, %g)", ctx, ret, pt->x, pt->y);
			vf_count("eval:assignment-refused", 1);
		} else if (n >= 1) {
			judge_elem(fn, ctx, &el[0], 0, 'f', &pt->x);
			if (n >= 2) {
				/* a second element is present: it may be refused, it may not be replaced */
				judge_elem(fn, ctx, &el[1], 1, 'f', &pt->y);
				vf_count("monitor:second-element-compared", 1);
			} else {
				VF_CHECK(pt->y == pt->x || (isnan(pt->x) && isnan(pt->y)), "model:fpoint_set:single-value-not-used-for-both",
				         "%s: accepted (%d), point is (%g, %g)", ctx, ret, pt->x, pt->y);
				vf_count("monitor:single-element-used-twice", 1);
			}
			vf_count("eval:assignment-accepted", 1);
		}
		vf_xfree(pt, sizeof(*pt));
	} else {
		MPT_STRUCT(range) *rg = vf_xalloc(sizeof(*rg));
		MPT_STRUCT(value) val = MPT_VALUE_INIT(MPT_ENUM(TypeIteratorPtr), 0);
		const double smin = -77.25, smax = -78.5;
		val._addr = &it;
		rg->min = smin; rg->max = smax;
		vf_at("mpt_range_set");
		ret = mpt_range_set(rg, &val);
		vf_count("mpt_range_set", 1);
		if (vf_logging) vf_log("%s -> %d, range (%a, %a)", ctx, ret, rg->min, rg->max);
		if (ret < 0) {
			VF_CHECK(rg->min == smin && rg->max == smax, "model:range_set:refused-changed-target", "%s: refused (%d) but the range is now (%g, %g)", ctx, ret, rg->min, rg->max);
			vf_count("eval:assignment-refused", 1);
		} else {
			/* both limits are taken from the source: two elements must have been there */
			VF_CHECK(n >= 2, "model:range_set:missing-element-accepted", "%s: accepted (%d) with %d element(s), range (%g, %g)", ctx, ret, n, rg->min, rg->max);
			judge_elem(fn, ctx, &el[0], 0, 'd', &rg->min);
			judge_elem(fn, ctx, &el[1], 1, 'd', &rg->max);
			vf_count("monitor:second-element-compared", 1);
			vf_count("eval:assignment-accepted", 1);
		}
		vf_xfree(rg, sizeof(*rg));
	}
	switch (kind) {
	case SrcTyped: vf_count("source:typed-elements", 1); break;
	case SrcString: vf_count("source:mpt_iterator_string", 1); break;
	default: vf_count("source:mpt_iterator_values", 1);
	}
	if (mt) mt->_vptr->unref(mt);
}

void vf_case(uint64_t idx, vf_rng *r)
{
	uint64_t before = n_elem_judged;
	int i, n = 40;
	for (i = 0; i < n; i++) one_assignment(r, (int) vf_below(r, 3) == 0);
	vf_count("monitor:element-value-compared", n_elem_judged - before);
	if (n_elem_judged - before >= 5) vf_nontrivial();
	if (idx % 211 == 7) vf_sample("%d assignments (mpt_fpoint_set / mpt_range_set) from typed, string and values sources of 0..3 elements; %llu accepted element values compared",
	                              n, (unsigned long long) (n_elem_judged - before));
}
