/*
 * C12 leg (c): the reply protocol end to end through mpt_stream_input on a
 * socketpair.
 *
 * The harness is the peer: it writes COBS framed requests [id bytes][serial,
 * payload] (also [id bytes] alone: empty payload) into one end, drives the input (next(POLLIN), dispatch, next(POLLOUT))
 * on the other end and decodes every frame that comes back.  The event
 * handler answers each request 0, 1 or 2 times through ev->reply.
 *
 * Oracle: every frame received by the peer carries the id of an outstanding
 * request with the reply bit set; at most one frame per request; a second
 * reply attempt inside the handler is refused; at the end every request with
 * a non-zero id has exactly one reply (explicit or the default one), requests
 * with id zero have none.
 */
#include <stdlib.h>
#include <unistd.h>
#include <fcntl.h>
#include <errno.h>
#include <poll.h>
#include <inttypes.h>
#include <sys/uio.h>
#include <sys/socket.h>

#include "meta.h"
#include "types.h"
#include "message.h"
#include "convert.h"
#include "event.h"
#include "connection.h"
#include "notify.h"
#include "stream.h"
#include "vf.h"

const char *vf_name = "c12_stream";

#define MAXREQ 48
#define MAXID  9
struct request {
	uint8_t id[MAXID];
	int zero;          /* id is all zero: no reply wanted */
	int replies_plan;  /* explicit reply attempts of the handler: 0, 1, 2 */
	int handler_ret;   /* value the handler returns */
	int handled;       /* handler invocations */
	int replies_seen;  /* frames received by the peer */
	int first_ret, second_ret;
	uint8_t payload[24];
	size_t plen;
};
static struct request reqs[MAXREQ];
static int nreq;
static size_t idlen;
static char hx1[200], hx2[200];

/* -------------------------------------------------------------- COBS (peer) */
static size_t cobs_encode(const uint8_t *src, size_t len, uint8_t *dst)
{
	size_t o = 1, code_at = 0;
	uint8_t code = 1;
	for (size_t i = 0; i < len; i++) {
		if (src[i]) { dst[o++] = src[i]; code++; }
		if (!src[i] || code == 0xff) {
			dst[code_at] = code;
			code = 1;
			code_at = o++;
		}
	}
	dst[code_at] = code;
	dst[o++] = 0;
	return o;
}
static long cobs_decode(const uint8_t *src, size_t len, uint8_t *dst)
{
	size_t o = 0, i = 0;
	while (i < len) {
		uint8_t code = src[i++];
		if (!code) return -1;
		for (uint8_t k = 1; k < code; k++) {
			if (i >= len) return -1;
			dst[o++] = src[i++];
		}
		if (code < 0xff && i < len) dst[o++] = 0;
	}
	return (long) o;
}

/* ------------------------------------------------------------------ handler */
static int handler_calls;
static int hnd(void *arg, MPT_STRUCT(event) *ev)
{
	MPT_STRUCT(message) m;
	uint8_t serial;
	struct request *q;
	(void) arg;
	vf_count("callback:handler", 1);
	if (!ev) return 0;
	handler_calls++;
	VF_CHECK(ev->msg != 0, "model:stream:event-without-message", "handler invoked without message");
	m = *ev->msg;
	{
		/* requests carry their serial in the first payload byte; a request that consists of the id only is
		 * recognised by its empty payload: it is the oldest id-only request not yet dispatched (frames of one
		 * stream arrive in order) */
		uint8_t body[40];
		size_t n = mpt_message_read(&m, sizeof(body), body);
		if (!n) {
			int found = -1;
			for (int i = 0; i < nreq; i++) if (!reqs[i].plen && !reqs[i].handled) { found = i; break; }
			VF_CHECK(found >= 0, "model:stream:payload", "handler received an empty message although no id-only request is outstanding");
			serial = (uint8_t) found;
			vf_count("request:id-only-dispatched", 1);
		} else {
			serial = body[0];
			VF_CHECK(serial < nreq, "model:stream:payload", "handler received a message that does not start with a request serial: %s", vf_hex(hx1, sizeof(hx1), body, n));
		}
		q = &reqs[serial];
		q->handled++;
		VF_CHECK(q->handled == 1, "model:stream:request-dispatched-twice", "request #%d dispatched %d times", serial, q->handled);
		VF_CHECK(n == q->plen && (!n || !memcmp(body, q->payload, n)), "model:stream:payload", "request #%d arrived with payload %s, sent %s", serial,
		         vf_hex(hx1, sizeof(hx1), body, n), vf_hex(hx2, sizeof(hx2), q->payload, q->plen));
	}
	if (q->zero) {
		vf_count("request:without-id", 1);
		/* a reply context for a request that wants none is not refuted here; do not use it */
		return q->handler_ret;
	}
	VF_CHECK(ev->reply != 0, "model:stream:no-reply-context", "request #%d (id %s) dispatched without reply context", serial, vf_hex(hx1, sizeof(hx1), q->id, idlen));
	for (int k = 0; k < q->replies_plan; k++) {
		MPT_STRUCT(message) ans = MPT_MESSAGE_INIT;
		uint8_t body[3] = { 0xA0, serial, (uint8_t) k };
		int r;
		struct iovec cont[2];
		ans.base = body;
		ans.used = sizeof(body);
		if (serial % 3 == 1) {
			/* same content, fragmented: empty first part, body split over two continuation parts */
			ans.used = 0;
			cont[0].iov_base = body; cont[0].iov_len = 1;
			cont[1].iov_base = body + 1; cont[1].iov_len = 2;
			ans.cont = cont; ans.clen = 2;
			vf_count("reply:fragmented-message", 1);
		}
		vf_at("reply_context.reply");
		vf_count("reply_context.reply", 1);
		r = ev->reply->_vptr->reply(ev->reply, &ans);
		vf_log("   handler #%d: reply attempt %d = %d", serial, k, r);
		if (k == 0) {
			q->first_ret = r;
			VF_CHECK(r >= 0, "model:stream:reply-refused", "first reply to request #%d returned %d", serial, r);
		} else {
			q->second_ret = r;
			vf_count("monitor:further-reply-refused", 1);
			VF_CHECK(r < 0, "model:reply:second-accepted", "second reply to request #%d returned %d", serial, r);
		}
	}
	return q->handler_ret;
}

/* -------------------------------------------------------------------- peer */
static uint8_t rxbuf[8192];
static size_t rxlen;
static int frames_seen;

static void peer_read(int fd)
{
	for (;;) {
		ssize_t n = read(fd, rxbuf + rxlen, sizeof(rxbuf) - rxlen);
		if (n <= 0) break;
		rxlen += (size_t) n;
		if (rxlen == sizeof(rxbuf)) vf_inconclusive("peer receive buffer full");
	}
	/* complete frames */
	for (;;) {
		uint8_t *z = memchr(rxbuf, 0, rxlen);
		uint8_t dec[512], idb[MAXID];
		long dl;
		size_t flen;
		int found = -1;
		if (!z) break;
		flen = (size_t) (z - rxbuf);
		dl = cobs_decode(rxbuf, flen, dec);
		frames_seen++;
		vf_count("peer:frames-received", 1);
		VF_CHECK(dl >= 0, "model:stream:undecodable-frame", "peer received an undecodable frame %s", vf_hex(hx1, sizeof(hx1), rxbuf, flen));
		VF_CHECK((size_t) dl >= idlen, "model:stream:reply-without-id", "peer received a %ld byte frame, id needs %zu: %s", dl, idlen, vf_hex(hx1, sizeof(hx1), dec, (size_t) dl));
		vf_log("   peer: frame %s", vf_hex(hx1, sizeof(hx1), dec, (size_t) dl));
		memcpy(idb, dec, idlen);
		vf_count("monitor:reply-id-compared", 1);
		VF_CHECK(idb[0] & 0x80, "model:stream:reply-not-marked",
		         "peer received frame %s whose id %s does not carry the reply bit (indistinguishable from a request)",
		         vf_hex(hx1, sizeof(hx1), dec, (size_t) dl), vf_hex(hx2, sizeof(hx2), idb, idlen));
		idb[0] &= 0x7f;
		for (int i = 0; i < nreq; i++) if (!reqs[i].zero && !memcmp(reqs[i].id, idb, idlen)) found = i;
		VF_CHECK(found >= 0, "model:stream:reply-unknown-id", "peer received a reply with id %s which no request carried", vf_hex(hx1, sizeof(hx1), idb, idlen));
		reqs[found].replies_seen++;
		VF_CHECK(reqs[found].replies_seen == 1, "model:stream:second-reply", "peer received reply number %d for request #%d (id %s)", reqs[found].replies_seen, found,
		         vf_hex(hx1, sizeof(hx1), idb, idlen));
		VF_CHECK(reqs[found].handled == 1, "model:stream:reply-before-dispatch", "reply for request #%d arrived before it was dispatched", found);
		if (reqs[found].replies_plan) {
			/* explicit answer: body must be the handler's first reply */
			vf_count("monitor:reply-body-compared", 1);
			VF_CHECK((size_t) dl == idlen + 3 && dec[idlen] == 0xA0 && dec[idlen + 1] == found && dec[idlen + 2] == 0, "model:stream:reply-body",
			         "reply for request #%d carries %s, handler sent a0 %02x 00", found, vf_hex(hx1, sizeof(hx1), dec + idlen, (size_t) dl - idlen), found);
		} else {
			vf_count("peer:default-replies", 1);
		}
		flen++;
		memmove(rxbuf, rxbuf + flen, rxlen - flen);
		rxlen -= flen;
	}
}
static void peer_write(int fd, const uint8_t *p, size_t n)
{
	while (n) {
		ssize_t w = write(fd, p, n);
		if (w < 0) vf_inconclusive("peer write failed: %s", strerror(errno));
		p += w; n -= (size_t) w;
	}
}

static void pump(MPT_INTERFACE(input) *in, int peer)
{
	/* read what is there, dispatch everything, flush, collect */
	for (int round = 0; round < 64; round++) {
		int r, d, guard = 0, readable, pending = 0;
		{
			struct pollfd in_pf;
			int fd = -1;
			MPT_metatype_convert((MPT_INTERFACE(metatype) *) in, MPT_ENUM(TypeUnixSocket), &fd);
			in_pf.fd = fd; in_pf.events = POLLIN; in_pf.revents = 0;
			readable = fd >= 0 && poll(&in_pf, 1, 0) > 0 && (in_pf.revents & POLLIN);
		}
		if (readable) {
			vf_at("input.next");
			vf_count("input.next", 1);
			r = in->_vptr->next(in, POLLIN);
			vf_log("next(POLLIN) = %d", r);
		}
		do {
			vf_at("input.dispatch");
			vf_count("input.dispatch", 1);
			d = in->_vptr->dispatch(in, hnd, 0);
			vf_log("dispatch = %#x", d);
		} while (d >= 0 && (d & MPT_EVENTFLAG(Retry)) && ++guard < 200);
		vf_at("input.next");
		vf_count("input.next(POLLOUT)", 1);
		/* POLLOUT alone takes a fast path in mpt_stream_poll that never flushes (tests the
		 * read slot's revents); the combined request goes through poll() and flushes */
		r = in->_vptr->next(in, POLLIN | POLLOUT);
		vf_log("next(POLLIN|POLLOUT) = %d", r);
		peer_read(peer);
		for (int i = 0; i < nreq; i++) if (!reqs[i].handled) pending = 1;
		if (!readable && !pending) break;
		if (!readable && round > 8) break;
	}
}

void vf_case(uint64_t idx, vf_rng *r)
{
	static const size_t idlens[] = { 1, 2, 2, 3, 4, 8, 9 };
	int sv[2];
	MPT_STRUCT(socket) sock;
	MPT_INTERFACE(input) *in;
	int bursts = vf_range(r, 1, 4);
	char desc[600];
	size_t dl;
	int explicit_n = 0, default_n = 0, twice_n = 0;

	(void) idx;
	nreq = 0; rxlen = 0; frames_seen = 0; handler_calls = 0;
	idlen = idlens[vf_below(r, sizeof(idlens) / sizeof(*idlens))];
	if (socketpair(AF_UNIX, SOCK_STREAM, 0, sv) < 0) vf_inconclusive("socketpair: %s", strerror(errno));
	fcntl(sv[0], F_SETFL, fcntl(sv[0], F_GETFL) | O_NONBLOCK);
	fcntl(sv[1], F_SETFL, fcntl(sv[1], F_GETFL) | O_NONBLOCK);
	sock._id = sv[0];
	vf_at("mpt_stream_input");
	vf_count("mpt_stream_input", 1);
	in = mpt_stream_input(&sock, MPT_STREAMFLAG(Write) | MPT_STREAMFLAG(RdWr) | MPT_STREAMFLAG(Buffer), MPT_ENUM(EncodingCobs), idlen);
	VF_CHECK(in != 0, "model:stream:create", "mpt_stream_input(idlen=%zu) on a socketpair returned NULL (%s)", idlen, strerror(errno));
	vf_fp_u64(idlen);
	dl = (size_t) snprintf(desc, sizeof(desc), "idlen=%zu:", idlen);

	for (int b = 0; b < bursts; b++) {
		int n = vf_range(r, 1, 4);
		for (int k = 0; k < n && nreq < MAXREQ; k++) {
			struct request *q = &reqs[nreq];
			uint8_t frame[64], enc[80];
			size_t fl = 0, el;
			memset(q, 0, sizeof(*q));
			q->zero = vf_chance(r, 1, 8);
			if (!q->zero) {
				/* unique, non-zero id without reply bit */
				memset(q->id, 0, sizeof(q->id));
				q->id[idlen - 1] = (uint8_t) (nreq + 1);
				if (idlen > 1) q->id[0] = (uint8_t) vf_below(r, 0x80);
				if (idlen > 2) q->id[1] = (uint8_t) vf_below(r, 256);
			}
			q->replies_plan = (int) vf_below(r, 3);
			q->handler_ret = vf_chance(r, 1, 5) ? -1 - (int) vf_below(r, 3) : 0;
			/* payload lengths 0 (request = id only), 1, 2 get extra weight */
			q->plen = vf_chance(r, 1, 2) ? vf_below(r, 3) : 1 + vf_below(r, 12);
			if (q->plen) {
				q->payload[0] = (uint8_t) nreq;
				vf_bytes(r, q->payload + 1, q->plen - 1);
			} else {
				vf_count(q->zero ? "peer:id-only-zero-id-requests" : "peer:id-only-requests", 1);
			}
			memcpy(frame, q->id, idlen); fl = idlen;
			memcpy(frame + fl, q->payload, q->plen); fl += q->plen;
			el = cobs_encode(frame, fl, enc);
			peer_write(sv[1], enc, el);
			vf_count("peer:requests-sent", 1);
			vf_fp(frame, fl); vf_fp_u64((uint64_t) q->replies_plan); vf_fp_u64((uint64_t) (uint32_t) q->handler_ret);
			vf_log("peer: request #%d id %s payload %zu bytes, handler replies %d time(s) and returns %d", nreq, q->zero ? "zero" : vf_hex(hx1, sizeof(hx1), q->id, idlen),
			       q->plen, q->replies_plan, q->handler_ret);
			if (dl + 24 < sizeof(desc)) dl += (size_t) snprintf(desc + dl, sizeof(desc) - dl, " req(%s,%dx,%d)", q->zero ? "noid" : "id", q->replies_plan, q->handler_ret);
			nreq++;
		}
		pump(in, sv[1]);
	}
	/* everything must be answered by now */
	for (int i = 0; i < nreq; i++) {
		struct request *q = &reqs[i];
		vf_count("monitor:request-accounted", 1);
		if (!q->handled) {
			int later = 0;
			for (int k = i + 1; k < nreq; k++) later += reqs[k].handled;
			/* a later request was dispatched: this one was consumed by the input without reaching the handler
			 * (not a stall of the stream, which would hold back everything behind it) and stays unanswered */
			if (later && !q->zero) {
				VF_CHECK(q->replies_seen != 0, "model:stream:request-dropped-unanswered",
				         "request #%d (id %s, %zu payload bytes) never reached the handler and got no reply, although %d later request(s) were dispatched",
				         i, vf_hex(hx1, sizeof(hx1), q->id, idlen), q->plen, later);
			}
			if (later) vf_count("stream:request-dropped", 1);
			/* the stream layer did not deliver the frame (bounded-progress matter of C02, not of this property):
			 * nothing is claimed about a request the handler never saw */
			vf_count("stream:request-never-dispatched", 1);
			VF_CHECK(q->replies_seen == 0, "model:stream:reply-before-dispatch", "reply for request #%d which was never dispatched", i);
			continue;
		}
		vf_count("stream:request-dispatched", 1);
		if (q->zero) {
			VF_CHECK(q->replies_seen == 0, "model:stream:reply-to-request-without-id", "request #%d without id got a reply", i);
			continue;
		}
		VF_CHECK(q->replies_seen == 1, q->replies_plan ? "model:stream:no-reply" : "model:stream:no-default-reply",
		         "request #%d (id %s, handler replied %d time(s), returned %d) received %d replies", i, vf_hex(hx1, sizeof(hx1), q->id, idlen),
		         q->replies_plan, q->handler_ret, q->replies_seen);
		if (q->replies_plan == 0) default_n++; else explicit_n++;
		if (q->replies_plan == 2) twice_n++;
	}
	vf_at("metatype.unref");
	in->_vptr->meta.unref((MPT_INTERFACE(metatype) *) in);
	peer_read(sv[1]);
	close(sv[1]);
	if (explicit_n) vf_count("history:with-explicit-reply", 1);
	if (default_n) vf_count("history:with-default-reply", 1);
	if (twice_n) vf_count("history:with-second-reply-attempt", 1);
	if (nreq >= 2 && explicit_n + default_n >= 1) vf_nontrivial();
	vf_sample("%s  => %d requests, %d explicit, %d default replies, %d frames at the peer", desc, nreq, explicit_n, default_n, frames_seen);
}

uint64_t vf_cases(void) { return vf_thorough ? 300000 : 30000; }
