/*
 * C19 (C++ leg; built with -fno-sanitize=vptr like the other C++ legs):
 * mpt::source<T> (explicit value list with step, mptcore/types.h) and the
 * library's C iterators driven through the C++ mpt::iterator interface
 * (value / get<T> / advance / reset), under the protocol model of the C leg:
 *
 *   reference walk   documented loop (value; advance; stop at <= 0) gives S
 *   closed form      source<T>(data, len, step): step > 0 -> data[0], data[step], ..
 *                    step < 0 -> data[len-1], data[len-1+step], .. (examples/cxx/iter.cpp);
 *                    linear / boundary / value list as in the C leg
 *   behind the end   value() == NULL, get() false, advance() <= 0, repeatedly
 *   interleaving     PRNG value/get/advance/reset with model position p:
 *                    value non-NULL iff p < L and equal to S[p] bit for bit,
 *                    advance > 0 iff p + 1 < L, == 0 from the last element,
 *                    <= 0 behind it; reset >= 0 and p = 0
 * The data are exact-size heap blocks (ASan red zones on both sides).
 */
#include <vector>
#include <string>
#include <cstring>
#include <cstdlib>
#include <cmath>
#include <cfloat>
#include <sys/uio.h>

#include "types.h"
#include "meta.h"
#include "values.h"
#include "io.h"
#include "message.h"
#include "array.h"
#include "vf.h"

const char *vf_name = "c19_cxx";

/* type id of a character vector (MPT_type_toVector('c'), the macro needs unqualified enumerators) */
static const int VEC_CHAR = 'c' - mpt::_TypeScalarBase + mpt::_TypeVectorBase;

/* objects built by the C part of the library have no C++ RTTI (see notes/C18.md) */
extern "C" const char *__ubsan_default_options(void)
{
	return "suppressions=/verif/harness/c18_ubsan_supp.h";
}

/* element as bytes + type */
struct Elem {
	int type;
	std::vector<uint8_t> bytes;
	bool operator==(const Elem &o) const { return type == o.type && bytes == o.bytes; }
	std::string show() const
	{
		char buf[80], hx[40];
		if (type == 'd' && bytes.size() == 8) { double d; memcpy(&d, bytes.data(), 8); snprintf(buf, sizeof(buf), "%.17g", d); }
		else if (type == 'f' && bytes.size() == 4) { float f; memcpy(&f, bytes.data(), 4); snprintf(buf, sizeof(buf), "%.9g", f); }
		else if (type == (int) VEC_CHAR) snprintf(buf, sizeof(buf), "\"%.*s\"(%zu)", (int) (bytes.size() > 30 ? 30 : bytes.size()), (const char *) bytes.data(), bytes.size());
		else snprintf(buf, sizeof(buf), "'%c' %s", type, vf_hex(hx, sizeof(hx), bytes.data(), bytes.size()));
		return buf;
	}
};
static int type_size(int type)
{
	switch (type) {
	case 'c': case 'b': case 'y': return 1;
	case 'n': case 'q': return 2;
	case 'i': case 'u': case 'f': return 4;
	case 'x': case 't': case 'd': return 8;
	}
	return 0;
}
static bool read_elem(mpt::iterator &it, Elem &e, const char *what)
{
	vf_at("iterator::value");
	const mpt::value *v = it.value();
	vf_count("iterator::value", 1);
	if (!v) return false;
	if ((int) v->type() == (int) VEC_CHAR) {
		/* text element: span of characters (io::buffer) */
		const mpt::span<const char> *sp = static_cast<const mpt::span<const char> *>(v->data());
		VF_CHECK(sp && sp->size() >= 0 && (sp->begin() || !sp->size()), "cxx:value:type", "%s: character vector value without data", what);
		e.type = v->type();
		e.bytes.assign(reinterpret_cast<const uint8_t *>(sp->begin()), reinterpret_cast<const uint8_t *>(sp->begin()) + sp->size());
		return true;
	}
	if ((int) v->type() == 's') {
		const char *str = v->data() ? *static_cast<const char * const *>(v->data()) : 0;
		VF_CHECK(str != 0, "cxx:value:type", "%s: string value without text", what);
		e.type = VEC_CHAR;   /* same content as a terminated character vector */
		e.bytes.assign(reinterpret_cast<const uint8_t *>(str), reinterpret_cast<const uint8_t *>(str) + strlen(str) + 1);
		return true;
	}
	int sz = type_size(v->type());
	VF_CHECK(sz > 0 && v->data(), "cxx:value:type", "%s: value() has type %d, data %p", what, (int) v->type(), v->data());
	e.type = v->type();
	e.bytes.assign(static_cast<const uint8_t *>(v->data()), static_cast<const uint8_t *>(v->data()) + sz);
	return true;
}

/* tolerance for closed forms (0: exact) */
struct Expect {
	bool known;
	std::vector<Elem> seq;
	std::vector<double> tol;   /* only for 'd' elements */
};

template <typename T> static bool get_same(mpt::iterator &it, const Elem &e, const char *what)
{
	T x;
	memset(&x, 0x5a, sizeof(x));
	vf_at("iterator::get");
	bool ok = it.get(x);
	vf_count("iterator::get", 1);
	if (!ok) return false;
	VF_CHECK(sizeof(T) == e.bytes.size() && !memcmp(&x, e.bytes.data(), sizeof(T)), "cxx:get:value", "%s: get<T>() stored other bytes than value() shows (%s)", what, e.show().c_str());
	return true;
}

/* protocol run over an iterator; getter: same-type get() or 0 */
typedef bool (*getter)(mpt::iterator &, const Elem &, const char *);
#define MAXWALK 600
static void protocol(mpt::iterator &it, const char *what, const Expect &x, getter get, vf_rng *r, bool can_reset)
{
	std::vector<Elem> S;
	bool open = false;
	/* reference walk */
	for (;;) {
		Elem e;
		if (!read_elem(it, e, what)) {
			VF_CHECK(S.empty(), "cxx:walk:no-value-after-advance", "%s: advance() reported a further element after %zu but value() has none", what, S.size());
			break;
		}
		if (get) VF_CHECK(get(it, e, what), "cxx:get:refused", "%s: value() present at element %zu but get() fails", what, S.size());
		S.push_back(e);
		if (vf_logging) vf_log("  [%zu] %s", S.size() - 1, e.show().c_str());
		if (S.size() >= MAXWALK) { open = true; break; }
		vf_at("iterator::advance");
		int rr = it.advance();
		vf_count("iterator::advance", 1);
		VF_CHECK(rr >= 0, "cxx:walk:error", "%s: advance() from element %zu returned %d", what, S.size() - 1, rr);
		if (!rr) break;
	}
	size_t L = S.size();
	vf_max("max:elements-walked", L);
	if (x.known) {
		VF_CHECK(open ? x.seq.size() >= L : x.seq.size() == L, "cxx:closed-form:count", "%s: yields %zu elements, description denotes %zu", what, L, x.seq.size());
		for (size_t i = 0; i < L; i++) {
			bool same = S[i] == x.seq[i];
			if (!same && S[i].type == 'd' && x.seq[i].type == 'd' && i < x.tol.size() && x.tol[i] > 0) {
				double a, b;
				memcpy(&a, S[i].bytes.data(), 8); memcpy(&b, x.seq[i].bytes.data(), 8);
				same = std::fabs(a - b) <= x.tol[i];
			}
			if (!same) vf_fail("cxx:closed-form:value", "%s: element %zu is %s, expected %s", what, i, S[i].show().c_str(), x.seq[i].show().c_str());
			vf_count("monitor:closed-form-values", 1);
		}
		vf_count("monitor:closed-form-count", 1);
	}
	if (!L) vf_count("state:empty-source", 1);
	if (!open) {
		Elem e;
		VF_CHECK(!read_elem(it, e, what), "cxx:value:past-end", "%s: value() after the walk of %zu elements gives %s", what, L, e.show().c_str());
		int rr = it.advance();
		VF_CHECK(rr <= 0, "cxx:advance:past-end", "%s: advance() after the walk of %zu elements returned %d", what, L, rr);
		VF_CHECK(!read_elem(it, e, what), "cxx:value:past-end", "%s: value() after advancing behind the end gives %s", what, e.show().c_str());
		if (get) { Elem none; none.type = 0; VF_CHECK(!get(it, none, what), "cxx:get:past-end", "%s: get() behind the end succeeds", what); }
	}
	if (!can_reset) return;
	/* interleaving */
	vf_at("iterator::reset");
	int rr = it.reset();
	vf_count("iterator::reset", 1);
	VF_CHECK(rr >= 0, "cxx:reset:refused", "%s: reset() returned %d", what, rr);
	size_t p = 0;
	int steps = (int) (3 * (L > 30 ? 30 : L) + 3 + vf_below(r, 16));
	for (int k = 0; k < steps; k++) {
		int op = (int) vf_below(r, 12);
		Elem e;
		if (op < 4) {
			bool have = read_elem(it, e, what);
			if (vf_logging) vf_log("  p=%zu value -> %s", p, have ? e.show().c_str() : "<none>");
			if (p < L) VF_CHECK(have && e == S[p], "cxx:value:replay", "%s: value() at position %zu is %s, first walk had %s", what, p, have ? e.show().c_str() : "<none>", S[p].show().c_str());
			else if (!open) { VF_CHECK(!have, "cxx:value:past-end", "%s: value() behind the last of %zu elements gives %s", what, L, e.show().c_str()); vf_count("state:read-past-end", 1); }
			vf_count("monitor:value-compared", 1);
		}
		else if (op < 6 && get) {
			if (p < L) VF_CHECK(get(it, S[p], what), "cxx:get:refused", "%s: get() at position %zu of %zu fails", what, p, L);
			else if (!open) { Elem none; none.type = 0; VF_CHECK(!get(it, none, what), "cxx:get:past-end", "%s: get() behind the end succeeds", what); }
		}
		else if (op < 10) {
			vf_at("iterator::advance");
			rr = it.advance();
			vf_count("iterator::advance", 1);
			if (vf_logging) vf_log("  p=%zu advance -> %d", p, rr);
			if (p + 1 < L) { VF_CHECK(rr > 0, "cxx:advance:result", "%s: advance() from position %zu of %zu returned %d", what, p, L, rr); p++; }
			else if (open) { it.reset(); p = 0; }
			else if (p + 1 == L) { VF_CHECK(rr == 0, "cxx:advance:result", "%s: advance() from the last element (%zu of %zu) returned %d", what, p, L, rr); p++; }
			else { VF_CHECK(rr <= 0, "cxx:advance:past-end", "%s: advance() behind the end (%zu elements) returned %d", what, L, rr); vf_count("state:advance-past-end", 1); }
			vf_count("monitor:advance-compared", 1);
		}
		else {
			vf_at("iterator::reset");
			rr = it.reset();
			vf_count("iterator::reset", 1);
			if (vf_logging) vf_log("  p=%zu reset -> %d", p, rr);
			VF_CHECK(rr >= 0, "cxx:reset:refused", "%s: reset() at position %zu returned %d", what, p, rr);
			p = 0;
			vf_count("monitor:reset", 1);
		}
	}
}

/* ------------------------------------------------------------ source<T> */
template <typename T> static T gen(vf_rng *r);
template <> double gen<double>(vf_rng *r) { static const double s[] = { 0, -0.0, 1, -1, DBL_MAX, DBL_MIN, INFINITY, 4.9e-324 }; return vf_chance(r, 1, 4) ? s[vf_below(r, 8)] : (vf_unit(r) - 0.5) * 1e6; }
template <> float gen<float>(vf_rng *r) { return vf_chance(r, 1, 6) ? FLT_MAX : (float) ((vf_unit(r) - 0.5) * 1000); }
template <> int32_t gen<int32_t>(vf_rng *r) { return (int32_t) vf_u64(r); }
template <> uint32_t gen<uint32_t>(vf_rng *r) { return (uint32_t) vf_u64(r); }
template <> uint8_t gen<uint8_t>(vf_rng *r) { return (uint8_t) vf_u64(r); }
template <> int8_t gen<int8_t>(vf_rng *r) { return (int8_t) vf_u64(r); }
template <> int16_t gen<int16_t>(vf_rng *r) { return (int16_t) vf_u64(r); }
template <> uint16_t gen<uint16_t>(vf_rng *r) { return (uint16_t) vf_u64(r); }
template <> int64_t gen<int64_t>(vf_rng *r) { return (int64_t) vf_u64(r); }
template <> uint64_t gen<uint64_t>(vf_rng *r) { return vf_u64(r); }

template <typename T>
static void case_source(const char *tname, int tcode, vf_rng *r)
{
	static const int steps[] = { 1, 2, 3, -1, -2, -3, 5, -5, 7, -7 };
	long len = vf_chance(r, 1, 12) ? 0 : vf_chance(r, 1, 10) ? 20 + (long) vf_below(r, 700) : 1 + (long) vf_below(r, 12);
	int step = steps[vf_below(r, vf_chance(r, 1, 5) ? 10 : 6)];
	if (vf_chance(r, 1, 12) && len) step = (int) (vf_chance(r, 1, 2) ? len : -len);
	if (vf_chance(r, 1, 20) && len) step = (int) (vf_chance(r, 1, 2) ? len + 1 : -len - 1);
	T *data = static_cast<T *>(vf_xalloc(len * sizeof(T)));
	for (long i = 0; i < len; i++) data[i] = gen<T>(r);
	char what[120];
	snprintf(what, sizeof(what), "source<%s>(data, %ld, %d)", tname, len, step);
	vf_log("%s", what);
	vf_fp(tname, strlen(tname)); vf_fp_u64(len); vf_fp_u64((uint64_t) (int64_t) step); vf_fp(data, len * sizeof(T));

	Expect x;
	x.known = true;
	for (long i = step > 0 ? 0 : len - 1; i >= 0 && i < len; i += step) {
		Elem e;
		e.type = tcode;
		e.bytes.assign(reinterpret_cast<uint8_t *>(&data[i]), reinterpret_cast<uint8_t *>(&data[i]) + sizeof(T));
		x.seq.push_back(e);
	}
	if (x.seq.size() >= 2) vf_nontrivial();
	if (step < 0) vf_count("source:backward", 1); else vf_count("source:forward", 1);
	{
		vf_at("source<T>::source");
		mpt::source<T> src(data, len, step);
		vf_count("source<T>", 1);
		protocol(src, what, x, get_same<T>, r, true);
	}
	vf_xfree(data, len * sizeof(T));
	vf_sample("%s: %zu elements expected", what, x.seq.size());
}

/* --------------------------------------- C iterators through mpt::iterator */
static Elem delem(double d)
{
	Elem e;
	e.type = 'd';
	e.bytes.assign(reinterpret_cast<uint8_t *>(&d), reinterpret_cast<uint8_t *>(&d) + 8);
	return e;
}
static void case_c_iterator(vf_rng *r)
{
	int kind = (int) vf_below(r, 3);
	char what[300];
	Expect x;
	mpt::metatype *mt = 0;
	uint32_t len = 2 + vf_below(r, 12);
	double a = (vf_unit(r) - 0.5) * 100, b = (vf_unit(r) - 0.5) * 100, c = (vf_unit(r) - 0.5) * 100;
	x.known = true;
	vf_fp_u64(0xc19 + kind);
	if (kind == 0) {
		snprintf(what, sizeof(what), "mpt_iterator_linear(%u, %.17g, %.17g) as mpt::iterator", len, a, b);
		double m = std::fabs(a) > std::fabs(b) ? std::fabs(a) : std::fabs(b);
		for (uint32_t i = 0; i < len; i++) { x.seq.push_back(delem((double) ((long double) a + (long double) i * ((long double) b - a) / (len - 1)))); x.tol.push_back(i ? 8 * DBL_EPSILON * m : 0); }
		vf_at("mpt_iterator_linear");
		mt = mpt::mpt_iterator_linear(len, a, b);
	} else if (kind == 1) {
		snprintf(what, sizeof(what), "mpt_iterator_boundary(%u, %.17g, %.17g, %.17g) as mpt::iterator", len, a, b, c);
		for (uint32_t i = 0; i < len; i++) x.seq.push_back(delem(!i ? a : i == len - 1 ? c : b));
		vf_at("mpt_iterator_boundary");
		mt = mpt::mpt_iterator_boundary(len, a, b, c);
	} else {
		char txt[260];
		size_t l = 0;
		uint32_t n = 1 + vf_below(r, 8);
		for (uint32_t i = 0; i < n; i++) {
			char t[40];
			snprintf(t, sizeof(t), "%.17g", (vf_unit(r) - 0.5) * 1000);
			x.seq.push_back(delem(strtod(t, 0)));
			l += snprintf(txt + l, sizeof(txt) - l, "%s%s", i ? " " : "", t);
		}
		snprintf(what, sizeof(what), "mpt_iterator_values(\"%.200s\") as mpt::iterator", txt);
		vf_at("mpt_iterator_values");
		mt = mpt::mpt_iterator_values(txt);
	}
	vf_fp(what, strlen(what));
	vf_log("%s", what);
	VF_CHECK(mt != 0, "cxx:create:refused", "%s refused", what);
	mpt::iterator *it = 0;
	vf_at("metatype::convert");
	int ret = mt->convert(mpt::TypeIteratorPtr, &it);
	VF_CHECK(ret >= 0 && it, "cxx:create:no-iterator", "%s: no iterator interface (%d)", what, ret);
	vf_count("c-iterator", 1);
	if (x.seq.size() >= 2) vf_nontrivial();
	protocol(*it, what, x, get_same<double>, r, true);
	vf_at("metatype::unref");
	mt->unref();
	vf_sample("%s", what);
}

/* ------------------------------------------- io::buffer argument iterator */
/*
 * mpt::io::buffer holds zero terminated text elements (written with
 * write()); value() is the current element including its terminator,
 * advance() steps over it - whether it was read before or not -, reset()
 * returns to the first element, clone() of the metatype continues at the
 * same element.
 */
static Elem text_elem(const std::string &w)
{
	Elem e;
	e.type = VEC_CHAR;
	e.bytes.assign(reinterpret_cast<const uint8_t *>(w.c_str()), reinterpret_cast<const uint8_t *>(w.c_str()) + w.size() + 1);
	return e;
}
static void case_io_buffer(vf_rng *r)
{
	static const char *pool[] = { "", "a", "bc", "alpha", "gamma3", "dd", "e", "a much longer element than the others", "1.5", "x=1" };
	int n = (int) vf_below(r, 9);
	std::vector<std::string> words;
	std::string desc = "io::buffer [";
	Expect x;
	x.known = true;
	vf_fp_u64(0x10b);
	mpt::io::buffer::metatype *m = mpt::io::buffer::metatype::create(0);
	VF_CHECK(m != 0, "cxx:create:refused", "io::buffer::metatype::create(0) failed");
	for (int i = 0; i < n; i++) {
		std::string w = pool[vf_below(r, 10)];
		words.push_back(w);
		desc += (i ? ",\"" : "\"") + w + "\"";
		x.seq.push_back(text_elem(w));
		vf_fp(w.c_str(), w.size() + 1);
		vf_at("io::buffer::write");
		VF_CHECK(m->write(1, w.c_str(), w.size() + 1) == 1, "cxx:create:refused", "io::buffer::write of element %d failed", i);
	}
	desc += "]";
	vf_log("%s", desc.c_str());
	if (n >= 2) vf_nontrivial();
	vf_count("io::buffer", 1);
	mpt::iterator *it = m;
	protocol(*it, desc.c_str(), x, 0, r, true);
	/* clone at a position reached with and without reading the elements */
	vf_at("iterator::reset");
	it->reset();
	int p = n ? (int) vf_below(r, (uint32_t) n + 1) : 0;
	for (int i = 0; i < p; i++) {
		if (vf_chance(r, 1, 2)) it->value();
		int rr = it->advance();
		VF_CHECK(i + 1 < n ? rr > 0 : rr == 0, "cxx:advance:result", "%s: advance() from position %d of %d returned %d", desc.c_str(), i, n, rr);
	}
	if (vf_chance(r, 1, 2)) it->value();
	vf_at("metatype::clone");
	mpt::io::buffer::metatype *c = m->clone();
	vf_count("io::buffer::clone", 1);
	if (c) {
		mpt::iterator *ci = c;
		for (int i = p; ; i++) {
			Elem e;
			bool have = read_elem(*ci, e, desc.c_str());
			if (i >= n) { VF_CHECK(!have, "cxx:clone:sequence", "%s: clone taken at %d reads %s behind the end", desc.c_str(), p, e.show().c_str()); break; }
			VF_CHECK(have && e == x.seq[i], "cxx:clone:sequence", "%s: clone taken at position %d reads %s as element %d, expected %s", desc.c_str(), p, have ? e.show().c_str() : "<none>", i, x.seq[i].show().c_str());
			int rr = ci->advance();
			VF_CHECK(i + 1 < n ? rr > 0 : rr == 0, "cxx:clone:advance", "%s: clone taken at %d: advance from element %d of %d returned %d", desc.c_str(), p, i, n, rr);
			vf_count("monitor:clone-elements", 1);
		}
		c->unref();
		/* the original is where it was */
		Elem e;
		bool have = read_elem(*it, e, desc.c_str());
		VF_CHECK(p < n ? (have && e == x.seq[p]) : !have, "cxx:clone:disturbed-original", "%s: after cloning at %d the original reads %s", desc.c_str(), p, have ? e.show().c_str() : "<none>");
	} else vf_count("clone:unsupported", 1);
	m->unref();
	vf_sample("%s", desc.c_str());
}

/* ----------------------------------------- io::buffer: typed arrays, refills */
/* walk an iterator with the documented loop and compare with the expected elements */
static void walk_expect(mpt::iterator &it, const std::vector<Elem> &want, size_t from, const char *what, const char *stage)
{
	size_t i = from;
	for (;;) {
		Elem e;
		bool have = read_elem(it, e, what);
		if (i >= want.size()) { VF_CHECK(!have, "cxx:walk:extra-element", "%s (%s): element %s behind the %zu expected ones", what, stage, e.show().c_str(), want.size()); break; }
		VF_CHECK(have, "cxx:walk:missing-element", "%s (%s): no value at element %zu of %zu (expected %s)", what, stage, i, want.size(), want[i].show().c_str());
		VF_CHECK(e == want[i], "cxx:walk:element", "%s (%s): element %zu is %s, expected %s", what, stage, i, e.show().c_str(), want[i].show().c_str());
		vf_count("monitor:walked-elements", 1);
		vf_at("iterator::advance");
		int rr = it.advance();
		vf_count("iterator::advance", 1);
		i++;
		VF_CHECK(i < want.size() ? rr > 0 : rr == 0, "cxx:advance:result", "%s (%s): advance() to element %zu of %zu returned %d", what, stage, i, want.size(), rr);
		if (i >= want.size()) { VF_CHECK(!read_elem(it, e, what), "cxx:value:past-end", "%s (%s): value behind the last element", what, stage); break; }
	}
}
static const char *word_pool[] = { "", "a", "bc", "alpha", "gamma3", "dd", "e", "a much longer element than the others, longer than sixty four bytes in total", "1.5", "x=1" };
/* text array with content type as mpt_array_message() makes it */
static void case_typed_array(vf_rng *r)
{
	int n = 1 + (int) vf_below(r, 7);
	std::string raw, desc = "typed text array [";
	std::vector<Elem> want, want_s;
	vf_fp_u64(0x7a);
	for (int i = 0; i < n; i++) {
		std::string w = word_pool[1 + vf_below(r, 9)];
		desc += (i ? ",\"" : "\"") + w + "\"";
		raw.append(w.c_str(), w.size() + 1);
		want.push_back(text_elem(w));
		want_s.push_back(text_elem(w));
	}
	desc += "]";
	vf_fp(raw.data(), raw.size());
	vf_log("%s", desc.c_str());
	if (n >= 2) vf_nontrivial();
	char *blk = static_cast<char *>(vf_xalloc(raw.size()));
	memcpy(blk, raw.data(), raw.size());
	mpt::message msg(blk, raw.size());
	mpt::array a;
	vf_at("mpt_array_message");
	int na = mpt::mpt_array_message(&a, &msg, 0);
	vf_xfree(blk, raw.size());
	VF_CHECK(na == n, "cxx:create:refused", "mpt_array_message of %d arguments returned %d", n, na);
	const mpt::array::content *c = a.data();
	if (c && c->content_traits()) vf_count("state:typed-text-array", 1);
	/* io::buffer over it */
	{
		mpt::io::buffer::metatype *m = mpt::io::buffer::metatype::create(&a);
		VF_CHECK(m != 0, "cxx:create:refused", "io::buffer::metatype::create failed");
		mpt::iterator *it = m;
		vf_count("io::buffer", 1);
		walk_expect(*it, want, 0, desc.c_str(), "io::buffer, fresh");
		vf_at("iterator::reset");
		int rr = it->reset();
		if (rr < 0 || (size_t) rr != raw.size()) { if (!vf_known("cxx:reset:nothing-replayed")) VF_CHECK(rr >= 0 && (size_t) rr == raw.size(), "cxx:reset:nothing-replayed", "%s: io::buffer::reset() returned %d, the array holds %zu bytes", desc.c_str(), rr, raw.size()); }
		else {
			walk_expect(*it, want, 0, desc.c_str(), "io::buffer, after reset");
			/* clone in the middle */
			it->reset();
			size_t p = vf_below(r, (uint32_t) n + 1);
			for (size_t i = 0; i < p; i++) it->advance();
			mpt::io::buffer::metatype *cl = m->clone();
			vf_count("io::buffer::clone", 1);
			if (cl) { mpt::iterator *ci = cl; walk_expect(*ci, want, p, desc.c_str(), "io::buffer clone"); cl->unref(); }
			walk_expect(*it, want, p, desc.c_str(), "io::buffer after cloning");
		}
		m->unref();
	}
	/* the C buffer iterator over the same array */
	{
		vf_at("mpt_meta_buffer");
		mpt::metatype *mt = mpt::mpt_meta_buffer(&a);
		VF_CHECK(mt != 0, "cxx:create:refused", "mpt_meta_buffer on the typed array failed");
		mpt::iterator *it = 0;
		VF_CHECK(mt->convert(mpt::TypeIteratorPtr, &it) >= 0 && it, "cxx:create:no-iterator", "mpt_meta_buffer: no iterator");
		vf_count("mpt_meta_buffer", 1);
		walk_expect(*it, want_s, 0, desc.c_str(), "mpt_meta_buffer");
		it->reset();
		walk_expect(*it, want_s, 0, desc.c_str(), "mpt_meta_buffer after reset");
		mt->unref();
	}
	vf_sample("%s", desc.c_str());
}
/* several batches written into one io::buffer */
static void case_refill(vf_rng *r)
{
	int batches = vf_range(r, 2, 4);
	std::string desc = "io::buffer refill:";
	std::vector<Elem> unread;     /* elements written and not yet stepped over */
	mpt::io::buffer::metatype *m = mpt::io::buffer::metatype::create(0);
	mpt::iterator *it = m;
	vf_fp_u64(0xf111);
	vf_nontrivial();
	for (int b = 0; b < batches; b++) {
		int n = 1 + (int) vf_below(r, 4);
		bool partial = !unread.empty();
		std::vector<Elem> batch;
		desc += " write[";
		for (int i = 0; i < n; i++) {
			std::string w = word_pool[vf_below(r, 10)];
			desc += (i ? ",\"" : "\"") + w.substr(0, 12) + "\"";
			vf_fp(w.c_str(), w.size() + 1);
			vf_at("io::buffer::write");
			VF_CHECK(m->write(1, w.c_str(), w.size() + 1) == 1, "cxx:create:refused", "%s: write failed", desc.c_str());
			batch.push_back(text_elem(w));
			unread.push_back(text_elem(w));
		}
		desc += "]";
		vf_log("%s", desc.c_str());
		vf_count(partial ? "refill:into-partially-consumed" : "refill:into-consumed-or-fresh", 1);
		/* how far this batch is walked: to the end, or part of it */
		size_t steps = (b + 1 == batches || vf_chance(r, 1, 2)) ? unread.size() : vf_below(r, (uint32_t) unread.size());
		char st[40];
		snprintf(st, sizeof(st), "batch %d", b + 1);
		if (steps == unread.size()) {
			walk_expect(*it, unread, 0, desc.c_str(), st);
			if (!partial) {
				/* everything before was consumed when this batch was written: reset replays this batch */
				vf_at("iterator::reset");
				int rr = it->reset();
				VF_CHECK(rr >= 0, "cxx:reset:refused", "%s: reset() returned %d", desc.c_str(), rr);
				walk_expect(*it, batch, 0, desc.c_str(), "after reset");
				vf_count("refill:reset-replays", 1);
			}
			unread.clear();
			desc += " walk-all";
		} else {
			for (size_t i = 0; i < steps; i++) {
				Elem e;
				if (vf_chance(r, 1, 2)) { bool have = read_elem(*it, e, desc.c_str()); VF_CHECK(have && e == unread[i], "cxx:walk:element", "%s (%s): element %zu is %s, expected %s", desc.c_str(), st, i, have ? e.show().c_str() : "<none>", unread[i].show().c_str()); }
				int rr = it->advance();
				VF_CHECK(rr > 0, "cxx:advance:result", "%s (%s): advance() over element %zu of %zu unread returned %d", desc.c_str(), st, i, unread.size(), rr);
			}
			unread.erase(unread.begin(), unread.begin() + steps);
			desc += " walk-" + std::to_string(steps);
		}
	}
	m->unref();
	vf_count("io::buffer refill", 1);
	vf_sample("%s", desc.substr(0, 700).c_str());
}
/* iterator that only supplies value(): the interface defaults report "no further element" */
class single : public mpt::iterator
{
public:
	single(double d) : _d(d) { _v = _d; }
	virtual ~single() { }
	const mpt::value *value() override { return &_v; }
private:
	double _d;
	mpt::value _v;
};
static void case_default(vf_rng *r)
{
	single s(vf_unit(r));
	vf_fp_u64(0xdef);
	int a = s.advance(), b = s.reset();
	VF_CHECK(a < 0, "cxx:default:advance", "iterator::advance() default returned %d", a);
	VF_CHECK(b < 0, "cxx:default:reset", "iterator::reset() default returned %d", b);
	double d = -1;
	VF_CHECK(s.get(d) && s.value(), "cxx:default:get", "get() on a single value iterator failed");
	vf_count("iterator-defaults", 1);
	vf_sample("iterator with value() only: advance() = %d, reset() = %d", a, b);
}

static uint64_t n_cases() { return vf_thorough ? 2500000 : 200000; }
extern "C" uint64_t vf_cases(void) { return n_cases(); }
extern "C" void vf_case(uint64_t idx, vf_rng *r)
{
	(void) idx;
	switch (vf_below(r, 21)) {
	case 0: case 1: case_source<double>("double", 'd', r); break;
	case 2: case_source<float>("float", 'f', r); break;
	case 3: case_source<int32_t>("int32_t", 'i', r); break;
	case 4: case_source<uint8_t>("uint8_t", 'y', r); break;
	case 5: case_source<uint32_t>("uint32_t", 'u', r); break;
	case 6: case_source<int8_t>("int8_t", 'b', r); break;
	case 7: case_source<int16_t>("int16_t", 'n', r); break;
	case 8: case_source<uint16_t>("uint16_t", 'q', r); break;
	case 9: case_source<int64_t>("int64_t", 'x', r); break;
	case 10: case_source<uint64_t>("uint64_t", 't', r); break;
	case 11: case 12: case_c_iterator(r); break;
	case 13: case 14: case 15: case_io_buffer(r); break;
	case 16: case 17: case_typed_array(r); break;
	case 18: case 19: case_refill(r); break;
	default: case_default(r);
	}
}
