/*
 * C10 (C++ leg): mpt::config::root, a configuration with private element
 * store, behaves as a map from element paths to values.
 *
 * Same reference model as the global leg (table of universe paths and their
 * prefixes); the store is private, so many histories run in one process.
 */
#include <stdlib.h>
#include <string.h>

#include "meta.h"
#include "config.h"
#include "vf.h"

const char *vf_name = "c10_cxx";

#define MAXNAMES 8
#define MAXDEPTH 4
#define MAXU     96
#define MAXVAL   320

static char names[MAXNAMES][260];
static size_t namelen[MAXNAMES];
static int nnames;

struct entry {
	int n, e[MAXDEPTH];
	int exists, hasval;
	size_t vlen;
	char val[MAXVAL];
};
static struct entry U[MAXU];
static int nu;
static const char seps[] = { '.', '/', ':' };

static int find_entry(int n, const int *e)
{
	for (int i = 0; i < nu; i++) if (U[i].n == n && !memcmp(U[i].e, e, sizeof(int) * (size_t) n)) return i;
	return -1;
}
static int add_entry(int n, const int *e)
{
	int i = find_entry(n, e);
	if (i >= 0) return i;
	if (nu >= MAXU) return -1;
	memset(&U[nu], 0, sizeof(U[nu]));
	U[nu].n = n;
	memcpy(U[nu].e, e, sizeof(int) * (size_t) n);
	return nu++;
}
static int is_prefix(const struct entry *p, const struct entry *x)
{
	return p->n <= x->n && !memcmp(p->e, x->e, sizeof(int) * (size_t) p->n);
}
static size_t render(char *dst, const struct entry *x, int sep)
{
	size_t o = 0;
	for (int k = 0; k < x->n; k++) {
		memcpy(dst + o, names[x->e[k]], namelen[x->e[k]]); o += namelen[x->e[k]];
		if (k + 1 < x->n) dst[o++] = (char) sep;
	}
	dst[o] = 0;
	return o;
}
static const char *show(const struct entry *x)
{
	static char b[2][200];
	static int k;
	char *d = b[k++ & 1];
	size_t o = 0;
	for (int i = 0; i < x->n && o < 150; i++) {
		size_t l = namelen[x->e[i]];
		if (l > 8) o += (size_t) snprintf(d + o, 200 - o, "%s<%zu>", i ? "." : "", l);
		else o += (size_t) snprintf(d + o, 200 - o, "%s%s", i ? "." : "", l ? names[x->e[i]] : "\"\"");
	}
	d[o] = 0;
	return d;
}
/* element names whose stored length equals the inline capacity exactly, per level */
static void count_capacity_levels(const struct entry *x)
{
	static const char *lv[MAXDEPTH] = { "state:capacity-name-level1", "state:capacity-name-level2", "state:capacity-name-level3", "state:capacity-name-level4" };
	for (int k = 0; k < x->n; k++) {
		size_t l = namelen[x->e[k]];
		if (l == 11) vf_count(lv[k], 1);
	}
}
static void m_set(int i, const char *val, size_t vlen)
{
	for (int j = 0; j < nu; j++) if (is_prefix(&U[j], &U[i])) U[j].exists = 1;
	U[i].hasval = 1; U[i].vlen = vlen;
	memcpy(U[i].val, val, vlen + 1);
	count_capacity_levels(&U[i]);
}
static void m_remove(int i)
{
	for (int j = 0; j < nu; j++) if (is_prefix(&U[i], &U[j])) U[j].exists = U[j].hasval = 0;
}

static char pbuf[4 * 262 + 16];


/* ---------------------------------------------------------- path objects
 * One long-lived mpt::path object is re-used for every path the history
 * needs: assigned from temporaries, from named objects, from copies, from
 * itself, re-set through path::set(), sometimes after it was partly walked.
 * What it denotes afterwards is the split of the CURRENT text: checked by
 * walking a copy before the object is handed to the store. */
static mpt::path work;
static vf_rng *prng;
static char tbuf[2][sizeof(pbuf)];
static int tcur;

static mpt::path &use_path(const char *text, int sep, const struct entry *x)
{
	vf_rng *r = prng;
	/* the object still denotes the previous text (other buffer): consume a bit of it */
	if (vf_chance(r, 1, 2)) {
		int steps = 1 + (int) vf_below(r, 2);
		while (steps-- && !work.empty()) work.next();
		vf_count("state:path-reused-after-walk", 1);
	}
	char *t = tbuf[tcur ^= 1];
	memcpy(t, text, strlen(text) + 1);
	int mode = (int) vf_below(r, 5);
	vf_at("path::operator=");
	switch (mode) {
	case 0: work = mpt::path(t, sep, 0); vf_count("path::operator=(temporary)", 1); break;
	case 1: { mpt::path other(t, sep, 0); work = other; vf_count("path::operator=(object)", 1); break; }
	case 2: { work = mpt::path(t, sep, 0); mpt::path &self = work; work = self; vf_count("path::operator=(self)", 1); break; }
	case 3: { mpt::path a(t, sep, 0); mpt::path c(a); work = c; vf_count("path::path(copy)", 1); break; }
	default: work.set(t, -1, sep, 0); vf_count("path::set", 1); break;
	}
	/* walk a copy: components of the current text */
	mpt::path w(work);
	for (int k = 0; k < x->n; k++) {
		const char *start = w.value().begin();
		vf_at("mpt_path_next");
		int l = mpt_path_next(&w);
		VF_CHECK(l >= 0 && (size_t) l == namelen[x->e[k]] && !memcmp(start, names[x->e[k]], (size_t) l), "model:path-object:component",
		         "re-used path object (mode %d) for '%s': component %d has length %d, expected %zu", mode, show(x), k, l, namelen[x->e[k]]);
	}
	VF_CHECK(w.empty(), "model:path-object:remaining", "re-used path object for '%s': data left after %d components", show(x), x->n);
	vf_count("monitor:path-object-walks", 1);
	return work;
}

static int exists_cb(void *, mpt::convertable *, const mpt::collection *) { return 0; }

static void audit(const char *after, mpt::config::root &root)
{
	for (int i = 0; i < nu; i++) {
		const struct entry *x = &U[i];
		int sep = seps[i % 3];
		render(pbuf, x, sep);
		mpt::path &p = use_path(pbuf, sep, x);
		const char *got = 0;
		/* value through the generic getter (string form) */
		vf_at("config::get");
		bool ok = root.get(p, got);
		vf_count("config::get", 1);
		if (x->hasval) {
			VF_CHECK(ok, "model:query:value-missing", "after %s: get('%s') failed, model holds a value of %zu bytes", after, show(x), x->vlen);
			VF_CHECK(got != 0, "model:query:value-null", "after %s: value of '%s' has no string form", after, show(x));
			size_t gl = strlen(got);
			VF_CHECK(gl == x->vlen && !memcmp(got, x->val, gl), "model:query:value-differs",
			         "after %s: get('%s') returned %zu bytes '%.24s', last assigned %zu bytes '%.24s'", after, show(x), gl, got, x->vlen, x->val);
			vf_count("monitor:value-compares", 1);
		} else {
			VF_CHECK(!ok, "model:query:phantom-value", "after %s: get('%s') succeeded ('%.24s'), model has %s", after, show(x), got ? got : "",
			         x->exists ? "a node without value" : "nothing");
			vf_count("monitor:absence-compares", 1);
		}
		/* the C accessor on the same object */
		if (i & 1) {
			const char *s = 0;
			vf_at("mpt_config_getp");
			int rc = mpt_config_getp(&root, &p, 's', &s);
			vf_count("mpt_config_getp", 1);
			if (x->hasval) VF_CHECK(rc >= 0 && s && strlen(s) == x->vlen && !memcmp(s, x->val, x->vlen), "model:query:value-differs",
			                        "after %s: mpt_config_getp('%s') returned %d '%.24s', last assigned '%.24s'", after, show(x), rc, s ? s : "(null)", x->val);
			else VF_CHECK(rc < 0, "model:query:phantom-value", "after %s: mpt_config_getp('%s') returned %d, model has no value there", after, show(x), rc);
		}
		/* existence */
		vf_at("config::root::query");
		int rc = root.query(&p, (i & 2) ? exists_cb : 0, 0);
		vf_count("config::root::query", 1);
		if (x->exists) VF_CHECK(rc >= 0, "model:query:node-missing", "after %s: query('%s') returned %d, model has the node", after, show(x), rc);
		else VF_CHECK(rc < 0, "model:query:phantom-node", "after %s: query('%s') returned %d, model has no such node", after, show(x), rc);
		vf_count("monitor:existence-compares", 1);
	}
	vf_count("monitor:audits", 1);
}

static size_t gen_value(vf_rng *r, char *dst)
{
	static const size_t vl[] = { 0, 1, 2, 3, 8, 17, 40, 100, 253, 254, 255, 256, 257, 300 };
	size_t l = vf_chance(r, 1, 4) ? vl[vf_below(r, 14)] : vf_below(r, 12);
	for (size_t i = 0; i < l; i++) dst[i] = (char) (0x20 + vf_below(r, 0x5f));
	dst[l] = 0;
	return l;
}

extern "C" uint64_t vf_cases(void) { return vf_thorough ? 300000 : 16000; }

static void history(vf_rng *r)
{
	static const size_t nl[] = { 1, 1, 2, 3, 1, 2, 2, 3 };
	/* lengths around the inline name capacity of the elements (text + terminator == capacity) */
	static const size_t bl[13] = { 10, 11, 11, 11, 12, 18, 19, 20, 83, 211, 11, 12, 10 };
	int sets = 0, removes = 0, overw = 0, i;
	char val[MAXVAL];
	mpt::config::root root;
	prng = r;

	nnames = 5 + (int) vf_below(r, 4);
	for (i = 0; i < nnames; i++) {
		size_t l = nl[i];
		if (i == 3 && vf_chance(r, 1, 2)) l = 254 + vf_below(r, 4);
		if (i == 4 && vf_chance(r, 1, 2)) l = 0;
		if (i >= 5 || (i == 2 && vf_chance(r, 1, 2))) { l = bl[vf_below(r, 13)]; vf_count("universe:boundary-element", 1); }
		if (l == 11) vf_count("universe:capacity-element", 1);
		namelen[i] = l;
		for (size_t k = 0; k < l; k++) names[i][k] = (char) ('a' + (k ? vf_below(r, 26) : (uint32_t) i));
		names[i][l] = 0;
		vf_fp(names[i], l);
		if (l > 250) vf_count("universe:long-element", 1);
		if (!l) vf_count("universe:empty-element", 1);
	}
	nu = 0;
	int npaths = 6 + (int) vf_below(r, 15);
	for (i = 0; i < npaths; i++) {
		int e[MAXDEPTH], n = 1 + (int) vf_below(r, MAXDEPTH);
		if (nu && vf_chance(r, 1, 2)) {
			const struct entry *b = &U[vf_below(r, (uint32_t) nu)];
			n = b->n;
			memcpy(e, b->e, sizeof(e));
			if (n < MAXDEPTH && vf_chance(r, 2, 3)) { e[n] = vf_chance(r, 1, 3) ? e[n - 1] : (int) vf_below(r, (uint32_t) nnames); n++; }
			else e[n - 1] = (int) vf_below(r, (uint32_t) nnames);
		} else {
			for (int k = 0; k < n; k++) e[k] = (int) vf_below(r, (uint32_t) nnames);
		}
		for (int k = 1; k <= n; k++) if (add_entry(k, e) < 0) break;
	}
	vf_max("max:universe", (uint64_t) nu);
	audit("start", root);

	int nops = vf_range(r, 50, vf_thorough ? 400 : 200);
	for (int op = 0; op < nops; op++) {
		char what[160];
		int k = (int) vf_below(r, 100);
		int t = (int) vf_below(r, (uint32_t) nu);
		struct entry *x = &U[t];
		int sep = seps[vf_below(r, 3)];
		size_t pl = render(pbuf, x, sep);
		vf_fp_u64((uint64_t) k << 16 | (uint64_t) t << 4 | (uint64_t) (sep & 3));
		if (k < 30) {
			size_t vl = gen_value(r, val);
			snprintf(what, sizeof(what), "set('%s', %zu bytes, sep '%c')", show(x), vl, sep);
			vf_log("%s", what);
			vf_at("config::set");
			vf_count("config::set:assign", 1);
			if (x->hasval) { overw++; vf_count("state:overwrite", 1); }
			if (vl >= 250) vf_count("state:long-value", 1);
			vf_fp(val, vl);
			bool ok = root.set(pbuf, val, sep);
			VF_CHECK(ok, "model:assign:refused", "%s failed", what);
			m_set(t, val, vl);
			sets++;
		}
		else if (k < 50) {
			/* assign through the interface with a value object */
			size_t vl = gen_value(r, val);
			mpt::path &p = use_path(pbuf, sep, x);
			mpt::value v;
			const char *vp = val;
			v = vp;
			snprintf(what, sizeof(what), "assign('%s', %zu bytes, sep '%c')", show(x), vl, sep);
			vf_log("%s", what);
			vf_at("config::root::assign");
			vf_count("config::root::assign", 1);
			if (x->hasval) { overw++; vf_count("state:overwrite", 1); }
			vf_fp(val, vl);
			int rc = root.assign(&p, &v);
			VF_CHECK(rc >= 0, "model:assign:refused", "%s returned %d", what, rc);
			m_set(t, val, vl);
			sets++;
		}
		else if (k < 65) {
			snprintf(what, sizeof(what), "set('%s', NULL)%s", show(x), x->exists ? "" : " [absent]");
			vf_log("%s", what);
			vf_at("config::set");
			vf_count("config::set:remove", 1);
			int inner = 0;
			for (int j = 0; j < nu; j++) if (j != t && U[j].exists && is_prefix(x, &U[j])) inner = 1;
			if (x->exists && inner) vf_count("state:remove-inner-node", 1);
			if (!x->exists) vf_count("state:remove-absent", 1);
			bool ok = root.set(pbuf, 0, sep);
			if (x->exists) VF_CHECK(ok, "model:remove:refused", "%s failed", what);
			m_remove(t);
			removes++;
		}
		else if (k < 75) {
			/* del() with explicit length: the path is a prefix of a longer string */
			int explen = vf_chance(r, 1, 2);
			if (explen) { pbuf[pl] = vf_chance(r, 1, 2) ? (char) sep : 'Q'; pbuf[pl + 1] = 'x'; pbuf[pl + 2] = 0; }
			snprintf(what, sizeof(what), "del('%s', len %s)%s", show(x), explen ? "explicit" : "-1", x->exists ? "" : " [absent]");
			vf_log("%s", what);
			vf_at("config::del");
			vf_count("config::del", 1);
			if (explen) vf_count("state:del-explicit-length", 1);
			root.del(pbuf, sep, explen ? (int) pl : -1);
			m_remove(t);
			removes++;
		}
		else if (k < 85) {
			mpt::path &p = use_path(pbuf, sep, x);
			snprintf(what, sizeof(what), "remove('%s')%s", show(x), x->exists ? "" : " [absent]");
			vf_log("%s", what);
			vf_at("config::root::remove");
			vf_count("config::root::remove", 1);
			int rc = root.remove(&p);
			if (x->exists) VF_CHECK(rc >= 0, "model:remove:refused", "%s returned %d", what, rc);
			m_remove(t);
			removes++;
		}
		else if (k < 88) {
			mpt::path p;
			snprintf(what, sizeof(what), "remove(empty path) = clear");
			vf_log("%s", what);
			vf_at("config::root::remove");
			vf_count("config::root::remove:clear", 1);
			int rc = root.remove(&p);
			VF_CHECK(rc >= 0, "model:remove:refused", "%s returned %d", what, rc);
			for (int j = 0; j < nu; j++) U[j].exists = U[j].hasval = 0;
		}
		else if (k < 96) {
			/* assignment the store refuses: value without type, or with a type id nobody registered.
			 * Whatever the path (present, absent, absent with absent intermediate elements):
			 * the map must be exactly as before. */
			mpt::path &p = use_path(pbuf, sep, x);
			mpt::value v;
			static const int dummy = 0;
			int untyped = vf_chance(r, 1, 2);
			if (!untyped) v.set(0xfe, &dummy);
			snprintf(what, sizeof(what), "assign('%s', %s value)%s", show(x), untyped ? "untyped" : "unregistered-type", x->exists ? "" : " [absent]");
			vf_log("%s", what);
			vf_at("config::root::assign");
			int rc = root.assign(&p, &v);
			if (rc < 0) {
				vf_count("config::root::assign:refused", 1);
				if (!x->exists) {
					int newinner = 0;
					for (int j = 0; j < nu; j++) if (j != t && !U[j].exists && is_prefix(&U[j], x)) newinner = 1;
					vf_count("state:refused-on-absent-path", 1);
					if (newinner) vf_count("state:refused-with-absent-intermediate", 1);
				}
				/* model untouched; the audit below decides */
			} else {
				/* accepted in some other representation: take it out again to stay in step */
				vf_count("config::root::assign:odd-value-accepted", 1);
				for (int j = 0; j < nu; j++) if (is_prefix(&U[j], x)) U[j].exists = 1;
				root.remove(&p);
				m_remove(t);
			}
		}
		else if (k < 98) {
			/* the process-wide store copies the path as plain struct: assign through the re-used
			 * object, read back through a fresh one, take the top-level element out again */
			size_t vl = vf_below(r, 10);
			for (size_t q = 0; q < vl; q++) val[q] = (char) ('a' + vf_below(r, 26));
			val[vl] = 0;
			const char *vp = val, *got = 0;
			mpt::value v;
			v = vp;
			mpt::metatype *g = mpt::config::global();
			mpt::config *cfg = 0;
			VF_CHECK(g && g->convert(mpt::TypeConfigPtr, &cfg) >= 0 && cfg, "model:global:no-config", "config::global() has no config interface");
			snprintf(what, sizeof(what), "global round trip '%s'", show(x));
			vf_log("%s", what);
			vf_count("config::global:roundtrip", 1);
			vf_at("config::assign");
			int rc = cfg->assign(&use_path(pbuf, sep, x), &v);
			VF_CHECK(rc >= 0, "model:global:assign-refused", "%s: assign returned %d", what, rc);
			{
				mpt::path fresh(pbuf, sep, 0);
				rc = mpt_config_getp(cfg, &fresh, 's', &got);
				VF_CHECK(rc >= 0 && got && !strcmp(got, val), "model:global:value-missing", "%s: fresh path query returned %d '%s', assigned '%s' through the re-used path object",
				         what, rc, got ? got : "(null)", val);
			}
			rc = mpt_config_getp(cfg, &use_path(pbuf, sep, x), 's', &got);
			VF_CHECK(rc >= 0 && got && !strcmp(got, val), "model:global:value-missing", "%s: query through the re-used path object returned %d", what, rc);
			/* remove the top-level element of that path */
			struct entry top = *x;
			top.n = 1;
			render(pbuf, &top, sep);
			rc = cfg->remove(&use_path(pbuf, sep, &top));
			VF_CHECK(rc >= 0, "model:global:remove-refused", "%s: remove of the top element returned %d", what, rc);
			{
				mpt::path fresh(pbuf, sep, 0);
				VF_CHECK(mpt_config_getp(cfg, &fresh, 0, 0) < 0, "model:global:phantom-node", "%s: top element still present after remove", what);
			}
			render(pbuf, x, sep);
		}
		else {
			snprintf(what, sizeof(what), "query only");
		}
		audit(what, root);
	}
	if (sets >= 10 && removes >= 3 && overw >= 2) vf_nontrivial();
	vf_sample("config::root: %d names, %d universe paths, %d ops: %d assigns (%d overwrites), %d removes", nnames, nu, nops, sets, overw, removes);
}

extern "C" void vf_case(uint64_t idx, vf_rng *r)
{
	(void) idx;
	history(r);
}
