/*
 * C08: recording save handler with the stack model of open sections, shared
 * by the C leg (c08_parse.c) and the C++ leg (c08_cxx.cpp); code in c08_rec.c.
 */
#ifndef C08_REC_H
#define C08_REC_H

#include "config.h"
#include "types.h"
#include "vf.h"

#ifdef __cplusplus
# define C08_T(x) mpt::x
extern "C" {
#else
# define C08_T(x) MPT_STRUCT(x)
#endif

typedef struct { uint8_t *d; size_t n, cap; } c08_bytes;

typedef struct c08_recorder {
	void (*tick)(void *, const char *);  /* called for every event (callback bound of the driver) */
	void *tick_arg;
	int binary;                     /* path is in SepBinary form */
	int sep;
	long fail_at;                   /* index of the event the handler refuses, -1: never */
	int refused;
	uint64_t count;
	uint64_t kinds[8];
	/* open sections */
	c08_bytes names;
	size_t *lens, depth, cap, maxdepth;
	/* first nesting error */
	const char *nest_key;
	char nest_msg[400];
} c08_recorder;

void c08_rec_init(c08_recorder *rec, int binary, long fail_at);
void c08_rec_fini(c08_recorder *rec);
/* path handler for mpt_parse_config(): arg is the recorder */
int c08_rec_save(void *arg, const C08_T(path) *path, const C08_T(value) *val, int prev, int curr);
/* verdict over a finished parse: family = format type character, same = section start and end character identical */
void c08_rec_verdict(c08_recorder *rec, int family, int same, int ret, const char *driver, const char *desc);

#ifdef __cplusplus
}
#endif
#endif /* C08_REC_H */
