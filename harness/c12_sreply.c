/*
 * C12 leg (f): mpt_stream_reply (the send function behind every stream reply
 * context) on a stream with a fixed-size output buffer (mpt_stream_memory) and
 * with an unfinished outgoing message of the owner.
 *
 * The harness is the transport behind the stream: it takes the finished bytes
 * (encode state `done`) from the front of the output queue, as a transport does,
 * and decodes the frames.  Model: the sequence of messages that were accepted
 * (mpt_stream_reply() >= 0: header + message; own message completed).  Oracle:
 * the frames taken from the stream are exactly that sequence - a refused reply
 * contributes nothing, neither a frame nor bytes inside a neighbouring frame -
 * and a refused reply may be retried: once the buffer has been emptied and no
 * own message is open, a reply that fits an empty buffer must be accepted.
 */
#include <stdlib.h>
#include <inttypes.h>
#include <sys/uio.h>

#include "message.h"
#include "convert.h"
#include "queue.h"
#include "event.h"
#include "stream.h"
#include "vf.h"

#include "c01_refcodec.h"   /* independent reference decoder for the four COBS framings (C01's) */

const char *vf_name = "c12_sreply";

#define FMT_PLAIN 4   /* no message encoder: messages are lines, terminated by the newline of the stream */
#define NFMT 5
static int fmt;   /* RC_COBS, RC_COBS_R, RC_ZPE, RC_ZPE_R, FMT_PLAIN */
static const int enc_code[NFMT] = { MPT_ENUM(EncodingCobs), MPT_ENUM(EncodingCobsInline),
                                    MPT_ENUM(EncodingCobs) | MPT_ENUM(EncodingCompress), MPT_ENUM(EncodingCobsInline) | MPT_ENUM(EncodingCompress), 0 };
static const char *cnt_exact[NFMT] = { "exact:cobs", "exact:cobs_r", "exact:cobs_zpe", "exact:cobs_zpe_r", "exact:plain" };
static const char *fname[NFMT] = { "cobs", "cobs_r", "cobs_zpe", "cobs_zpe_r", "plain" };
/* message bytes of line separated streams: no line separators inside */
static void plainify(uint8_t *p, size_t n)
{
	if (fmt != FMT_PLAIN) return;
	for (size_t i = 0; i < n; i++) if (p[i] == '\n' || p[i] == '\r') p[i] = 0x55;
}
static size_t frame_bound(size_t n) { return fmt == FMT_PLAIN ? n + 2 : rc_frame_bound(n); }

#define MAXMSG 40
#define MSGLEN 300
static struct { uint8_t d[MSGLEN]; size_t n; } expect[MAXMSG];
static int nexp, ntaken;
static MPT_STRUCT(stream) srm;
static size_t cap;
static char hx1[260], hx2[260];
static const char *cur = "";

/* the transport: remove finished bytes from the front (they are final, also in the middle of a message),
 * collect them and compare every complete frame */
static uint8_t acc[8192];
static size_t acclen;
static void drain(void)
{
	static uint8_t dec[2 * 8192 + 8];
	size_t done = srm._wd._state.done;
	if (done) {
		VF_CHECK(done <= srm._wd.data.len && acclen + done <= sizeof(acc), "model:sreply:state", "%s: encoder reports %zu finished bytes, queue holds %zu", cur, done, srm._wd.data.len);
		mpt_queue_get(&srm._wd.data, 0, done, acc + acclen);
		acclen += done;
		mpt_queue_crop(&srm._wd.data, 0, done);
		srm._wd._state.done = 0;
	}
	for (;;) {
		uint8_t *z = memchr(acc, fmt == FMT_PLAIN ? '\n' : 0, acclen);
		size_t fl;
		size_t dl = 0;
		int rc;
		if (!z) break;
		fl = (size_t) (z - acc);
		if (fmt == FMT_PLAIN) { memcpy(dec, acc, fl); dl = fl; rc = RC_OK; }
		else rc = rc_decode(fmt, acc, fl, dec, &dl);
		VF_CHECK(rc == RC_OK || rc == RC_EMPTY, "model:sreply:undecodable-frame", "%s: %s frame %s", cur, fname[fmt], vf_hex(hx1, sizeof(hx1), acc, fl));
		vf_count("monitor:frame-compared", 1);
		VF_CHECK(ntaken < nexp, "model:sreply:unexpected-frame", "%s: the stream delivered frame %s although every accepted message was already taken (split or refused reply?)",
		         cur, vf_hex(hx1, sizeof(hx1), dec, dl));
		VF_CHECK(dl == expect[ntaken].n && !memcmp(dec, expect[ntaken].d, dl), "model:sreply:frame-content",
		         "%s: frame %d is %s, accepted message was %s", cur, ntaken, vf_hex(hx1, sizeof(hx1), dec, dl), vf_hex(hx2, sizeof(hx2), expect[ntaken].d, expect[ntaken].n));
		ntaken++;
		fl++;
		memmove(acc, acc + fl, acclen - fl);
		acclen -= fl;
	}
}

static void open_stream(uint8_t **mem, size_t capacity)
{
	static const MPT_STRUCT(stream) init = MPT_STREAM_INIT;
	struct iovec out;
	*mem = vf_xalloc(capacity);
	out.iov_base = *mem; out.iov_len = capacity;
	srm = init;
	vf_at("mpt_stream_memory");
	if (mpt_stream_memory(&srm, 0, &out) < 0) vf_inconclusive("mpt_stream_memory failed");
	srm._wd._enc = enc_code[fmt] ? mpt_message_encoder(enc_code[fmt]) : 0;
	if (enc_code[fmt] && !srm._wd._enc) vf_inconclusive("no %s encoder", fname[fmt]);
}
static void expect_add(const uint8_t *a, size_t an, const uint8_t *b, size_t bn)
{
	memcpy(expect[nexp].d, a, an);
	if (bn) memcpy(expect[nexp].d + an, b, bn);
	expect[nexp].n = an + bn;
	nexp++;
}

/*
 * exactly-full states: the reply is first sent into a large stream of the same framing to learn its frame
 * length F; then the same reply goes into a stream with F-1 (delimiter does not fit any more), F or F-2 bytes.
 */
static void case_exact(uint64_t idx, vf_rng *r)
{
	uint8_t *mem, hdr[4], body[260], *part[2], small[4];
	size_t idlen = 1 + vf_below(r, 4), total, plen[2], F;
	struct iovec cont[1];
	MPT_STRUCT(message) msg = MPT_MESSAGE_INIT;
	int delta, ret, ret2;
	static const size_t lens[] = { 0, 1, 2, 5, 13, 29, 30, 31, 60, 120, 220, 221, 222, 223, 250, 253, 254, 255 };
	ssize_t p;

	(void) idx;
	nexp = 0; ntaken = 0; acclen = 0;
	total = vf_chance(r, 1, 2) ? lens[vf_below(r, sizeof(lens) / sizeof(*lens))] : vf_below(r, 256);
	vf_bytes(r, hdr, idlen); hdr[0] |= 0x80;
	vf_bytes(r, body, total);
	if (vf_chance(r, 1, 3)) for (size_t i = 0; i < total; i++) if (!body[i]) body[i] = 0x55;   /* zero free */
	if (total) body[total - 1] = (uint8_t) (1 + vf_below(r, 4));    /* low last byte: no tail inlining */
	else hdr[idlen - 1] = (uint8_t) (1 + vf_below(r, 4)), hdr[0] |= 0x80;
	plainify(hdr, idlen); plainify(body, total);
	plen[0] = vf_below(r, (uint32_t) total + 1); plen[1] = total - plen[0];
	part[0] = vf_xalloc(plen[0]); part[1] = vf_xalloc(plen[1]);
	if (plen[0]) memcpy(part[0], body, plen[0]);
	if (plen[1]) memcpy(part[1], body + plen[0], plen[1]);
	msg.base = part[0]; msg.used = plen[0];
	cont[0].iov_base = part[1]; cont[0].iov_len = plen[1];
	msg.cont = cont; msg.clen = 1;
	vf_fp_u64(0xE0 + (uint64_t) fmt); vf_fp(hdr, idlen); vf_fp(body, total);

	/* probe */
	open_stream(&mem, 1024);
	cap = 1024;
	cur = "probe";
	vf_at("mpt_stream_reply");
	vf_count("mpt_stream_reply", 1);
	ret = mpt_stream_reply(&srm, idlen, hdr, &msg);
	VF_CHECK(ret >= 0, "model:sreply:refused-with-room", "%s reply of %zu bytes refused (%d) by an empty 1024 byte stream", fname[fmt], idlen + total, ret);
	F = srm._wd.data.len;
	expect_add(hdr, idlen, body, total);
	drain();
	VF_CHECK(ntaken == 1 && !acclen, "model:sreply:frame-missing", "probe: %d frames, %zu bytes left", ntaken, acclen);
	if (srm._wd._enc) srm._wd._enc(&srm._wd._state, 0, 0);
	vf_xfree(mem, 1024);

	/* the same reply into F + delta bytes */
	delta = vf_chance(r, 2, 3) ? -1 : vf_chance(r, 1, 2) ? 0 : -2;
	if ((long) F + delta < 1) delta = 0;
	nexp = 0; ntaken = 0; acclen = 0;
	cap = F + (size_t) ((long) delta);
	open_stream(&mem, cap);
	cur = "exact reply";
	vf_at("mpt_stream_reply");
	vf_count("mpt_stream_reply", 1);
	if (delta == -1) vf_count(cnt_exact[fmt], 1);
	vf_count(delta == -1 ? "exact:delimiter-does-not-fit" : delta == 0 ? "exact:just-fits" : "exact:two-short", 1);
	ret = mpt_stream_reply(&srm, idlen, hdr, &msg);
	vf_log("%s reply of %zu bytes (frame %zu) into %zu bytes = %d", fname[fmt], idlen + total, F, cap, ret);
	if (ret >= 0) { expect_add(hdr, idlen, body, total); vf_count("reply:accepted", 1); }
	else vf_count("reply:refused", 1);
	if (delta < 0) vf_count(ret < 0 ? "exact:refused" : "exact:accepted-shorter-frame", 1);
	drain();
	/* the refusal left nothing behind: a small reply and a message of the owner go through unharmed */
	small[0] = hdr[0]; small[1] = 0x21; small[2] = 0x22; small[3] = 0x23;
	if (cap >= frame_bound(2) + 2) {
		cur = "reply after the exact one";
		vf_count("mpt_stream_reply", 1);
		ret2 = mpt_stream_reply(&srm, 2, small, 0);
		vf_log("small reply afterwards = %d", ret2);
		vf_count("monitor:reply-after-refusal", 1);
		VF_CHECK(ret2 >= 0, "model:sreply:refused-with-room", "after a %s reply (return %d) into a %zu byte stream that was then emptied, a 2 byte reply is refused (%d)",
		         ret < 0 ? "refused" : "accepted", ret, cap, ret2);
		expect_add(small, 2, 0, 0);
		drain();
		cur = "own message after the exact one";
		p = mpt_stream_push(&srm, 2, small + 2);
		if (p == 2 && mpt_stream_push(&srm, 0, 0) >= 0) expect_add(small + 2, 2, 0, 0);
		else vf_fail("model:sreply:own-message-refused", "after the replies a 2 byte message of the owner is refused (%zd) by the emptied %zu byte stream", p, cap);
		drain();
	}
	cur = "end";
	vf_count("monitor:sequence-complete", 1);
	VF_CHECK(!acclen, "model:sreply:unterminated-frame", "bytes %s left without delimiter", vf_hex(hx1, sizeof(hx1), acc, acclen));
	VF_CHECK(ntaken == nexp, "model:sreply:frame-missing", "%d messages were accepted, the stream delivered %d frames", nexp, ntaken);
	if (srm._wd._enc) srm._wd._enc(&srm._wd._state, 0, 0);
	vf_xfree(mem, cap);
	vf_xfree(part[0], plen[0]); vf_xfree(part[1], plen[1]);
	vf_nontrivial();
	vf_sample("%s: reply of %zu bytes, frame %zu, into %zu bytes = %d", fname[fmt], idlen + total, F, cap, ret);
}

static void case_history(uint64_t idx, vf_rng *r)
{
	static const size_t caps[] = { 8, 12, 16, 24, 32, 48, 64, 100, 200, 300 };
	uint8_t *mem;
	size_t idlen = 1 + vf_below(r, 4);
	int nops = vf_range(r, 3, 14), open_own = 0, refused = 0, accepted = 0, retried = 0;
	uint8_t own[64];
	size_t ownlen = 0;
	char desc[500];
	size_t dl;

	(void) idx;
	nexp = 0; ntaken = 0; acclen = 0;
	cap = caps[vf_below(r, sizeof(caps) / sizeof(*caps))];
	open_stream(&mem, cap);
	vf_fp_u64(cap); vf_fp_u64(idlen); vf_fp_u64((uint64_t) fmt);
	dl = (size_t) snprintf(desc, sizeof(desc), "%s capacity=%zu idlen=%zu:", fname[fmt], cap, idlen);

	for (int i = 0; i < nops && nexp < MAXMSG - 2; i++) {
		uint32_t c = vf_below(r, 100);
		if (c < 60) {
			/* reply: header (marked id) + message of 1..3 parts */
			uint8_t hdr[4], flat[MSGLEN], *part[3];
			size_t plen[3], total = 0, freeb, need;
			struct iovec cont[2];
			MPT_STRUCT(message) msg = MPT_MESSAGE_INIT;
			int parts = 1 + (int) vf_below(r, 3), ret, usemsg = !vf_chance(r, 1, 6);
			vf_bytes(r, hdr, idlen);
			hdr[0] |= 0x80;
			plainify(hdr, idlen);
			for (int k = 0; k < parts; k++) {
				plen[k] = vf_chance(r, 1, 4) ? 0 : 1 + vf_below(r, vf_chance(r, 1, 4) ? 120 : 14);
				if (total + plen[k] > MSGLEN - 8) plen[k] = 0;
				part[k] = vf_xalloc(plen[k]);
				if (plen[k]) { vf_bytes(r, part[k], plen[k]); plainify(part[k], plen[k]); memcpy(flat + total, part[k], plen[k]); }
				total += plen[k];
			}
			if (!usemsg) total = 0;
			msg.base = part[0]; msg.used = plen[0];
			for (int k = 1; k < parts; k++) { cont[k - 1].iov_base = part[k]; cont[k - 1].iov_len = plen[k]; }
			msg.cont = parts > 1 ? cont : 0; msg.clen = (size_t) parts - 1;
			freeb = srm._wd.data.max - srm._wd.data.len;
			need = frame_bound(idlen + total) + 2;   /* frame size bound plus slack */
			vf_fp_u64(0x10); vf_fp(hdr, idlen); vf_fp(flat, total); vf_fp_u64((uint64_t) parts);
			cur = "mpt_stream_reply";
			vf_at("mpt_stream_reply");
			vf_count("mpt_stream_reply", 1);
			if (need > freeb) vf_count("reply:may-not-fit", 1);
			if (open_own) vf_count(fmt == FMT_PLAIN ? "reply:during-unfinished-plain-message" : "reply:during-unfinished-message", 1);
			if (usemsg && parts > 1) vf_count("reply:fragmented-message", 1);
			if (usemsg && !plen[0] && total) vf_count("reply:empty-first-fragment", 1);
			ret = mpt_stream_reply(&srm, idlen, hdr, usemsg ? &msg : 0);
			vf_log("stream_reply(hdr %s, %zu message bytes in %d part(s), free %zu%s) = %d", vf_hex(hx1, sizeof(hx1), hdr, idlen), total, parts, freeb, open_own ? ", own message open" : "", ret);
			if (dl + 20 < sizeof(desc)) dl += (size_t) snprintf(desc + dl, sizeof(desc) - dl, " reply(%zu)%s", total, ret < 0 ? "!" : "");
			if (ret >= 0) {
				VF_CHECK(!open_own, "model:sreply:accepted-inside-own-message", "reply accepted while an outgoing message of the owner is unfinished");
				memcpy(expect[nexp].d, hdr, idlen);
				memcpy(expect[nexp].d + idlen, flat, total);
				expect[nexp].n = idlen + total;
				nexp++; accepted++;
				vf_count("reply:accepted", 1);
			} else {
				refused++;
				vf_count("reply:refused", 1);
				VF_CHECK(open_own || need > freeb, "model:sreply:refused-with-room", "reply of %zu bytes refused (%d) with %zu bytes free and no message open", idlen + total, ret, freeb);
			}
			/* the transport takes the finished bytes now or later */
			if (ret < 0 || vf_chance(r, 1, 2)) drain();
			/* retry of a refused reply on the emptied buffer */
			if (ret < 0 && !open_own && need <= cap) {
				cur = "mpt_stream_reply(retry)";
				vf_count("mpt_stream_reply(retry)", 1);
				ret = mpt_stream_reply(&srm, idlen, hdr, usemsg ? &msg : 0);
				vf_log("retry on empty buffer = %d", ret);
				vf_count("monitor:retry-accepted", 1);
				VF_CHECK(ret >= 0, "model:sreply:retry-refused", "a reply of %zu bytes refused before was refused again (%d) on the emptied %zu byte buffer with no message open",
				         idlen + total, ret, cap);
				memcpy(expect[nexp].d, hdr, idlen);
				memcpy(expect[nexp].d + idlen, flat, total);
				expect[nexp].n = idlen + total;
				nexp++; retried++;
				drain();
			}
			for (int k = 0; k < parts; k++) vf_xfree(part[k], plen[k]);
		} else if (c < 80 && !open_own) {
			/* the owner starts a message of its own and leaves it open */
			size_t n = 1 + vf_below(r, 6);
			ssize_t p;
			if (srm._wd.data.max - srm._wd.data.len < n + 3) { drain(); continue; }
			vf_bytes(r, own, n);
			plainify(own, n);
			cur = "mpt_stream_push";
			vf_at("mpt_stream_push");
			vf_count("mpt_stream_push", 1);
			p = mpt_stream_push(&srm, n, own);
			vf_log("own message: push(%zu) = %zd", n, p);
			if (p != (ssize_t) n) vf_inconclusive("own push of %zu bytes returned %zd", n, p);
			ownlen = n; open_own = 1;
			vf_fp_u64(0x20); vf_fp(own, n);
			if (dl + 12 < sizeof(desc)) dl += (size_t) snprintf(desc + dl, sizeof(desc) - dl, " own-open");
		} else if (open_own) {
			ssize_t p;
			cur = "mpt_stream_push(end)";
			vf_at("mpt_stream_push");
			p = mpt_stream_push(&srm, 0, 0);
			vf_log("own message: terminate = %zd", p);
			if (p < 0) vf_inconclusive("terminating the own message returned %zd", p);
			memcpy(expect[nexp].d, own, ownlen); expect[nexp].n = ownlen; nexp++;
			open_own = 0;
			vf_fp_u64(0x21);
			if (dl + 12 < sizeof(desc)) dl += (size_t) snprintf(desc + dl, sizeof(desc) - dl, " own-end");
			if (vf_chance(r, 1, 2)) drain();
		}
	}
	if (open_own) {
		if (mpt_stream_push(&srm, 0, 0) < 0) vf_inconclusive("terminating the own message failed");
		memcpy(expect[nexp].d, own, ownlen); expect[nexp].n = ownlen; nexp++;
	}
	cur = "end";
	drain();
	vf_count("monitor:sequence-complete", 1);
	VF_CHECK(!acclen, "model:sreply:unterminated-frame", "bytes %s left without delimiter after every message was finished", vf_hex(hx1, sizeof(hx1), acc, acclen));
	VF_CHECK(ntaken == nexp, "model:sreply:frame-missing", "%d messages were accepted, the stream delivered %d frames", nexp, ntaken);
	/* encoder state is harness-visible only; the memory belongs to the harness */
	if (srm._wd._enc) srm._wd._enc(&srm._wd._state, 0, 0);
	vf_xfree(mem, cap);
	if (refused) vf_count("history:with-refused-reply", 1);
	if (retried) vf_count("history:with-retried-reply", 1);
	if (accepted >= 2) vf_nontrivial();
	vf_sample("%s  => %d accepted, %d refused, %d retried", desc, accepted, refused, retried);
}

void vf_case(uint64_t idx, vf_rng *r)
{
	fmt = (int) (idx % NFMT);
	if ((idx / NFMT) % 3 == 2) case_exact(idx, r);
	else case_history(idx, r);
}

uint64_t vf_cases(void) { return vf_thorough ? 600000 : 60000; }
