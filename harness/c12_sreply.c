/*
 * C12 leg (f): mpt_stream_reply (the send function behind every stream reply
 * context) on a stream with a fixed-size output buffer (mpt_stream_memory) and
 * with an unfinished outgoing message of the owner.
 *
 * The harness is the transport behind the stream: it takes the finished bytes
 * (encode state `done`) from the front of the output queue, as a transport does,
 * and decodes the frames.  Model: the sequence of messages that were accepted
 * (mpt_stream_reply() >= 0: header + message; own message completed).  Oracle:
 * the frames taken from the stream are exactly that sequence - a refused reply
 * contributes nothing, neither a frame nor bytes inside a neighbouring frame -
 * and a refused reply may be retried: once the buffer has been emptied and no
 * own message is open, a reply that fits an empty buffer must be accepted.
 */
#include <stdlib.h>
#include <inttypes.h>
#include <sys/uio.h>

#include "message.h"
#include "convert.h"
#include "queue.h"
#include "event.h"
#include "stream.h"
#include "vf.h"

const char *vf_name = "c12_sreply";

#define MAXMSG 40
#define MSGLEN 300
static struct { uint8_t d[MSGLEN]; size_t n; } expect[MAXMSG];
static int nexp, ntaken;
static MPT_STRUCT(stream) srm;
static size_t cap;
static char hx1[260], hx2[260];
static const char *cur = "";

static long cobs_decode(const uint8_t *src, size_t len, uint8_t *dst)
{
	size_t o = 0, i = 0;
	while (i < len) {
		uint8_t code = src[i++];
		if (!code) return -1;
		for (uint8_t k = 1; k < code; k++) { if (i >= len) return -1; dst[o++] = src[i++]; }
		if (code < 0xff && i < len) dst[o++] = 0;
	}
	return (long) o;
}
/* the transport: remove finished bytes from the front (they are final, also in the middle of a message),
 * collect them and compare every complete frame */
static uint8_t acc[8192];
static size_t acclen;
static void drain(void)
{
	static uint8_t dec[4096];
	size_t done = srm._wd._state.done;
	if (done) {
		VF_CHECK(done <= srm._wd.data.len && acclen + done <= sizeof(acc), "model:sreply:state", "%s: encoder reports %zu finished bytes, queue holds %zu", cur, done, srm._wd.data.len);
		mpt_queue_get(&srm._wd.data, 0, done, acc + acclen);
		acclen += done;
		mpt_queue_crop(&srm._wd.data, 0, done);
		srm._wd._state.done = 0;
	}
	for (;;) {
		uint8_t *z = memchr(acc, 0, acclen);
		size_t fl;
		long dl;
		if (!z) break;
		fl = (size_t) (z - acc);
		dl = cobs_decode(acc, fl, dec);
		VF_CHECK(dl >= 0, "model:sreply:undecodable-frame", "%s: frame %s", cur, vf_hex(hx1, sizeof(hx1), acc, fl));
		vf_count("monitor:frame-compared", 1);
		VF_CHECK(ntaken < nexp, "model:sreply:unexpected-frame", "%s: the stream delivered frame %s although every accepted message was already taken (split or refused reply?)",
		         cur, vf_hex(hx1, sizeof(hx1), dec, (size_t) dl));
		VF_CHECK((size_t) dl == expect[ntaken].n && !memcmp(dec, expect[ntaken].d, (size_t) dl), "model:sreply:frame-content",
		         "%s: frame %d is %s, accepted message was %s", cur, ntaken, vf_hex(hx1, sizeof(hx1), dec, (size_t) dl), vf_hex(hx2, sizeof(hx2), expect[ntaken].d, expect[ntaken].n));
		ntaken++;
		fl++;
		memmove(acc, acc + fl, acclen - fl);
		acclen -= fl;
	}
}

void vf_case(uint64_t idx, vf_rng *r)
{
	static const size_t caps[] = { 8, 12, 16, 24, 32, 48, 64, 100, 200, 300 };
	struct iovec out;
	uint8_t *mem;
	size_t idlen = 1 + vf_below(r, 4);
	int nops = vf_range(r, 3, 14), open_own = 0, refused = 0, accepted = 0, retried = 0;
	uint8_t own[64];
	size_t ownlen = 0;
	char desc[500];
	size_t dl;
	static const MPT_STRUCT(stream) init = MPT_STREAM_INIT;

	(void) idx;
	nexp = 0; ntaken = 0; acclen = 0;
	cap = caps[vf_below(r, sizeof(caps) / sizeof(*caps))];
	mem = vf_xalloc(cap);
	out.iov_base = mem; out.iov_len = cap;
	srm = init;
	vf_at("mpt_stream_memory");
	if (mpt_stream_memory(&srm, 0, &out) < 0) vf_inconclusive("mpt_stream_memory failed");
	srm._wd._enc = mpt_message_encoder(MPT_ENUM(EncodingCobs));
	if (!srm._wd._enc) vf_inconclusive("no COBS encoder");
	vf_fp_u64(cap); vf_fp_u64(idlen);
	dl = (size_t) snprintf(desc, sizeof(desc), "capacity=%zu idlen=%zu:", cap, idlen);

	for (int i = 0; i < nops && nexp < MAXMSG - 2; i++) {
		uint32_t c = vf_below(r, 100);
		if (c < 60) {
			/* reply: header (marked id) + message of 1..3 parts */
			uint8_t hdr[4], flat[MSGLEN], *part[3];
			size_t plen[3], total = 0, freeb, need;
			struct iovec cont[2];
			MPT_STRUCT(message) msg = MPT_MESSAGE_INIT;
			int parts = 1 + (int) vf_below(r, 3), ret, usemsg = !vf_chance(r, 1, 6);
			vf_bytes(r, hdr, idlen);
			hdr[0] |= 0x80;
			for (int k = 0; k < parts; k++) {
				plen[k] = vf_chance(r, 1, 4) ? 0 : 1 + vf_below(r, vf_chance(r, 1, 4) ? 120 : 14);
				if (total + plen[k] > MSGLEN - 8) plen[k] = 0;
				part[k] = vf_xalloc(plen[k]);
				if (plen[k]) { vf_bytes(r, part[k], plen[k]); memcpy(flat + total, part[k], plen[k]); }
				total += plen[k];
			}
			if (!usemsg) total = 0;
			msg.base = part[0]; msg.used = plen[0];
			for (int k = 1; k < parts; k++) { cont[k - 1].iov_base = part[k]; cont[k - 1].iov_len = plen[k]; }
			msg.cont = parts > 1 ? cont : 0; msg.clen = (size_t) parts - 1;
			freeb = srm._wd.data.max - srm._wd.data.len;
			need = idlen + total + (idlen + total) / 254 + 2 + 4;   /* COBS size plus slack */
			vf_fp_u64(0x10); vf_fp(hdr, idlen); vf_fp(flat, total); vf_fp_u64((uint64_t) parts);
			cur = "mpt_stream_reply";
			vf_at("mpt_stream_reply");
			vf_count("mpt_stream_reply", 1);
			if (need > freeb) vf_count("reply:may-not-fit", 1);
			if (open_own) vf_count("reply:during-unfinished-message", 1);
			if (usemsg && parts > 1) vf_count("reply:fragmented-message", 1);
			if (usemsg && !plen[0] && total) vf_count("reply:empty-first-fragment", 1);
			ret = mpt_stream_reply(&srm, idlen, hdr, usemsg ? &msg : 0);
			vf_log("stream_reply(hdr %s, %zu message bytes in %d part(s), free %zu%s) = %d", vf_hex(hx1, sizeof(hx1), hdr, idlen), total, parts, freeb, open_own ? ", own message open" : "", ret);
			if (dl + 20 < sizeof(desc)) dl += (size_t) snprintf(desc + dl, sizeof(desc) - dl, " reply(%zu)%s", total, ret < 0 ? "!" : "");
			if (ret >= 0) {
				VF_CHECK(!open_own, "model:sreply:accepted-inside-own-message", "reply accepted while an outgoing message of the owner is unfinished");
				memcpy(expect[nexp].d, hdr, idlen);
				memcpy(expect[nexp].d + idlen, flat, total);
				expect[nexp].n = idlen + total;
				nexp++; accepted++;
				vf_count("reply:accepted", 1);
			} else {
				refused++;
				vf_count("reply:refused", 1);
				VF_CHECK(open_own || need > freeb, "model:sreply:refused-with-room", "reply of %zu bytes refused (%d) with %zu bytes free and no message open", idlen + total, ret, freeb);
			}
			/* the transport takes the finished bytes now or later */
			if (ret < 0 || vf_chance(r, 1, 2)) drain();
			/* retry of a refused reply on the emptied buffer */
			if (ret < 0 && !open_own && need <= cap) {
				cur = "mpt_stream_reply(retry)";
				vf_count("mpt_stream_reply(retry)", 1);
				ret = mpt_stream_reply(&srm, idlen, hdr, usemsg ? &msg : 0);
				vf_log("retry on empty buffer = %d", ret);
				vf_count("monitor:retry-accepted", 1);
				VF_CHECK(ret >= 0, "model:sreply:retry-refused", "a reply of %zu bytes refused before was refused again (%d) on the emptied %zu byte buffer with no message open",
				         idlen + total, ret, cap);
				memcpy(expect[nexp].d, hdr, idlen);
				memcpy(expect[nexp].d + idlen, flat, total);
				expect[nexp].n = idlen + total;
				nexp++; retried++;
				drain();
			}
			for (int k = 0; k < parts; k++) vf_xfree(part[k], plen[k]);
		} else if (c < 80 && !open_own) {
			/* the owner starts a message of its own and leaves it open */
			size_t n = 1 + vf_below(r, 6);
			ssize_t p;
			if (srm._wd.data.max - srm._wd.data.len < n + 3) { drain(); continue; }
			vf_bytes(r, own, n);
			cur = "mpt_stream_push";
			vf_at("mpt_stream_push");
			vf_count("mpt_stream_push", 1);
			p = mpt_stream_push(&srm, n, own);
			vf_log("own message: push(%zu) = %zd", n, p);
			if (p != (ssize_t) n) vf_inconclusive("own push of %zu bytes returned %zd", n, p);
			ownlen = n; open_own = 1;
			vf_fp_u64(0x20); vf_fp(own, n);
			if (dl + 12 < sizeof(desc)) dl += (size_t) snprintf(desc + dl, sizeof(desc) - dl, " own-open");
		} else if (open_own) {
			ssize_t p;
			cur = "mpt_stream_push(end)";
			vf_at("mpt_stream_push");
			p = mpt_stream_push(&srm, 0, 0);
			vf_log("own message: terminate = %zd", p);
			if (p < 0) vf_inconclusive("terminating the own message returned %zd", p);
			memcpy(expect[nexp].d, own, ownlen); expect[nexp].n = ownlen; nexp++;
			open_own = 0;
			vf_fp_u64(0x21);
			if (dl + 12 < sizeof(desc)) dl += (size_t) snprintf(desc + dl, sizeof(desc) - dl, " own-end");
			if (vf_chance(r, 1, 2)) drain();
		}
	}
	if (open_own) {
		if (mpt_stream_push(&srm, 0, 0) < 0) vf_inconclusive("terminating the own message failed");
		memcpy(expect[nexp].d, own, ownlen); expect[nexp].n = ownlen; nexp++;
	}
	cur = "end";
	drain();
	vf_count("monitor:sequence-complete", 1);
	VF_CHECK(!acclen, "model:sreply:unterminated-frame", "bytes %s left without delimiter after every message was finished", vf_hex(hx1, sizeof(hx1), acc, acclen));
	VF_CHECK(ntaken == nexp, "model:sreply:frame-missing", "%d messages were accepted, the stream delivered %d frames", nexp, ntaken);
	/* encoder state is harness-visible only; the memory belongs to the harness */
	srm._wd._enc(&srm._wd._state, 0, 0);
	vf_xfree(mem, cap);
	if (refused) vf_count("history:with-refused-reply", 1);
	if (retried) vf_count("history:with-retried-reply", 1);
	if (accepted >= 2) vf_nontrivial();
	vf_sample("%s  => %d accepted, %d refused, %d retried", desc, accepted, refused, retried);
}

uint64_t vf_cases(void) { return vf_thorough ? 300000 : 30000; }
