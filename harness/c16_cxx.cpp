/*
 * C16 (C++ leg): mpt::identifier, item<T> and derived objects with trailing
 * inline storage against a byte-string shadow.
 *
 * Objects are placement-constructed in exact-size blocks.  The fields of the
 * identifier are protected in C++; the monitor reads them through the layout
 * the C declaration of the same struct publishes (uint16 length, uint8
 * charset, uint8 inline capacity, inline bytes overlaying the content
 * pointer at offset 8).
 */
#include <new>
#include <string>
#include <cstring>
#include <cstdlib>

#include "core.h"
#include "node.h"
#include "vf.h"

#if defined(__SANITIZE_ADDRESS__)
# include <sanitizer/asan_interface.h>
# define POISONED(p) __asan_address_is_poisoned(p)
# define HAVE_ASAN 1
#else
# define POISONED(p) 1
# define HAVE_ASAN 0
#endif

const char *vf_name = "c16_cxx";

using namespace mpt;

struct dummy
{
	void unref() { }
	uintptr_t addref() { return 1; }
};
template <int N>
struct wide : public mpt::identifier
{
	wide() : mpt::identifier(sizeof(mpt::identifier) + N) { }
	char post[N];
};
typedef mpt::item<dummy> item_t;

enum { KPlain, KItem, KWide16, KWide48, KWide112, KWide240, KNodePlain, KNodeExt, KCopied, KKinds };
static const char *kindname[KKinds] = { "identifier", "item<T>", "wide<16>", "wide<48>", "wide<112>", "wide<240>", "node(plain)", "node(extended)", "identifier(copy)" };
static const unsigned kindcap[KKinds] = { 12, 20, 28, 60, 124, 252, 12, 84, 12 };
#define NSTOR 8   /* storages enumerated by the grid (copy construction is an operation) */

enum { SUnset, SText, SBinary };
static const char *statename[] = { "unset", "text", "binary" };

#define SHMAX 65540
struct handle {
	int kind;
	mpt::identifier *id;
	mpt::node *nd;                 /* node kinds: the identifier is the node's name */
	void *block; size_t blocksize;
	int release_mode;
	unsigned max;
	int state;
	size_t n;
	uint8_t *sh;
};
#define MAXH 5
static handle H[MAXH];
static int nh;
static uint8_t shadowmem[MAXH][SHMAX];
static char hx1[140], hx2[140];
static char keybuf[128];
static int transitions, crosscopies;

static const char *key(const char *op, const char *what)
{
	snprintf(keybuf, sizeof(keybuf), "cxx:%s:%s", op, what);
	return keybuf;
}
/* raw view */
static unsigned raw_len(const mpt::identifier *id) { uint16_t v; memcpy(&v, id, 2); return v; }
static unsigned raw_max(const mpt::identifier *id) { return reinterpret_cast<const uint8_t *>(id)[3]; }
static const uint8_t *raw_val(const mpt::identifier *id) { return reinterpret_cast<const uint8_t *>(id) + 4; }
static const uint8_t *raw_base(const mpt::identifier *id) { const uint8_t *p; memcpy(&p, reinterpret_cast<const uint8_t *>(id) + 8, sizeof(p)); return p; }
static bool is_ext(const mpt::identifier *id) { return raw_len(id) > raw_max(id); }
static const void *ext_ptr(const mpt::identifier *id) { return is_ext(id) ? raw_base(id) : 0; }
static const uint8_t *raw_data(const mpt::identifier *id) { return is_ext(id) ? raw_base(id) : raw_val(id); }

static size_t explen(const handle *h) { return h->state == SText ? h->n + 1 : (h->state == SBinary ? h->n : 0); }
static std::string hdesc(const handle *h)
{
	char b[120];
	snprintf(b, sizeof(b), "%s[max=%u %s n=%zu]", kindname[h->kind], h->max, statename[h->state], h->n);
	return b;
}
static unsigned node_mode;          /* varies producer and way of destruction of node kinds */
template <typename T> static mpt::identifier *construct(handle *h)
{
	h->blocksize = sizeof(T);
	h->block = vf_xalloc(sizeof(T));
	memset(h->block, 0xEE, sizeof(T));
	T *t = new (h->block) T();
	return t;
}
static handle *h_new(int kind, const handle *from = 0)
{
	handle *h = &H[nh];
	memset(h, 0, sizeof(*h));
	h->kind = kind;
	h->sh = shadowmem[nh];
	vf_at("identifier::identifier"); vf_count("identifier::identifier", 1);
	switch (kind) {
	case KPlain: h->id = construct<mpt::identifier>(h); break;
	case KItem: { item_t *it = static_cast<item_t *>(construct<item_t>(h)); h->id = it; break; }
	case KWide16: h->id = construct<wide<16> >(h); break;
	case KWide48: h->id = construct<wide<48> >(h); break;
	case KWide112: h->id = construct<wide<112> >(h); break;
	case KWide240: h->id = construct<wide<240> >(h); break;
	case KNodePlain: case KNodeExt: {
		/* both node producers of libmpt++: node::create() and the mpt_node_new() it provides */
		static const size_t plain[] = { 0, 1, 12, 16, 89, 300 }, ext[] = { 17, 20, 40, 88 };
		size_t req = kind == KNodePlain ? plain[(node_mode >> 3) % 6] : ext[(node_mode >> 3) % 4];
		if (node_mode & 1) { vf_at("mpt_node_new"); vf_count("mpt_node_new", 1); h->nd = mpt_node_new(req); }
		else { vf_at("node::create"); vf_count("node::create(size)", 1); h->nd = mpt::node::create(req); }
		VF_CHECK(h->nd != 0, "cxx:node-create:null", "node of requested identifier size %zu: NULL", req);
		h->release_mode = (node_mode >> 1) & 3;
		node_mode += 3;
		h->id = &h->nd->ident;
		break; }
	case KCopied:
		h->blocksize = sizeof(mpt::identifier);
		h->block = vf_xalloc(h->blocksize);
		memset(h->block, 0xEE, h->blocksize);
		vf_count("identifier::identifier(copy)", 1);
		h->id = new (h->block) mpt::identifier(*from->id);
		break;
	}
	h->max = raw_max(h->id);
	VF_CHECK(h->max == kindcap[kind], "cxx:create:capacity", "%s: inline capacity %u, expected %u", kindname[kind], h->max, kindcap[kind]);
	nh++;
	return h;
}
static void check_released(const char *op, const void *old, const mpt::identifier *now, const std::string &ctx)
{
	if (!old) return;
	if (now && is_ext(now) && raw_base(now) == old) return;
	vf_count("monitor:release-witness", 1);
	if (HAVE_ASAN && !POISONED(old)) {
		vf_fail(key(op, "old-content-not-released"), "%s: block %p that held the previous long content is still allocated", ctx.c_str(), old);
	}
}
/* the ways a node of libmpt++ goes away */
enum { RDestroy, RParentClear, RParentDestroy, RDestructor };
static const char *rname[4] = { "mpt_node_destroy", "mpt_node_clear(parent)", "mpt_node_destroy(grandparent)", "~node + free" };
static void release_node(handle *h)
{
	const void *old = ext_ptr(h->id);
	unsigned stored = raw_len(h->id);
	std::string ctx = std::string(rname[h->release_mode]) + " of " + hdesc(h);
	mpt::node *n = h->nd;
	vf_log("%s", ctx.c_str());
	if (old) {
		vf_count("cxx-node:released-out-of-line-name", 1);
		if (h->max == 12 && stored >= 13 && stored <= 16) vf_count("cxx-node:released-plain-stored-13..16", 1);
	}
	switch (h->release_mode) {
	case RDestroy:
		vf_at("mpt_node_destroy"); vf_count("cxx-node:destroy:mpt_node_destroy", 1);
		VF_CHECK(!mpt_node_destroy(n), "cxx:node_destroy:refused", "%s: unlinked node not destroyed", ctx.c_str());
		break;
	case RParentClear: case RParentDestroy: {
		/* parent carries an out-of-line name itself (13 characters on the 12 byte inline storage) */
		vf_at("node::create"); vf_count("node::create(name)", 1);
		mpt::node *top = mpt::node::create("root-of-tests"), *mid = mpt::node::create("m"), *sib = mpt::node::create("sibling-node-1");
		VF_CHECK(top && mid && sib, "cxx:node-create:null", "node::create(name) returned NULL");
		VF_CHECK(top->ident.equal("root-of-tests", 13) && sib->ident.equal("sibling-node-1", -1), "cxx:node-create:name", "node::create(name): name not stored");
		const void *otop = ext_ptr(&top->ident), *osib = ext_ptr(&sib->ident);
		/* public link fields: top -> mid -> (n, sib) */
		top->children = mid; mid->parent = top;
		mid->children = n; n->parent = mid; n->next = sib; sib->prev = n; sib->parent = mid;
		if (h->release_mode == RParentClear) {
			vf_at("mpt_node_clear"); vf_count("cxx-node:destroy:parent-clear", 1);
			mpt_node_clear(mid);
			check_released("node_clear", old, 0, ctx);
			check_released("node_clear", osib, 0, ctx + " (sibling)");
		} else {
			vf_count("cxx-node:destroy:parent-destroy", 1);
		}
		vf_at("mpt_node_destroy");
		VF_CHECK(!mpt_node_destroy(top), "cxx:node_destroy:refused", "%s: root not destroyed", ctx.c_str());
		check_released("node_destroy", otop, 0, ctx + " (root)");
		check_released("node_destroy", osib, 0, ctx + " (sibling)");
		break; }
	default:
		vf_at("node::~node"); vf_count("cxx-node:destroy:destructor", 1);
		n->~node();
		free(n);
	}
	check_released(h->release_mode == RDestructor ? "node-destructor" : "node_destroy", old, 0, ctx);
	h->id = 0; h->nd = 0;
}
static void h_release(handle *h)
{
	if (h->nd) { release_node(h); return; }
	const void *old = ext_ptr(h->id);
	std::string ctx = "~" + hdesc(h);
	vf_at("identifier::~identifier"); vf_count("identifier::~identifier", 1);
	switch (h->kind) {
	case KItem: static_cast<item_t *>(h->id)->~item_t(); break;
	case KWide16: static_cast<wide<16> *>(h->id)->~wide<16>(); break;
	case KWide48: static_cast<wide<48> *>(h->id)->~wide<48>(); break;
	case KWide112: static_cast<wide<112> *>(h->id)->~wide<112>(); break;
	case KWide240: static_cast<wide<240> *>(h->id)->~wide<240>(); break;
	default: h->id->~identifier();
	}
	check_released("destructor", old, 0, ctx);
	vf_xfree(h->block, h->blocksize);
	h->id = 0;
}
static void release_all()
{
	for (int i = 0; i < nh; i++) if (H[i].id) h_release(&H[i]);
	nh = 0;
}
static void verify(const char *op, const handle *h, const std::string &ctx)
{
	const mpt::identifier *id = h->id;
	size_t want = explen(h);
	std::string hd = hdesc(h);
	VF_CHECK(raw_max(id) == h->max, key(op, "capacity-changed"), "%s: %s: inline capacity is %u", ctx.c_str(), hd.c_str(), raw_max(id));
	VF_CHECK(raw_len(id) == want, key(op, "length"), "%s: %s: stored length is %u, expected %zu", ctx.c_str(), hd.c_str(), raw_len(id), want);
	const uint8_t *d = raw_data(id);
	VF_CHECK(d != 0 || !want, key(op, "data-null"), "%s: %s: content pointer is NULL", ctx.c_str(), hd.c_str());
	if (h->n && memcmp(d, h->sh, h->n)) {
		size_t i = 0;
		while (d[i] == h->sh[i]) i++;
		vf_fail(key(op, "content"), "%s: %s: byte %zu is %02x, expected %02x; stored %s.. expected %s..", ctx.c_str(), hd.c_str(), i, d[i], h->sh[i],
		        vf_hex(hx1, sizeof(hx1), d + i, h->n - i > 24 ? 24 : h->n - i), vf_hex(hx2, sizeof(hx2), h->sh + i, h->n - i > 24 ? 24 : h->n - i));
	}
	if (h->state == SText) {
		VF_CHECK(d[h->n] == 0, key(op, "terminator"), "%s: %s: byte after the text is %02x", ctx.c_str(), hd.c_str(), d[h->n]);
		vf_at("identifier::name"); vf_count("identifier::name", 1);
		const char *nm = id->name();
		VF_CHECK(nm == reinterpret_cast<const char *>(d), key(op, "name"), "%s: %s: name() = %p, content at %p", ctx.c_str(), hd.c_str(), (const void *) nm, (const void *) d);
	}
	vf_count("monitor:readback", 1);
}
static void verify_all(const char *op, const std::string &ctx)
{
	for (int i = 0; i < nh; i++) if (H[i].id) verify(op, &H[i], ctx);
}
static void note_transition(bool was, bool now)
{
	if (was && now) { vf_count("transition:long>long", 1); transitions++; }
	else if (was) { vf_count("transition:long>short", 1); transitions++; }
	else if (now) { vf_count("transition:short>long", 1); transitions++; }
	else vf_count("transition:short>short", 1);
}

/* ------------------------------------------------------------ operations */
static void op_set_text(handle *h, const uint8_t *bytes, size_t n, bool use_strlen)
{
	char cb[200];
	snprintf(cb, sizeof(cb), "%s.set_name(text %zu bytes%s)", hdesc(h).c_str(), n, use_strlen ? ", default length" : "");
	std::string ctx = cb;
	vf_log("%s", cb);
	size_t bl = n + (use_strlen ? 1 : 0);
	char *name = static_cast<char *>(vf_xalloc(bl));
	if (n) memcpy(name, bytes, n);
	if (use_strlen) name[n] = 0;
	const void *old = ext_ptr(h->id);
	bool was = is_ext(h->id);
	vf_at("identifier::set_name"); vf_count("identifier::set_name", 1);
	bool ok = use_strlen ? h->id->set_name(name) : h->id->set_name(name, (int) n);
	if (n + 1 > UINT16_MAX) {
		vf_count("outcome:refused-too-long", 1);
		VF_CHECK(!ok, "cxx:set_name:accepted-too-long", "%s: accepted", cb);
	} else {
		VF_CHECK(ok, "cxx:set_name:refused", "%s: returned false", cb);
		h->state = SText; h->n = n;
		if (n) memcpy(h->sh, bytes, n);
		check_released("set_name", old, h->id, ctx);
		note_transition(was, is_ext(h->id));
	}
	vf_xfree(name, bl);
	verify_all("set_name", ctx);
}
/* no name, explicit length: content is n zero bytes of non-text data */
static void op_set_binary(handle *h, size_t n)
{
	char cb[200];
	snprintf(cb, sizeof(cb), "%s.set_name(0, %zu)", hdesc(h).c_str(), n);
	std::string ctx = cb;
	vf_log("%s", cb);
	const void *old = ext_ptr(h->id);
	bool was = is_ext(h->id);
	vf_at("identifier::set_name"); vf_count("identifier::set_name(0,n)", 1);
	bool ok = h->id->set_name(0, (int) n);
	if (n > UINT16_MAX) {
		vf_count("outcome:refused-too-long", 1);
		VF_CHECK(!ok, "cxx:set_name-binary:accepted-too-long", "%s: accepted", cb);
	} else {
		VF_CHECK(ok, "cxx:set_name-binary:refused", "%s: returned false", cb);
		h->state = n ? SBinary : SUnset; h->n = n;
		memset(h->sh, 0, n);
		check_released("set_name-binary", old, h->id, ctx);
		note_transition(was, is_ext(h->id));
	}
	verify_all("set_name-binary", ctx);
}
struct snap { uint8_t raw[4 + 256]; size_t len; const void *ext; };
static void take_snap(snap *s, const handle *h)
{
	s->len = 4 + h->max;
	memcpy(s->raw, h->id, s->len);
	s->ext = ext_ptr(h->id);
}
static void after_copy(const char *op, handle *dst, const handle *src, const snap *before, const void *old, bool was, const std::string &ctx)
{
	if (dst != src) {
		dst->state = src->state; dst->n = src->n;
		if (src->n) memcpy(dst->sh, src->sh, src->n);
		check_released(op, old, dst->id, ctx);
		note_transition(was, is_ext(dst->id));
		crosscopies++;
		if (is_ext(dst->id) && is_ext(src->id)) {
			VF_CHECK(raw_base(dst->id) != raw_base(src->id), key(op, "shared-storage"), "%s: copy and source use the same block", ctx.c_str());
		}
	}
	VF_CHECK(!memcmp(before->raw, src->id, before->len) && before->ext == ext_ptr(src->id), key(op, "source-modified"),
	         "%s: source object bytes changed: %s -> %s", ctx.c_str(), vf_hex(hx1, sizeof(hx1), before->raw, before->len > 40 ? 40 : before->len),
	         vf_hex(hx2, sizeof(hx2), src->id, before->len > 40 ? 40 : before->len));
	vf_count("monitor:source-unchanged", 1);
}
static void op_assign(handle *dst, handle *src)
{
	std::string ctx = hdesc(dst) + " = " + hdesc(src) + (dst == src ? " [self]" : "");
	snap before;
	vf_log("%s", ctx.c_str());
	take_snap(&before, src);
	const void *old = ext_ptr(dst->id);
	bool was = is_ext(dst->id);
	if (dst->kind == KItem) {
		vf_at("item::operator="); vf_count("item::operator=", 1);
		*static_cast<item_t *>(dst->id) = *src->id;
	} else {
		vf_at("identifier::operator="); vf_count("identifier::operator=", 1);
		*dst->id = *src->id;
	}
	after_copy("assign", dst, src, &before, old, was, ctx);
	verify_all("assign", ctx);
}
static handle *op_copy_construct(handle *src)
{
	std::string ctx = "identifier(" + hdesc(src) + ")";
	snap before;
	vf_log("%s", ctx.c_str());
	take_snap(&before, src);
	vf_at("identifier::identifier(copy)");
	handle *h = h_new(KCopied, src);
	after_copy("copy-construct", h, src, &before, 0, false, ctx);
	verify_all("copy-construct", ctx);
	return h;
}
static void probe(handle *h, const uint8_t *p, size_t n, const char *what)
{
	char *name = static_cast<char *>(vf_xalloc(n));
	if (n) memcpy(name, p, n);
	bool equal = h->state == SText && h->n == n && (!n || !memcmp(h->sh, p, n));
	bool decide = !(h->state != SText && (!n || h->state == SBinary));
	vf_at("identifier::equal"); vf_count("identifier::equal", 1);
	bool r = h->id->equal(name, (int) n);
	if (decide) {
		if (equal) {
			VF_CHECK(r, "cxx:equal:equal-reported-different", "%s.equal(%s, %zu bytes) = false", hdesc(h).c_str(), what, n);
			vf_count("monitor:compare-equal", 1);
		} else {
			VF_CHECK(!r, "cxx:equal:different-reported-equal", "%s.equal(%s, %zu bytes) = true", hdesc(h).c_str(), what, n);
			vf_count("monitor:compare-different", 1);
		}
	}
	vf_xfree(name, n);
}
static void op_compare(handle *h, vf_rng *r)
{
	static uint8_t tmp[SHMAX];
	size_t n = h->n;
	vf_log("equal battery on %s", hdesc(h).c_str());
	memcpy(tmp, h->sh, n);
	probe(h, tmp, n, "same");
	if (n) {
		size_t at = r ? vf_below(r, (uint32_t) n) : n / 2;
		tmp[n - 1] ^= 0x20; probe(h, tmp, n, "last byte changed"); tmp[n - 1] ^= 0x20;
		tmp[0] ^= 0x01; probe(h, tmp, n, "first byte changed"); tmp[0] ^= 0x01;
		tmp[at] ^= 0x80; probe(h, tmp, n, "one byte changed"); tmp[at] ^= 0x80;
		probe(h, tmp, n - 1, "prefix");
	}
	if (n + 1 < 65535) {
		tmp[n] = 'x'; probe(h, tmp, n + 1, "extended");
		tmp[n] = 0; probe(h, tmp, n + 1, "extended by NUL");
	}
	probe(h, tmp, 0, "empty");
	if (n && memchr(h->sh, 0, n)) {
		probe(h, tmp, static_cast<const uint8_t *>(memchr(h->sh, 0, n)) - h->sh, "up to embedded NUL");
	}
	if (h->state == SText && !memchr(h->sh, 0, n)) {
		/* NUL-terminated name with negative length */
		char *name = static_cast<char *>(vf_xalloc(n + 1));
		memcpy(name, h->sh, n); name[n] = 0;
		vf_at("identifier::equal"); vf_count("identifier::equal", 1);
		VF_CHECK(h->id->equal(name, -1), "cxx:equal:equal-reported-different", "%s.equal(same, -1) = false", hdesc(h).c_str());
		vf_count("monitor:compare-equal", 1);
		vf_xfree(name, n + 1);
	}
}

/* --------------------------------------------------------------- content */
static void gen_bytes(uint8_t *dst, size_t n, unsigned salt, int with_nul)
{
	for (size_t i = 0; i < n; i++) {
		uint8_t v = (uint8_t) (i * 37 + salt * 101 + (i >> 8) * 13 + 1);
		if (!v) v = 0xa5;
		dst[i] = v;
	}
	if (with_nul && n > 2) dst[n / 2] = 0;
}
struct content { int state; size_t n; int with_nul; };
#define NPREV 17
#define NNEW 22
static content content_class(unsigned k, unsigned c)
{
	content x = { SText, 0, 0 };
	switch (k) {
	case 0: x.state = SUnset; break;
	case 1: x.n = 0; break;
	case 2: x.n = 1; break;
	case 3: x.n = c - 3; break;
	case 4: x.n = c - 2; break;
	case 5: x.n = c - 1; break;
	case 6: x.n = c; break;
	case 7: x.n = c + 1; break;
	case 8: x.n = c + 2; break;
	case 9: x.n = 255; break;
	case 10: x.n = 256; break;
	case 11: x.n = 65534; break;
	case 12: x.state = SBinary; x.n = 1; break;
	case 13: x.state = SBinary; x.n = c; break;
	case 14: x.state = SBinary; x.n = c + 1; break;
	case 15: x.state = SBinary; x.n = 65535; break;
	case 16: x.n = c + 4; x.with_nul = 1; break;
	case 17: x.n = 65533; break;
	case 18: x.n = 65535; break;
	case 19: x.n = 65536; break;
	case 20: x.state = SBinary; x.n = 65536; break;
	case 21: x.n = c - 1; x.with_nul = 1; break;
	}
	return x;
}
static void apply_content(handle *h, content x, unsigned salt, bool strlen_variant)
{
	static uint8_t tmp[SHMAX];
	gen_bytes(tmp, x.n, salt, x.with_nul);
	switch (x.state) {
	case SUnset: op_set_binary(h, 0); break;
	case SText: op_set_text(h, tmp, x.n, strlen_variant && !x.with_nul); break;
	case SBinary: op_set_binary(h, x.n); break;
	}
}
static std::string cdesc(content x)
{
	if (x.state == SUnset) return "unset";
	return std::string(statename[x.state]) + "[" + std::to_string(x.n) + "]" + (x.with_nul ? "+NUL" : "");
}

/* ------------------------------------------------------------------ grid */
static uint64_t g_set() { return NSTOR * NPREV * NNEW; }
static uint64_t g_copy() { return (uint64_t) NSTOR * NPREV * NSTOR * NPREV; }
static uint64_t g_single() { return NSTOR * NPREV * 3; }
static uint64_t n_grid() { return g_set() + g_copy() + g_single(); }

static void finish_case()
{
	static uint8_t tmp[8];
	for (int i = 0; i < nh; i++) op_compare(&H[i], 0);
	gen_bytes(tmp, 3, 77, 0);
	op_set_text(&H[0], tmp, 3, true);
	release_all();
}
static void case_grid(uint64_t idx)
{
	bool sample = (idx % 7001) == 11;
	transitions = 0; crosscopies = 0;
	vf_fp_u64(0x16c00000 + idx);
	if (idx < g_set()) {
		unsigned s = idx / (NPREV * NNEW), p = (idx / NNEW) % NPREV, n = idx % NNEW;
		handle *h = h_new(s);
		content cp = content_class(p, h->max), cn = content_class(n, h->max);
		apply_content(h, cp, 1, p & 1);
		apply_content(h, cn, 2, n & 1);
		if (sample) vf_sample("grid set_name after set_name: %s capacity %u: %s then %s", kindname[s], h->max, cdesc(cp).c_str(), cdesc(cn).c_str());
		if (transitions) vf_nontrivial();
		finish_case();
		return;
	}
	idx -= g_set();
	if (idx < g_copy()) {
		unsigned sd = idx / (NPREV * NSTOR * NPREV), pd = (idx / (NSTOR * NPREV)) % NPREV, ss = (idx / NPREV) % NSTOR, ps = idx % NPREV;
		handle *d = h_new(sd);
		handle *s = h_new(ss);
		content cd = content_class(pd, d->max), cs = content_class(ps, (pd & 1) ? s->max : d->max);
		apply_content(d, cd, 3, false);
		apply_content(s, cs, 4, true);
		transitions = 0;
		op_assign(d, s);
		if (transitions) vf_nontrivial();
		if (sample) vf_sample("grid assignment: %s cap %u holding %s = %s cap %u holding %s", kindname[sd], d->max, cdesc(cd).c_str(), kindname[ss], s->max, cdesc(cs).c_str());
		finish_case();
		return;
	}
	idx -= g_copy();
	{
		unsigned s = idx / (NPREV * 3), p = (idx / 3) % NPREV, op = idx % 3;
		handle *h = h_new(s);
		content cp = content_class(p, h->max);
		apply_content(h, cp, 5, true);
		transitions = 0;
		switch (op) {
		case 0: op_set_binary(h, 0); break;
		case 1: op_assign(h, h); break;
		case 2: op_copy_construct(h); break;
		}
		if (transitions || (op >= 1 && explen(h) > h->max)) vf_nontrivial();
		if (sample) vf_sample("grid %s: %s capacity %u holding %s", op == 0 ? "set_name(0,0)" : op == 1 ? "self-assignment" : "copy-construction", kindname[s], h->max, cdesc(cp).c_str());
		finish_case();
	}
}

/* ------------------------------------------------------------- histories */
static size_t pick_len(vf_rng *r, unsigned cap, unsigned cap2)
{
	switch (vf_below(r, 12)) {
	case 0: return vf_below(r, 4);
	case 1: case 2: case 3: { int v = (int) cap - 4 + (int) vf_below(r, 8); return v < 0 ? 0 : (size_t) v; }
	case 4: case 5: { int v = (int) cap2 - 4 + (int) vf_below(r, 8); return v < 0 ? 0 : (size_t) v; }
	case 6: return 250 + vf_below(r, 10);
	case 7: return vf_chance(r, 1, 3) ? 65530 + vf_below(r, 8) : vf_below(r, 70000);
	case 8: return vf_below(r, 600);
	default: return vf_below(r, 40);
	}
}
static void case_history(vf_rng *r)
{
	static uint8_t tmp[SHMAX + 8];
	int nops = vf_range(r, 6, vf_thorough ? 40 : 28);
	int start = vf_range(r, 2, 3);
	std::string desc = "ids:";
	transitions = 0; crosscopies = 0;
	for (int i = 0; i < start; i++) {
		handle *h = h_new(vf_below(r, NSTOR));
		vf_fp_u64(h->kind);
		desc += std::string(i ? "," : " ") + kindname[h->kind];
	}
	for (int i = 0; i < nops; i++) {
		int op = vf_below(r, 14);
		handle *a = &H[vf_below(r, nh)], *b = &H[vf_below(r, nh)];
		size_t n;
		if (!a->id || !b->id) continue;
		vf_fp_u64(((uint64_t) op << 56) ^ ((uint64_t) (a - H) << 48) ^ ((uint64_t) (b - H) << 40));
		switch (op) {
		case 0: case 1: case 2: case 3: {
			n = pick_len(r, a->max, b->max);
			if (n > 65540) n = 65540;
			bool nul = false;
			int mode = vf_below(r, 3);
			for (size_t j = 0; j < n; j++) {
				uint8_t v = mode == 0 ? 'a' + vf_below(r, 26) : mode == 1 ? 0x80 + vf_below(r, 128) : (uint8_t) vf_u64(r);
				if (!v && !vf_chance(r, 1, 4)) v = 1;
				if (!v) nul = true;
				tmp[j] = v;
			}
			vf_fp(tmp, n > 64 ? 64 : n); vf_fp_u64(n);
			op_set_text(a, tmp, n, !nul && vf_chance(r, 1, 2));
			desc += " " + std::to_string(a - H) + "=text[" + std::to_string(n) + "]";
			break; }
		case 4:
			n = pick_len(r, a->max + 1, b->max + 1);
			if (n > 65540) n = 65540;
			vf_fp_u64(n);
			op_set_binary(a, n);
			desc += " " + std::to_string(a - H) + "=bin[" + std::to_string(n) + "]";
			break;
		case 5:
			op_set_binary(a, 0);
			desc += " " + std::to_string(a - H) + "=clear";
			break;
		case 6: case 7: case 8: case 9:
			op_assign(a, b);
			desc += " " + std::to_string(a - H) + "<-" + std::to_string(b - H);
			break;
		case 10: case 11:
			op_compare(a, r);
			desc += " cmp" + std::to_string(a - H);
			break;
		case 12:
			if (nh < MAXH) {
				op_copy_construct(a);
				desc += " new<-" + std::to_string(a - H);
			}
			break;
		case 13:
			if (nh > 2 && a == &H[nh - 1]) {
				h_release(a);
				nh--;
				desc += " drop" + std::to_string(a - H);
			}
			break;
		}
	}
	if (transitions >= 2 && crosscopies >= 1) vf_nontrivial();
	vf_max("max:transitions-per-history", transitions);
	if (desc.size() > 1800) desc.resize(1800);
	vf_sample("history %s", desc.c_str());
	release_all();
}

/* ---------------------------------------------------------- node cases */
/*
 * Nodes of libmpt++ (node::create(), mpt_node_new() as provided by libmpt++):
 * name of every length around the inline capacities given at creation, later by
 * set_name or by assignment, optionally replaced, then the node goes away in one
 * of four ways.  The block of an out-of-line name must be released with the
 * node (release witness), and the case must end without leaked memory.
 */
static const size_t NODE_LENS[] = { 0, 1, 2, 3, 4, 5, 6, 7, 8, 9, 10, 11, 12, 13, 14, 15, 16, 17, 18, 19, 20, 21, 22, 23, 24, 82, 83, 84, 85, 86, 87, 88, 89, 255, 300, 4000 };
#define NNODE_LENS (sizeof(NODE_LENS) / sizeof(*NODE_LENS))
static uint64_t n_node() { return NNODE_LENS * 4 * 5 * 4; }
static handle *adopt_node(mpt::node *n, size_t requested, const char *how)
{
	handle *h = &H[nh];
	memset(h, 0, sizeof(*h));
	h->sh = shadowmem[nh];
	VF_CHECK(n != 0, "cxx:node-create:null", "%s: NULL", how);
	h->nd = n;
	h->id = &n->ident;
	h->max = raw_max(h->id);
	unsigned want = (requested > 16 && requested <= 88) ? 84 : 12;
	VF_CHECK(h->max == want, "cxx:create:capacity", "%s (identifier size %zu): inline capacity %u, expected %u", how, requested, h->max, want);
	h->kind = h->max == 12 ? KNodePlain : KNodeExt;
	nh++;
	return h;
}
static void case_node(uint64_t idx)
{
	static uint8_t tmp[SHMAX];
	size_t L = NODE_LENS[idx % NNODE_LENS];
	unsigned make = (idx / NNODE_LENS) % 4, change = (idx / (NNODE_LENS * 4)) % 5, gone = (idx / (NNODE_LENS * 20)) % 4;
	static const char *makes[] = { "node::create(name, len)", "node::create(0) + set_name", "node::create(len + 1) + set_name", "mpt_node_new(len + 1) + set_name" };
	static const char *changes[] = { "kept", "replaced by 13 characters", "replaced by 3 characters", "assigned from an identifier holding 14 characters", "replaced by 100 characters" };
	handle *h;
	transitions = 0; crosscopies = 0;
	vf_fp_u64(0x16d00000 + idx);
	gen_bytes(tmp, L, 9, 0);
	switch (make) {
	case 0: {
		char *name = static_cast<char *>(vf_xalloc(L));
		if (L) memcpy(name, tmp, L);
		vf_at("node::create"); vf_count("node::create(name)", 1);
		h = adopt_node(mpt::node::create(name, (int) L), L + 1, makes[make]);
		vf_xfree(name, L);
		h->state = SText; h->n = L;
		memcpy(h->sh, tmp, L);
		verify_all("node-create", makes[make]);
		break; }
	case 1:
		vf_at("node::create"); vf_count("node::create(size)", 1);
		h = adopt_node(mpt::node::create(size_t(0)), 0, makes[make]);
		op_set_text(h, tmp, L, (L & 1) != 0);
		break;
	case 2:
		vf_at("node::create"); vf_count("node::create(size)", 1);
		h = adopt_node(mpt::node::create(L + 1), L + 1, makes[make]);
		op_set_text(h, tmp, L, (L & 1) != 0);
		break;
	default:
		vf_at("mpt_node_new"); vf_count("mpt_node_new", 1);
		h = adopt_node(mpt_node_new(L + 1), L + 1, makes[make]);
		op_set_text(h, tmp, L, (L & 1) != 0);
	}
	h->release_mode = gone;
	vf_at("mpt_node_ident"); vf_count("mpt_node_ident", 1);
	VF_CHECK(mpt_node_ident(h->nd) == reinterpret_cast<const char *>(raw_data(h->id)), "cxx:node_ident:text", "%s: mpt_node_ident() does not return the stored name", makes[make]);
	switch (change) {
	case 1: gen_bytes(tmp, 13, 21, 0); op_set_text(h, tmp, 13, true); break;
	case 2: gen_bytes(tmp, 3, 22, 0); op_set_text(h, tmp, 3, false); break;
	case 3: {
		handle *src = h_new(KPlain);
		gen_bytes(tmp, 14, 23, 0);
		op_set_text(src, tmp, 14, true);
		op_assign(h, src);
		break; }
	case 4: gen_bytes(tmp, 100, 24, 0); op_set_text(h, tmp, 100, false); break;
	}
	op_compare(h, 0);
	bool longname = is_ext(h->id);
	if (longname) vf_nontrivial();
	if (idx % 487 == 11) vf_sample("node: %s with %zu characters (inline capacity %u), name %s, then %s", makes[make], L, h->max, changes[change], rname[gone]);
	/* the node first: the plain identifier of case 3 lives on after it */
	h_release(h);
	release_all();
	vf_at("leak-check"); vf_count("monitor:node-leak-check", 1);
	if (vf_leak_check()) {
		vf_fail("cxx:node:leaked-memory", "%s with %zu characters, name %s, then %s: LeakSanitizer finds unreachable memory after the node is gone", makes[make], L, changes[change], rname[gone]);
	}
}

static uint64_t n_hist() { return vf_thorough ? 300000 : 8000; }
uint64_t vf_cases(void) { return n_grid() + n_hist() + n_node(); }

void vf_case(uint64_t idx, vf_rng *r)
{
	nh = 0;
	node_mode = (unsigned) (idx * 7);
	if (idx < n_grid()) { case_grid(idx); return; }
	idx -= n_grid();
	if (idx < n_hist()) { case_history(r); return; }
	case_node(idx - n_hist());
}
