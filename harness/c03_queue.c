/*
 * C03 (queue leg): the queue paths of the decoders, mpt_queue_recv() and
 * mpt_queue_peek(), on arbitrary byte streams.
 *
 * A decode_queue over a ring of chosen capacity and start offset (exact-size
 * heap block, so the ring ends are ASan red zones) is fed a byte stream in
 * PRNG segments with mpt_qpush() (room made with mpt_queue_prepare() the way
 * mpt_stream_poll() does); after every segment the harness receives until the
 * queue reports "incomplete".
 *
 * Claims (C03 only - progress / stalls of the queue layer belong to C02 and
 * are NOT asserted here; a run that gets stuck is counted and abandoned):
 *   - no sanitizer report,
 *   - a delivered message (return 1; bytes read back with mpt_queue_get at
 *     state.data.pos/msg) is the reference decoder's message for the next
 *     zero-terminated chunk of the stream, never one for an empty, malformed
 *     or incomplete chunk; an error is never reported for a well-formed chunk,
 *   - input not yet consumed (queue content from state.curr on) is at all
 *     times exactly the not yet consumed tail of what was pushed,
 *   - mpt_queue_peek() leaves that tail alone too; its target is an exact-size
 *     block of `max` bytes (ASan red zone behind it).
 */
#include <stdlib.h>
#include <sys/uio.h>

#include "queue.h"
#include "message.h"
#include "convert.h"

#include "vf.h"
#include "c01_refcodec.h"
#include "c01_gen.h"

const char *vf_name = "c03_queue";

typedef int (*dec_fn_t)(MPT_STRUCT(decode_state) *, const struct iovec *, size_t);
static dec_fn_t const dec_fn[RC_NFMT] = { mpt_decode_cobs, mpt_decode_cobs_r, mpt_decode_cobs_zpe, mpt_decode_cobs_zpe_r, mpt_decode_command };

#define MAXSTREAM 1400
static char kbuf[128], hx1[600], hx2[600];
static const char *key(const char *api, int fmt, const char *what)
{
	snprintf(kbuf, sizeof(kbuf), "model:%s:%s:%s", api, rc_name[fmt], what);
	return kbuf;
}

typedef struct {
	int fmt;
	MPT_STRUCT(decode_queue) q;
	const uint8_t *stream;
	size_t n, pushed;
	size_t chunk;     /* stream offset of the chunk the next outcome belongs to */
	int claim;
} qctx;

static const char *qdesc(const qctx *c, char *dst, size_t len)
{
	snprintf(dst, len, "queue max=%zu off=%zu len=%zu state ctx=%lx curr=%zu pos=%zu len=%zu msg=%zd pushed=%zu", c->q.data.max, c->q.data.off, c->q.data.len,
	         (unsigned long) c->q._state._ctx, c->q._state.curr, c->q._state.data.pos, c->q._state.data.len, c->q._state.data.msg, c->pushed);
	return dst;
}
/* unconsumed input in the queue == tail of the pushed bytes */
static void check_tail(qctx *c, const char *api, int ret)
{
	static uint8_t tmp[4 * MAXSTREAM];
	size_t curr = c->q._state.curr, len = c->q.data.len, t;
	char d[300];
	/* same ring invariant as C13 (off == max is tolerated there) */
	VF_CHECK(len <= c->q.data.max && c->q.data.off <= c->q.data.max, key(api, c->fmt, "queue-invariant"), "%s after return %d", qdesc(c, d, sizeof(d)), ret);
	if (ret < 0 && ret != MPT_ERROR(MissingBuffer) && ret != MPT_ERROR(MissingData)) return;
	VF_CHECK(curr <= len, key(api, c->fmt, "input-position-beyond-queue"), "%s after return %d", qdesc(c, d, sizeof(d)), ret);
	t = len - curr;
	VF_CHECK(t <= c->pushed && t <= sizeof(tmp), key(api, c->fmt, "more-unconsumed-than-pushed"), "%s after return %d", qdesc(c, d, sizeof(d)), ret);
	if (t) {
		vf_at("mpt_queue_get");
		VF_CHECK(mpt_queue_get(&c->q.data, curr, t, tmp) >= 0, key(api, c->fmt, "queue-invariant"), "cannot read %zu bytes at %zu: %s", t, curr, qdesc(c, d, sizeof(d)));
		if (memcmp(tmp, c->stream + c->pushed - t, t)) {
			size_t i = 0;
			while (tmp[i] == c->stream[c->pushed - t + i]) i++;
			vf_fail(key(api, c->fmt, "unconsumed-input-modified"), "after return %d: unconsumed byte %zu (stream offset %zu) is %02x, pushed %02x; %s; unconsumed=%s expected=%s",
			        ret, i, c->pushed - t + i, tmp[i], c->stream[c->pushed - t + i], qdesc(c, d, sizeof(d)),
			        vf_hex(hx1, sizeof(hx1), tmp, t), vf_hex(hx2, sizeof(hx2), c->stream + c->pushed - t, t));
		}
	}
	vf_count("monitor:unconsumed-tail-compare", 1);
}
static void do_peek(qctx *c, vf_rng *r)
{
	size_t max = vf_chance(r, 1, 2) ? vf_below(r, 8) : vf_below(r, 300);
	uint8_t *dst = vf_chance(r, 1, 5) ? 0 : vf_xalloc(max);
	ssize_t ret;
	if (dst) memset(dst, 0xEE, max);
	vf_at("mpt_queue_peek");
	vf_count("mpt_queue_peek", 1);
	ret = mpt_queue_peek(&c->q, max, dst);
	if (vf_logging) { char d[300]; vf_log("peek(max=%zu,%s) = %zd; %s", max, dst ? "dst" : "null", ret, qdesc(c, d, sizeof(d))); }
	/* the return value is the decoded length so far, not the copied size (nothing is
	 * copied when the decoder refuses the peek): over-long copies are caught by the
	 * exact-size target block */
	vf_xfree(dst, max);
	check_tail(c, "queue_peek", ret < 0 ? (int) ret : 0);
}
/* returns 1 message, 0 incomplete, -1 error/stuck (run ends) */
static int do_recv(qctx *c, vf_rng *r)
{
	static uint8_t msg[4 * MAXSTREAM], exp[2 * MAXSTREAM + 8];
	char d[300];
	int ret, tries = 0;
	while (1) {
		vf_at("mpt_queue_recv");
		vf_count("mpt_queue_recv", 1);
		ret = mpt_queue_recv(&c->q);
		if (vf_logging) vf_log("recv = %d; %s", ret, qdesc(c, d, sizeof(d)));
		check_tail(c, "queue_recv", ret);
		if (ret == MPT_ERROR(MissingBuffer)) {
			vf_count("return:missing-buffer", 1);
			if (++tries > 6) { vf_count("observe:missing-buffer-persists(C02)", 1); return -1; }
			/* recv returned without shifting the queue: peek in that state too */
			if (vf_chance(r, 1, 2)) do_peek(c, r);
			/* enlarge the queue as the stream layer does */
			vf_at("mpt_queue_prepare");
			mpt_queue_prepare(&c->q.data, c->q.data.max - c->q.data.len + 16);
			continue;
		}
		break;
	}
	if (ret == MPT_ERROR(MissingData) && !c->q.data.len) { vf_count("return:queue-empty", 1); return 0; }
	if (ret == 0) { vf_count("return:need-more", 1); return 0; }
	{
		const uint8_t *z = (c->chunk < c->n) ? memchr(c->stream + c->chunk, 0, c->n - c->chunk) : 0;
		size_t clen = z ? (size_t) (z - (c->stream + c->chunk)) : c->n - c->chunk, elen = 0, ml;
		/* the delimiter must have been pushed for the chunk to count as complete */
		int verdict = (z && c->chunk + clen < c->pushed) ? rc_decode(c->fmt, c->stream + c->chunk, clen, exp, &elen) : -1;
		if (verdict == RC_UNCLAIMED) { c->claim = 0; vf_count("outcome:unclaimed-chunk", 1); }
		if (ret < 0) {
			vf_count("outcome:error", 1);
			if (c->claim && verdict == RC_OK) {
				vf_fail(key("queue_recv", c->fmt, "error-on-wellformed-frame"), "return %d for the well-formed chunk at stream offset %zu (%zu bytes); %s; stream=%s",
				        ret, c->chunk, clen, qdesc(c, d, sizeof(d)), vf_hex(hx1, sizeof(hx1), c->stream, c->n));
			}
			if (c->claim) vf_count(verdict == RC_EMPTY ? "monitor:error-for-empty-frame" : verdict == RC_MALFORMED ? "monitor:error-for-malformed-frame" : "monitor:error-other", 1);
			return -1;
		}
		vf_count("outcome:message", 1);
		VF_CHECK(ret == 1 && c->q._state.data.msg >= 0, key("queue_recv", c->fmt, "message-state"), "return %d; %s", ret, qdesc(c, d, sizeof(d)));
		ml = c->q._state.data.msg;
		VF_CHECK(ml <= sizeof(msg) && c->q._state.data.pos + ml <= c->q.data.len, key("queue_recv", c->fmt, "message-outside-queue"), "%s", qdesc(c, d, sizeof(d)));
		vf_at("mpt_queue_get");
		if (ml) VF_CHECK(mpt_queue_get(&c->q.data, c->q._state.data.pos, ml, msg) >= 0, key("queue_recv", c->fmt, "message-outside-queue"), "%s", qdesc(c, d, sizeof(d)));
		if (c->claim) {
			if (verdict < 0) {
				vf_fail(key("queue_recv", c->fmt, "message-from-incomplete-frame"), "message of %zu bytes (%s) although the chunk at stream offset %zu has no delimiter in the queue yet; %s",
				        ml, vf_hex(hx1, sizeof(hx1), msg, ml), c->chunk, qdesc(c, d, sizeof(d)));
			}
			if (verdict == RC_EMPTY || verdict == RC_MALFORMED) {
				vf_fail(key("queue_recv", c->fmt, verdict == RC_EMPTY ? "message-from-empty-frame" : "message-from-malformed-frame"),
				        "message of %zu bytes (%s) for the chunk at stream offset %zu; stream=%s", ml, vf_hex(hx1, sizeof(hx1), msg, ml), c->chunk, vf_hex(hx2, sizeof(hx2), c->stream, c->n));
			}
			if (ml != elen || memcmp(msg, exp, elen)) {
				vf_fail(key("queue_recv", c->fmt, "message-differs-from-reference"), "chunk at stream offset %zu (%zu bytes): queue delivered %zu bytes %s, reference %zu bytes %s; %s",
				        c->chunk, clen, ml, vf_hex(hx1, sizeof(hx1), msg, ml), elen, vf_hex(hx2, sizeof(hx2), exp, elen), qdesc(c, d, sizeof(d)));
			}
			vf_count("monitor:message-compare", 1);
		}
		c->chunk += clen + 1;
		if (c->chunk > c->n) { c->chunk = c->n; c->claim = 0; }
		return 1;
	}
}

uint64_t vf_cases(void) { return vf_thorough ? 1500000 : 120000; }

void vf_case(uint64_t idx, vf_rng *r)
{
	static const uint16_t caps[] = { 1, 2, 3, 4, 5, 8, 13, 16, 31, 32, 33, 64, 100, 255, 256, 257, 600 };
	static const MPT_STRUCT(decode_queue) qinit = MPT_DECODE_QUEUE_INIT;
	static uint8_t st[MAXSTREAM + 16], m[700];
	static qctx c;
	size_t n = 0, cap, off;
	int nfr, nmut, delivered = 0, steps = 0;
	char desc[200];

	(void) idx;
	memset(&c, 0, sizeof(c));
	c.fmt = (int) vf_below(r, RC_NFMT);
	c.claim = 1;
	/* stream: frames (sometimes mutated) or alphabet noise */
	if (vf_chance(r, 1, 6)) {
		n = vf_below(r, 40);
		for (size_t i = 0; i < n; i++) st[i] = gen_alpha[vf_below(r, 11)];
		snprintf(desc, sizeof(desc), "%zu boundary-alphabet bytes", n);
	} else {
		nfr = 1 + (int) vf_below(r, 6);
		for (int i = 0; i < nfr; i++) {
			size_t ml = gen_message(r, c.fmt, m, vf_chance(r, 1, 3) ? 600 : 40);
			if (n + rc_frame_bound(ml) > MAXSTREAM) break;
			n += rc_encode(c.fmt, m, ml, st + n);
		}
		nmut = vf_chance(r, 1, 2) ? 0 : 1 + (int) vf_below(r, 2);
		for (int i = 0; i < nmut && n; i++) {
			size_t at = vf_below(r, (uint32_t) n);
			switch (vf_below(r, 4)) {
			case 0: st[at] = gen_alpha[vf_below(r, 11)]; break;
			case 1: memmove(st + at, st + at + 1, n - at - 1); n--; break;
			case 2: if (n < MAXSTREAM) { memmove(st + at + 1, st + at, n - at); st[at] = 0; n++; } break;
			default: n = at;
			}
		}
		snprintf(desc, sizeof(desc), "%d valid %s frames with %d mutations (%zu bytes)", nfr, rc_name[c.fmt], nmut, n);
	}
	c.stream = st; c.n = n;
	cap = caps[vf_below(r, sizeof(caps) / sizeof(*caps))];
	off = vf_below(r, (uint32_t) cap);
	c.q = qinit;
	c.q._dec = dec_fn[c.fmt];
	c.q.data.base = vf_xalloc(cap);
	memset(c.q.data.base, 0xEE, cap);
	c.q.data.max = cap;
	c.q.data.off = off;
	vf_fp_u64(0xC03900 + c.fmt); vf_fp_u64(cap); vf_fp_u64(off); vf_fp(st, n);
	if (vf_logging) vf_log("%s decoder, ring cap=%zu off=%zu, %s: %s", rc_name[c.fmt], cap, off, desc, vf_hex(hx1, sizeof(hx1), st, n));

	while (c.pushed < n && steps++ < 4000) {
		size_t add = vf_chance(r, 1, 3) ? 1 : 1 + vf_below(r, vf_chance(r, 1, 2) ? 8 : 200), room;
		int rr;
		if (add > n - c.pushed) add = n - c.pushed;
		room = c.q.data.max - c.q.data.len;
		if (room < add) {
			if (room && vf_chance(r, 1, 2)) add = room;
			else {
				vf_at("mpt_queue_prepare");
				vf_count("mpt_queue_prepare", 1);
				VF_CHECK(mpt_queue_prepare(&c.q.data, add) >= add, key("queue_prepare", c.fmt, "no-space"), "prepare(%zu) on max=%zu len=%zu", add, c.q.data.max, c.q.data.len);
			}
		}
		vf_at("mpt_qpush");
		rr = mpt_qpush(&c.q.data, add, st + c.pushed);
		VF_CHECK(rr >= 0, key("qpush", c.fmt, "refused"), "qpush(%zu) = %d with max=%zu len=%zu", add, rr, c.q.data.max, c.q.data.len);
		c.pushed += add;
		if (vf_logging) vf_log("pushed %zu (total %zu)", add, c.pushed);
		check_tail(&c, "qpush", 0);
		/* receive until incomplete */
		while (1) {
			int o;
			if (vf_chance(r, 1, 4)) do_peek(&c, r);
			o = do_recv(&c, r);
			if (o == 1) { delivered++; continue; }
			if (o < 0) goto out;
			break;
		}
	}
out:
	vf_at("teardown");
	free(c.q.data.base);
	if (delivered) vf_count("runs:delivered-message", 1);
	if (delivered >= 1 && n > 8) vf_nontrivial();
	vf_sample("%s decoder on decode_queue ring cap=%zu off=%zu: %s, %d messages received", rc_name[c.fmt], cap, off, desc, delivered);
}
