/*
 * C04 (C++ leg): mpt::array, mpt::slice, typed_array<T>, pointer_array<T>,
 * map<K,V> against std::vector shadows with value semantics.
 */
#include <vector>
#include <string>
#include <algorithm>
#include <cstring>
#include <cstdarg>
#include <sys/uio.h>

#include "meta.h"
#include "array.h"
#include "values.h"
#include "vf.h"

const char *vf_name = "c04_cxx";
using namespace mpt;

typedef std::vector<uint8_t> bytes;
static uint8_t nextv;
static bytes fresh(size_t n)
{
	bytes v(n);
	for (auto &b : v) { do { nextv++; } while (!nextv); b = nextv; }
	return v;
}
static std::string hex(const uint8_t *p, size_t n)
{
	char buf[160];
	return vf_hex(buf, sizeof(buf), p, n);
}
static char keybuf[96];
static const char *key(const char *op, const char *what)
{
	snprintf(keybuf, sizeof(keybuf), "cxx:%s:%s", op, what);
	return keybuf;
}

/* ------------------------------------------------------------------ arrays */
#define NA 3
struct ArrState {
	mpt::array a[NA];
	bytes s[NA];
	mpt::slice *sl;
	bytes ss;
	ArrState() : sl(0) { }
	~ArrState() { delete sl; }
};
static void read_array(const mpt::array &a, const uint8_t *&p, size_t &n)
{
	const mpt::array::content *c = a.data();
	p = c ? static_cast<const uint8_t *>(c->data()) : 0;
	n = c ? c->length() : 0;
}
static void check_arrays(ArrState &st, const char *op, int h, const std::string &ctx)
{
	for (int i = 0; i < NA; i++) {
		const uint8_t *p; size_t n;
		read_array(st.a[i], p, n);
		const char *w = (i == h) ? "target" : "other-handle";
		if (n != st.s[i].size()) {
			snprintf(keybuf, sizeof(keybuf), "cxx:%s:%s-length", op, w);
			vf_fail(keybuf, "%s: array %d has %zu bytes, model %zu", ctx.c_str(), i, n, st.s[i].size());
		}
		if (n && memcmp(p, st.s[i].data(), n)) {
			size_t d = 0; while (p[d] == st.s[i][d]) d++;
			size_t b = d > 8 ? d - 8 : 0, l = std::min<size_t>(n - b, 40);
			snprintf(keybuf, sizeof(keybuf), "cxx:%s:%s-content", op, w);
			vf_fail(keybuf, "%s: array %d differs at byte %zu of %zu: has ..%s model ..%s", ctx.c_str(), i, d, n,
			        hex(p + b, l).c_str(), hex(st.s[i].data() + b, l).c_str());
		}
	}
	if (st.sl) {
		mpt::span<const uint8_t> d = st.sl->data();
		const char *w = (h == NA) ? "target" : "other-handle";
		if ((size_t) d.size() != st.ss.size()) {
			snprintf(keybuf, sizeof(keybuf), "cxx:%s:slice-%s-length", op, w);
			vf_fail(keybuf, "%s: slice window has %ld bytes, model %zu", ctx.c_str(), d.size(), st.ss.size());
		}
		const mpt::array::content *c = st.sl->array::data();
		size_t total = c ? c->length() : 0;
		const uint8_t *base = c ? static_cast<const uint8_t *>(c->data()) : 0;
		VF_CHECK(!d.size() || (d.begin() >= base && d.begin() + d.size() <= base + total), key(op, "slice-window-outside"),
		         "%s: slice window of %ld bytes leaves the array data of %zu", ctx.c_str(), d.size(), total);
		if (d.size() && memcmp(d.begin(), st.ss.data(), d.size())) {
			snprintf(keybuf, sizeof(keybuf), "cxx:%s:slice-%s-content", op, w);
			vf_fail(keybuf, "%s: slice window has %s model %s", ctx.c_str(), hex(d.begin(), d.size()).c_str(), hex(st.ss.data(), st.ss.size()).c_str());
		}
	}
	vf_count("monitor:array-readbacks", 1);
}
static size_t pick_len(vf_rng *r, size_t used)
{
	static const size_t c[] = { 0, 1, 2, 63, 64, 65, 127, 128, 129, 191, 192, 193 };
	if (vf_chance(r, 1, 4)) return c[vf_below(r, 12)];
	if (vf_chance(r, 1, 4)) return used + vf_below(r, 3);
	return vf_below(r, vf_chance(r, 1, 2) ? 10 : 260);
}
static void case_arrays(vf_rng *r)
{
	ArrState st;
	int nops = vf_range(r, 8, vf_thorough ? 90 : 50);
	int shared_writes = 0;
	std::string desc = "mpt::array x3 + slice:";
	vf_fp_u64(0xa11);
	static const char *names[] = { "assign", "set", "append", "insert", "prepend", "printf", "string", "clear",
	                               "slice_open", "slice_shift", "slice_trim", "slice_write", "slice_drop", "assign_slice", "append_op", "set_value" };
	for (int i = 0; i < nops; i++) {
		int op = (int) vf_below(r, 16), h = (int) vf_below(r, NA), g = (int) vf_below(r, NA);
		size_t used = st.s[h].size(), len = pick_len(r, used), pos = vf_chance(r, 1, 6) ? used + 1 + vf_below(r, 40) : vf_below(r, (uint32_t) used + 1);
		if (i < 4) op = (i & 1) ? 0 : 2;
		char cb[200];
		snprintf(cb, sizeof(cb), "%s(h=%d,g=%d,pos=%zu,len=%zu) used=%zu shared=%d", names[op], h, g, pos, len, used, (int) st.a[h].shared());
		std::string ctx = cb;
		vf_log("%s", cb);
		vf_fp_u64(((uint64_t) op << 56) ^ ((uint64_t) h << 48) ^ ((uint64_t) g << 40) ^ (pos << 20) ^ len);
		vf_count(names[op], 1);
		bool was_shared = st.a[h].shared();
		vf_count(was_shared ? "state:shared" : "state:unshared", 1);
		int target = h;
		if (desc.size() < 1600) desc += std::string(" ") + names[op] + "(" + std::to_string(h) + "," + std::to_string(pos) + "," + std::to_string(len) + ")";
		const mpt::array::content *c0 = st.a[h].data();
		bool typed = c0 && c0->content_traits();
		bool ischar = typed && c0->content_traits() == mpt::type_traits::get('c');
		switch (op) {
		case 0: vf_at("array::operator="); st.a[h] = st.a[g]; st.s[h] = st.s[g]; break;
		case 1: {
			vf_at("array::set");
			bytes in = fresh(len);
			bool zero = vf_chance(r, 1, 4);
			void *p = st.a[h].set(len, zero ? 0 : in.data());
			VF_CHECK(p != 0, key("set", "refused"), "%s: NULL", ctx.c_str());
			st.s[h] = zero ? bytes(len, 0) : in;
			break; }
		case 2: case 14: {
			vf_at("array::append");
			bytes in = fresh(len);
			if (op == 14) {
				struct iovec v; v.iov_base = in.data(); v.iov_len = len;
				if (typed) break;
				st.a[h] += v;
			} else {
				void *p = st.a[h].append(len, in.data());
				if (typed) { VF_CHECK(!p, key("append", "accepted-on-typed"), "%s", ctx.c_str()); break; }
				VF_CHECK(p != 0 || !len, key("append", "refused"), "%s: NULL", ctx.c_str());
				if (!p) break;
			}
			st.s[h].insert(st.s[h].end(), in.begin(), in.end());
			break; }
		case 3: case 4: {
			vf_at(op == 3 ? "array::insert" : "array::prepend");
			bytes in = fresh(len);
			if (op == 4) pos = 0;
			void *p = op == 3 ? st.a[h].insert(pos, len, in.data()) : st.a[h].prepend(len, in.data());
			if (!p) {
				/* typed content (element size > 1) may refuse unaligned positions */
				VF_CHECK(!(pos + len) || (typed && !ischar), key(names[op], "refused"), "%s: NULL", ctx.c_str());
				break;
			}
			if (typed) { /* typed content is replaced by a raw buffer: adopt */
				const uint8_t *q; size_t n; read_array(st.a[h], q, n); st.s[h].assign(q, q + n); break;
			}
			if (pos > st.s[h].size()) st.s[h].resize(pos, 0);
			st.s[h].insert(st.s[h].begin() + pos, in.begin(), in.end());
			const uint8_t *q; size_t n; read_array(st.a[h], q, n);
			VF_CHECK(p == (void *) (q + pos), key(names[op], "return-address"), "%s: returned address is not data+pos", ctx.c_str());
			break; }
		case 5: {
			if (c0 && !ischar) break;
			vf_at("array::printf");
			size_t want = std::min<size_t>(len, 300);
			std::string t(want, 'x');
			for (auto &ch : t) ch = (char) ('a' + (++nextv % 26));
			int ret = st.a[h].printf("%s|%zu", t.c_str(), pos);
			std::string exp = t + "|" + std::to_string(pos);
			VF_CHECK(ret == (int) exp.size(), key("printf", "return"), "%s: returned %d, text has %zu characters", ctx.c_str(), ret, exp.size());
			st.s[h].insert(st.s[h].end(), exp.begin(), exp.end());
			break; }
		case 6: {
			if (!ischar) break;
			vf_at("array::string");
			char *s = st.a[h].string();
			VF_CHECK(s != 0, key("string", "refused"), "%s: NULL", ctx.c_str());
			const uint8_t *q; size_t n; read_array(st.a[h], q, n);
			if (n == st.s[h].size() + 1 && !q[n - 1]) st.s[h].push_back(0);
			VF_CHECK((const uint8_t *) s == q, key("string", "return-address"), "%s: not the array data", ctx.c_str());
			break; }
		case 7: vf_at("array::operator="); st.a[h] = mpt::array(); st.s[h].clear(); break;
		case 8: {
			delete st.sl; st.sl = 0; st.ss.clear();
			if (typed) break;
			vf_at("slice::slice");
			st.sl = new mpt::slice(st.a[h]);
			st.ss = st.s[h];
			target = NA;
			break; }
		case 9: case 10: {
			if (!st.sl) break;
			ssize_t n = (ssize_t) vf_below(r, 12) - 3;
			if (vf_chance(r, 1, 5)) n = (ssize_t) st.ss.size() + (ssize_t) vf_below(r, 3) - 1;
			/* model needs the underlying data: window position is tracked via pointers */
			mpt::span<const uint8_t> d = st.sl->data();
			const mpt::array::content *c = st.sl->array::data();
			size_t total = c ? c->length() : 0;
			const uint8_t *base = c ? static_cast<const uint8_t *>(c->data()) : 0;
			size_t off = d.begin() && base ? (size_t) (d.begin() - base) : 0, wl = d.size();
			bytes under(base, base + total);
			snprintf(cb, sizeof(cb), "%s(%zd) window=%zu+%zu of %zu", names[op], n, off, wl, total);
			ctx = cb; vf_log("%s", cb);
			vf_at(op == 9 ? "slice::shift" : "slice::trim");
			bool ok = op == 9 ? st.sl->shift(n) : st.sl->trim(n);
			bool valid;
			if (op == 9) valid = n >= 0 ? (size_t) n <= wl : (size_t) -n <= off;
			else valid = n >= 0 ? (size_t) n <= wl : (off + wl + (size_t) -n) <= total;
			VF_CHECK(ok == valid || (!ok), key(names[op], "accepted-outside"), "%s: accepted", ctx.c_str());
			if (ok) {
				if (op == 9) { off += n; wl -= n; } else wl -= n;
				st.ss.assign(under.begin() + off, under.begin() + off + wl);
			}
			target = NA;
			break; }
		case 11: {
			if (!st.sl) break;
			size_t esz = 1 + vf_below(r, 6), nblk = vf_below(r, 10);
			bytes in = fresh(esz * nblk);
			vf_at("slice::write");
			ssize_t ret = st.sl->write(nblk, in.data(), esz);
			snprintf(cb, sizeof(cb), "slice_write(nblk=%zu,size=%zu) -> %zd", nblk, esz, ret);
			ctx = cb; vf_log("%s", cb);
			VF_CHECK(ret >= 0 && (size_t) ret <= nblk, key("slice_write", "return"), "%s", ctx.c_str());
			if (nblk) VF_CHECK(ret > 0, key("slice_write", "nothing-written"), "%s", ctx.c_str());
			st.ss.insert(st.ss.end(), in.begin(), in.begin() + ret * esz);
			target = NA;
			break; }
		case 12: delete st.sl; st.sl = 0; st.ss.clear(); break;
		case 15: {
			/* assignment from a generic value: text, byte vector or scalar */
			vf_at("array::set(value)");
			mpt::value v;
			int kind = (int) vf_below(r, 3);
			bytes in = fresh(len > 300 ? 300 : len);
			for (auto &b : in) if (!b) b = 1;
			std::string txt(in.begin(), in.end());
			const char *tp = txt.c_str();
			struct iovec vec; vec.iov_base = in.data(); vec.iov_len = in.size();
			uint32_t scalar = 0x01020304u + (uint32_t) pos;
			bytes expect;
			if (kind == 0) { v.set('s', &tp); expect = in; expect.push_back(0); }
			else if (kind == 1) { v.set(MPT_type_toVector('y'), &vec); expect = in; }
			else { v.set('u', &scalar); expect.assign((uint8_t *) &scalar, (uint8_t *) &scalar + 4); }
			int ret = st.a[h].set(v);
			snprintf(cb, sizeof(cb), "set_value(kind=%d,len=%zu) -> %d", kind, in.size(), ret);
			ctx = cb; vf_log("%s", cb);
			VF_CHECK(ret >= 0, key("set_value", "refused"), "%s", ctx.c_str());
			st.s[h] = expect;
			break; }
		case 13: {
			if (!st.sl) break;
			vf_at("array::operator=(slice)");
			st.a[h] = *st.sl;
			st.s[h] = st.ss;
			break; }
		}
		check_arrays(st, names[op], target, ctx);
		if (was_shared && op != 0 && op != 7 && op != 8 && op != 12) shared_writes++;
	}
	if (shared_writes >= 2) vf_nontrivial();
	vf_sample("%s", desc.c_str());
}

/* ------------------------------------------------------------ typed arrays */
template <typename A>
static void check_typed(const A *arr, const std::vector<uint32_t> *sh, int n, const char *op, int h, const std::string &ctx)
{
	for (int i = 0; i < n; i++) {
		const char *w = (i == h) ? "target" : "other-handle";
		if ((size_t) arr[i].length() != sh[i].size()) {
			snprintf(keybuf, sizeof(keybuf), "cxx:%s:%s-length", op, w);
			vf_fail(keybuf, "%s: array %d has %ld elements, model %zu", ctx.c_str(), i, arr[i].length(), sh[i].size());
		}
		const uint32_t *p = arr[i].begin();
		for (size_t j = 0; j < sh[i].size(); j++) {
			if (p[j] != sh[i][j]) {
				snprintf(keybuf, sizeof(keybuf), "cxx:%s:%s-content", op, w);
				vf_fail(keybuf, "%s: array %d element %zu is %u, model %u", ctx.c_str(), i, j, p[j], sh[i][j]);
			}
		}
	}
	vf_count("monitor:typed-readbacks", 1);
}
template <typename A, bool unique>
static void run_typed(vf_rng *r, const char *kind)
{
	A a[3];
	std::vector<uint32_t> s[3];
	int nops = vf_range(r, 6, 50), shared_writes = 0;
	uint32_t nv = 100;
	vf_fp_u64(unique ? 0x771 : 0x772);
	for (int i = 0; i < nops; i++) {
		int op = (int) vf_below(r, 6), h = (int) vf_below(r, 3), g = (int) vf_below(r, 3);
		long n = (long) s[h].size();
		long pos = vf_chance(r, 1, 4) ? -(long) vf_below(r, (uint32_t) n + 2) : (long) vf_below(r, (uint32_t) n + 4);
		char cb[160], opn[40];
		static const char *names[] = { "copy", "insert", "set", "resize", "get", "reserve" };
		snprintf(opn, sizeof(opn), "%s_%s", kind, names[op]);
		snprintf(cb, sizeof(cb), "%s(h=%d,g=%d,pos=%ld) length=%ld", opn, h, g, pos, n);
		std::string ctx = cb;
		vf_log("%s", cb);
		vf_fp_u64(((uint64_t) op << 40) ^ (h << 24) ^ (g << 16) ^ (uint32_t) pos);
		vf_count(opn, 1);
		bool shared = false;
		for (int k = 0; k < 3; k++) if (k != h && a[k].begin() && a[k].begin() == a[h].begin() && n) shared = true;
		switch (op) {
		case 0: a[h] = a[g]; s[h] = s[g]; break;
		case 1: {
			uint32_t v = nv++;
			long p = pos < 0 ? pos + n : pos;
			if (p > 600) break;
			bool ok;
			if constexpr (unique) { uint32_t *e = a[h].insert(pos); ok = e != 0; if (e) *e = v; }
			else ok = a[h].insert(pos, v);
			if (p < 0) { VF_CHECK(!ok, key(opn, "accepted-outside"), "%s", ctx.c_str()); break; }
			if (!ok) { VF_CHECK(unique && shared, key(opn, "refused"), "%s", ctx.c_str()); break; }
			if ((size_t) p > s[h].size()) s[h].resize(p, 0);
			s[h].insert(s[h].begin() + p, v);
			break; }
		case 2: {
			uint32_t v = nv++;
			long p = pos < 0 ? pos + n : pos;
			bool ok = a[h].set(pos, v);
			if (p < 0 || p >= n) { VF_CHECK(!ok, key(opn, "accepted-outside"), "%s", ctx.c_str()); break; }
			if (!ok) { VF_CHECK(unique && shared, key(opn, "refused"), "%s", ctx.c_str()); break; }
			s[h][p] = v;
			break; }
		case 3: {
			long len = (long) vf_below(r, (uint32_t) n + 6);
			if (len > 600) break;
			bool ok = a[h].resize(len);
			if (!ok) { VF_CHECK(unique && shared, key(opn, "refused"), "%s: resize(%ld)", ctx.c_str(), len); break; }
			if ((size_t) a[h].length() != (size_t) len) {
				/* unique (no-copy) content shared with another handle cannot be changed: adopt when unchanged */
				VF_CHECK(unique && shared && a[h].length() == n, key(opn, "length"), "%s: resize(%ld) gave length %ld", ctx.c_str(), len, a[h].length());
				break;
			}
			s[h].resize(len, 0);
			break; }
		case 4: {
			uint32_t *e = a[h].get(pos);
			long p = pos < 0 ? pos + n : pos;
			if (p < 0 || p >= n) { VF_CHECK(!e, key(opn, "accepted-outside"), "%s", ctx.c_str()); break; }
			VF_CHECK(e && *e == s[h][p], key(opn, "value"), "%s: got %u expected %u", ctx.c_str(), e ? *e : 0, s[h][p]);
			break; }
		case 5: {
			long len = (long) vf_below(r, (uint32_t) n + 40);
			a[h].reserve(len);
			if ((size_t) a[h].length() != s[h].size()) {
				/* shrinking reserve: adopt prefix */
				long nl = a[h].length();
				VF_CHECK(nl <= n && nl >= 0, key(opn, "length"), "%s: reserve(%ld) gave length %ld", ctx.c_str(), len, nl);
				s[h].resize(nl);
			}
			break; }
		}
		check_typed(a, s, 3, opn, h, ctx);
		if (shared && op != 0 && op != 4) shared_writes++;
	}
	if (shared_writes >= 1) vf_nontrivial();
	vf_sample("%s<uint32_t> x3: %d copy/insert/set/resize/get/reserve operations", kind, nops);
}

/* ------------------------------------------------------------ map, pointers */
static void case_map(vf_rng *r)
{
	mpt::map<int, int> m;
	std::vector<std::pair<int, int> > s;
	int nops = vf_range(r, 5, 40);
	vf_fp_u64(0x3a9);
	for (int i = 0; i < nops; i++) {
		int op = (int) vf_below(r, 4), k = (int) vf_below(r, 8), v = (int) vf_u64(r);
		char cb[120];
		snprintf(cb, sizeof(cb), "map op=%d key=%d entries=%zu", op, k, s.size());
		std::string ctx = cb;
		vf_log("%s", cb);
		vf_fp_u64((op << 8) ^ k);
		switch (op) {
		case 0: {
			vf_at("map::set"); vf_count("map_set", 1);
			VF_CHECK(m.set(k, v), key("map_set", "refused"), "%s", ctx.c_str());
			auto it = std::find_if(s.begin(), s.end(), [k](const std::pair<int, int> &e) { return e.first == k; });
			if (it == s.end()) s.push_back(std::make_pair(k, v)); else it->second = v;
			break; }
		case 1: {
			vf_at("map::append"); vf_count("map_append", 1);
			VF_CHECK(m.append(k, v), key("map_append", "refused"), "%s", ctx.c_str());
			s.push_back(std::make_pair(k, v));
			break; }
		case 2: {
			vf_at("map::get"); vf_count("map_get", 1);
			int *p = m.get(k);
			auto it = std::find_if(s.begin(), s.end(), [k](const std::pair<int, int> &e) { return e.first == k; });
			if (it == s.end()) VF_CHECK(!p, key("map_get", "phantom"), "%s: found value for absent key", ctx.c_str());
			else {
				VF_CHECK(p != 0, key("map_get", "missed"), "%s", ctx.c_str());
				const mpt::map<int, int>::entry *b = m.begin(), *e = m.end();
				VF_CHECK((const void *) p >= (const void *) b && (const void *) p < (const void *) e, key("map_get", "outside-storage"), "%s: returned address is outside the map entries", ctx.c_str());
				VF_CHECK(*p == it->second, key("map_get", "value"), "%s: got %d expected %d", ctx.c_str(), *p, it->second);
			}
			break; }
		case 3: {
			vf_at("map::values"); vf_count("map_values", 1);
			mpt::typed_array<int> va = vf_chance(r, 1, 2) ? m.values(k) : m.values();
			break; }
		}
		/* read back entries */
		const mpt::map<int, int>::entry *b = m.begin(), *e = m.end();
		VF_CHECK((size_t) (e - b) == s.size(), "cxx:map:entry-count", "%s: %ld entries, model %zu", ctx.c_str(), (long) (e - b), s.size());
		for (size_t j = 0; j < s.size(); j++)
			VF_CHECK(b[j].key == s[j].first && b[j].value == s[j].second, "cxx:map:entry-content", "%s: entry %zu is (%d,%d) model (%d,%d)", ctx.c_str(), j, b[j].key, b[j].value, s[j].first, s[j].second);
		vf_count("monitor:map-readbacks", 1);
	}
	if (s.size() > 1) vf_nontrivial();
	vf_sample("map<int,int>: %d set/append/get/values operations over 8 keys", nops);
}
static void case_pointers(vf_rng *r)
{
	static int objs[16];
	mpt::pointer_array<int> a[2];
	std::vector<int *> s[2];
	int nops = vf_range(r, 5, 40), shared_compacts = 0;
	vf_fp_u64(0x9a7);
	for (int i = 0; i < nops; i++) {
		int op = (int) vf_below(r, 4), h = (int) vf_below(r, 2);
		long n = (long) s[h].size(), pos = (long) vf_below(r, (uint32_t) n + 3);
		int *v = vf_chance(r, 1, 3) ? 0 : &objs[vf_below(r, 16)];
		char cb[120];
		snprintf(cb, sizeof(cb), "pointer_array op=%d h=%d pos=%ld length=%ld", op, h, pos, n);
		std::string ctx = cb;
		vf_log("%s", cb);
		vf_fp_u64((op << 16) ^ (h << 8) ^ pos);
		bool shared = a[0].begin() && a[0].begin() == a[1].begin();
		switch (op) {
		case 0: vf_count("pointer_copy", 1); a[h] = a[!h]; s[h] = s[!h]; break;
		case 1: {
			vf_at("pointer_array::insert"); vf_count("pointer_insert", 1);
			if (n + pos > 200) break;
			VF_CHECK(a[h].insert(pos, v), "cxx:pointer_insert:refused", "%s", ctx.c_str());
			if ((size_t) pos > s[h].size()) s[h].resize(pos, 0);
			s[h].insert(s[h].begin() + pos, v);
			break; }
		case 2: {
			vf_at("pointer_array::compact"); vf_count("pointer_compact", 1);
			a[h].compact();
			s[h].erase(std::remove(s[h].begin(), s[h].end(), (int *) 0), s[h].end());
			if (shared) shared_compacts++;
			break; }
		case 3: {
			vf_at("pointer_array::unused"); vf_count("pointer_unused", 1);
			long u = a[h].unused();
			long e = (long) std::count(s[h].begin(), s[h].end(), (int *) 0);
			VF_CHECK(u == e, "cxx:pointer_unused:value", "%s: unused() = %ld expected %ld", ctx.c_str(), u, e);
			break; }
		}
		for (int k = 0; k < 2; k++) {
			const char *w = k == h ? "target" : "other-handle";
			if ((size_t) a[k].length() != s[k].size()) {
				snprintf(keybuf, sizeof(keybuf), "cxx:pointer_array:%s-length", w);
				vf_fail(keybuf, "%s: array %d has %ld slots, model %zu", ctx.c_str(), k, a[k].length(), s[k].size());
			}
			for (size_t j = 0; j < s[k].size(); j++) {
				if (a[k].begin()[j] != s[k][j]) {
					snprintf(keybuf, sizeof(keybuf), "cxx:pointer_array:%s-content", w);
					vf_fail(keybuf, "%s: array %d slot %zu differs from model", ctx.c_str(), k, j);
				}
			}
		}
		vf_count("monitor:pointer-readbacks", 1);
	}
	if (shared_compacts) vf_nontrivial();
	vf_sample("pointer_array<int> x2: %d copy/insert/compact/unused operations", nops);
}

static uint64_t n_arr(void) { return vf_thorough ? 900000 : 40000; }

/* ------------------------------------------------------------ value stores */
static void case_store(vf_rng *r)
{
	/* mpt::value_store: typed copy-on-write data of one plot dimension; copies share the buffer */
	mpt::value_store st[3];
	std::vector<double> sh[3];
	static double next = 1.0;
	int nops = vf_range(r, 6, 40), shared_writes = 0;
	vf_fp_u64(0x57043);
	for (int i = 0; i < nops; i++) {
		int op = (int) vf_below(r, 7), h = (int) vf_below(r, 3), g = (int) vf_below(r, 3);
		size_t n = sh[h].size();
		const mpt::array::content *c0 = st[h].data();
		bool shared = c0 && const_cast<mpt::array::content *>(c0)->shared();
		char cb[200];
		std::string ctx;
		switch (op) {
		case 0: case 1: case 2: {
			long count;
			switch (vf_below(r, 5)) {
			case 0: count = -1; break;
			case 1: count = (long) n; break;
			case 2: count = (long) vf_below(r, (uint32_t) n + 1); break;
			default: count = (long) n + (long) vf_below(r, 12); break;
			}
			if (count > 200) count = 200;
			snprintf(cb, sizeof(cb), "value_store::reserve<double>(%ld) h=%d count=%zu%s", count, h, n, shared ? " shared" : "");
			ctx = cb; vf_log("%s", cb);
			vf_at("value_store::reserve"); vf_count("value_store_reserve", 1);
			if (shared) { vf_count("state:shared", 1); shared_writes++; if (count < 0 || (size_t) count <= n) vf_count("state:reserve-within-shared-length", 1); }
			mpt::content<double> *c = st[h].reserve<double>(count);
			VF_CHECK(c != 0, "cxx:store_reserve:refused", "%s", ctx.c_str());
			VF_CHECK(c == static_cast<const void *>(st[h].data()), "cxx:store_reserve:return-buffer", "%s: returned content is not the store's", ctx.c_str());
			size_t have = (size_t) c->length();
			if (count < 0) VF_CHECK(have == n, "cxx:store_reserve:target-length", "%s: %zu values after keep-size reserve", ctx.c_str(), have);
			else if ((size_t) count >= n) VF_CHECK(have == (size_t) count, "cxx:store_reserve:target-length", "%s: %zu values", ctx.c_str(), have);
			else VF_CHECK(have >= (size_t) count && have <= n, "cxx:store_reserve:target-length", "%s: %zu values", ctx.c_str(), have);
			sh[h].resize(have, 0.0);
			VF_CHECK(!c->shared(), "cxx:store_reserve:still-shared", "%s: writable content is shared with another store", ctx.c_str());
			/* the caller writes through the returned content */
			double *d = c->data().begin();
			size_t w = have ? 1 + vf_below(r, (uint32_t) have) : 0;
			for (size_t j = 0; j < w; j++) { d[j] = sh[h][j] = next; next += 0.5; }
			break; }
		case 3: {
			size_t cnt = 1 + vf_below(r, 6), pos = vf_below(r, (uint32_t) n + 2);
			double v[6];
			for (size_t j = 0; j < cnt; j++) { v[j] = next; next += 0.5; }
			snprintf(cb, sizeof(cb), "value_store::set<double>(%zu values at %zu) h=%d count=%zu%s", cnt, pos, h, n, shared ? " shared" : "");
			ctx = cb; vf_log("%s", cb);
			vf_at("value_store::set"); vf_count("value_store_set", 1);
			if (shared) { vf_count("state:shared", 1); shared_writes++; }
			double *p = st[h].set(mpt::span<const double>(v, cnt), (long) pos);
			VF_CHECK(p != 0, "cxx:store_set:refused", "%s", ctx.c_str());
			if (sh[h].size() < pos + cnt) sh[h].resize(pos + cnt, 0.0);
			for (size_t j = 0; j < cnt; j++) sh[h][pos + j] = v[j];
			break; }
		case 4:
			snprintf(cb, sizeof(cb), "value_store copy h=%d <- g=%d", h, g);
			ctx = cb; vf_log("%s", cb);
			vf_count("value_store_copy", 1);
			st[h] = st[g]; sh[h] = sh[g];
			break;
		case 5:
			snprintf(cb, sizeof(cb), "value_store drop h=%d", h);
			ctx = cb; vf_log("%s", cb);
			st[h] = mpt::value_store(); sh[h].clear();
			break;
		default: {
			snprintf(cb, sizeof(cb), "value_store copy-construct from h=%d, reserve on the copy", h);
			ctx = cb; vf_log("%s", cb);
			vf_count("value_store_copy_construct", 1);
			mpt::value_store tmp(st[h]);
			if (n) {
				mpt::content<double> *c = tmp.reserve<double>(-1);
				VF_CHECK(c != 0, "cxx:store_reserve:refused", "%s", ctx.c_str());
				c->data().begin()[0] = -1.0;   /* must stay private to tmp */
			}
			break; }
		}
		vf_fp_u64(((uint64_t) op << 32) ^ (h << 8) ^ g);
		for (int k = 0; k < 3; k++) {
			const mpt::array::content *c = st[k].data();
			size_t have = c ? c->length() / sizeof(double) : 0;
			const char *w = k == h ? "target" : "other-handle";
			if (have != sh[k].size()) { snprintf(keybuf, sizeof(keybuf), "cxx:value_store:%s-length", w); vf_fail(keybuf, "%s: store %d has %zu values, model %zu", ctx.c_str(), k, have, sh[k].size()); }
			if (have && memcmp(c->data(), sh[k].data(), have * sizeof(double))) { snprintf(keybuf, sizeof(keybuf), "cxx:value_store:%s-content", w); vf_fail(keybuf, "%s: store %d content differs from the model", ctx.c_str(), k); }
		}
		vf_count("monitor:value-store-readbacks", 1);
	}
	if (shared_writes >= 2) vf_nontrivial();
	vf_sample("value_store x3: %d reserve/set/copy/drop operations, %d on shared data", nops, shared_writes);
}

static uint64_t n_typed(void) { return vf_thorough ? 600000 : 20000; }
static uint64_t n_uniq(void) { return vf_thorough ? 100000 : 10000; }
static uint64_t n_map(void) { return vf_thorough ? 100000 : 10000; }
static uint64_t n_ptr(void) { return vf_thorough ? 100000 : 10000; }
static uint64_t n_store(void) { return vf_thorough ? 200000 : 20000; }
uint64_t vf_cases(void) { return n_arr() + n_typed() + n_uniq() + n_map() + n_ptr() + n_store(); }
void vf_case(uint64_t idx, vf_rng *r)
{
	if (idx < n_arr()) { case_arrays(r); return; }
	idx -= n_arr();
	if (idx < n_typed()) { run_typed<mpt::typed_array<uint32_t>, false>(r, "typed_array"); return; }
	idx -= n_typed();
	if (idx < n_uniq()) { run_typed<mpt::unique_array<uint32_t>, true>(r, "unique_array"); return; }
	idx -= n_uniq();
	if (idx < n_map()) { case_map(r); return; }
	idx -= n_map();
	if (idx < n_ptr()) { case_pointers(r); return; }
	case_store(r);
}
