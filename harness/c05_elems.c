/*
 * C05: managed elements in typed buffers are finalised exactly once (C leg).
 *
 * Harness element type {canary, serial, payload} with init/fini that keep a
 * live set.  The library moves elements by raw copy inside a buffer it owns
 * exclusively (by design), so identity is the serial stored in the element.
 *
 * Oracle after every operation:
 *  - every fini argument is a live element (checked inside fini),
 *  - every copy source is a live element (checked inside init),
 *  - every element counted by a buffer (used/size) is live, no serial occurs
 *    twice among the distinct buffers,
 *  - conservation: live elements == elements counted by distinct buffers
 *    (+ harness-owned source elements),
 *  - payload sequence of every handle equals its value-semantics shadow
 *    (when no constructor failure was injected into that operation),
 *  - after the last handle is dropped the live set is empty.
 */
#include <stdlib.h>
#include <errno.h>
#include <sys/uio.h>

#include "types.h"
#include "array.h"
#include "meta.h"
#include "core.h"
#include "config.h"
#include "vf.h"
#include "c_stage.h"

const char *vf_name = "c05_elems";

#define CANARY 0xC05E1E37u
#define DEAD   0xDEADDEADu
typedef struct { uint32_t canary, serial; uint64_t payload; } elem;

#define MAXSER (1u << 20)
static uint8_t *live;            /* live[serial] */
static uint32_t next_serial;
static long n_live;
static long fail_in;             /* countdown: the n-th init call from now fails (0 = never) */
static int failed_inits;         /* init failures during current operation */
static const char *cur_op = "?";
static char keybuf[96];

static const char *key(const char *what)
{
	snprintf(keybuf, sizeof(keybuf), "elem:%s:%s", cur_op, what);
	return keybuf;
}
static int e_init(void *ptr, const void *src)
{
	elem *e = ptr;
	const elem *s = src;
	uint64_t payload = 0;
	vf_count("monitor:init-calls", 1);
	if (s) {
		if (s->canary != CANARY || s->serial >= MAXSER || !live[s->serial]) {
			vf_fail(key("copy-from-dead"), "constructor got a source that is not a live element (canary %08x serial %u)", s->canary, s->serial);
		}
		payload = s->payload;
	}
	if (fail_in && !--fail_in) {
		failed_inits++;
		vf_count("monitor:init-failures-injected", 1);
		return MPT_ERROR(BadOperation);
	}
	if (next_serial >= MAXSER) vf_inconclusive("serial space exhausted");
	e->canary = CANARY;
	e->serial = next_serial++;
	e->payload = payload;
	live[e->serial] = 1;
	n_live++;
	return s ? 1 : 0;
}
static void e_fini(void *ptr)
{
	elem *e = ptr;
	vf_count("monitor:fini-calls", 1);
	if (e->canary != CANARY) {
		vf_fail(key(e->canary == DEAD ? "double-destroy" : "destroy-garbage"),
		        "destructor got bytes that are not an element (canary %08x serial %u)", e->canary, e->serial);
	}
	if (e->serial >= MAXSER || !live[e->serial]) {
		vf_fail(key("double-destroy"), "destructor got element serial %u which is not alive (a raw byte copy was destroyed twice)", e->serial);
	}
	live[e->serial] = 0;
	n_live--;
	e->canary = DEAD;
}
static const MPT_STRUCT(type_traits) etraits = { e_init, e_fini, sizeof(elem) };
/* second type with the same size and finaliser: 'compatible' by the library's rule */
static const MPT_STRUCT(type_traits) etraits2 = { e_init, e_fini, sizeof(elem) };
/* incompatible type: other finaliser */
static void o_fini(void *ptr) { e_fini(ptr); }
static const MPT_STRUCT(type_traits) otraits = { e_init, o_fini, sizeof(elem) };

#define NH 3
#define MAXE 600
typedef struct { uint64_t p[MAXE * 2]; size_t n; } shadow;
static MPT_STRUCT(array) arr[NH];
static shadow sh[NH];
static long src_live;   /* harness-owned live source elements */

static size_t h_count(int i) { return arr[i]._buf ? arr[i]._buf->_used / sizeof(elem) : 0; }
static elem *h_elems(int i) { return arr[i]._buf ? (elem *) (arr[i]._buf + 1) : 0; }
static int h_flags(int i) { return arr[i]._buf ? (int) arr[i]._buf->_vptr->get_flags(arr[i]._buf) : 0; }

static void check_all(int h, int adopt, const char *ctx)
{
	static uint32_t seen_gen[MAXSER / 64];  /* not used as bitmap; see below */
	static uint32_t *mark, gen;
	long counted = 0;
	(void) seen_gen;
	if (!mark) mark = calloc(MAXSER, sizeof(*mark));
	gen++;
	for (int i = 0; i < NH; i++) {
		MPT_STRUCT(buffer) *b = arr[i]._buf;
		int dup = 0;
		if (!b) {
			VF_CHECK(sh[i].n == 0, key(i == h ? "target-count" : "other-handle-count"), "%s: handle %d is empty, model has %zu", ctx, i, sh[i].n);
			continue;
		}
		for (int k = 0; k < i; k++) if (arr[k]._buf == b) dup = 1;
		VF_CHECK(b->_used <= b->_size, key("used-exceeds-size"), "%s: handle %d used %zu > size %zu", ctx, i, b->_used, b->_size);
		VF_CHECK(b->_used % sizeof(elem) == 0, key("partial-element"), "%s: handle %d used %zu is no element multiple", ctx, i, b->_used);
		size_t n = h_count(i);
		elem *e = h_elems(i);
		for (size_t j = 0; j < n; j++) {
			if (e[j].canary != CANARY || e[j].serial >= MAXSER || !live[e[j].serial]) {
				vf_fail(key("counted-element-not-alive"), "%s: handle %d element %zu of %zu is not a live element (canary %08x serial %u)",
				        ctx, i, j, n, e[j].canary, e[j].serial);
			}
			if (!dup) {
				if (mark[e[j].serial] == gen) {
					vf_fail(key("duplicate-element"), "%s: element serial %u is stored twice (raw byte duplication instead of copy construction)", ctx, e[j].serial);
				}
				mark[e[j].serial] = gen;
			}
		}
		if (!dup) counted += (long) n;
		if (adopt && i == h) {
			if (n > MAXE * 2) vf_inconclusive("element count beyond model capacity");
			for (size_t j = 0; j < n; j++) sh[i].p[j] = e[j].payload;
			sh[i].n = n;
			continue;
		}
		VF_CHECK(n == sh[i].n, key(i == h ? "target-count" : "other-handle-count"), "%s: handle %d counts %zu elements, model %zu", ctx, i, n, sh[i].n);
		for (size_t j = 0; j < n; j++) {
			if (e[j].payload != sh[i].p[j]) {
				vf_fail(key(i == h ? "target-value" : "other-handle-value"), "%s: handle %d element %zu has payload %llu, model %llu", ctx, i, j,
				        (unsigned long long) e[j].payload, (unsigned long long) sh[i].p[j]);
			}
		}
	}
	VF_CHECK(n_live == counted + src_live, key(n_live > counted + src_live ? "live-element-outside-buffers" : "fewer-live-than-counted"),
	         "%s: %ld elements alive, buffers count %ld (+%ld harness sources)", ctx, n_live, counted, src_live);
	vf_count("monitor:conservation-checks", 1);
}
static void drop(int i)
{
	if (arr[i]._buf) { arr[i]._buf->_vptr->unref(arr[i]._buf); arr[i]._buf = 0; }
	sh[i].n = 0;
}
static uint64_t next_payload = 1000;
static elem *make_sources(size_t n)
{
	elem *s = vf_xalloc(n * sizeof(elem));
	long keep = fail_in;
	fail_in = 0;
	for (size_t i = 0; i < n; i++) {
		e_init(&s[i], 0);
		s[i].payload = next_payload++;
		src_live++;
	}
	fail_in = keep;
	return s;
}
static void free_sources(elem *s, size_t n)
{
	if (!s) return;
	for (size_t i = 0; i < n; i++) { e_fini(&s[i]); src_live--; }
	vf_xfree(s, n * sizeof(elem));
}

enum { OpSet, OpSetDefault, OpBufferSet, OpInsert, OpCut, OpTrunc, OpSlice, OpReserve, OpReserveOther, OpClone, OpDrop, OpReduce, OpRetype, OpCount };
static const char *opn[OpCount] = { "array_set", "array_set_default", "buffer_set", "array_insert", "buffer_cut", "buffer_truncate",
	"array_slice", "array_reserve", "array_reserve_other", "array_clone", "drop", "array_reduce", "array_retype" };

static size_t pick_cnt(vf_rng *r, size_t n)
{
	switch (vf_below(r, 6)) {
	case 0: return 0;
	case 1: return 1;
	case 2: return n;
	case 3: return n + 1;
	default: return vf_below(r, 9);
	}
}
static size_t pick_pos(vf_rng *r, size_t n)
{
	switch (vf_below(r, 6)) {
	case 0: return 0;
	case 1: return n;
	case 2: return n + 1 + vf_below(r, 4);
	case 3: return n ? n - 1 : 0;
	default: return vf_below(r, (uint32_t) n + 1);
	}
}
static void do_op(vf_rng *r, int op, int inject, char *desc, size_t dcap, size_t *dl)
{
	int h = (int) vf_below(r, NH), g = (int) vf_below(r, NH);
	size_t n = h_count(h), pos = pick_pos(r, n), cnt = pick_cnt(r, n);
	const size_t ES = sizeof(elem);
	char ctx[200];
	elem *src = 0;
	void *ptr;
	int adopt = 0;
	int shared = (h_flags(h) & MPT_ENUM(BufferShared)) != 0;

	if (n + cnt + pos > MAXE) { cnt = 0; if (pos > n) pos = n; }
	cur_op = opn[op];
	failed_inits = 0;
	fail_in = inject ? 1 + (long) vf_below(r, 6) : 0;
	snprintf(ctx, sizeof(ctx), "%s(h=%d,g=%d,pos=%zu,cnt=%zu%s) count=%zu %s", opn[op], h, g, pos, cnt, inject ? ",failing-init" : "", n, shared ? "shared" : "unshared");
	vf_log("%s", ctx);
	vf_count(opn[op], 1);
	vf_count(shared ? "state:shared" : "state:unshared", 1);
	if (inject) vf_count("state:init-failure-armed", 1);
	vf_fp_u64(((uint64_t) op << 56) ^ ((uint64_t) h << 48) ^ ((uint64_t) g << 40) ^ (pos << 20) ^ (cnt << 4) ^ (unsigned) inject);
	if (*dl + 48 < dcap) *dl += snprintf(desc + *dl, dcap - *dl, " %s(%d,%d,%zu,%zu)%s", opn[op], h, g, pos, cnt, inject ? "F" : "");

	switch (op) {
	case OpSet: case OpSetDefault: {
		long off = (long) pos;
		if (vf_chance(r, 1, 4) && n) { off = -(long) (1 + vf_below(r, (uint32_t) n)); pos = n - (size_t) (-off); }
		if (op == OpSet) src = make_sources(cnt);
		vf_at("mpt_array_set");
		ptr = mpt_array_set(&arr[h], &etraits, cnt * ES, src, off);
		if (!ptr) {
			/* only constructor failure may make this fail */
			VF_CHECK(failed_inits > 0, key("refused"), "%s: returned NULL (errno %d)", ctx, errno);
			adopt = 1;
			break;
		}
		if (failed_inits) { adopt = 1; break; }
		if (pos > sh[h].n) { for (size_t j = sh[h].n; j < pos; j++) sh[h].p[j] = 0; sh[h].n = pos; }
		for (size_t j = 0; j < cnt; j++) sh[h].p[pos + j] = src ? src[j].payload : 0;
		if (pos + cnt > sh[h].n) sh[h].n = pos + cnt;
		break; }
	case OpBufferSet: {
		/* buffer level: exclusive ownership required */
		if (!arr[h]._buf || shared) break;
		if ((pos + cnt) * ES > arr[h]._buf->_size) cnt = 0;
		if (pos * ES > arr[h]._buf->_size) break;
		src = make_sources(cnt);
		vf_at("mpt_buffer_set");
		long ret = mpt_buffer_set(arr[h]._buf, vf_chance(r, 1, 3) ? &etraits2 : &etraits, pos * ES, src, cnt * ES);
		if (ret < 0 || failed_inits) {
			VF_CHECK(failed_inits > 0, key("refused"), "%s: returned %ld", ctx, ret);
			adopt = 1;
			break;
		}
		if (pos > sh[h].n) { for (size_t j = sh[h].n; j < pos; j++) sh[h].p[j] = 0; sh[h].n = pos; }
		for (size_t j = 0; j < cnt; j++) sh[h].p[pos + j] = src[j].payload;
		if (pos + cnt > sh[h].n) sh[h].n = pos + cnt;
		break; }
	case OpInsert: {
		vf_at("mpt_array_insert");
		ptr = mpt_array_insert(&arr[h], pos * ES, cnt * ES);
		if (!arr[h]._buf || !arr[h]._buf->_content_traits) {
			/* insert on an empty handle creates a raw buffer: not a typed operation */
			if (arr[h]._buf && !arr[h]._buf->_content_traits) {
				arr[h]._buf->_used = 0; /* raw bytes, no elements: discard */
				drop(h);
			}
			break;
		}
		if (!ptr) {
			VF_CHECK(failed_inits > 0 || !(pos + cnt), key("refused"), "%s: returned NULL (errno %d)", ctx, errno);
			adopt = 1;
			break;
		}
		/* the gap is uninitialised by contract: the caller constructs the elements */
		src = make_sources(cnt);
		{
			long keep = fail_in; fail_in = 0;
			for (size_t j = 0; j < cnt; j++) e_init(((elem *) ptr) + j, &src[j]);
			fail_in = keep;
		}
		if (failed_inits) { adopt = 1; break; }
		size_t m = sh[h].n;
		if (pos > m) { for (size_t j = m; j < pos; j++) sh[h].p[j] = 0; m = pos; }
		memmove(sh[h].p + pos + cnt, sh[h].p + pos, (m - pos) * sizeof(uint64_t));
		for (size_t j = 0; j < cnt; j++) sh[h].p[pos + j] = src[j].payload;
		sh[h].n = m + cnt;
		break; }
	case OpCut: case OpTrunc: {
		if (!arr[h]._buf) break;
		if (shared) {
			vf_at("mpt_array_slice");
			if (!mpt_array_slice(&arr[h], 0, 0)) { adopt = 1; break; }
			if (failed_inits) { adopt = 1; break; }
			check_all(h, 0, ctx);
		}
		if (op == OpTrunc) cnt = 0; else if (!cnt) cnt = 1;
		vf_at("mpt_buffer_cut");
		ssize_t ret = mpt_buffer_cut(arr[h]._buf, pos * ES, cnt * ES);
		size_t m = sh[h].n;
		if (pos > m || cnt > m - pos) {
			VF_CHECK(ret < 0, key("accepted-outside"), "%s: returned %zd", ctx, ret);
			break;
		}
		VF_CHECK(ret >= 0, key("refused"), "%s: returned %zd", ctx, ret);
		if (!cnt) sh[h].n = pos;
		else { memmove(sh[h].p + pos, sh[h].p + pos + cnt, (m - pos - cnt) * sizeof(uint64_t)); sh[h].n = m - cnt; }
		break; }
	case OpSlice: {
		vf_at("mpt_array_slice");
		ptr = mpt_array_slice(&arr[h], pos * ES, cnt * ES);
		if (arr[h]._buf && !arr[h]._buf->_content_traits) { drop(h); break; }
		if (!ptr || failed_inits) {
			VF_CHECK(failed_inits > 0, key("refused"), "%s: returned NULL (errno %d)", ctx, errno);
			adopt = 1;
			break;
		}
		for (size_t j = sh[h].n; j < pos + cnt; j++) sh[h].p[j] = 0;
		if (pos + cnt > sh[h].n) sh[h].n = pos + cnt;
		break; }
	case OpReserve: case OpReserveOther: {
		const MPT_STRUCT(type_traits) *tr = (op == OpReserve) ? &etraits : (vf_chance(r, 1, 2) ? &otraits : 0);
		size_t want = (n + cnt) * ES;
		if (vf_chance(r, 1, 4)) want = cnt * ES;
		vf_at("mpt_array_reserve");
		MPT_STRUCT(buffer) *b = mpt_array_reserve(&arr[h], want, tr);
		/* content is adopted (kept, truncated or cleared are all documented somewhere);
		 * liveness, conservation and the other handles are still checked */
		adopt = 1;
		if (b && b->_content_traits != &etraits) {
			/* buffer changed type: no elements of ours may remain counted */
			VF_CHECK(b->_used == 0, key("elements-survive-type-change"), "%s: %zu bytes of content after reserve to another type", ctx, b->_used);
			drop(h);
			adopt = 0;
		}
		break; }
	case OpRetype: {
		/* a buffer holding raw bytes (or elements of a type without finalizer) is re-typed to the
		 * managed type: none of the old bytes may be counted as elements afterwards */
		static const MPT_STRUCT(type_traits) plain16 = MPT_TYPETRAIT_INIT(sizeof(elem));
		uint8_t junk[16 * 12];
		size_t nb = sizeof(elem) * (1 + vf_below(r, 12));
		drop(h);
		memset(junk, 0x5a, sizeof(junk));
		if (vf_chance(r, 1, 2)) {
			vf_at("mpt_array_append");
			if (!mpt_array_append(&arr[h], nb, junk)) vf_fail(key("raw-append-refused"), "%s", ctx);
		} else {
			vf_at("mpt_array_set");
			if (!mpt_array_set(&arr[h], &plain16, nb, junk, 0)) vf_fail(key("plain-set-refused"), "%s", ctx);
		}
		if (vf_chance(r, 1, 3)) { drop(g == h ? (h + 1) % NH : g); mpt_array_clone(&arr[g == h ? (h + 1) % NH : g], &arr[h]); }
		vf_at("mpt_array_reserve");
		MPT_STRUCT(buffer) *b = mpt_array_reserve(&arr[h], nb + cnt * ES, &etraits);
		if (arr[g == h ? (h + 1) % NH : g]._buf && arr[g == h ? (h + 1) % NH : g]._buf->_content_traits != &etraits) drop(g == h ? (h + 1) % NH : g);
		if (!b) { drop(h); break; }
		VF_CHECK(b->_content_traits == &etraits, key("type-not-set"), "%s: reserved buffer has another element type", ctx);
		VF_CHECK(b->_used == 0, key("stale-bytes-counted-as-elements"), "%s: %zu bytes of the old raw content are counted as elements of the new type", ctx, b->_used);
		sh[h].n = 0;
		break; }
	case OpClone: {
		vf_at("mpt_array_clone");
		int ret = mpt_array_clone(&arr[h], &arr[g]);
		VF_CHECK(ret >= 0, key("refused"), "%s: returned %d", ctx, ret);
		memcpy(sh[h].p, sh[g].p, sh[g].n * sizeof(uint64_t));
		sh[h].n = sh[g].n;
		break; }
	case OpDrop:
		drop(h);
		break;
	case OpReduce:
		vf_at("mpt_array_reduce");
		mpt_array_reduce(&arr[h]);
		if (failed_inits) adopt = 1;
		break;
	}
	fail_in = 0;
	free_sources(src, cnt);
	if (adopt) vf_count("monitor:adopted", 1);
	check_all(h, adopt, ctx);
}

/* ---- second leg: built-in managed element types ------------------------- */
static long mt_refs[8];
typedef struct { MPT_INTERFACE(metatype) mt; int id; } hmeta;
static int hm_convert(MPT_INTERFACE(convertable) *c, MPT_TYPE(type) t, void *p) { (void) c; (void) t; (void) p; return MPT_ERROR(BadType); }
static void hm_unref(MPT_INTERFACE(metatype) *m)
{
	hmeta *h = (hmeta *) m;
	mt_refs[h->id]--;
	vf_count("monitor:meta-unref", 1);
	if (mt_refs[h->id] < 0) vf_fail("metaref:over-release", "metatype %d released more often than retained", h->id);
}
static uintptr_t hm_addref(MPT_INTERFACE(metatype) *m)
{
	hmeta *h = (hmeta *) m;
	vf_count("monitor:meta-addref", 1);
	return (uintptr_t) ++mt_refs[h->id];
}
static MPT_INTERFACE(metatype) *hm_clone(const MPT_INTERFACE(metatype) *m) { (void) m; return 0; }
static const MPT_INTERFACE_VPTR(metatype) hm_vptr = { { hm_convert }, hm_unref, hm_addref, hm_clone };
static hmeta metas[8];

static void case_metaref(vf_rng *r)
{
	/* array of metatype references: shadow = vector of meta ids (-1 = NULL reference) */
	const MPT_STRUCT(type_traits) *tr = mpt_meta_reference_traits();
	MPT_STRUCT(array) a[2] = { MPT_ARRAY_INIT, MPT_ARRAY_INIT };
	int shd[2][64]; size_t sn[2] = { 0, 0 };
	const size_t PS = sizeof(void *);
	char ctx[160];
	int nops = vf_range(r, 5, 40);

	for (int i = 0; i < 8; i++) { metas[i].mt._vptr = &hm_vptr; metas[i].id = i; mt_refs[i] = 0; }
	vf_fp_u64(0x4e7a);
	for (int i = 0; i < nops; i++) {
		int h = (int) vf_below(r, 2), op = (int) vf_below(r, 6);
		size_t n = sn[h], pos = vf_below(r, (uint32_t) n + 2), cnt = vf_below(r, 4);
		MPT_INTERFACE(metatype) *src[4];
		int ids[4];
		if (n + cnt + 2 >= 60) { cnt = 0; if (pos > n) pos = n; }
		for (size_t j = 0; j < cnt; j++) { ids[j] = (int) vf_below(r, 9) - 1; src[j] = ids[j] < 0 ? 0 : &metas[ids[j]].mt; }
		snprintf(ctx, sizeof(ctx), "metaref op=%d h=%d pos=%zu cnt=%zu count=%zu", op, h, pos, cnt, n);
		vf_log("%s", ctx);
		vf_fp_u64(((uint64_t) op << 32) ^ (h << 24) ^ (pos << 8) ^ cnt);
		switch (op) {
		case 0: case 1: {
			vf_at("mpt_array_set"); vf_count("metaref:array_set", 1);
			void *p = mpt_array_set(&a[h], tr, cnt * PS, op ? src : 0, (long) pos);
			VF_CHECK(p != 0, "metaref:array_set:refused", "%s: NULL", ctx);
			for (size_t j = n; j < pos; j++) shd[h][j] = -1;
			for (size_t j = 0; j < cnt; j++) shd[h][pos + j] = op ? ids[j] : -1;
			if (pos > sn[h]) sn[h] = pos;
			if (pos + cnt > sn[h]) sn[h] = pos + cnt;
			break; }
		case 2: {
			vf_at("mpt_array_clone"); vf_count("metaref:array_clone", 1);
			int ret = mpt_array_clone(&a[h], &a[!h]);
			VF_CHECK(ret >= 0, "metaref:array_clone:refused", "%s: %d", ctx, ret);
			memcpy(shd[h], shd[!h], sizeof(shd[0])); sn[h] = sn[!h];
			break; }
		case 3: {
			if (!a[h]._buf) break;
			vf_at("mpt_array_slice");
			if (!mpt_array_slice(&a[h], 0, 0)) vf_fail("metaref:array_slice:refused", "%s: detach failed", ctx);
			if (!n) break;
			if (pos >= n) pos = n - 1;
			if (!cnt) cnt = 1;
			if (pos + cnt > n) cnt = n - pos;
			vf_at("mpt_buffer_cut"); vf_count("metaref:buffer_cut", 1);
			ssize_t ret = mpt_buffer_cut(a[h]._buf, pos * PS, cnt * PS);
			VF_CHECK(ret >= 0, "metaref:buffer_cut:refused", "%s: %zd", ctx, ret);
			memmove(shd[h] + pos, shd[h] + pos + cnt, (n - pos - cnt) * sizeof(int)); sn[h] = n - cnt;
			break; }
		case 4:
			vf_at("mpt_array_clone"); vf_count("metaref:drop", 1);
			mpt_array_clone(&a[h], 0); sn[h] = 0;
			break;
		case 5: {
			vf_at("mpt_array_reserve"); vf_count("metaref:array_reserve", 1);
			MPT_STRUCT(buffer) *b = mpt_array_reserve(&a[h], (n + cnt) * PS, tr);
			VF_CHECK(b != 0, "metaref:array_reserve:refused", "%s: NULL", ctx);
			VF_CHECK(b->_used == n * PS, "metaref:array_reserve:content-lost", "%s: used %zu after reserve, had %zu references", ctx, b->_used, n);
			break; }
		}
		/* oracle: stored pointers equal the shadow; reference counts = number of slots in distinct buffers */
		long expect[8] = { 0 };
		for (int k = 0; k < 2; k++) {
			size_t c = a[k]._buf ? a[k]._buf->_used / PS : 0;
			VF_CHECK(c == sn[k], "metaref:count", "%s: handle %d counts %zu references, model %zu", ctx, k, c, sn[k]);
			MPT_INTERFACE(metatype) **pp = a[k]._buf ? (MPT_INTERFACE(metatype) **) (a[k]._buf + 1) : 0;
			for (size_t j = 0; j < c; j++) {
				MPT_INTERFACE(metatype) *e = shd[k][j] < 0 ? 0 : &metas[shd[k][j]].mt;
				VF_CHECK(pp[j] == e, "metaref:value", "%s: handle %d slot %zu holds another reference than the model (%d)", ctx, k, j, shd[k][j]);
				if (e && !(k == 1 && a[0]._buf == a[1]._buf)) expect[shd[k][j]]++;
			}
		}
		for (int k = 0; k < 8; k++)
			VF_CHECK(mt_refs[k] == expect[k], mt_refs[k] > expect[k] ? "metaref:reference-leaked" : "metaref:reference-lost",
			         "%s: metatype %d has %ld references, %ld slots hold it", ctx, k, mt_refs[k], expect[k]);
		vf_count("monitor:metaref-checks", 1);
	}
	mpt_array_clone(&a[0], 0);
	mpt_array_clone(&a[1], 0);
	for (int k = 0; k < 8; k++) VF_CHECK(mt_refs[k] == 0, "metaref:reference-leaked", "metatype %d keeps %ld references after all arrays are gone", k, mt_refs[k]);
	vf_nontrivial();
	vf_sample("array of metatype references: %d operations (set/default/clone/cut/drop/reserve) on 2 handles", nops);
}

static void case_arrarr(vf_rng *r)
{
	/* array of arrays: inner buffers hold harness elements; copy of the outer array shares inner buffers */
	const MPT_STRUCT(type_traits) *tr = mpt_array_traits();
	MPT_STRUCT(array) outer[2] = { MPT_ARRAY_INIT, MPT_ARRAY_INIT };
	const size_t AS = sizeof(MPT_STRUCT(array));
	int nops = vf_range(r, 4, 30);
	char ctx[160];
	cur_op = "array_of_arrays";
	vf_fp_u64(0xa77a);
	for (int i = 0; i < nops; i++) {
		int h = (int) vf_below(r, 2), op = (int) vf_below(r, 5);
		size_t n = outer[h]._buf ? outer[h]._buf->_used / AS : 0;
		size_t pos = vf_below(r, (uint32_t) n + 2), cnt = 1 + vf_below(r, 3);
		snprintf(ctx, sizeof(ctx), "arrarr op=%d h=%d pos=%zu cnt=%zu count=%zu", op, h, pos, cnt, n);
		vf_log("%s", ctx);
		vf_fp_u64(((uint64_t) op << 32) ^ (h << 24) ^ (pos << 8) ^ cnt);
		if (n + pos + cnt > 40) continue;
		switch (op) {
		case 0: {
			/* set inner arrays holding harness elements */
			MPT_STRUCT(array) in[3] = { MPT_ARRAY_INIT, MPT_ARRAY_INIT, MPT_ARRAY_INIT };
			for (size_t j = 0; j < cnt; j++) {
				size_t ne = vf_below(r, 4);
				elem *s = make_sources(ne);
				vf_at("mpt_array_set");
				if (ne && !mpt_array_set(&in[j], &etraits, ne * sizeof(elem), s, 0)) vf_fail("arrarr:inner-set-refused", "%s", ctx);
				free_sources(s, ne);
			}
			vf_at("mpt_array_set"); vf_count("arrarr:array_set", 1);
			VF_CHECK(mpt_array_set(&outer[h], tr, cnt * AS, in, (long) pos) != 0, "arrarr:array_set:refused", "%s", ctx);
			for (size_t j = 0; j < cnt; j++) mpt_array_clone(&in[j], 0);
			break; }
		case 1:
			vf_at("mpt_array_clone"); vf_count("arrarr:array_clone", 1);
			mpt_array_clone(&outer[h], &outer[!h]);
			break;
		case 2:
			vf_at("mpt_array_clone"); vf_count("arrarr:drop", 1);
			mpt_array_clone(&outer[h], 0);
			break;
		case 3: {
			if (!outer[h]._buf || !n) break;
			vf_at("mpt_array_slice");
			if (!mpt_array_slice(&outer[h], 0, 0)) vf_fail("arrarr:array_slice:refused", "%s", ctx);
			if (pos >= n) pos = n - 1;
			if (pos + cnt > n) cnt = n - pos;
			vf_at("mpt_buffer_cut"); vf_count("arrarr:buffer_cut", 1);
			VF_CHECK(mpt_buffer_cut(outer[h]._buf, pos * AS, cnt * AS) >= 0, "arrarr:buffer_cut:refused", "%s", ctx);
			break; }
		case 4:
			vf_at("mpt_array_set"); vf_count("arrarr:array_set_default", 1);
			VF_CHECK(mpt_array_set(&outer[h], tr, cnt * AS, 0, (long) pos) != 0, "arrarr:array_set:refused", "%s", ctx);
			break;
		}
		/* oracle: live elements == elements in distinct inner buffers reachable from the outer arrays */
		long counted = 0;
		MPT_STRUCT(buffer) *seen[128]; int ns = 0;
		for (int k = 0; k < 2; k++) {
			if (!outer[k]._buf || (k && outer[0]._buf == outer[1]._buf)) continue;
			size_t c = outer[k]._buf->_used / AS;
			MPT_STRUCT(array) *ia = (MPT_STRUCT(array) *) (outer[k]._buf + 1);
			for (size_t j = 0; j < c; j++) {
				MPT_STRUCT(buffer) *b = ia[j]._buf;
				int dup = 0;
				if (!b) continue;
				for (int q = 0; q < ns; q++) if (seen[q] == b) dup = 1;
				if (dup) continue;
				if (ns < 128) seen[ns++] = b;
				size_t ne = b->_used / sizeof(elem);
				elem *e = (elem *) (b + 1);
				for (size_t x = 0; x < ne; x++)
					VF_CHECK(e[x].canary == CANARY && live[e[x].serial], "arrarr:inner-element-not-alive", "%s: inner element destroyed while its array is still referenced", ctx);
				counted += (long) ne;
			}
		}
		VF_CHECK(n_live == counted, n_live > counted ? "arrarr:inner-elements-leaked" : "arrarr:inner-elements-destroyed-early",
		         "%s: %ld elements alive, reachable inner arrays hold %ld", ctx, n_live, counted);
		vf_count("monitor:arrarr-checks", 1);
	}
	mpt_array_clone(&outer[0], 0);
	mpt_array_clone(&outer[1], 0);
	VF_CHECK(n_live == 0, "arrarr:inner-elements-leaked", "%ld elements alive after all arrays are gone", n_live);
	vf_nontrivial();
	vf_sample("array of arrays with harness elements in the inner buffers: %d operations on 2 outer handles", nops);
}


/* ---- third leg: config items and identifiers (aggregate managed elements) -- */
static uintptr_t hu_addref(MPT_INTERFACE(metatype) *m)
{
	(void) m;
	vf_count("monitor:meta-addref-refused", 1);
	return 0;   /* unique value: no further reference is handed out */
}
static const MPT_INTERFACE_VPTR(metatype) hu_vptr = { { hm_convert }, hm_unref, hu_addref, hm_clone };
#define UNIQ0 6   /* metas[6], metas[7] refuse addref */

typedef struct { char name[208]; int nlen; } bshadow;
static int meta_id(const MPT_INTERFACE(metatype) *m)
{
	const hmeta *h = (const hmeta *) m;
	if (h < metas || h >= metas + 8) vf_fail("builtin:foreign-value", "element holds a value pointer that is no harness metatype");
	return (int) (h - metas);
}
static void walk_item(const MPT_STRUCT(config_item) *it, long *expect, int depth, const char *ctx)
{
	if (it->value) expect[meta_id(it->value)]++;
	const MPT_STRUCT(buffer) *b = it->elements._buf;
	if (!b) return;
	VF_CHECK(depth < 3, "builtin:nesting", "%s: nested elements deeper than anything the harness built", ctx);
	VF_CHECK(b->_content_traits == mpt_config_item_traits(), "builtin:nested-type", "%s: nested buffer lost its element type", ctx);
	const MPT_STRUCT(config_item) *sub = (const void *) (b + 1);
	for (size_t j = 0, n = b->_used / sizeof(*sub); j < n; j++) walk_item(sub + j, expect, depth + 1, ctx);
}
static int pick_name(vf_rng *r, char *dst)
{
	static const int lens[] = { 0, 1, 2, 3, 10, 11, 12, 13, 27, 28, 40, 200 };
	int n = lens[vf_below(r, sizeof(lens) / sizeof(*lens))];
	for (int i = 0; i < n; i++) dst[i] = (char) ('a' + vf_below(r, 26));
	dst[n] = 0;
	return n;
}
/* take a value for a harness-built item: shared values get a reference, unique ones are handed over */
static MPT_INTERFACE(metatype) *take_value(vf_rng *r)
{
	int id = (int) vf_below(r, 10) - 2;
	if (id < 0) return 0;
	if (id >= UNIQ0) {
		if (mt_refs[id]) return 0;
		mt_refs[id] = 1;
		vf_count("builtin:unique-value-handed-over", 1);
		return &metas[id].mt;
	}
	hm_addref(&metas[id].mt);
	return &metas[id].mt;
}
static void case_builtin(vf_rng *r, int kind)
{
	const MPT_STRUCT(type_traits) *tr = kind ? mpt_identifier_traits() : mpt_config_item_traits();
	const size_t ES = tr->size;
	const char *kn = kind ? "identifier" : "config_item";
	MPT_STRUCT(array) a[2] = { MPT_ARRAY_INIT, MPT_ARRAY_INIT };
	static bshadow shd[2][24];
	size_t sn[2] = { 0, 0 };
	char ctx[200];
	int nops = vf_range(r, 6, 40), copies = 0;

	for (int i = 0; i < 8; i++) { metas[i].mt._vptr = i >= UNIQ0 ? &hu_vptr : &hm_vptr; metas[i].id = i; mt_refs[i] = 0; }
	vf_fp_u64(0xb111 + kind);
	for (int i = 0; i < nops; i++) {
		int h = (int) vf_below(r, 2), op = (int) vf_below(r, kind ? 7 : 10);
		size_t n = sn[h], pos = vf_below(r, (uint32_t) n + 2), cnt = 1 + vf_below(r, 3);
		int was_shared = a[h]._buf && a[h]._buf == a[!h]._buf;
		const MPT_STRUCT(buffer) *before = a[h]._buf;
		if (pos + cnt > 22) { pos = n < 19 ? n : 19; }
		if (pos + cnt > 22) cnt = 1;
		snprintf(ctx, sizeof(ctx), "%s op=%d h=%d pos=%zu cnt=%zu count=%zu%s", kn, op, h, pos, cnt, n, was_shared ? " shared" : "");
		vf_log("%s", ctx);
		vf_fp_u64(((uint64_t) op << 32) ^ (h << 24) ^ (pos << 8) ^ cnt);
		switch (op) {
		case 0: case 1: {   /* copy-construct from harness-built sources */
			union { MPT_STRUCT(config_item) it[3]; MPT_STRUCT(identifier) id[3]; } src;
			char nm[3][208]; int nl[3];
			for (size_t j = 0; j < cnt; j++) {
				void *e = kind ? (void *) &src.id[j] : (void *) &src.it[j];
				if (tr->init(e, 0) < 0) vf_fail("builtin:default-init-failed", "%s", ctx);
				nl[j] = pick_name(r, nm[j]);
				MPT_STRUCT(identifier) *id = kind ? &src.id[j] : &src.it[j].identifier;
				if (nl[j] && !mpt_identifier_set(id, nm[j], nl[j])) vf_fail("builtin:source-name-refused", "%s", ctx);
				if (!kind) src.it[j].value = take_value(r);
			}
			vf_at("mpt_array_set"); vf_count(kind ? "identifier:array_set" : "config_item:array_set", 1);
			void *p = mpt_array_set(&a[h], tr, cnt * ES, &src, (long) pos);
			VF_CHECK(p != 0, "builtin:array_set:refused", "%s: NULL", ctx);
			for (size_t j = n; j < pos; j++) { shd[h][j].nlen = 0; shd[h][j].name[0] = 0; }
			for (size_t j = 0; j < cnt; j++) { memcpy(shd[h][pos + j].name, nm[j], nl[j] + 1); shd[h][pos + j].nlen = nl[j]; }
			if (pos + cnt > sn[h]) sn[h] = pos + cnt;
			/* sources stay the harness's: finalise them */
			for (size_t j = 0; j < cnt; j++) tr->fini(kind ? (void *) &src.id[j] : (void *) &src.it[j]);
			break; }
		case 2: {
			vf_at("mpt_array_set"); vf_count(kind ? "identifier:array_set_default" : "config_item:array_set_default", 1);
			void *p = mpt_array_set(&a[h], tr, cnt * ES, 0, (long) pos);
			VF_CHECK(p != 0, "builtin:array_set:refused", "%s: NULL", ctx);
			for (size_t j = n; j < pos; j++) { shd[h][j].nlen = 0; shd[h][j].name[0] = 0; }
			for (size_t j = 0; j < cnt; j++) { shd[h][pos + j].nlen = 0; shd[h][pos + j].name[0] = 0; }
			if (pos + cnt > sn[h]) sn[h] = pos + cnt;
			break; }
		case 3: {
			vf_at("mpt_array_clone"); vf_count("builtin:array_clone", 1);
			int ret = mpt_array_clone(&a[h], &a[!h]);
			VF_CHECK(ret >= 0, "builtin:array_clone:refused", "%s: %d", ctx, ret);
			memcpy(shd[h], shd[!h], sizeof(shd[0])); sn[h] = sn[!h];
			break; }
		case 4: {
			if (!a[h]._buf) break;
			vf_at("mpt_array_slice");
			if (!mpt_array_slice(&a[h], 0, 0)) vf_fail("builtin:array_slice:refused", "%s: detach failed", ctx);
			if (!n) break;
			if (pos >= n) pos = n - 1;
			if (pos + cnt > n) cnt = n - pos;
			vf_at("mpt_buffer_cut"); vf_count("builtin:buffer_cut", 1);
			ssize_t ret = mpt_buffer_cut(a[h]._buf, pos * ES, cnt * ES);
			VF_CHECK(ret >= 0, "builtin:buffer_cut:refused", "%s: %zd", ctx, ret);
			memmove(shd[h] + pos, shd[h] + pos + cnt, (n - pos - cnt) * sizeof(shd[0][0])); sn[h] = n - cnt;
			break; }
		case 5:
			vf_at("mpt_array_clone"); vf_count("builtin:drop", 1);
			mpt_array_clone(&a[h], 0); sn[h] = 0;
			break;
		case 6: {
			vf_at("mpt_array_reserve"); vf_count("builtin:array_reserve", 1);
			MPT_STRUCT(buffer) *b = mpt_array_reserve(&a[h], (n + cnt) * ES, tr);
			VF_CHECK(b != 0, "builtin:array_reserve:refused", "%s: NULL", ctx);
			VF_CHECK(b->_used == n * ES, "builtin:array_reserve:content-lost", "%s: used %zu after reserve, had %zu elements", ctx, b->_used, n);
			break; }
		case 7: case 8: case 9: {
			/* owner works on an element in place: needs exclusive buffer */
			if (!n) break;
			vf_at("mpt_array_slice");
			if (!mpt_array_slice(&a[h], 0, 0)) vf_fail("builtin:array_slice:refused", "%s: detach failed", ctx);
			if (pos >= n) pos = n - 1;
			MPT_STRUCT(config_item) *it = ((MPT_STRUCT(config_item) *) (a[h]._buf + 1)) + pos;
			if (op == 7) {   /* replace value, unique values included */
				vf_count("config_item:value-replaced", 1);
				if (it->value) { it->value->_vptr->unref(it->value); it->value = 0; }
				it->value = take_value(r);
			}
			else if (op == 8) {   /* nested elements */
				MPT_STRUCT(config_item) sub[2];
				vf_count("config_item:nested-set", 1);
				for (int j = 0; j < 2; j++) {
					char nm[208];
					tr->init(&sub[j], 0);
					int l = pick_name(r, nm);
					if (l) mpt_identifier_set(&sub[j].identifier, nm, l);
					sub[j].value = take_value(r);
				}
				vf_at("mpt_array_set");
				VF_CHECK(mpt_array_set((MPT_STRUCT(array) *) &it->elements, tr, 2 * ES, sub, (long) vf_below(r, 3)) != 0, "builtin:array_set:refused", "%s: nested set", ctx);
				for (int j = 0; j < 2; j++) tr->fini(&sub[j]);
			}
			else {   /* rename */
				vf_count("config_item:renamed", 1);
				shd[h][pos].nlen = pick_name(r, shd[h][pos].name);
				vf_at("mpt_identifier_set");
				if (!mpt_identifier_set(&it->identifier, shd[h][pos].name, shd[h][pos].nlen) && shd[h][pos].nlen) vf_fail("builtin:rename-refused", "%s", ctx);
			}
			break; }
		}
		if (was_shared && a[h]._buf != before && a[h]._buf) { copies++; vf_count("builtin:shared-buffer-copied", 1); }
		/* oracle: counts and names equal the shadow; every value reference is held by exactly one reachable element */
		long expect[8] = { 0 };
		const char *heap[2][24];
		for (int k = 0; k < 2; k++) {
			size_t c = a[k]._buf ? a[k]._buf->_used / ES : 0;
			VF_CHECK(c == sn[k], "builtin:count", "%s: handle %d counts %zu elements, model %zu", ctx, k, c, sn[k]);
			for (size_t j = 0; j < c; j++) {
				const uint8_t *e = ((const uint8_t *) (a[k]._buf + 1)) + j * ES;
				const MPT_STRUCT(identifier) *id = kind ? (const void *) e : &((const MPT_STRUCT(config_item) *) e)->identifier;
				const char *nm = mpt_identifier_data(id);
				int want = shd[k][j].nlen;
				if (!want) VF_CHECK(id->_len <= 1, "builtin:name", "%s: handle %d element %zu has a name of %d bytes, model has none", ctx, k, j, (int) id->_len);
				else VF_CHECK(id->_len == want + 1 && nm && !memcmp(nm, shd[k][j].name, want + 1), "builtin:name",
				              "%s: handle %d element %zu name differs from the model '%s'", ctx, k, j, shd[k][j].name);
				heap[k][j] = id->_len > id->_max ? id->_base : 0;
				if (!kind && !(k == 1 && a[0]._buf == a[1]._buf)) walk_item((const MPT_STRUCT(config_item) *) e, expect, 0, ctx);
			}
		}
		if (a[0]._buf && a[1]._buf && a[0]._buf != a[1]._buf)
			for (size_t j = 0; j < sn[0]; j++) for (size_t q = 0; heap[0][j] && q < sn[1]; q++)
				VF_CHECK(heap[0][j] != heap[1][q], "builtin:name-storage-aliased", "%s: elements of two buffers own the same name allocation", ctx);
		for (int k = 0; k < 8; k++)
			VF_CHECK(mt_refs[k] == expect[k], mt_refs[k] > expect[k] ? "builtin:reference-leaked" : "builtin:reference-lost",
			         "%s: value %d%s has %ld references, %ld reachable elements hold it", ctx, k, k >= UNIQ0 ? " (unique)" : "", mt_refs[k], expect[k]);
		vf_count("monitor:builtin-checks", 1);
	}
	mpt_array_clone(&a[0], 0);
	mpt_array_clone(&a[1], 0);
	for (int k = 0; k < 8; k++) VF_CHECK(mt_refs[k] == 0, "builtin:reference-leaked", "value %d keeps %ld references after all arrays are gone", k, mt_refs[k]);
	if (copies) vf_nontrivial();
	vf_sample("array of %s elements: %d operations on 2 handles, %d copies of a shared buffer", kn, nops, copies);
}

/* ---- entry ---------------------------------------------------------------- */
static uint64_t n_hist(void) { return vf_thorough ? 3600000 : 120000; }
static uint64_t n_meta(void) { return vf_thorough ? 200000 : 20000; }
static uint64_t n_arr(void) { return vf_thorough ? 200000 : 20000; }
static uint64_t n_blt(void) { return vf_thorough ? 300000 : 30000; }
static uint64_t n_stg(void) { return vf_thorough ? 200000 : 20000; }
uint64_t vf_cases(void) { return n_hist() + n_meta() + n_arr() + n_blt() + n_stg(); }

void vf_case(uint64_t idx, vf_rng *r)
{
	if (!live) live = calloc(MAXSER, 1);
	if (next_serial > MAXSER - 100000) { memset(live, 0, MAXSER); next_serial = 0; }
	n_live = 0; src_live = 0; fail_in = 0;
	if (idx >= n_hist()) {
		idx -= n_hist();
		if (idx < n_meta()) case_metaref(r);
		else if (idx < n_meta() + n_arr()) case_arrarr(r);
		else if (idx < n_meta() + n_arr() + n_blt()) case_builtin(r, idx % 3 == 0);
		else stage_history(r, "stage");
		return;
	}
	char desc[1900];
	size_t dl = 0;
	int nops = vf_range(r, 8, vf_thorough ? 100 : 60);
	int with_failures = vf_chance(r, 1, 3);
	int shared_ops = 0;
	desc[0] = 0;
	for (int i = 0; i < nops; i++) {
		int op = (int) vf_below(r, OpCount);
		if (i < 4) op = (i == 2) ? OpClone : OpSet;
		int inject = with_failures && vf_chance(r, 1, 5);
		int before = 0;
		for (int k = 0; k < NH; k++) before |= h_flags(k) & MPT_ENUM(BufferShared);
		do_op(r, op, inject, desc, sizeof(desc), &dl);
		if (before && op != OpClone && op != OpDrop) shared_ops++;
	}
	for (int i = 0; i < NH; i++) drop(i);
	cur_op = "teardown";
	VF_CHECK(n_live == 0, "elem:teardown:element-alive-after-last-handle", "%ld elements alive after all handles are gone", n_live);
	if (shared_ops >= 2) vf_nontrivial();
	vf_sample("%s", desc);
}
