/*
 * C17: fragmented messages read like contiguous ones (C leg).
 *
 * Oracle: every operation is run on the fragment list (each fragment a
 * separate exact-size heap block, zero-length fragments included), on the
 * single-fragment concatenation, and - where the operation has an obvious
 * flat meaning - on a reference computed from the byte string itself.
 * Results, bytes delivered and the cursor state afterwards (remaining length,
 * the bytes that follow) must agree.
 *
 * Cases: [0,A) every string up to length 4 (thorough 5) over a 7 letter
 * alphabet x every fragment list; [A,A+B) every fragment list (compositions
 * with optional empty fragments in every gap) of lengths 0..9 (thorough 11)
 * with PRNG content, twice; then PRNG strings/fragment lists up to 300 bytes; then
 * mpt_message_get on every small ring state and on PRNG rings.
 */
#include <stdlib.h>
#include <ctype.h>
#include <errno.h>
#include <sys/uio.h>

#include "message.h"
#include "queue.h"
#include "array.h"
#include "types.h"
#include "event.h"
#include "object.h"
#include "config.h"
#include "vf.h"

const char *vf_name = "c17_msg";

#define MAXL 320
#define MAXK 48

typedef struct {
	size_t L;
	uint8_t S[MAXL + 8];
	int k;
	size_t flen[MAXK];
	uint8_t *fblk[MAXK];
	struct iovec *vec;            /* exact-size array of k entries */
	struct iovec vecsnap[MAXK];
	uint8_t *flat;
	struct iovec *flatvec;        /* exact-size array of one entry */
	uint8_t *pblk;                /* first fragment with PRE bytes in front (consumed before use) */
	struct iovec *pvec;
	char desc[256];
} tc;

static char hx1[160], hx2[160], hx3[160];
static char keybuf[128];
static const char *key(const char *op, const char *what)
{
	snprintf(keybuf, sizeof(keybuf), "model:%s:%s", op, what);
	return keybuf;
}

/* --------------------------------------------------------- test objects */
/* bytes that are read away before the operation: would change results if they leaked back in */
static const uint8_t PRE[3] = { '"', ' ', '#' };
static void tc_build(tc *t)
{
	size_t pos = 0, dl = 0;
	t->vec = vf_xalloc(t->k * sizeof(*t->vec));
	dl += snprintf(t->desc + dl, sizeof(t->desc) - dl, "len %zu as [", t->L);
	for (int i = 0; i < t->k; i++) {
		t->fblk[i] = vf_xalloc(t->flen[i]);
		if (t->flen[i]) memcpy(t->fblk[i], t->S + pos, t->flen[i]);
		pos += t->flen[i];
		t->vec[i].iov_base = t->fblk[i];
		t->vec[i].iov_len = t->flen[i];
		t->vecsnap[i] = t->vec[i];
		if (dl + 8 < sizeof(t->desc)) dl += snprintf(t->desc + dl, sizeof(t->desc) - dl, "%s%zu", i ? "," : "", t->flen[i]);
	}
	if (dl + 2 < sizeof(t->desc)) snprintf(t->desc + dl, sizeof(t->desc) - dl, "]");
	if (pos != t->L) vf_inconclusive("harness: fragment lengths %zu != %zu", pos, t->L);
	t->flat = vf_xalloc(t->L);
	if (t->L) memcpy(t->flat, t->S, t->L);
	t->flatvec = vf_xalloc(sizeof(*t->flatvec));
	t->flatvec->iov_base = t->flat;
	t->flatvec->iov_len = t->L;
	t->pblk = 0; t->pvec = 0;
	if (t->k) {
		t->pblk = vf_xalloc(sizeof(PRE) + t->flen[0]);
		memcpy(t->pblk, PRE, sizeof(PRE));
		if (t->flen[0]) memcpy(t->pblk + sizeof(PRE), t->S, t->flen[0]);
		t->pvec = vf_xalloc(t->k * sizeof(*t->pvec));
		memcpy(t->pvec, t->vec, t->k * sizeof(*t->pvec));
		t->pvec[0].iov_base = t->pblk;
		t->pvec[0].iov_len = sizeof(PRE) + t->flen[0];
	}
}
/* nothing may have been written to the message data or the fragment list */
static void tc_unchanged(const tc *t, const char *op)
{
	size_t pos = 0;
	for (int i = 0; i < t->k; i++) {
		VF_CHECK(t->vec[i].iov_base == t->vecsnap[i].iov_base && t->vec[i].iov_len == t->vecsnap[i].iov_len, key(op, "fragment-list-modified"),
		         "%s: entry %d of the fragment list changed", t->desc, i);
		VF_CHECK(!t->flen[i] || !memcmp(t->fblk[i], t->S + pos, t->flen[i]), key(op, "data-modified"), "%s: content of fragment %d changed", t->desc, i);
		pos += t->flen[i];
	}
	VF_CHECK(!t->L || !memcmp(t->flat, t->S, t->L), key(op, "data-modified"), "%s: content of contiguous copy changed", t->desc);
	if (t->k) {
		VF_CHECK(!memcmp(t->pblk, PRE, sizeof(PRE)) && (!t->flen[0] || !memcmp(t->pblk + sizeof(PRE), t->S, t->flen[0])), key(op, "data-modified"), "%s: content of partly consumed fragment changed", t->desc);
		VF_CHECK(t->pvec[0].iov_base == t->pblk && t->pvec[0].iov_len == sizeof(PRE) + t->flen[0] && (t->k < 2 || !memcmp(t->pvec + 1, t->vec + 1, (t->k - 1) * sizeof(*t->vec))),
		         key(op, "fragment-list-modified"), "%s: fragment list of the partly consumed message changed", t->desc);
	}
	VF_CHECK(t->flatvec->iov_base == t->flat && t->flatvec->iov_len == t->L, key(op, "fragment-list-modified"), "%s: contiguous descriptor changed", t->desc);
}
static void tc_free(tc *t)
{
	tc_unchanged(t, "teardown");
	for (int i = 0; i < t->k; i++) vf_xfree(t->fblk[i], t->flen[i]);
	vf_xfree(t->vec, t->k * sizeof(*t->vec));
	vf_xfree(t->flat, t->L);
	vf_xfree(t->flatvec, sizeof(*t->flatvec));
	if (t->k) {
		vf_xfree(t->pblk, sizeof(PRE) + t->flen[0]);
		vf_xfree(t->pvec, t->k * sizeof(*t->pvec));
	}
}
/* message cursors over the test object */
enum { VFirstRest, VAllInList, VConsumed, VFlat, VCount };
static const char *vname[VCount] = { "first+rest", "all-in-list", "after-partial-read", "contiguous" };
static int make_msg(const tc *t, int variant, MPT_STRUCT(message) *m)
{
	switch (variant) {
	case VFirstRest:
		if (t->k < 1) return 0;
		m->base = t->fblk[0]; m->used = t->flen[0];
		m->cont = t->vec + 1; m->clen = t->k - 1;
		return 1;
	case VAllInList:
		m->base = 0; m->used = 0;
		m->cont = t->vec; m->clen = t->k;
		return 1;
	case VConsumed: {
		/* cursor inside the first fragment, left there by a read */
		if (t->k < 1) return 0;
		m->base = 0; m->used = 0;
		m->cont = t->pvec; m->clen = t->k;
		vf_at("mpt_message_read"); vf_count("mpt_message_read", 1);
		size_t r = mpt_message_read(m, sizeof(PRE), 0);
		VF_CHECK(r == sizeof(PRE), "model:read:fragmented-return", "%s: skipping %zu leading bytes returned %zu", t->desc, sizeof(PRE), r);
		return 1; }
	default:
		m->base = t->flat; m->used = t->L;
		m->cont = 0; m->clen = 0;
		return 1;
	}
}
static const char *show(char *dst, size_t dl, const void *p, size_t n)
{
	return vf_hex(dst, dl, p, n > 40 ? 40 : n);
}

/* --------------------------------------------------------------- length */
static void op_length(const tc *t)
{
	MPT_STRUCT(message) m;
	for (int v = 0; v < VCount; v++) {
		if (!make_msg(t, v, &m)) continue;
		vf_at("mpt_message_length"); vf_count("mpt_message_length", 1);
		size_t l = mpt_message_length(&m);
		VF_CHECK(l == t->L, key("length", v == VFlat ? "contiguous" : "fragmented"), "%s (%s): length %zu", t->desc, vname[v], l);
	}
	vf_count("monitor:length", 1);
}

/* ----------------------------------------------------------------- read */
typedef struct { size_t len; int dest; } rstep;
static void op_read(const tc *t, const rstep *plan, int n)
{
	MPT_STRUCT(message) m;
	for (int v = 0; v < VCount; v++) {
		size_t pos = 0;
		if (!make_msg(t, v, &m)) continue;
		for (int i = 0; i < n; i++) {
			size_t want = plan[i].len, left = t->L - pos, exp = want < left ? want : left;
			uint8_t *d = plan[i].dest ? vf_xalloc(want) : 0;
			if (d && want) memset(d, 0xEE, want);
			vf_at("mpt_message_read"); vf_count("mpt_message_read", 1);
			if (vf_logging) vf_log("read(%zu%s) at %zu of %s (%s)", want, d ? "" : ", no target", pos, t->desc, vname[v]);
			size_t r = mpt_message_read(&m, want, d);
			VF_CHECK(r == exp, key("read", v == VFlat ? "contiguous-return" : "fragmented-return"),
			         "%s (%s): read(%zu) at position %zu returned %zu, expected %zu", t->desc, vname[v], want, pos, r, exp);
			if (d) {
				VF_CHECK(!exp || !memcmp(d, t->S + pos, exp), key("read", v == VFlat ? "contiguous-bytes" : "fragmented-bytes"),
				         "%s (%s): read(%zu) at position %zu delivered %s, expected %s", t->desc, vname[v], want, pos,
				         show(hx1, sizeof(hx1), d, exp), show(hx2, sizeof(hx2), t->S + pos, exp));
				for (size_t j = exp; j < want; j++) {
					VF_CHECK(d[j] == 0xEE, key("read", "wrote-beyond-result"), "%s (%s): read(%zu) returned %zu but changed target byte %zu", t->desc, vname[v], want, r, j);
				}
			}
			vf_xfree(d, want);
			pos += exp;
			/* cursor afterwards */
			vf_at("mpt_message_length");
			size_t l = mpt_message_length(&m);
			VF_CHECK(l == t->L - pos, key("read", v == VFlat ? "contiguous-remaining" : "fragmented-remaining"),
			         "%s (%s): after read(%zu) to position %zu the cursor holds %zu bytes, expected %zu", t->desc, vname[v], want, pos, l, t->L - pos);
			vf_count("monitor:read-step", 1);
		}
	}
	tc_unchanged(t, "read");
}
static void battery_read(const tc *t, vf_rng *r, int full)
{
	rstep plan[MAXL + 8];
	size_t L = t->L;
	/* first read of every length, then the rest */
	for (size_t a = 0; a <= L + 2; a++) {
		if (!full && a > 3 && a + 3 < L && !vf_chance(r, 1, 8)) continue;
		for (int d = 0; d < 2; d++) {
			plan[0].len = a; plan[0].dest = d;
			plan[1].len = L + 2; plan[1].dest = 1;
			plan[2].len = 1; plan[2].dest = 1;
			op_read(t, plan, 3);
		}
	}
	/* equal steps until exhausted, one more */
	for (size_t s = 0; s <= 3; s++) {
		int n = 0;
		for (size_t p = 0; n < (int) (MAXL + 4) && p <= L + s; p += s ? s : 1) {
			plan[n].len = s; plan[n].dest = (n + s) & 1; n++;
			if (!s && n > 2) break;
		}
		op_read(t, plan, n);
	}
	/* PRNG plan */
	{
		int n = 1 + vf_below(r, 6);
		for (int i = 0; i < n; i++) { plan[i].len = vf_below(r, (uint32_t) L + 3); plan[i].dest = vf_chance(r, 2, 3); }
		plan[n].len = L + 1; plan[n].dest = 1;
		op_read(t, plan, n + 1);
	}
}

/* --------------------------------------------------------------- search */
static ssize_t ref_first(const tc *t, int (*fcn)(int, void *), void *par)
{
	for (size_t i = 0; i < t->L; i++) if (fcn(t->S[i], par)) return (ssize_t) i;
	return -1;
}
static ssize_t ref_last(const tc *t, int (*fcn)(int, void *), void *par)
{
	for (size_t i = t->L; i--; ) if (fcn(t->S[i], par)) return (ssize_t) i;
	return -1;
}
static int is_byte(int c, void *par) { return c == *(uint8_t *) par; }
static int in_set(int c, void *par) { const struct iovec *s = par; return s->iov_len && memchr(s->iov_base, c, s->iov_len) ? 1 : 0; }
static int above(int c, void *par) { return c > *(uint8_t *) par; }
static unsigned long fcn_calls;
static int counted_above(int c, void *par) { fcn_calls++; return above(c, par); }

static void cmp_pos(const char *op, const tc *t, const char *arg, ssize_t rf, ssize_t rc, ssize_t ref, int have_ref)
{
	if (have_ref) {
		if (ref < 0) {
			VF_CHECK(rc < 0, key(op, "contiguous-phantom"), "%s: %s on contiguous data returned %zd, nothing matches", t->desc, arg, rc);
			VF_CHECK(rf < 0, key(op, "fragmented-phantom"), "%s: %s on fragments returned %zd, nothing matches (data %s)", t->desc, arg, rf, show(hx1, sizeof(hx1), t->S, t->L));
		} else {
			VF_CHECK(rc == ref, key(op, "contiguous-position"), "%s: %s on contiguous data returned %zd, expected %zd", t->desc, arg, rc, ref);
			VF_CHECK(rf == ref, key(op, "fragmented-position"), "%s: %s on fragments returned %zd, expected %zd (data %s)", t->desc, arg, rf, ref, show(hx1, sizeof(hx1), t->S, t->L));
		}
	}
	VF_CHECK(rf == rc, key(op, "fragmented-differs"), "%s: %s returned %zd on fragments, %zd on contiguous data (data %s)", t->desc, arg, rf, rc, show(hx1, sizeof(hx1), t->S, t->L));
}
static void battery_search(const tc *t, vf_rng *r)
{
	uint8_t seen[256] = { 0 }, toks[24];
	int ntok = 0;
	char arg[96];
	for (size_t i = 0; i < t->L && ntok < 20; i++) if (!seen[t->S[i]]) { seen[t->S[i]] = 1; toks[ntok++] = t->S[i]; }
	for (int c = 1; c < 256 && ntok < 22; c += 37) if (!seen[c]) { seen[c] = 1; toks[ntok++] = c; }   /* absent bytes */
	if (!seen[0]) toks[ntok++] = 0;
	for (int i = 0; i < ntok; i++) {
		uint8_t tok = toks[i];
		ssize_t rf, rc;
		snprintf(arg, sizeof(arg), "memchr(0x%02x)", tok);
		vf_at("mpt_memchr"); vf_count("mpt_memchr", 2);
		rf = mpt_memchr(t->vec, t->k, tok); rc = mpt_memchr(t->flatvec, 1, tok);
		cmp_pos("memchr", t, arg, rf, rc, ref_first(t, is_byte, &tok), 1);
		snprintf(arg, sizeof(arg), "memrchr(0x%02x)", tok);
		vf_at("mpt_memrchr"); vf_count("mpt_memrchr", 2);
		rf = mpt_memrchr(t->vec, t->k, tok); rc = mpt_memrchr(t->flatvec, 1, tok);
		cmp_pos("memrchr", t, arg, rf, rc, ref_last(t, is_byte, &tok), 1);
		snprintf(arg, sizeof(arg), "memfcn(byte == 0x%02x)", tok);
		vf_at("mpt_memfcn"); vf_count("mpt_memfcn", 2);
		rf = mpt_memfcn(t->vec, t->k, is_byte, &tok); rc = mpt_memfcn(t->flatvec, 1, is_byte, &tok);
		cmp_pos("memfcn", t, arg, rf, rc, ref_first(t, is_byte, &tok), 1);
		snprintf(arg, sizeof(arg), "memrfcn(byte > 0x%02x)", tok);
		vf_at("mpt_memrfcn"); vf_count("mpt_memrfcn", 2);
		rf = mpt_memrfcn(t->vec, t->k, above, &tok); rc = mpt_memrfcn(t->flatvec, 1, above, &tok);
		cmp_pos("memrfcn", t, arg, rf, rc, ref_last(t, above, &tok), 1);
		/* a forward search looks at each byte up to the match once */
		snprintf(arg, sizeof(arg), "memfcn(byte > 0x%02x)", tok);
		vf_at("mpt_memfcn"); vf_count("mpt_memfcn", 2);
		fcn_calls = 0;
		rf = mpt_memfcn(t->vec, t->k, counted_above, &tok);
		unsigned long cf = fcn_calls;
		fcn_calls = 0;
		rc = mpt_memfcn(t->flatvec, 1, counted_above, &tok);
		cmp_pos("memfcn", t, arg, rf, rc, ref_first(t, above, &tok), 1);
		VF_CHECK(cf == fcn_calls, "model:memfcn:fragmented-visits-differ", "%s: %s asked the predicate %lu times on fragments, %lu times on contiguous data", t->desc, arg, cf, fcn_calls);
	}
	/* sets of bytes */
	for (int i = 0; i < 6; i++) {
		uint8_t set[6];
		size_t mlen = i ? 1 + vf_below(r, 5) : 0;
		for (size_t j = 0; j < mlen; j++) set[j] = toks[vf_below(r, ntok)];
		uint8_t *sb = vf_xalloc(mlen);
		if (mlen) memcpy(sb, set, mlen);
		struct iovec sv = { sb, mlen };
		ssize_t rf, rc;
		snprintf(arg, sizeof(arg), "memstr(set %s)", show(hx2, 24, set, mlen));
		vf_at("mpt_memstr"); vf_count("mpt_memstr", 2);
		rf = mpt_memstr(t->vec, t->k, sb, mlen); rc = mpt_memstr(t->flatvec, 1, sb, mlen);
		cmp_pos("memstr", t, arg, rf, rc, ref_first(t, in_set, &sv), mlen != 0);
		snprintf(arg, sizeof(arg), "memrstr(set %s)", show(hx2, 24, set, mlen));
		vf_at("mpt_memrstr"); vf_count("mpt_memrstr", 2);
		rf = mpt_memrstr(t->vec, t->k, sb, mlen); rc = mpt_memrstr(t->flatvec, 1, sb, mlen);
		cmp_pos("memrstr", t, arg, rf, rc, ref_last(t, in_set, &sv), mlen != 0);
		vf_xfree(sb, mlen);
	}
	vf_count("monitor:search", ntok * 5 + 12);
	tc_unchanged(t, "search");
}

/* --------------------------------------------------------------- memtok */
static const char *const TOKS[] = { 0, " ", ",;", "\t \n\r\v" };
static const char *const COMS[] = { 0, "#", "#%" };
static const char *const ESCS[] = { 0, "\"'", "'" };
static const char *qs(const char *s) { return s ? s : "(null)"; }
static void battery_memtok(const tc *t)
{
	char arg[96];
	for (int a = 0; a < 4; a++) for (int b = 0; b < 3; b++) for (int c = 0; c < 3; c++) {
		const char *tok = TOKS[a], *com = COMS[b], *esc = ESCS[c];
		vf_at("mpt_memtok"); vf_count("mpt_memtok", 2);
		if (vf_logging) vf_log("memtok(tok=%d com=%d esc=%d) on %s", a, b, c, t->desc);
		ssize_t rc = mpt_memtok(t->flatvec, 1, tok, com, esc);
		ssize_t rf = mpt_memtok(t->vec, t->k, tok, com, esc);
		snprintf(arg, sizeof(arg), "memtok(tok %s, comment %s, escape %s)", show(hx2, 20, qs(tok), strlen(qs(tok))), qs(com), qs(esc));
		VF_CHECK(rf == rc, "model:memtok:fragmented-differs", "%s: %s returned %zd on fragments, %zd on contiguous data (data %s)", t->desc, arg, rf, rc,
		         show(hx1, sizeof(hx1), t->S, t->L));
		/* whatever is found lies inside the data and is of the kind looked for */
		if (rc >= 0) {
			VF_CHECK((size_t) rc < t->L, "model:memtok:position-outside", "%s: %s returned %zd for %zu bytes", t->desc, arg, rc, t->L);
			uint8_t ch = t->S[rc];
			int ok = tok ? ((*tok && strchr(tok, ch) && ch) || (com && ch && strchr(com, ch))) : !isspace(ch);
			VF_CHECK(ok, "model:memtok:wrong-kind", "%s: %s returned %zd, byte there is 0x%02x (data %s)", t->desc, arg, rc, ch, show(hx1, sizeof(hx1), t->S, t->L));
			vf_count("monitor:memtok-found", 1);
		} else {
			vf_count("monitor:memtok-none", 1);
		}
	}
	tc_unchanged(t, "memtok");
}

/* --------------------------------------------------------------- memcpy */
static void battery_memcpy(const tc *t, vf_rng *r, int full)
{
	/* target: another fragmentation with capacity C */
	size_t L = t->L, C;
	int dk;
	size_t dlen[MAXK];
	uint8_t *dblk[MAXK];
	if (t->k < 1) return;
	switch (vf_below(r, 4)) { case 0: C = L; break; case 1: C = L ? L - 1 : 0; break; case 2: C = L + 1 + vf_below(r, 3); break; default: C = vf_below(r, (uint32_t) L + 4); }
	dk = 0;
	for (size_t left = C; left || !dk; ) {
		size_t n = vf_chance(r, 1, 5) ? 0 : 1 + vf_below(r, (uint32_t) (left > 6 ? 6 : left));
		if (n > left) n = left;
		if (dk == MAXK - 1) n = left;
		dlen[dk++] = n;
		left -= n;
		if (!left && vf_chance(r, 1, 2)) break;
		if (!left && dk < MAXK - 1) { dlen[dk++] = 0; break; }
	}
	struct iovec *dvec = vf_xalloc(dk * sizeof(*dvec));
	for (int i = 0; i < dk; i++) { dblk[i] = vf_xalloc(dlen[i]); dvec[i].iov_base = dblk[i]; dvec[i].iov_len = dlen[i]; }
	uint8_t *dflat = vf_xalloc(C);
	struct iovec *dfv = vf_xalloc(sizeof(*dfv));
	dfv->iov_base = dflat; dfv->iov_len = C;
	size_t top = (L > C ? L : C) + 1;
	for (ssize_t len = -1; len <= (ssize_t) top; len++) {
		if (!full && len > 4 && (size_t) len + 4 < (L < C ? L : C) && !vf_chance(r, 1, 6)) continue;
		for (int i = 0; i < dk; i++) if (dlen[i]) memset(dblk[i], 0xEE, dlen[i]);
		if (C) memset(dflat, 0xEE, C);
		vf_at("mpt_memcpy"); vf_count("mpt_memcpy", 2);
		if (vf_logging) vf_log("memcpy(%zd) %s -> %d fragments of total %zu", len, t->desc, dk, C);
		ssize_t rc = mpt_memcpy(len, t->flatvec, 1, dfv, 1);
		ssize_t rf = mpt_memcpy(len, t->vec, t->k, dvec, dk);
		VF_CHECK(rf == rc, "model:memcpy:fragmented-differs", "%s: memcpy(%zd) into %d fragments of total %zu returned %zd, contiguous %zd", t->desc, len, dk, C, rf, rc);
		size_t lim = L < C ? L : C, exp;
		if (len >= 0 && (size_t) len <= lim) {
			exp = len;
			VF_CHECK(rc == (ssize_t) exp, "model:memcpy:contiguous-return", "%s: memcpy(%zd) into %zu contiguous bytes returned %zd", t->desc, len, C, rc);
		} else if (len < 0) {
			exp = rc > 0 ? rc : 0;   /* "everything that fits": amount adopted from the contiguous run */
			VF_CHECK(exp <= lim, "model:memcpy:contiguous-return", "%s: memcpy(%zd) into %zu contiguous bytes returned %zd", t->desc, len, C, rc);
		} else {
			VF_CHECK(rc < 0, "model:memcpy:accepted-too-much", "%s: memcpy(%zd) with %zu source and %zu target bytes returned %zd", t->desc, len, L, C, rc);
			exp = 0;
		}
		/* gathered target content */
		size_t pos = 0;
		for (int i = 0; i < dk; i++) {
			for (size_t j = 0; j < dlen[i]; j++, pos++) {
				uint8_t want = pos < exp ? t->S[pos] : 0xEE;
				VF_CHECK(dblk[i][j] == want, "model:memcpy:fragmented-bytes", "%s: memcpy(%zd) into %d fragments: target byte %zu is %02x, expected %02x", t->desc, len, dk, pos, dblk[i][j], want);
				VF_CHECK(dflat[pos] == want, "model:memcpy:contiguous-bytes", "%s: memcpy(%zd) contiguous: target byte %zu is %02x, expected %02x", t->desc, len, pos, dflat[pos], want);
			}
		}
		vf_count("monitor:memcpy", 1);
	}
	for (int i = 0; i < dk; i++) vf_xfree(dblk[i], dlen[i]);
	vf_xfree(dvec, dk * sizeof(*dvec));
	vf_xfree(dflat, C);
	vf_xfree(dfv, sizeof(*dfv));
	tc_unchanged(t, "memcpy");
}

/* ----------------------------------------------------------------- argv */
typedef struct { int n; ssize_t len[MAXL + 8]; size_t got[MAXL + 8], sepgot[MAXL + 8], remain[MAXL + 8]; uint8_t bytes[2 * MAXL + 16]; size_t nbytes; } argrec;
static void run_argv(const tc *t, int variant, int sep, argrec *rec)
{
	MPT_STRUCT(message) m;
	rec->n = 0; rec->nbytes = 0;
	make_msg(t, variant, &m);
	for (size_t step = 0; step < t->L + 3; step++) {
		vf_at("mpt_message_argv"); vf_count("mpt_message_argv", 1);
		if (vf_logging) vf_log("argv(sep %d) step %zu on %s (%s)", sep, step, t->desc, vname[variant]);
		ssize_t len = mpt_message_argv(&m, sep);
		int i = rec->n++;
		rec->len[i] = len;
		rec->got[i] = rec->sepgot[i] = 0;
		vf_at("mpt_message_length");
		rec->remain[i] = mpt_message_length(&m);
		if (len < 0) break;
		if ((size_t) len > t->L) {
			vf_fail(key("argv", variant == VFlat ? "contiguous-length-outside" : "fragmented-length-outside"), "%s (%s): argv(sep 0x%02x) step %zu returned %zd for %zu bytes in total",
			        t->desc, vname[variant], sep, step, len, t->L);
		}
		uint8_t *d = vf_xalloc(len);
		vf_at("mpt_message_read");
		rec->got[i] = mpt_message_read(&m, len, d);
		memcpy(rec->bytes + rec->nbytes, d, rec->got[i]);
		rec->nbytes += rec->got[i];
		vf_xfree(d, len);
		uint8_t s1 = 0xEE;
		rec->sepgot[i] = mpt_message_read(&m, 1, &s1);
		if (rec->sepgot[i]) rec->bytes[rec->nbytes++] = s1;
	}
}
static void op_argv(const tc *t, int sep)
{
	static argrec rc, rf;
	run_argv(t, VFlat, sep, &rc);
	/* flat meaning for the NUL separator: next argument ends at the next NUL or at the end */
	if (!sep) {
		size_t pos = 0;
		for (int i = 0; i < rc.n; i++) {
			if (pos >= t->L) {
				VF_CHECK(rc.len[i] < 0, "model:argv:contiguous-reference", "%s: argv(0) step %d at the end of data returned %zd", t->desc, i, rc.len[i]);
				break;
			}
			const uint8_t *z = memchr(t->S + pos, 0, t->L - pos);
			size_t exp = z ? (size_t) (z - (t->S + pos)) : t->L - pos;
			VF_CHECK(rc.len[i] == (ssize_t) exp, "model:argv:contiguous-reference", "%s: argv(0) step %d at position %zu returned %zd, expected %zu", t->desc, i, pos, rc.len[i], exp);
			pos += exp + 1;
		}
	}
	for (int v = 0; v < VFlat; v++) {
		MPT_STRUCT(message) m;
		if (!make_msg(t, v, &m)) continue;
		run_argv(t, v, sep, &rf);
		int n = rf.n < rc.n ? rf.n : rc.n;
		for (int i = 0; i < n; i++) {
			VF_CHECK(rf.len[i] == rc.len[i], "model:argv:fragmented-differs", "%s (%s): argv(sep 0x%02x) step %d returned %zd, contiguous %zd (data %s)", t->desc, vname[v], sep, i, rf.len[i], rc.len[i],
			         show(hx1, sizeof(hx1), t->S, t->L));
			VF_CHECK(rf.remain[i] == rc.remain[i], "model:argv:fragmented-cursor-differs", "%s (%s): argv(sep 0x%02x) step %d left %zu bytes in the cursor, contiguous %zu (data %s)", t->desc, vname[v], sep, i,
			         rf.remain[i], rc.remain[i], show(hx1, sizeof(hx1), t->S, t->L));
			VF_CHECK(rf.got[i] == rc.got[i] && rf.sepgot[i] == rc.sepgot[i], "model:argv:fragmented-read-differs", "%s (%s): argv(sep 0x%02x) step %d: read of the argument gave %zu+%zu bytes, contiguous %zu+%zu",
			         t->desc, vname[v], sep, i, rf.got[i], rf.sepgot[i], rc.got[i], rc.sepgot[i]);
		}
		VF_CHECK(rf.n == rc.n, "model:argv:fragmented-differs", "%s (%s): argv(sep 0x%02x) loop ran %d steps, contiguous %d", t->desc, vname[v], sep, rf.n, rc.n);
		VF_CHECK(rf.nbytes == rc.nbytes && !memcmp(rf.bytes, rc.bytes, rc.nbytes), "model:argv:fragmented-bytes-differ", "%s (%s): argv(sep 0x%02x) loop delivered %s, contiguous %s",
		         t->desc, vname[v], sep, show(hx1, sizeof(hx1), rf.bytes, rf.nbytes), show(hx2, sizeof(hx2), rc.bytes, rc.nbytes));
		vf_count("monitor:argv-loop", 1);
	}
	tc_unchanged(t, "argv");
}
static const int SEPS[] = { 0, ' ', ',', '\n', 'a', 0x80 };
#define NSEPS 6

/* -------------------------------------------------------- array_message */
static void op_array_message(const tc *t, int sep)
{
	MPT_STRUCT(message) m;
	MPT_STRUCT(array) ac = MPT_ARRAY_INIT;
	make_msg(t, VFlat, &m);
	vf_at("mpt_array_message"); vf_count("mpt_array_message", 1);
	int nc = mpt_array_message(&ac, &m, sep);
	size_t lc = ac._buf ? ac._buf->_used : 0;
	const uint8_t *dc = ac._buf ? (const uint8_t *) (ac._buf + 1) : 0;
	if (!sep) {
		/* arguments are the NUL separated pieces, each stored with its terminator */
		int en = 0;
		static uint8_t exp[MAXL + 8];
		size_t el = t->L;
		memcpy(exp, t->S, t->L);
		for (size_t i = 0; i < t->L; i++) if (!t->S[i]) en++;
		if (t->L && t->S[t->L - 1]) { en++; exp[el++] = 0; }
		VF_CHECK(nc == en, "model:array_message:contiguous-reference", "%s: array_message(sep 0) found %d arguments, expected %d", t->desc, nc, en);
		VF_CHECK(lc == el && (!el || !memcmp(dc, exp, el)), "model:array_message:contiguous-reference", "%s: array_message(sep 0) stored %s, expected %s", t->desc,
		         show(hx1, sizeof(hx1), dc, lc), show(hx2, sizeof(hx2), exp, el));
	}
	for (int v = 0; v < VFlat; v++) {
		MPT_STRUCT(array) af = MPT_ARRAY_INIT;
		if (!make_msg(t, v, &m)) continue;
		vf_at("mpt_array_message"); vf_count("mpt_array_message", 1);
		if (vf_logging) vf_log("array_message(sep %d) on %s (%s)", sep, t->desc, vname[v]);
		int nf = mpt_array_message(&af, &m, sep);
		size_t lf = af._buf ? af._buf->_used : 0;
		const uint8_t *df = af._buf ? (const uint8_t *) (af._buf + 1) : 0;
		VF_CHECK(nf == nc, "model:array_message:fragmented-differs", "%s (%s): array_message(sep 0x%02x) found %d arguments, contiguous %d (data %s)", t->desc, vname[v], sep, nf, nc,
		         show(hx1, sizeof(hx1), t->S, t->L));
		VF_CHECK(lf == lc && (!lc || !memcmp(df, dc, lc)), "model:array_message:fragmented-differs", "%s (%s): array_message(sep 0x%02x) stored %s, contiguous %s (data %s)", t->desc, vname[v], sep,
		         show(hx1, sizeof(hx1), df, lf), show(hx2, sizeof(hx2), dc, lc), show(hx3, sizeof(hx3), t->S, t->L));
		vf_at("mpt_array_clone");
		mpt_array_clone(&af, 0);
		vf_count("monitor:array_message", 1);
	}
	vf_at("mpt_array_clone");
	mpt_array_clone(&ac, 0);
	tc_unchanged(t, "array_message");
}

/* ------------------------------------------------------- message_append */
static void op_append(const tc *t, size_t prefix)
{
	static uint8_t pre[700];
	MPT_STRUCT(message) m;
	for (size_t i = 0; i < prefix; i++) pre[i] = (uint8_t) (0xC0 + i % 32);
	for (int v = 0; v < VCount; v++) {
		MPT_STRUCT(array) a = MPT_ARRAY_INIT;
		if (!make_msg(t, v, &m)) continue;
		if (prefix) {
			vf_at("mpt_array_append");
			VF_CHECK(mpt_array_append(&a, prefix, pre) != 0, "model:append:setup", "array_append(%zu) failed", prefix);
		}
		vf_at("mpt_message_append"); vf_count("mpt_message_append", 1);
		if (vf_logging) vf_log("message_append(prefix %zu) %s (%s)", prefix, t->desc, vname[v]);
		int r = mpt_message_append(&a, &m);
		size_t l = a._buf ? a._buf->_used : 0;
		const uint8_t *d = a._buf ? (const uint8_t *) (a._buf + 1) : 0;
		const char *what = v == VFlat ? "contiguous" : "fragmented";
		VF_CHECK(r >= 0, key("append", v == VFlat ? "contiguous-refused" : "fragmented-refused"), "%s (%s): message_append after %zu bytes returned %d", t->desc, vname[v], prefix, r);
		VF_CHECK(l == prefix + t->L, key("append", v == VFlat ? "contiguous-length" : "fragmented-length"), "%s (%s): array holds %zu bytes after appending to %zu, expected %zu", t->desc, vname[v],
		         l, prefix, prefix + t->L);
		VF_CHECK((!prefix || !memcmp(d, pre, prefix)) && (!t->L || !memcmp(d + prefix, t->S, t->L)), key("append", v == VFlat ? "contiguous-bytes" : "fragmented-bytes"),
		         "%s (%s, %s): array content %s, expected prefix of %zu bytes + %s", t->desc, vname[v], what, show(hx1, sizeof(hx1), d, l), prefix, show(hx2, sizeof(hx2), t->S, t->L));
		vf_at("mpt_array_clone");
		mpt_array_clone(&a, 0);
		vf_count("monitor:append", 1);
	}
	tc_unchanged(t, "append");
}

/* ------------------------------- message_append on fixed-capacity targets */
/*
 * Target buffer implemented through the public buffer interface: unique,
 * mutable, payload directly behind the header, detach() hands the buffer back
 * while the request fits its storage and refuses any growth.  An append that
 * cannot be completed must leave such a target exactly as the append of the
 * contiguous message leaves an identical one.
 */
static uint32_t fixed_flags(const MPT_STRUCT(buffer) *b) { (void) b; return 0; }
static void fixed_unref(MPT_STRUCT(buffer) *b) { (void) b; }
static uintptr_t fixed_addref(MPT_STRUCT(buffer) *b) { (void) b; return 0; }
static unsigned long fixed_detach_refusals;
static MPT_STRUCT(buffer) *fixed_detach(MPT_STRUCT(buffer) *b, size_t len)
{
	if (len <= b->_size) return b;
	fixed_detach_refusals++;
	return 0;
}
static const MPT_INTERFACE_VPTR(buffer) fixed_ctl = { fixed_flags, fixed_unref, fixed_addref, fixed_detach };

static MPT_STRUCT(buffer) *fixed_new(size_t cap, const uint8_t *pre, size_t npre)
{
	MPT_STRUCT(buffer) *b = vf_xalloc(sizeof(*b) + cap);
	uint8_t *d = (uint8_t *) (b + 1);
	b->_vptr = &fixed_ctl;
	b->_content_traits = 0;
	*((size_t *) &b->_size) = cap;
	b->_used = npre;
	memset(d, 0xEE, cap);
	if (npre) memcpy(d, pre, npre);
	return b;
}
static void op_append_fixed(const tc *t, size_t cap, size_t npre)
{
	static const uint8_t pre[4] = { 0xC1, 0xC2, 0xC3, 0xC4 };
	MPT_STRUCT(message) m;
	MPT_STRUCT(buffer) *bc, *bf;
	MPT_STRUCT(array) ac, af;
	int fits = npre + t->L <= cap;

	if (npre > cap) return;
	/* contiguous run on its own target */
	bc = fixed_new(cap, pre, npre);
	ac._buf = bc;
	make_msg(t, VFlat, &m);
	vf_at("mpt_message_append"); vf_count("mpt_message_append", 1);
	if (vf_logging) vf_log("message_append onto fixed buffer (capacity %zu, holding %zu) %s (contiguous)", cap, npre, t->desc);
	int rc = mpt_message_append(&ac, &m);
	const uint8_t *dc = (const uint8_t *) (bc + 1);
	VF_CHECK(ac._buf == bc, "model:append-fixed:contiguous-reference", "%s: contiguous append replaced the fixed buffer (capacity %zu, holding %zu)", t->desc, cap, npre);
	VF_CHECK((rc >= 0) == fits, "model:append-fixed:contiguous-reference", "%s: contiguous append of %zu bytes onto %zu of %zu returned %d", t->desc, t->L, npre, cap, rc);
	if (fits) {
		VF_CHECK(bc->_used == npre + t->L && !memcmp(dc, pre, npre) && (!t->L || !memcmp(dc + npre, t->S, t->L)), "model:append-fixed:contiguous-reference",
		         "%s: contiguous append onto %zu of %zu: buffer holds %zu bytes %s", t->desc, npre, cap, bc->_used, show(hx1, sizeof(hx1), dc, bc->_used));
	}
	VF_CHECK(bc->_used <= cap, "model:append-fixed:contiguous-reference", "%s: contiguous append left used %zu > capacity %zu", t->desc, bc->_used, cap);
	for (int v = 0; v < VFlat; v++) {
		if (!make_msg(t, v, &m)) continue;
		bf = fixed_new(cap, pre, npre);
		af._buf = bf;
		fixed_detach_refusals = 0;
		size_t head = m.used;
		vf_at("mpt_message_append"); vf_count("mpt_message_append", 1);
		if (vf_logging) vf_log("message_append onto fixed buffer (capacity %zu, holding %zu) %s (%s)", cap, npre, t->desc, vname[v]);
		int rf = mpt_message_append(&af, &m);
		const uint8_t *df = (const uint8_t *) (bf + 1);
		VF_CHECK(af._buf == bf, "model:append-fixed:fragmented-differs", "%s (%s): append replaced the fixed buffer (capacity %zu, holding %zu), contiguous run kept it", t->desc, vname[v], cap, npre);
		VF_CHECK((rf < 0) == (rc < 0), "model:append-fixed:fragmented-differs", "%s (%s): append onto %zu of %zu bytes returned %d, contiguous %d", t->desc, vname[v], npre, cap, rf, rc);
		VF_CHECK(bf->_used == bc->_used, "model:append-fixed:fragmented-differs",
		         "%s (%s): append onto %zu of %zu bytes returned %d and left %zu bytes (%s); contiguous returned %d and left %zu bytes (%s)", t->desc, vname[v], npre, cap,
		         rf, bf->_used, show(hx1, sizeof(hx1), df, bf->_used > cap ? cap : bf->_used), rc, bc->_used, show(hx2, sizeof(hx2), dc, bc->_used));
		VF_CHECK(!bc->_used || !memcmp(df, dc, bc->_used), "model:append-fixed:fragmented-differs", "%s (%s): append onto %zu of %zu bytes left content %s, contiguous %s", t->desc, vname[v], npre, cap,
		         show(hx1, sizeof(hx1), df, bf->_used), show(hx2, sizeof(hx2), dc, bc->_used));
		if (rf < 0) {
			vf_count("monitor:append-fixed-refused", 1);
			/* the state that matters: head part went in, a later part was refused */
			if (head && npre + head <= cap) vf_count("monitor:append-fixed-refused-after-head", 1);
		} else {
			vf_count("monitor:append-fixed-accepted", 1);
		}
		vf_xfree(bf, sizeof(*bf) + cap);
	}
	vf_xfree(bc, sizeof(*bc) + cap);
	tc_unchanged(t, "append-fixed");
}
static void battery_append_fixed(const tc *t)
{
	size_t L = t->L, f0 = t->k ? t->flen[0] : 0;
	for (size_t npre = 0; npre <= 2; npre += 2) {
		size_t caps[8] = { npre + L, npre + L + 3, L ? npre + L - 1 : npre, npre + f0, npre + f0 + 1, npre + L / 2, npre, npre + (L > 2 ? L - 2 : 0) };
		for (int i = 0; i < 8; i++) {
			int dup = 0;
			for (int j = 0; j < i; j++) if (caps[j] == caps[i]) dup = 1;
			if (!dup) op_append_fixed(t, caps[i], npre);
		}
	}
}

/* -------------------------------------------------------------- battery */
static int nfrag_nonempty, nfrag_empty;
static void battery(tc *t, vf_rng *r, int full)
{
	tc_build(t);
	nfrag_nonempty = nfrag_empty = 0;
	for (int i = 0; i < t->k; i++) { if (t->flen[i]) nfrag_nonempty++; else nfrag_empty++; }
	vf_count(nfrag_nonempty >= 2 ? "state:two-or-more-fragments" : "state:at-most-one-fragment", 1);
	if (nfrag_empty) vf_count("state:has-empty-fragment", 1);
	vf_max("max:fragments", t->k);
	op_length(t);
	battery_read(t, r, full);
	battery_search(t, r);
	battery_memtok(t);
	battery_memcpy(t, r, full);
	for (int i = 0; i < NSEPS; i++) {
		op_argv(t, SEPS[i]);
		op_array_message(t, SEPS[i]);
	}
	op_append(t, 0);
	op_append(t, 1 + vf_below(r, 5));
	op_append(t, 100 + vf_below(r, 200));   /* crosses the allocation granule of the array */
	battery_append_fixed(t);
	tc_free(t);
}

/* ----------------------------------------------- fragment list enumeration */
/* lists for length L: composition (cut mask) x empty fragment in any gap */
static uint64_t lists_for(size_t L)
{
	if (!L) return 3;
	uint64_t n = 4;
	for (size_t i = 1; i < L; i++) n *= 3;
	return n;
}
static void decode_list(tc *t, size_t L, uint64_t j)
{
	t->L = L; t->k = 0;
	if (!L) { t->k = (int) j; for (int i = 0; i < t->k; i++) t->flen[i] = 0; return; }
	for (uint32_t mask = 0; mask < (1u << (L - 1)); mask++) {
		int parts = __builtin_popcount(mask) + 1;
		uint64_t cnt = 1ull << (parts + 1);
		if (j >= cnt) { j -= cnt; continue; }
		size_t run = 0;
		int p = 0;
		for (size_t i = 0; i < L; i++) {
			run++;
			if (i == L - 1 || (mask >> i & 1)) {
				if (j >> p & 1) t->flen[t->k++] = 0;
				t->flen[t->k++] = run;
				run = 0; p++;
			}
		}
		if (j >> p & 1) t->flen[t->k++] = 0;
		return;
	}
	vf_inconclusive("harness: fragment list index out of range");
}
static int want_sample;
static const uint8_t ALPHA7[7] = { 'a', ' ', '"', ',', 0, '#', '\n' };
static const uint8_t ALPHA[] = { 'a', 'b', 'x', ' ', ' ', '\t', '\n', ',', ';', '"', '\'', '\\', '#', 0, 0x80, 'a' };
static void rand_content(vf_rng *r, uint8_t *dst, size_t n)
{
	int mode = vf_below(r, 4);
	for (size_t i = 0; i < n; i++) {
		switch (mode) {
		case 0: dst[i] = ALPHA[vf_below(r, sizeof(ALPHA))]; break;
		case 1: dst[i] = ALPHA7[vf_below(r, 7)]; break;
		case 2: dst[i] = vf_chance(r, 1, 4) ? ALPHA[vf_below(r, sizeof(ALPHA))] : 'a' + vf_below(r, 4); break;
		default: dst[i] = (uint8_t) vf_u64(r);
		}
	}
}

static size_t exA_len(void) { return vf_thorough ? 5 : 4; }
static size_t exB_len(void) { return vf_thorough ? 11 : 9; }
static uint64_t n_exA(void)
{
	uint64_t n = 0, p = 1;
	for (size_t L = 1; L <= exA_len(); L++) { p *= 7; n += p * lists_for(L); }
	return n;
}
static uint64_t n_exB(void)
{
	uint64_t n = 0;
	for (size_t L = 0; L <= exB_len(); L++) n += lists_for(L);
	return n * 2;
}
static void case_exA(uint64_t idx, vf_rng *r)
{
	static tc t;
	uint64_t p = 1;
	for (size_t L = 1; ; L++) {
		p *= 7;
		uint64_t n = p * lists_for(L);
		if (idx >= n) { idx -= n; continue; }
		uint64_t s = idx / lists_for(L);
		decode_list(&t, L, idx % lists_for(L));
		for (size_t i = 0; i < L; i++) { t.S[i] = ALPHA7[s % 7]; s /= 7; }
		break;
	}
	vf_fp_u64(0xA17); vf_fp(t.S, t.L); for (int i = 0; i < t.k; i++) vf_fp_u64(t.flen[i]);
	battery(&t, r, 1);
	if (nfrag_nonempty >= 2 || (t.L && nfrag_empty)) vf_nontrivial();
	if (want_sample) vf_sample("every-string: data %s %s, all operations", vf_hex(hx1, sizeof(hx1), t.S, t.L), t.desc);
}
static void case_exB(uint64_t idx, vf_rng *r)
{
	static tc t;
	int rep = (int) (idx & 1);
	idx >>= 1;
	for (size_t L = 0; ; L++) {
		if (idx >= lists_for(L)) { idx -= lists_for(L); continue; }
		decode_list(&t, L, idx);
		break;
	}
	rand_content(r, t.S, t.L);
	vf_fp_u64(0xB17 + rep); vf_fp(t.S, t.L); for (int i = 0; i < t.k; i++) vf_fp_u64(t.flen[i]);
	battery(&t, r, 1);
	if (nfrag_nonempty >= 2 || (t.L && nfrag_empty)) vf_nontrivial();
	if (want_sample) vf_sample("every-fragment-list: data %s %s, all operations", vf_hex(hx1, sizeof(hx1), t.S, t.L), t.desc);
}
static void case_prng(vf_rng *r)
{
	static tc t;
	size_t L = vf_chance(r, 1, 10) ? vf_below(r, 300) : vf_below(r, 49);
	size_t left = L;
	t.L = L; t.k = 0;
	int maxk = vf_chance(r, 1, 4) ? MAXK - 2 : 8;
	while ((left || !t.k || vf_chance(r, 1, 6)) && t.k < maxk) {
		size_t n;
		if (vf_chance(r, 1, 6)) n = 0;
		else if (vf_chance(r, 1, 3)) n = 1 + vf_below(r, 3);
		else n = 1 + vf_below(r, (uint32_t) (left > 40 ? 40 : left));
		if (n > left) n = left;
		t.flen[t.k++] = n;
		left -= n;
	}
	t.flen[t.k++] = left;
	if (!left && vf_chance(r, 1, 2)) t.k--;
	rand_content(r, t.S, L);
	vf_fp_u64(0xC17); vf_fp(t.S, t.L); for (int i = 0; i < t.k; i++) vf_fp_u64(t.flen[i]);
	battery(&t, r, 0);
	if (nfrag_nonempty >= 2) vf_nontrivial();
	vf_sample("random: data %s.. %s, all operations", show(hx1, sizeof(hx1), t.S, t.L), t.desc);
}

/* ---------------------------------------------------------- message_get */
static void get_check(size_t max, size_t qoff, size_t len, size_t off, size_t take, const uint8_t *content, int with_vec)
{
	MPT_STRUCT(queue) q;
	MPT_STRUCT(message) m = MPT_MESSAGE_INIT;
	uint8_t *ring = vf_xalloc(max);
	struct iovec *vec = with_vec ? vf_xalloc(sizeof(*vec)) : 0;
	char ctx[160];
	memset(ring, 0xEE, max);
	for (size_t i = 0; i < len; i++) ring[(qoff + i) % max] = content[i];
	q.base = ring; q.max = max; q.off = qoff; q.len = len;
	int wrapped = (max - len) < qoff;
	size_t low = wrapped ? max - qoff : len;
	snprintf(ctx, sizeof(ctx), "message_get(off %zu, take %zu%s) on ring max=%zu off=%zu len=%zu", off, take, with_vec ? "" : ", no list entry", max, qoff, len);
	if (vf_logging) vf_log("%s", ctx);
	vf_at("mpt_message_get"); vf_count("mpt_message_get", 1);
	int r = mpt_message_get(&q, off, take, &m, vec);
	if (off > len || take > len - off) {
		VF_CHECK(r < 0, "model:message_get:accepted-outside", "%s: returned %d", ctx, r);
		vf_count("monitor:get-refused", 1);
	} else {
		int spans = off < low && off + take > low;
		if (spans && !with_vec) {
			VF_CHECK(r < 0, "model:message_get:split-without-entry", "%s: returned %d although the range is split", ctx, r);
		} else {
			VF_CHECK(r >= 0, "model:message_get:refused", "%s: returned %d", ctx, r);
			/* the cursor must read like the flat range */
			vf_at("mpt_message_length"); vf_count("mpt_message_length", 1);
			size_t l = mpt_message_length(&m);
			VF_CHECK(l == take, "model:message_get:length", "%s: message holds %zu bytes", ctx, l);
			if (spans) {
				VF_CHECK(m.clen == 1 && m.used && m.cont->iov_len, "model:message_get:fragments", "%s: split range delivered as used=%zu clen=%zu", ctx, m.used, m.clen);
				vf_count("monitor:get-split", 1);
			}
			/* operations on the obtained cursor against the flat range */
			uint8_t *d = vf_xalloc(take + 1);
			MPT_STRUCT(message) c = m;
			size_t first = take / 2;
			vf_at("mpt_message_read"); vf_count("mpt_message_read", 2);
			size_t g1 = mpt_message_read(&c, first, d);
			size_t g2 = mpt_message_read(&c, take + 1 - first, d + first);
			VF_CHECK(g1 == first && g2 == take - first, "model:message_get:read-return", "%s: reads of %zu and %zu bytes returned %zu and %zu", ctx, first, take + 1 - first, g1, g2);
			VF_CHECK(!take || !memcmp(d, content + off, take), "model:message_get:bytes", "%s: cursor reads %s, expected %s", ctx, show(hx1, sizeof(hx1), d, take), show(hx2, sizeof(hx2), content + off, take));
			vf_xfree(d, take + 1);
			if (take) {
				struct iovec two[2];
				uint8_t tok = content[off + take - 1];
				two[0].iov_base = (void *) m.base; two[0].iov_len = m.used;
				if (m.clen) two[1] = m.cont[0];
				vf_at("mpt_memchr"); vf_count("mpt_memchr", 1);
				ssize_t p = mpt_memchr(two, 1 + m.clen, tok);
				const uint8_t *e = memchr(content + off, tok, take);
				VF_CHECK(p == e - (content + off), "model:message_get:memchr", "%s: memchr(0x%02x) on the cursor = %zd, expected %zd", ctx, tok, p, (ssize_t) (e - (content + off)));
				/* argument split on the cursor and on the flat range */
				MPT_STRUCT(message) fm = MPT_MESSAGE_INIT;
				uint8_t *flat = vf_xalloc(take);
				memcpy(flat, content + off, take);
				fm.base = flat; fm.used = take;
				c = m;
				vf_at("mpt_message_argv"); vf_count("mpt_message_argv", 4);
				ssize_t a1 = mpt_message_argv(&c, 0), a2 = mpt_message_argv(&fm, 0);
				VF_CHECK(a1 == a2, "model:message_get:argv", "%s: argv(0) on the cursor = %zd, on the flat range %zd", ctx, a1, a2);
				ssize_t b1 = mpt_message_argv(&c, ' '), b2 = mpt_message_argv(&fm, ' ');
				VF_CHECK(b1 == b2, "model:message_get:argv", "%s: argv(' ') on the cursor = %zd, on the flat range %zd (data %s)", ctx, b1, b2, show(hx1, sizeof(hx1), flat, take));
				vf_xfree(flat, take);
			}
			vf_count("monitor:get-accepted", 1);
		}
	}
	/* the queue is only looked at */
	VF_CHECK(q.base == ring && q.max == max && q.off == qoff && q.len == len, "model:message_get:queue-modified", "%s: queue descriptor changed", ctx);
	for (size_t i = 0; i < len; i++) VF_CHECK(ring[(qoff + i) % max] == content[i], "model:message_get:queue-modified", "%s: queue content changed at %zu", ctx, i);
	vf_xfree(vec, sizeof(*vec));
	vf_xfree(ring, max);
}
static size_t get_max(void) { return vf_thorough ? 9 : 7; }
static uint64_t n_getex(void)
{
	uint64_t n = 0;
	for (size_t m = 1; m <= get_max(); m++) n += m * (m + 1);
	return n;
}
static void case_getex(uint64_t idx, vf_rng *r)
{
	uint8_t content[16];
	size_t max, off, len;
	for (max = 1; ; max++) {
		uint64_t n = max * (max + 1);
		if (idx < n) { off = idx / (max + 1); len = idx % (max + 1); break; }
		idx -= n;
	}
	for (size_t i = 0; i < len; i++) content[i] = vf_chance(r, 1, 3) ? ALPHA7[vf_below(r, 7)] : (uint8_t) ('b' + i);
	vf_fp_u64(0xD17); vf_fp_u64(max << 16 | off << 8 | len);
	for (size_t o = 0; o <= len + 1; o++)
		for (size_t t = 0; t <= len + 1; t++) {
			get_check(max, off, len, o, t, content, 1);
			get_check(max, off, len, o, t, content, 0);
		}
	if (len && (max - len) < off) { vf_nontrivial(); vf_count("state:wrapped-ring", 1); }
	if (idx % 29 == 5) vf_sample("message_get: ring max=%zu off=%zu len=%zu, every (offset, length) incl. outside, with and without list entry", max, off, len);
}
static void case_getprng(vf_rng *r)
{
	static uint8_t content[4200];
	static const size_t caps[] = { 8, 13, 16, 31, 32, 33, 64, 100, 255, 256, 1024, 4096 };
	size_t max = caps[vf_below(r, 12)], off = vf_below(r, (uint32_t) max), len = vf_below(r, (uint32_t) max + 1);
	if (vf_chance(r, 1, 2)) { len = max - vf_below(r, (uint32_t) (max > 4 ? 4 : max)); }
	rand_content(r, content, len);
	vf_fp_u64(0xE17); vf_fp_u64(max); vf_fp_u64(off); vf_fp_u64(len); vf_fp(content, len > 32 ? 32 : len);
	size_t low = (max - len) < off ? max - off : len;
	for (int i = 0; i < 24; i++) {
		size_t o, t;
		switch (vf_below(r, 5)) {
		case 0: o = vf_below(r, (uint32_t) len + 2); t = vf_below(r, (uint32_t) len + 2); break;
		case 1: o = low ? low - 1 - vf_below(r, (uint32_t) (low > 3 ? 3 : low)) : 0; t = 1 + vf_below(r, 6); break;   /* around the split */
		case 2: o = low; t = vf_below(r, (uint32_t) (len - low) + 2); break;
		case 3: o = 0; t = len; break;
		default: o = vf_below(r, (uint32_t) len + 1); t = len - o + vf_below(r, 2); break;
		}
		vf_fp_u64(o << 32 | t);
		get_check(max, off, len, o, t, content, vf_chance(r, 4, 5));
	}
	if (len && (max - len) < off) { vf_nontrivial(); vf_count("state:wrapped-ring", 1); }
	vf_sample("message_get: ring max=%zu off=%zu len=%zu, 24 PRNG (offset, length) pairs around the split", max, off, len);
}

/* ------------------------------------------------------------------ entry */
static uint64_t n_prng(void) { return vf_thorough ? 3000000 : 50000; }
static uint64_t n_getprng(void) { return vf_thorough ? 100000 : 4000; }

/* -------------------------------------------------------- dispatch_hash */
/*
 * mpt_dispatch_hash() picks the handler from the command word at the start of
 * a message (2 byte header: type, argument separator).  Handlers are registered
 * for a word, its prefixes and an extension, so a word shortened or lengthened
 * by one byte reaches a different handler.  A case is one message; it is
 * dispatched contiguous and in every cut into 2 and 3 fragments (plus variants
 * with empty fragments and PRNG lists up to 8 fragments), each fragment in its
 * own exact-size block: handler called, return value and ev.id must equal the
 * contiguous run, which itself must reach the handler registered for the word.
 */
static const char *const DWORDS[] = { "s", "st", "sta", "star", "start", "starts", "stop", "sto", "x" };
static const int DREG[] = { 1, 1, 0, 1, 1, 1, 1, 0, 0 };
#define NDWORDS 9
static int d_called, d_calls;
static uintptr_t d_seen_id;
static int d_handler(void *arg, MPT_STRUCT(event) *ev)
{
	int idx = *(int *) arg;
	if (!ev) return 0;
	d_called = idx; d_calls++;
	d_seen_id = ev->id;
	return (idx & 1) ? MPT_EVENTFLAG(Default) : MPT_EVENTFLAG(None);
}
static int d_unknown(void *arg, MPT_STRUCT(event) *ev)
{
	(void) arg;
	if (!ev) return 0;
	d_called = -1; d_calls++;
	d_seen_id = ev->id;
	return MPT_EVENTFLAG(Fail);
}
typedef struct { int ret, called, calls; uintptr_t id, seen; } dres;
static dres d_run(MPT_STRUCT(dispatch) *disp, const uint8_t *data, const size_t *cuts, int k, int all_in_list)
{
	uint8_t *blk[12];
	int nv = all_in_list ? k : k - 1;
	struct iovec *vec = vf_xalloc(nv * sizeof(*vec));
	MPT_STRUCT(message) msg = MPT_MESSAGE_INIT;
	MPT_STRUCT(event) ev = MPT_EVENT_INIT;
	size_t pos = 0;
	dres res;
	for (int i = 0; i < k; i++) {
		blk[i] = vf_xalloc(cuts[i]);
		if (cuts[i]) memcpy(blk[i], data + pos, cuts[i]);
		pos += cuts[i];
		if (all_in_list) { vec[i].iov_base = blk[i]; vec[i].iov_len = cuts[i]; }
		else if (i) { vec[i - 1].iov_base = blk[i]; vec[i - 1].iov_len = cuts[i]; }
	}
	if (!all_in_list) { msg.base = blk[0]; msg.used = cuts[0]; }
	msg.cont = nv ? vec : 0;
	msg.clen = nv;
	ev.msg = &msg;
	d_called = 0; d_calls = 0; d_seen_id = 0;
	vf_at("mpt_dispatch_hash"); vf_count("mpt_dispatch_hash", 1);
	res.ret = mpt_dispatch_hash(disp, &ev);
	res.called = d_called; res.calls = d_calls; res.id = ev.id; res.seen = d_seen_id;
	pos = 0;
	for (int i = 0; i < k; i++) {
		VF_CHECK(!cuts[i] || !memcmp(blk[i], data + pos, cuts[i]), "model:dispatch_hash:data-modified", "fragment %d of the dispatched message changed", i);
		pos += cuts[i];
		vf_xfree(blk[i], cuts[i]);
	}
	vf_xfree(vec, nv * sizeof(*vec));
	return res;
}
static uint64_t n_dispatch(void) { return NDWORDS * 3 * 9 * 2 * 2 * 2; }
static void case_dispatch(uint64_t idx, vf_rng *r)
{
	static int index[NDWORDS];
	MPT_STRUCT(dispatch) disp;
	uint8_t data[64];
	char ctx[200];
	int w = idx % NDWORDS, mode = (idx / NDWORDS) % 3;
	size_t a = (idx / (NDWORDS * 3)) % 9;
	int second = (idx / (NDWORDS * 27)) % 2, trailing = (idx / (NDWORDS * 54)) % 2, lead = (idx / (NDWORDS * 108)) % 2;
	uint8_t sep = mode == 1 ? ' ' : 0;
	size_t len = 0, wlen = strlen(DWORDS[w]), wstart;

	/* header */
	data[len++] = mode == 2 ? MPT_MESGTYPE(Output) : MPT_MESGTYPE(Command);
	data[len++] = mode == 2 ? ' ' : sep;        /* separator byte of other message types is not used: NUL separated */
	if (lead && sep) { data[len++] = ' '; data[len++] = '\t'; }
	wstart = len;
	memcpy(data + len, DWORDS[w], wlen); len += wlen;
	if (a || second || lead) {
		data[len++] = sep;
		for (size_t i = 0; i < a; i++) data[len++] = (uint8_t) ('a' + i);
	}
	if (second) { data[len++] = sep; data[len++] = 'b'; }
	if (trailing) data[len++] = sep;
	snprintf(ctx, sizeof(ctx), "command '%s' (%s), message %s", DWORDS[w], mode == 1 ? "space separated" : mode == 0 ? "NUL separated" : "NUL separated, other message type", show(hx1, sizeof(hx1), data, len));
	vf_fp_u64(0xD15); vf_fp(data, len);

	vf_at("mpt_dispatch_init");
	mpt_dispatch_init(&disp);
	disp._err.cmd = d_unknown;
	disp._err.arg = 0;
	for (int i = 0; i < NDWORDS; i++) {
		index[i] = i + 1;
		if (!DREG[i]) continue;
		vf_at("mpt_dispatch_set");
		if (mpt_dispatch_set(&disp, mpt_hash(DWORDS[i], (int) strlen(DWORDS[i])), d_handler, &index[i]) < 0) vf_inconclusive("harness: mpt_dispatch_set(%s) failed", DWORDS[i]);
	}
	/* contiguous reference, checked against the meaning of the message */
	dres ref = d_run(&disp, data, &len, 1, 0);
	int want = DREG[w] ? w + 1 : -1;
	VF_CHECK(ref.calls == 1 && ref.called == want, "model:dispatch_hash:contiguous-reference", "%s: contiguous dispatch called handler %d (%d calls), expected %d", ctx, ref.called, ref.calls, want);
	VF_CHECK(ref.id == mpt_hash(DWORDS[w], (int) wlen) && ref.seen == ref.id, "model:dispatch_hash:contiguous-reference", "%s: contiguous dispatch left id %lx (handler saw %lx), hash of the word is %lx", ctx,
	         (unsigned long) ref.id, (unsigned long) ref.seen, (unsigned long) mpt_hash(DWORDS[w], (int) wlen));
	VF_CHECK(ref.ret == (want < 0 ? MPT_EVENTFLAG(Fail) : (want & 1) ? MPT_EVENTFLAG(Default) : MPT_EVENTFLAG(None)), "model:dispatch_hash:contiguous-reference", "%s: contiguous dispatch returned %d", ctx, ref.ret);
	vf_count(want < 0 ? "dispatch:unknown-word" : "dispatch:registered-word", 1);

	size_t cuts[12];
	int wordcut = 0;
#define D_COMPARE(K, LIST) do { \
		dres cur = d_run(&disp, data, cuts, (K), (LIST)); \
		size_t p_ = 0; int cutin_ = 0; \
		for (int i_ = 0; i_ + 1 < (K); i_++) { p_ += cuts[i_]; if (p_ > wstart && p_ < wstart + wlen) cutin_ = 1; } \
		if (cutin_) { wordcut++; vf_count(sep ? "dispatch:word-cut-space-sep" : "dispatch:word-cut-nul-sep", 1); } \
		if (cur.called != ref.called || cur.calls != ref.calls || cur.ret != ref.ret || cur.id != ref.id || cur.seen != ref.seen) { \
			char cb_[80]; size_t o_ = 0; \
			for (int i_ = 0; i_ < (K); i_++) o_ += snprintf(cb_ + o_, sizeof(cb_) - o_, "%s%zu", i_ ? "," : "", cuts[i_]); \
			vf_fail("model:dispatch_hash:fragmented-differs", "%s cut as {%s}%s: handler %d (%d calls) ret %d id %lx; contiguous: handler %d ret %d id %lx", ctx, cb_, (LIST) ? " (all in list)" : "", \
			        cur.called, cur.calls, cur.ret, (unsigned long) cur.id, ref.called, ref.ret, (unsigned long) ref.id); \
		} \
		vf_count("monitor:dispatch-compared", 1); \
	} while (0)
	for (size_t x = 0; x <= len; x++) {
		cuts[0] = x; cuts[1] = len - x;
		D_COMPARE(2, 0);
		D_COMPARE(2, 1);
		for (size_t c = x; c <= len; c++) {
			cuts[0] = x; cuts[1] = c - x; cuts[2] = len - c; D_COMPARE(3, 0);
			cuts[0] = x; cuts[1] = 0; cuts[2] = c - x; cuts[3] = len - c; D_COMPARE(4, 0);
			cuts[0] = x; cuts[1] = c - x; cuts[2] = 0; cuts[3] = len - c; D_COMPARE(4, (int) (c & 1));
			cuts[0] = 0; cuts[1] = x; cuts[2] = c - x; cuts[3] = len - c; cuts[4] = 0; D_COMPARE(5, 0);
		}
	}
	for (int i = 0; i < 30; i++) {
		int k = 3 + vf_below(r, 6);
		size_t left = len;
		for (int j = 0; j + 1 < k; j++) { size_t n = vf_chance(r, 1, 4) ? 0 : 1 + vf_below(r, 3); if (n > left) n = left; cuts[j] = n; left -= n; }
		cuts[k - 1] = left;
		D_COMPARE(k, (int) vf_below(r, 2));
	}
#undef D_COMPARE
	vf_at("mpt_dispatch_fini");
	mpt_dispatch_fini(&disp);
	if (wordcut) vf_nontrivial();
	if (idx % 211 == 17) vf_sample("dispatch_hash: %s -> handler %d; every cut into 2 and 3 fragments (+ empty fragments), 30 PRNG lists", ctx, ref.called);
}


/* ------------------------------------------------------ message_property */
/*
 * mpt_message_property() takes the next "name=value" argument off a message
 * and hands it to a property handler; a refused argument (handler failure, no
 * '=', too long) must stay on the message.  A case is one text; a fixed caller
 * sequence (property call; on success skip the separator; on refusal call again,
 * then step over the argument with mpt_message_argv + mpt_message_read) is run
 * on the contiguous message and on every cut into 2 and 3 fragments (+ empty
 * fragments, PRNG lists).  After every step the return code, what the handler
 * saw, and the message state (remaining length, all remaining bytes read from
 * a copy of the cursor) must equal the contiguous run; the contiguous run is
 * checked against the flat meaning of the text where it has no quotes.
 */
/* exported by the library; object.h spells the prototype mpt_message_properties */
extern int mpt_message_property(MPT_STRUCT(message) *, int , MPT_TYPE(property_handler) , void *);

#define PSTEPS 14
#define PTEXT 1200
typedef struct {
	int kind;                 /* 0 property call, 1 skip separator, 2 argv, 3 read argument */
	long ret;
	int seen;                 /* handler invoked */
	char name[48], value[48];
	size_t remain;
	uint64_t rest_hash;
	uint8_t rest[40];
} pstep;
typedef struct { int n; pstep s[PSTEPS * 3]; } prec;
static pstep *p_cur;
static int p_handler(void *ctx, const MPT_STRUCT(property) *pr)
{
	const char *val = (pr->val._type == 's' && pr->val._addr) ? *((const char *const *) pr->val._addr) : 0;
	(void) ctx;
	p_cur->seen++;
	snprintf(p_cur->name, sizeof(p_cur->name), "%s", pr->name ? pr->name : "(null)");
	snprintf(p_cur->value, sizeof(p_cur->value), "%s", val ? val : "(null)");
	if (pr->name && pr->name[0] == 'r') return MPT_ERROR(BadArgument);   /* refused property */
	return val ? (int) strlen(val) & 7 : 0;
}
static void p_state(const MPT_STRUCT(message) *msg, pstep *st)
{
	static uint8_t buf[PTEXT + 8];
	MPT_STRUCT(message) c = *msg;
	vf_at("mpt_message_length");
	st->remain = mpt_message_length(&c);
	vf_at("mpt_message_read");
	size_t got = mpt_message_read(&c, sizeof(buf), buf);
	uint64_t h = 0xcbf29ce484222325ULL ^ got;
	for (size_t i = 0; i < got; i++) { h ^= buf[i]; h *= 0x100000001b3ULL; }
	st->rest_hash = h;
	memset(st->rest, 0, sizeof(st->rest));
	memcpy(st->rest, buf, got < sizeof(st->rest) ? got : sizeof(st->rest));
	if (got != st->remain) st->rest_hash ^= 0x5555;   /* length and readable bytes disagree: shows as difference */
}
static pstep *p_step(prec *rec, int kind)
{
	pstep *st = &rec->s[rec->n++];
	memset(st, 0, sizeof(*st));
	st->kind = kind;
	return st;
}
static void p_run(MPT_STRUCT(message) *msg, int sep, prec *rec)
{
	rec->n = 0;
	for (int i = 0; i < PSTEPS && rec->n + 4 < PSTEPS * 3; i++) {
		pstep *st = p_cur = p_step(rec, 0);
		vf_at("mpt_message_property"); vf_count("mpt_message_property", 1);
		st->ret = mpt_message_property(msg, sep, p_handler, 0);
		p_state(msg, st);
		if (st->ret >= 0) {
			st = p_step(rec, 1);
			vf_at("mpt_message_read");
			st->ret = (long) mpt_message_read(msg, 1, 0);
			p_state(msg, st);
			continue;
		}
		if (st->ret == MPT_ERROR(MissingData) && !st->remain) break;
		/* refused: the argument is still there - ask again, then step over it */
		st = p_cur = p_step(rec, 0);
		vf_at("mpt_message_property"); vf_count("mpt_message_property", 1);
		st->ret = mpt_message_property(msg, sep, p_handler, 0);
		p_state(msg, st);
		st = p_step(rec, 2);
		vf_at("mpt_message_argv"); vf_count("mpt_message_argv", 1);
		st->ret = mpt_message_argv(msg, sep);
		p_state(msg, st);
		long len = st->ret;
		st = p_step(rec, 3);
		vf_at("mpt_message_read");
		st->ret = (long) mpt_message_read(msg, len > 0 ? (size_t) len + 1 : 1, 0);
		p_state(msg, st);
	}
}
static const char *const pkind[] = { "message_property", "skip separator", "argv", "read argument" };
/* fragments of one run */
static void p_frag_run(const uint8_t *data, const size_t *cuts, int k, int all_in_list, int sep, prec *rec)
{
	uint8_t *blk[12];
	int nv = all_in_list ? k : k - 1;
	struct iovec *vec = vf_xalloc(nv * sizeof(*vec));
	MPT_STRUCT(message) msg = MPT_MESSAGE_INIT;
	size_t pos = 0;
	for (int i = 0; i < k; i++) {
		blk[i] = vf_xalloc(cuts[i]);
		if (cuts[i]) memcpy(blk[i], data + pos, cuts[i]);
		pos += cuts[i];
		if (all_in_list) { vec[i].iov_base = blk[i]; vec[i].iov_len = cuts[i]; }
		else if (i) { vec[i - 1].iov_base = blk[i]; vec[i - 1].iov_len = cuts[i]; }
	}
	if (!all_in_list) { msg.base = blk[0]; msg.used = cuts[0]; }
	msg.cont = nv ? vec : 0;
	msg.clen = nv;
	p_run(&msg, sep, rec);
	pos = 0;
	for (int i = 0; i < k; i++) {
		VF_CHECK(!cuts[i] || !memcmp(blk[i], data + pos, cuts[i]), "model:message_property:data-modified", "fragment %d of the message changed", i);
		if (i >= (all_in_list ? 0 : 1)) {
			int j = all_in_list ? i : i - 1;
			VF_CHECK(vec[j].iov_base == blk[i] && vec[j].iov_len == cuts[i], "model:message_property:fragment-list-modified", "entry %d of the fragment list changed", j);
		}
		pos += cuts[i];
		vf_xfree(blk[i], cuts[i]);
	}
	vf_xfree(vec, nv * sizeof(*vec));
}
/* flat meaning of the contiguous run (texts without quotes) */
static void p_reference(const uint8_t *data, size_t len, int sep, const prec *rec, const char *ctx)
{
	size_t pos = 0;
	const char *space = "\t \n\r\v";
	for (int i = 0; i < rec->n; i++) {
		const pstep *st = &rec->s[i];
		if (st->kind == 0) {
			size_t p = pos, e;
			if (sep) while (p < len && isspace(data[p])) p++;
			for (e = p; e < len; e++) if (isgraph(sep) ? data[e] == sep : (sep ? (data[e] && strchr(space, data[e])) : !data[e])) break;
			if (!isgraph(sep) && sep && e == len) { const uint8_t *z = memchr(data + p, 0, len - p); if (z) e = z - data; }
			size_t tl = e - p;
			const uint8_t *eq = tl ? memchr(data + p, '=', tl) : 0;
			long want;
			int seen = 0;
			if (!tl) want = MPT_ERROR(MissingData);
			else if (tl >= 1024) want = MPT_ERROR(MissingBuffer);
			else if (!eq) want = MPT_ERROR(BadEncoding);
			else {
				seen = 1;
				size_t nl = eq - (data + p), vl = tl - nl - 1;
				if (nl < sizeof(st->name) && vl < sizeof(st->value)) {
					VF_CHECK(strlen(st->name) == nl && !memcmp(st->name, data + p, nl) && strlen(st->value) == vl && !memcmp(st->value, eq + 1, vl), "model:message_property:contiguous-reference",
					         "%s: step %d: handler saw '%s'='%s', argument at %zu is %s", ctx, i, st->name, st->value, p, show(hx2, sizeof(hx2), data + p, tl));
				}
				want = data[p] == 'r' ? MPT_ERROR(BadValue) : (long) (vl & 7);
			}
			VF_CHECK(st->ret == want && st->seen == seen, "model:message_property:contiguous-reference", "%s: step %d at %zu returned %ld (handler called %d times), expected %ld (%d)", ctx, i, pos, st->ret, st->seen, want, seen);
			if (st->ret >= 0) pos = e;
			VF_CHECK(st->remain == len - pos, "model:message_property:contiguous-reference", "%s: step %d returned %ld and left %zu bytes, expected %zu", ctx, i, st->ret, st->remain, len - pos);
		} else {
			/* the other steps are the verified primitives: follow the position they report */
			pos = len - st->remain;
		}
	}
}
static uint64_t n_property(void) { return vf_thorough ? 20000 : 600; }
static void case_property(vf_rng *r)
{
	static uint8_t data[PTEXT + 64];
	static prec ref, cur;
	static const int seps[] = { ' ', ' ', ' ', ',', 0, '\n' };
	int sep = seps[vf_below(r, 6)], quotes = 0, ntok = 1 + vf_below(r, 4), haslong = 0;
	size_t len = 0;
	char ctx[200];
	/* text */
	if (sep && vf_chance(r, 1, 4)) { data[len++] = ' '; if (vf_chance(r, 1, 2)) data[len++] = '\t'; }
	for (int t = 0; t < ntok; t++) {
		static const char first[] = "abrgrzxr";
		int kind = vf_below(r, 10);
		size_t nl = 1 + vf_below(r, 5), vl = vf_below(r, 5);
		if (t) {
			data[len++] = (uint8_t) sep;
			if (sep == ' ' && vf_chance(r, 1, 3)) data[len++] = vf_chance(r, 1, 2) ? ' ' : '\t';
		}
		if (kind == 9 && !haslong && vf_chance(r, 1, 6)) { nl = 3; vl = 1020 + vf_below(r, 12); haslong = 1; }   /* too long for the argument buffer */
		data[len++] = (uint8_t) first[vf_below(r, 8)];
		for (size_t i = 1; i < nl; i++) data[len++] = (uint8_t) ('a' + vf_below(r, 26));
		if (kind == 0) continue;                                   /* no '=': bad encoding */
		data[len++] = '=';
		if (kind == 1 && sep == ' ') {                             /* quoted value with a blank inside */
			quotes = 1;
			data[len++] = '"'; data[len++] = 'q'; data[len++] = ' '; data[len++] = (uint8_t) ('0' + vf_below(r, 10)); data[len++] = '"';
			continue;
		}
		for (size_t i = 0; i < vl; i++) data[len++] = (uint8_t) (vf_chance(r, 1, 8) ? '=' : '0' + vf_below(r, 10));
	}
	if (vf_chance(r, 1, 4)) data[len++] = (uint8_t) sep;
	snprintf(ctx, sizeof(ctx), "separator 0x%02x, text %s", sep, show(hx1, sizeof(hx1), data, len));
	vf_fp_u64(0x9209); vf_fp_u64(sep); vf_fp(data, len);

	/* contiguous reference */
	p_frag_run(data, &len, 1, 0, sep, &ref);
	if (!quotes) p_reference(data, len, sep, &ref, ctx);
	int refused = 0, accepted = 0;
	for (int i = 0; i < ref.n; i++) if (ref.s[i].kind == 0) {
		if (ref.s[i].ret >= 0) accepted++;
		else if (ref.s[i].ret != MPT_ERROR(MissingData)) refused++;
		vf_count(ref.s[i].ret >= 0 ? "property:accepted" : ref.s[i].ret == MPT_ERROR(BadValue) ? "property:refused-by-handler" : ref.s[i].ret == MPT_ERROR(BadEncoding) ? "property:refused-no-assignment" :
		         ref.s[i].ret == MPT_ERROR(MissingBuffer) ? "property:refused-too-long" : "property:no-argument", 1);
	}
	size_t cuts[12];
#define P_COMPARE(K, LIST) do { \
		p_frag_run(data, cuts, (K), (LIST), sep, &cur); \
		int n_ = cur.n < ref.n ? cur.n : ref.n; \
		for (int i_ = 0; i_ < n_ || i_ == n_; i_++) { \
			const pstep *a_ = &cur.s[i_], *b_ = &ref.s[i_]; \
			const char *what_ = 0; \
			if (i_ == n_) { if (cur.n != ref.n) what_ = "number of steps"; else break; } \
			else if (a_->kind != b_->kind) what_ = "course of the caller sequence"; \
			else if (a_->ret != b_->ret) what_ = "return value"; \
			else if (a_->seen != b_->seen || strcmp(a_->name, b_->name) || strcmp(a_->value, b_->value)) what_ = "handler arguments"; \
			else if (a_->remain != b_->remain) what_ = "remaining length"; \
			else if (a_->rest_hash != b_->rest_hash) what_ = "remaining bytes"; \
			if (what_) { \
				char cb_[80]; size_t o_ = 0; \
				for (int j_ = 0; j_ < (K); j_++) o_ += snprintf(cb_ + o_, sizeof(cb_) - o_, "%s%zu", j_ ? "," : "", cuts[j_]); \
				if (i_ == n_) vf_fail("model:message_property:fragmented-differs", "%s cut as {%s}%s: %d steps, contiguous %d", ctx, cb_, (LIST) ? " (all in list)" : "", cur.n, ref.n); \
				vf_fail(a_->kind == 0 && i_ && 0 ? "" : "model:message_property:fragmented-differs", "%s cut as {%s}%s: step %d (%s): %s differs: ret %ld handler '%s'='%s' left %zu bytes %s; contiguous: ret %ld '%s'='%s' left %zu bytes %s", \
				        ctx, cb_, (LIST) ? " (all in list)" : "", i_, pkind[a_->kind], what_, a_->ret, a_->name, a_->value, a_->remain, show(hx2, 60, a_->rest, a_->remain < 24 ? a_->remain : 24), \
				        b_->ret, b_->name, b_->value, b_->remain, show(hx3, 60, b_->rest, b_->remain < 24 ? b_->remain : 24)); \
			} \
		} \
		if (refused) vf_count("property:fragmented-run-with-refusal", 1); \
		vf_count("monitor:property-compared", 1); \
	} while (0)
	if (len <= 40) {
		for (size_t x = 0; x <= len; x++) {
			cuts[0] = x; cuts[1] = len - x;
			P_COMPARE(2, 0);
			P_COMPARE(2, 1);
			for (size_t c = x; c <= len; c++) {
				cuts[0] = x; cuts[1] = c - x; cuts[2] = len - c; P_COMPARE(3, (int) (x & 1));
				cuts[0] = x; cuts[1] = 0; cuts[2] = c - x; cuts[3] = len - c; P_COMPARE(4, 0);
				cuts[0] = 0; cuts[1] = x; cuts[2] = c - x; cuts[3] = 0; cuts[4] = len - c; P_COMPARE(5, (int) (c & 1));
			}
		}
	}
	for (int i = 0; i < (len <= 40 ? 30 : 200); i++) {
		int k = 2 + vf_below(r, 7);
		size_t left = len;
		for (int j = 0; j + 1 < k; j++) {
			size_t n = vf_chance(r, 1, 4) ? 0 : 1 + vf_below(r, 4);
			if (len > 40 && vf_chance(r, 1, 2)) n = vf_below(r, (uint32_t) left + 1);
			if (n > left) n = left;
			cuts[j] = n; left -= n;
		}
		cuts[k - 1] = left;
		P_COMPARE(k, (int) vf_below(r, 2));
	}
#undef P_COMPARE
	if (refused && accepted) vf_nontrivial();
	vf_sample("message_property: %s: %d accepted, %d refused arguments; caller sequence on every cut into 2 and 3 fragments (+ empty ones) and PRNG lists", ctx, accepted, refused);
}


/* -------------------------------------------------------- message_assign */
/*
 * mpt_message_assign() splits a message into a path (a number of
 * NUL-terminated elements, the number given by the caller or by the message
 * header) and a value and hands both to the caller's assignment handler.  The
 * payload is joined in a 1024 byte buffer: payloads that do not fit are
 * refused.  A case is one message; contiguous and fragmented runs must give the
 * same return code and show the handler the same path and value bytes, and the
 * contiguous run must match the flat meaning of the payload.
 */
#define AMAX 1700
typedef struct { int ret, calls; size_t plen, vlen; uint8_t path[AMAX], val[AMAX]; int sep; } ares;
static ares *a_cur;
static int a_handler(void *ctx, const MPT_STRUCT(path) *p, const MPT_STRUCT(value) *v)
{
	(void) ctx;
	a_cur->calls++;
	if (!p || !v) return -100;
	const struct iovec *vec = v->_addr;
	a_cur->plen = p->len; a_cur->sep = p->sep;
	if (p->len <= AMAX) memcpy(a_cur->path, p->base + p->off, p->len);
	a_cur->vlen = vec ? vec->iov_len : (size_t) -1;
	if (vec && vec->iov_len <= AMAX && vec->iov_len) memcpy(a_cur->val, vec->iov_base, vec->iov_len);
	return (int) ((p->len * 7 + a_cur->vlen) & 0xff);
}
static void a_run(const uint8_t *data, const size_t *cuts, int k, int all_in_list, int len, ares *res)
{
	uint8_t *blk[12];
	int nv = all_in_list ? k : k - 1;
	struct iovec *vec = vf_xalloc(nv * sizeof(*vec));
	MPT_STRUCT(message) msg = MPT_MESSAGE_INIT, snap;
	size_t pos = 0;
	for (int i = 0; i < k; i++) {
		blk[i] = vf_xalloc(cuts[i]);
		if (cuts[i]) memcpy(blk[i], data + pos, cuts[i]);
		pos += cuts[i];
		if (all_in_list) { vec[i].iov_base = blk[i]; vec[i].iov_len = cuts[i]; }
		else if (i) { vec[i - 1].iov_base = blk[i]; vec[i - 1].iov_len = cuts[i]; }
	}
	if (!all_in_list) { msg.base = blk[0]; msg.used = cuts[0]; }
	msg.cont = nv ? vec : 0;
	msg.clen = nv;
	snap = msg;
	res->calls = 0; res->plen = res->vlen = 0; res->sep = 0;
	a_cur = res;
	vf_at("mpt_message_assign"); vf_count("mpt_message_assign", 1);
	res->ret = mpt_message_assign(&msg, len, a_handler, 0);
	VF_CHECK(!memcmp(&msg, &snap, sizeof(msg)), "model:message_assign:message-modified", "the (const) message cursor was changed");
	pos = 0;
	for (int i = 0; i < k; i++) {
		VF_CHECK(!cuts[i] || !memcmp(blk[i], data + pos, cuts[i]), "model:message_assign:data-modified", "fragment %d of the message changed", i);
		pos += cuts[i];
		vf_xfree(blk[i], cuts[i]);
	}
	vf_xfree(vec, nv * sizeof(*vec));
}
static uint64_t n_assign(void) { return vf_thorough ? 6000 : 500; }
static void case_assign(uint64_t idx, vf_rng *r)
{
	static uint8_t data[AMAX + 16];
	static ares ref, cur;
	static const size_t bigs[] = { 1000, 1010, 1020, 1021, 1022, 1023, 1024, 1025, 1026, 1030, 1050, 1100, 1500 };
	int header = (int) (idx & 1), nel = (int) ((idx >> 1) % 4), big = (idx >> 3) % 3 == 0;
	size_t payload, len = 0, hdr = 0;
	char ctx[200];
	/* message: [header] element\0 element\0 ... value */
	if (header) { data[len++] = MPT_MESGTYPE(Command); data[len++] = (uint8_t) nel; hdr = 2; }
	payload = big ? bigs[(idx >> 5) % 13] : vf_below(r, 40);
	/* elements: short names; the value takes the rest (may hold NUL bytes itself) */
	int missing = !big && vf_chance(r, 1, 8);                 /* fewer terminated elements than announced */
	size_t left = payload;
	for (int e = 0; e < nel - missing && left; e++) {
		size_t n = vf_below(r, 6);
		if (big && e == 0 && vf_chance(r, 1, 3)) n = 300 + vf_below(r, 300);   /* long path element */
		if (n + 1 > left) n = left - 1;
		for (size_t i = 0; i < n; i++) data[len++] = (uint8_t) ('a' + vf_below(r, 26));
		data[len++] = 0;
		left -= n + 1;
	}
	for (size_t i = 0; i < left; i++) data[len++] = (uint8_t) (missing ? 'v' : (vf_chance(r, 1, 12) ? 0 : '0' + vf_below(r, 10)));
	snprintf(ctx, sizeof(ctx), "%s, %d path elements%s, payload of %zu bytes %s..", header ? "header carries the element count" : "element count given by the caller", nel,
	         missing ? " (not all terminated)" : "", payload, show(hx1, 60, data + hdr, payload < 24 ? payload : 24));
	vf_fp_u64(0xa5516); vf_fp_u64(header << 8 | nel); vf_fp(data, len);
	int arg = header ? -1 : nel;

	a_run(data, &len, 1, 0, arg, &ref);
	/* flat meaning */
	{
		const uint8_t *pl = data + hdr;
		size_t plen = 0;
		int bad = 0;
		for (int e = 0; e < nel; e++) {
			const uint8_t *z = plen < payload ? memchr(pl + plen, 0, payload - plen) : 0;
			if (!z) { bad = 1; break; }
			plen = z - pl + 1;
		}
		if (payload >= 1024) {
			VF_CHECK(ref.ret == MPT_ERROR(MissingBuffer) && !ref.calls, "model:message_assign:contiguous-reference", "%s: contiguous: returned %d, handler called %d times; payload does not fit the 1024 byte buffer", ctx, ref.ret, ref.calls);
			vf_count("assign:refused-too-long", 1);
		} else if (bad) {
			VF_CHECK(ref.ret < 0 && !ref.calls, "model:message_assign:contiguous-reference", "%s: contiguous: returned %d, handler called %d times; path elements are missing", ctx, ref.ret, ref.calls);
			vf_count("assign:refused-missing-element", 1);
		} else {
			VF_CHECK(ref.calls == 1 && ref.plen == plen && ref.vlen == payload - plen && !memcmp(ref.path, pl, plen) && (payload == plen || !memcmp(ref.val, pl + plen, payload - plen)),
			         "model:message_assign:contiguous-reference", "%s: contiguous: handler called %d times with path of %zu and value of %zu bytes, expected %zu and %zu (or other bytes)", ctx, ref.calls, ref.plen, ref.vlen, plen, payload - plen);
			VF_CHECK(ref.ret == (int) ((plen * 7 + (payload - plen)) & 0xff), "model:message_assign:contiguous-reference", "%s: contiguous: returned %d, handler returned %d", ctx, ref.ret, (int) ((plen * 7 + (payload - plen)) & 0xff));
			vf_count("assign:accepted", 1);
			if (payload >= 1000) vf_count("assign:accepted-near-limit", 1);
		}
	}
	size_t cuts[12];
	int compared = 0;
#define A_COMPARE(K, LIST) do { \
		a_run(data, cuts, (K), (LIST), arg, &cur); \
		if (cur.ret != ref.ret || cur.calls != ref.calls || cur.plen != ref.plen || cur.vlen != ref.vlen || cur.sep != ref.sep \
		    || (ref.calls && ref.plen <= AMAX && memcmp(cur.path, ref.path, ref.plen)) || (ref.calls && ref.vlen <= AMAX && ref.vlen && memcmp(cur.val, ref.val, ref.vlen))) { \
			char cb_[100]; size_t o_ = 0; \
			for (int j_ = 0; j_ < (K); j_++) o_ += snprintf(cb_ + o_, sizeof(cb_) - o_, "%s%zu", j_ ? "," : "", cuts[j_]); \
			vf_fail("model:message_assign:fragmented-differs", "%s cut as {%s}%s: returned %d, handler called %d times (path %zu, value %zu bytes); contiguous: returned %d, %d calls (path %zu, value %zu bytes)", \
			        ctx, cb_, (LIST) ? " (all in list)" : "", cur.ret, cur.calls, cur.plen, cur.vlen, ref.ret, ref.calls, ref.plen, ref.vlen); \
		} \
		compared++; \
	} while (0)
	if (len <= 42) {
		for (size_t x = 0; x <= len; x++) {
			cuts[0] = x; cuts[1] = len - x;
			A_COMPARE(2, 0); A_COMPARE(2, 1);
			for (size_t c = x; c <= len; c++) {
				cuts[0] = x; cuts[1] = c - x; cuts[2] = len - c; A_COMPARE(3, (int) (x & 1));
				cuts[0] = x; cuts[1] = 0; cuts[2] = c - x; cuts[3] = len - c; A_COMPARE(4, 0);
				cuts[0] = 0; cuts[1] = x; cuts[2] = c - x; cuts[3] = 0; cuts[4] = len - c; A_COMPARE(5, (int) (c & 1));
			}
		}
	} else {
		/* cuts at both ends, around the header and around the buffer size */
		size_t at[] = { 0, 1, 2, 3, hdr + 1, 512, 1022, 1023, 1024, 1025, 1026, len - 2, len - 1, len };
		for (unsigned i = 0; i < sizeof(at) / sizeof(*at); i++) {
			if (at[i] > len) continue;
			cuts[0] = at[i]; cuts[1] = len - at[i];
			A_COMPARE(2, 0); A_COMPARE(2, 1);
			cuts[0] = at[i]; cuts[1] = 0; cuts[2] = len - at[i]; A_COMPARE(3, 0);
			cuts[0] = 0; cuts[1] = at[i]; cuts[2] = len - at[i]; cuts[3] = 0; A_COMPARE(4, 1);
		}
	}
	for (int i = 0; i < 24; i++) {
		int k = 2 + vf_below(r, 7);
		size_t rest = len;
		for (int j = 0; j + 1 < k; j++) {
			size_t n = vf_chance(r, 1, 4) ? 0 : vf_chance(r, 1, 2) ? 1 + vf_below(r, 4) : vf_below(r, (uint32_t) rest + 1);
			if (n > rest) n = rest;
			cuts[j] = n; rest -= n;
		}
		cuts[k - 1] = rest;
		A_COMPARE(k, (int) vf_below(r, 2));
	}
#undef A_COMPARE
	vf_count("monitor:assign-compared", compared);
	if (payload >= 1000) vf_count("assign:near-limit-compared", compared);
	if (payload >= 1024) vf_count("assign:too-long-compared", compared);
	if (payload) vf_nontrivial();
	if (idx % 23 == 7) vf_sample("message_assign: %s -> returned %d; 2/3-fragment cuts, empty parts, 24 PRNG lists", ctx, ref.ret);
}

uint64_t vf_cases(void) { return n_exA() + n_exB() + n_prng() + n_getex() + n_getprng() + n_dispatch() + n_property() + n_assign(); }

void vf_case(uint64_t idx, vf_rng *r)
{
	want_sample = (idx % 150001) == 77777;   /* a few of the enumerated cases among the evidence samples */
	if (idx < n_exA()) { case_exA(idx, r); return; }
	idx -= n_exA();
	if (idx < n_exB()) { case_exB(idx, r); return; }
	idx -= n_exB();
	if (idx < n_prng()) { case_prng(r); return; }
	idx -= n_prng();
	if (idx < n_getex()) { case_getex(idx, r); return; }
	idx -= n_getex();
	if (idx < n_getprng()) { case_getprng(r); return; }
	idx -= n_getprng();
	if (idx < n_dispatch()) { case_dispatch(idx, r); return; }
	idx -= n_dispatch();
	if (idx < n_property()) { case_property(r); return; }
	case_assign(idx - n_property(), r);
}
