/*
 * C13 (C++ leg): mpt::io::queue and mpt::pipe<T> against std::deque.
 */
#include <deque>
#include <vector>
#include <string>
#include <cstring>
#include <sys/uio.h>

#include "queue.h"
#include "io.h"
#include "vf.h"

const char *vf_name = "c13_cxx";

class Q : public mpt::io::queue
{
public:
	Q(size_t n = 0) : mpt::io::queue(n) { }
	mpt::queue &raw() { return _d; }
};
typedef std::deque<uint8_t> model;

static uint8_t nextv = 1;
static std::vector<uint8_t> fresh(size_t n)
{
	std::vector<uint8_t> v(n);
	for (auto &b : v) { do { nextv++; } while (!nextv); b = nextv; }
	return v;
}
static std::string hex(const uint8_t *p, size_t n)
{
	char buf[200];
	return vf_hex(buf, sizeof(buf), p, n);
}
static std::string mhex(const model &m)
{
	std::vector<uint8_t> v(m.begin(), m.end());
	return hex(v.data(), v.size());
}
static void readback(const char *op, Q &q, const model &m, const std::string &ctx)
{
	mpt::queue &d = q.raw();
	char key[96];
	snprintf(key, sizeof(key), "cxx:%s:length", op);
	VF_CHECK(d.len == m.size(), key, "%s: queue len %zu model %zu", ctx.c_str(), d.len, m.size());
	snprintf(key, sizeof(key), "cxx:%s:content", op);
	const uint8_t *b = static_cast<const uint8_t *>(d.base);
	for (size_t i = 0; i < d.len; i++) {
		uint8_t v = b[(d.off + i) % d.max];
		if (v != m[i]) {
			vf_fail(key, "%s: byte %zu is %02x model %02x (model=%s max=%zu off=%zu)", ctx.c_str(), i, v, m[i], mhex(m).c_str(), d.max, d.off);
		}
	}
	vf_count("monitor:readbacks", 1);
}

static void case_ioqueue(vf_rng *r)
{
	size_t cap = vf_chance(r, 1, 3) ? 0 : vf_below(r, 40);
	Q q(cap);
	model m;
	int nops = vf_range(r, 6, vf_thorough ? 80 : 40);
	int wrapped = 0, mut = 0;
	std::string desc = "io::queue(" + std::to_string(cap) + "):";
	vf_fp_u64(cap);

	for (int i = 0; i < nops; i++) {
		int op = vf_below(r, 9);
		mpt::queue &d = q.raw();
		size_t len = vf_chance(r, 1, 2) ? vf_below(r, 6) : vf_below(r, 70);
		if (vf_chance(r, 1, 6)) len = m.size() + vf_below(r, 3);
		if (vf_chance(r, 1, 10)) len = m.size() > 0 ? m.size() - 1 : 0;
		char ctxb[160];
		static const char *names[] = { "push", "pushzero", "pop", "popnull", "unshift", "shift", "shiftnull", "peek", "readwrite" };
		snprintf(ctxb, sizeof(ctxb), "%s(%zu) on max=%zu off=%zu len=%zu", names[op], len, d.max, d.off, d.len);
		std::string ctx = ctxb;
		vf_log("%s", ctxb);
		vf_fp_u64(((uint64_t) op << 32) | len);
		switch (op) {
		case 0: case 1: {
			vf_at("io::queue::push"); vf_count("io::queue::push", 1);
			std::vector<uint8_t> in = fresh(len);
			uint8_t *p = static_cast<uint8_t *>(vf_xalloc(len));
			memcpy(p, in.data(), len);
			bool ok = q.push(op == 0 ? p : 0, len);
			vf_xfree(p, len);
			VF_CHECK(ok || !len, "cxx:push:refused", "%s: push on growable queue refused", ctx.c_str());
			if (ok) for (size_t j = 0; j < len; j++) m.push_back(op == 0 ? in[j] : 0);
			mut++;
			break; }
		case 2: case 3: {
			vf_at("io::queue::pop"); vf_count("io::queue::pop", 1);
			uint8_t *out = op == 2 ? static_cast<uint8_t *>(vf_xalloc(len)) : 0;
			bool ok = q.pop(out, len);
			if (len > m.size()) {
				VF_CHECK(!ok, "cxx:pop:accepted-too-much", "%s: accepted", ctx.c_str());
			} else {
				VF_CHECK(ok || !len, "cxx:pop:refused", "%s: refused", ctx.c_str());
				if (out) {
					for (size_t j = 0; j < len; j++) {
						uint8_t e = m[m.size() - len + j];
						VF_CHECK(out[j] == e, "cxx:pop:data", "%s: byte %zu is %02x expected %02x", ctx.c_str(), j, out[j], e);
					}
				}
				m.erase(m.end() - len, m.end());
				mut++;
			}
			vf_xfree(out, len);
			break; }
		case 4: {
			vf_at("io::queue::unshift"); vf_count("io::queue::unshift", 1);
			std::vector<uint8_t> in = fresh(len);
			uint8_t *p = static_cast<uint8_t *>(vf_xalloc(len));
			memcpy(p, in.data(), len);
			bool ok = q.unshift(p, len);
			vf_xfree(p, len);
			VF_CHECK(ok || !len, "cxx:unshift:refused", "%s: unshift on growable queue refused", ctx.c_str());
			if (ok) m.insert(m.begin(), in.begin(), in.end());
			mut++;
			break; }
		case 5: case 6: {
			vf_at("io::queue::shift"); vf_count("io::queue::shift", 1);
			uint8_t *out = op == 5 ? static_cast<uint8_t *>(vf_xalloc(len)) : 0;
			bool ok = q.shift(out, len);
			if (len > m.size()) {
				VF_CHECK(!ok, "cxx:shift:accepted-too-much", "%s: accepted", ctx.c_str());
			} else {
				VF_CHECK(ok || !len, "cxx:shift:refused", "%s: refused", ctx.c_str());
				if (out) {
					for (size_t j = 0; j < len; j++)
						VF_CHECK(out[j] == m[j], "cxx:shift:data", "%s: byte %zu is %02x expected %02x", ctx.c_str(), j, out[j], m[j]);
				}
				m.erase(m.begin(), m.begin() + len);
				mut++;
			}
			vf_xfree(out, len);
			break; }
		case 7: {
			vf_at("io::queue::peek"); vf_count("io::queue::peek", 1);
			mpt::span<const uint8_t> s = q.peek(len);
			size_t want = len ? len : m.size();
			if (want > m.size()) want = m.size();
			VF_CHECK((size_t) s.size() <= m.size(), "cxx:peek:too-long", "%s: span of %ld for %zu stored", ctx.c_str(), s.size(), m.size());
			VF_CHECK((size_t) s.size() >= want, "cxx:peek:too-short", "%s: span of %ld, asked for %zu of %zu", ctx.c_str(), s.size(), want, m.size());
			for (long j = 0; j < s.size(); j++)
				VF_CHECK(s.begin()[j] == m[j], "cxx:peek:data", "%s: byte %ld is %02x expected %02x", ctx.c_str(), j, s.begin()[j], m[j]);
			break; }
		case 8: {
			/* device interface: write n elements of size part, read some back */
			size_t part = vf_below(r, 5), n = vf_below(r, 7);
			std::vector<uint8_t> in = fresh(part * n);
			uint8_t *p = static_cast<uint8_t *>(vf_xalloc(part * n));
			memcpy(p, in.data(), part * n);
			vf_at("io::queue::write"); vf_count("io::queue::write", 1);
			ssize_t w = q.write(n, p, part);
			vf_xfree(p, part * n);
			snprintf(ctxb, sizeof(ctxb), "write(n=%zu,part=%zu) -> %zd", n, part, w);
			ctx = ctxb;
			vf_log("%s", ctxb);
			if (part) {
				VF_CHECK(w >= 0 && (size_t) w <= n, "cxx:write:return", "%s: impossible count", ctx.c_str());
				/* the reported number of elements is what must have been appended */
				for (size_t j = 0; j < (size_t) w * part; j++) m.push_back(in[j]);
				VF_CHECK((size_t) w == n, "cxx:write:short", "%s: growable queue took only part", ctx.c_str());
			}
			readback("write", q, m, ctx);
			size_t rn = vf_below(r, 4);
			if (part) {
				uint8_t *out = static_cast<uint8_t *>(vf_xalloc(part * rn));
				vf_at("io::queue::read"); vf_count("io::queue::read", 1);
				ssize_t g = q.read(rn, out, part);
				size_t avail = m.size() / part;
				size_t expn = rn < avail ? rn : avail;
				snprintf(ctxb, sizeof(ctxb), "read(n=%zu,part=%zu) -> %zd with %zu stored", rn, part, g, m.size());
				ctx = ctxb;
				vf_log("%s", ctxb);
				VF_CHECK(g == (ssize_t) expn, "cxx:read:count", "%s: expected %zu elements", ctx.c_str(), expn);
				/* elements are taken from the queue end, one element at a time */
				for (size_t e = 0; e < expn; e++) {
					for (size_t j = 0; j < part; j++) {
						uint8_t x = m[m.size() - part + j];
						VF_CHECK(out[e * part + j] == x, "cxx:read:data", "%s: element %zu byte %zu is %02x expected %02x", ctx.c_str(), e, j, out[e * part + j], x);
					}
					m.erase(m.end() - part, m.end());
				}
				vf_xfree(out, part * rn);
			}
			mut++;
			break; }
		}
		readback(names[op], q, m, ctx);
		mpt::queue &d2 = q.raw();
		if (d2.len && (d2.max - d2.len) < d2.off) wrapped = 1;
		if (desc.size() < 1500) desc += std::string(" ") + names[op] + "(" + std::to_string(len) + ")";
	}
	if (wrapped) vf_count("history:reached-wrapped", 1);
	if (wrapped && mut >= 3) vf_nontrivial();
	vf_sample("%s", desc.c_str());
}

static void case_pipe(vf_rng *r)
{
	/* typed pipe over a shared io::queue */
	long n0 = vf_below(r, 6);
	uint32_t v0 = (uint32_t) vf_u64(r);
	/* pipe(value, 0) creates no queue instance at all (every later push is refused by design
	 * of the constructor); the default constructor is the way to get an empty pipe */
	mpt::pipe<uint32_t> p0, pn(v0, n0 > 0 ? n0 : 1);
	mpt::pipe<uint32_t> &p = n0 > 0 ? pn : p0;
	std::deque<uint32_t> m(n0 > 0 ? n0 : 0, v0);
	int nops = vf_range(r, 4, 40);
	vf_fp_u64(0x9199); vf_fp_u64(n0);
	for (int i = 0; i < nops; i++) {
		int op = vf_below(r, 5);
		uint32_t v = (uint32_t) vf_u64(r) | 1u;
		uint32_t out = 0;
		vf_fp_u64(op);
		switch (op) {
		case 0: vf_at("pipe::push"); vf_count("pipe::push", 1);
			VF_CHECK(p.push(v), "cxx:pipe:push-refused", "push refused"); m.push_back(v); break;
		case 1: vf_at("pipe::unshift"); vf_count("pipe::unshift", 1);
			VF_CHECK(p.unshift(v), "cxx:pipe:unshift-refused", "unshift refused"); m.push_front(v); break;
		case 2: { vf_at("pipe::pop"); vf_count("pipe::pop", 1);
			bool ok = p.pop(&out);
			VF_CHECK(ok == !m.empty(), "cxx:pipe:pop-verdict", "pop -> %d with %zu elements", ok, m.size());
			if (ok) { VF_CHECK(out == m.back(), "cxx:pipe:pop-data", "pop gave %08x expected %08x", out, m.back()); m.pop_back(); }
			break; }
		case 3: { vf_at("pipe::shift"); vf_count("pipe::shift", 1);
			bool ok = p.shift(&out);
			VF_CHECK(ok == !m.empty(), "cxx:pipe:shift-verdict", "shift -> %d with %zu elements", ok, m.size());
			if (ok) { VF_CHECK(out == m.front(), "cxx:pipe:shift-data", "shift gave %08x expected %08x", out, m.front()); m.pop_front(); }
			break; }
		case 4: { vf_at("pipe::elements"); vf_count("pipe::elements", 1);
			mpt::span<uint32_t> s = p.elements();
			VF_CHECK((size_t) s.size() == m.size(), "cxx:pipe:elements-count", "elements() has %ld, model %zu", s.size(), m.size());
			for (long j = 0; j < s.size(); j++)
				VF_CHECK(s.begin()[j] == m[j], "cxx:pipe:elements-data", "element %ld is %08x expected %08x", j, s.begin()[j], m[j]);
			break; }
		}
	}
	if (m.size() > 1) vf_nontrivial();
	vf_sample("pipe<uint32_t>(%ld initial) with %d push/unshift/pop/shift/elements operations", n0, nops);
}

static uint64_t n_q(void) { return vf_thorough ? 400000 : 40000; }
static uint64_t n_p(void) { return vf_thorough ? 100000 : 10000; }
uint64_t vf_cases(void) { return n_q() + n_p(); }
void vf_case(uint64_t idx, vf_rng *r)
{
	if (idx < n_q()) case_ioqueue(r);
	else case_pipe(r);
}
