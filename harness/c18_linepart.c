/*
 * C18: visible line parts partition the data exactly (C leg).
 *
 * Workload: repeated mpt_linepart_linear(&p, v + o, len, range) advancing
 * o += p.raw, with len = all remaining values (the documented use) or a
 * chunk limit (the way mpt++ linepart::array::apply calls it); then
 * mpt_linepart_join over the adjacent parts.  The oracle (c18_oracle.c) is
 * applied to the produced list and to the joined list.
 *
 * Cases: [0,E) exhaustive class sequences over {below, min, inside, max,
 * above}; [E,E+P) PRNG real sequences; then runs around the 65535 limit;
 * then a grid of synthetic joins.
 */
#include <stdlib.h>
#include <math.h>
#include <float.h>
#include <limits.h>

#include "values.h"
#include "vf.h"
#include "c18_oracle.h"

const char *vf_name = "c18_linepart";

#define MAXPARTS 400000

static struct c18_part parts[MAXPARTS], joined[MAXPARTS];
static size_t windows[MAXPARTS];

/* ---------------------------------------------------------------- driver */
/* split v[0..n) with calls limited to `chunk` values (0: all remaining) */
static size_t split(const double *v, size_t n, const double *range, size_t chunk)
{
	MPT_STRUCT(range) r;
	size_t o = 0, np = 0;

	if (range) { r.min = range[0]; r.max = range[1]; }
	while (o < n) {
		MPT_STRUCT(linepart) p;
		size_t len = n - o;
		if (chunk && len > chunk) len = chunk;
		/* sentinel: every field has to be assigned by the call */
		p.raw = p.usr = p._cut = p._trim = 0xA5A5;
		vf_at("mpt_linepart_linear");
		mpt_linepart_linear(&p, v + o, len, range ? &r : 0);
		vf_count("mpt_linepart_linear", 1);
		if (vf_logging) vf_log("linepart_linear(o=%zu len=%zu) -> raw=%u usr=%u cut=%u trim=%u", o, len, p.raw, p.usr, p._cut, p._trim);
		if (np >= MAXPARTS) vf_inconclusive("part table too small");
		parts[np].raw = p.raw; parts[np].usr = p.usr; parts[np].cut = p._cut; parts[np].trim = p._trim;
		windows[np] = len;
		np++;
		if (!p.raw) {
			/* the oracle reports no-progress; do not spin */
			break;
		}
		if (p.raw > len) break;
		o += p.raw;
	}
	return np;
}
/* join adjacent parts greedily, checking each join on its own; returns length of joined list */
static size_t join_all(size_t np)
{
	size_t nj = 0;
	for (size_t k = 0; k < np; k++) {
		MPT_STRUCT(linepart) to, post, before, *ret;
		if (!nj) { joined[nj++] = parts[k]; continue; }
		to.raw = joined[nj - 1].raw; to.usr = joined[nj - 1].usr; to._cut = joined[nj - 1].cut; to._trim = joined[nj - 1].trim;
		post.raw = parts[k].raw; post.usr = parts[k].usr; post._cut = parts[k].cut; post._trim = parts[k].trim;
		before = to;
		vf_at("mpt_linepart_join");
		ret = mpt_linepart_join(&to, post);
		vf_count("mpt_linepart_join", 1);
		if (vf_logging) vf_log("linepart_join({%u,%u,%u,%u}, {%u,%u,%u,%u}) -> %s", before.raw, before.usr, before._cut, before._trim, post.raw, post.usr, post._cut, post._trim, ret ? "joined" : "refused");
		if (ret) {
			VF_CHECK(ret == &to, "model:join:return", "join returned a pointer that is not the target");
			VF_CHECK((unsigned) to.raw == (unsigned) before.raw + post.raw, "model:join:raw-total", "join {raw=%u} + {raw=%u} gives raw=%u", before.raw, post.raw, to.raw);
			VF_CHECK((unsigned) to.usr == (unsigned) before.usr + post.usr, "model:join:usr-total", "join {usr=%u} + {usr=%u} gives usr=%u", before.usr, post.usr, to.usr);
			vf_count("join:accepted", 1);
			joined[nj - 1].raw = to.raw; joined[nj - 1].usr = to.usr; joined[nj - 1].cut = to._cut; joined[nj - 1].trim = to._trim;
		} else {
			VF_CHECK(to.raw == before.raw && to.usr == before.usr && to._cut == before._cut && to._trim == before._trim,
			         "model:join:refused-modified", "refused join changed target {%u,%u,%u,%u} -> {%u,%u,%u,%u}",
			         before.raw, before.usr, before._cut, before._trim, to.raw, to.usr, to._cut, to._trim);
			vf_count("join:refused", 1);
			joined[nj++] = parts[k];
		}
	}
	return nj;
}
/* one data set: documented use, chunked use, without range; joins */
static void run_data(const double *v, size_t n, const double *range, const size_t *chunks, int nchunks)
{
	int flags = c18_nonfinite(v, n, range) ? C18_STRUCT_ONLY : 0;
	size_t np, nj;

	if (flags) vf_count("data:non-finite", 1);
	np = split(v, n, range, 0);
	c18_check_parts("linear", v, n, range, parts, np, windows, flags | C18_COMPLETE);
	vf_max("max:parts-per-data", np);
	nj = join_all(np);
	c18_check_parts("join", v, n, range, joined, nj, 0, flags);

	for (int c = 0; c < nchunks; c++) {
		np = split(v, n, range, chunks[c]);
		c18_check_parts("linear-chunked", v, n, range, parts, np, windows, flags);
		nj = join_all(np);
		if (nj < np) vf_count("join:lists-shortened", 1);
		c18_check_parts("join", v, n, range, joined, nj, 0, flags);
	}
	/* no range: everything is drawn */
	np = split(v, n, 0, 0);
	c18_check_parts("linear", v, n, 0, parts, np, windows, 0);
}

/* ------------------------------------------------------------ exhaustive */
enum { Below, AtMin, Inside, AtMax, Above };
static const char cname[] = "bmiMa";

static unsigned ex_maxlen(void) { return vf_thorough ? 8 : 7; }
static uint64_t ex_count(void)
{
	uint64_t n = 0, p = 1;
	for (unsigned l = 1; l <= ex_maxlen(); l++) { p *= 5; n += p; }
	return n;
}
#define NSCALE 5
/* value of class c at position i in scaling s; positions vary the distance to the bounds */
static double ex_value(int s, int c, unsigned i, double *range)
{
	static const double rmin[NSCALE] = { 0, -3e-7, 1e10, 2.5, -1e-300 };
	static const double rmax[NSCALE] = { 1, -1e-7, 3e10, 2.5, 1e-300 };
	double min = rmin[s], max = rmax[s], w = max - min, k = 1 + (i * 7 % 5);
	range[0] = min; range[1] = max;
	if (s == 3) w = 1;
	switch (c) {
	case Below: return s == 2 ? min - 1e12 * k : min - w * k / 3;
	case AtMin: return min;
	case Inside: return s == 3 ? min : min + w * k / 6;
	case AtMax: return max;
	default: return s == 2 ? max + 1e15 * k : max + w * k / 4;
	}
}
static void case_exhaustive(uint64_t idx)
{
	static const size_t chunks[] = { 1, 2, 3 };
	unsigned len = 1, cls[8];
	uint64_t p = 5, code = idx;
	char desc[16];
	double *v, range[2];
	int in = 0, out = 0;

	while (code >= p) { code -= p; p *= 5; len++; }
	for (unsigned i = 0; i < len; i++) { cls[i] = code % 5; code /= 5; desc[i] = cname[cls[i]]; }
	desc[len] = 0;
	vf_fp_u64(0xE18); vf_fp_u64(idx);
	for (unsigned i = 0; i < len; i++) { if (cls[i] == Below || cls[i] == Above) out = 1; else in = 1; }
	if (in && out) vf_nontrivial();
	if (vf_logging) vf_log("exhaustive classes %s", desc);
	v = vf_xalloc(len * sizeof(*v));
	for (int s = 0; s < NSCALE; s++) {
		for (unsigned i = 0; i < len; i++) v[i] = ex_value(s, cls[i], i, range);
		if (vf_logging) vf_log("scaling %d range [%g,%g]", s, range[0], range[1]);
		run_data(v, len, range, chunks, 3);
		vf_count("exhaustive:instances", 1);
	}
	vf_xfree(v, len * sizeof(*v));
	vf_sample("exhaustive: classes %s (b=below m=min i=inside M=max a=above) x %d scalings x {all remaining, chunk 1,2,3} + joins", desc, NSCALE);
}

/* ------------------------------------------------------------------ PRNG */
static void pick_range(vf_rng *r, double *range)
{
	double a, b;
	switch (vf_below(r, 10)) {
	case 0: a = 0; b = 1; break;
	case 1: a = -5; b = -2; break;
	case 2: a = 1e-300; b = 3e-300; break;
	case 3: a = -1e-9; b = 1e-9; break;
	case 4: a = -1e300; b = 1e300; break;
	case 5: a = b = (vf_unit(r) - 0.5) * 100; break;                  /* single value */
	case 6: a = 4e-320; b = 9e-320; break;                               /* subnormal */
	case 7: a = 1e15; b = 1e15 + 2; break;                               /* few representable values inside */
	default:
		a = (vf_unit(r) - 0.5) * pow(10, vf_range(r, -12, 12));
		b = a + vf_unit(r) * pow(10, vf_range(r, -12, 12));
	}
	if (vf_chance(r, 1, 25)) { double t = a; a = b; b = t; }        /* empty range: nothing visible */
	range[0] = a; range[1] = b;
}
static double pick_value(vf_rng *r, const double *range, double prev, int extreme)
{
	double min = range[0], max = range[1], w = fabs(max - min);
	if (!(w > 0)) w = fabs(min) > 0 ? fabs(min) : 1;
	if (extreme) {
		switch (vf_below(r, 8)) {
		case 0: return DBL_MAX;
		case 1: return -DBL_MAX;
		case 2: return 1e308;
		case 3: return -1e308;
		case 4: return NAN;
		case 5: return INFINITY;
		case 6: return -INFINITY;
		default: break;
		}
	}
	switch (vf_below(r, 16)) {
	case 0: return min;
	case 1: return max;
	case 2: return nextafter(min, -INFINITY);
	case 3: return nextafter(max, INFINITY);
	case 4: return nextafter(min, INFINITY);
	case 5: return nextafter(max, -INFINITY);
	case 6: case 7: return prev;                                         /* equal neighbours */
	case 8: return min - w * vf_unit(r) * pow(10, vf_range(r, -9, 6)); /* below: tiny .. huge slopes */
	case 9: return max + w * vf_unit(r) * pow(10, vf_range(r, -9, 6));
	case 10: return min - w * vf_unit(r);
	case 11: return max + w * vf_unit(r);
	case 12: return vf_chance(r, 1, 2) ? 0.0 : -0.0;
	default: return min + (max - min) * vf_unit(r);
	}
}
static void case_prng(vf_rng *r)
{
	size_t n = vf_chance(r, 1, 10) ? (size_t) vf_range(r, 41, 300) : (size_t) vf_range(r, 1, 40);
	double *v = vf_xalloc(n * sizeof(*v)), range[2], prev;
	int extreme = vf_chance(r, 1, 24);
	size_t chunks[2];
	char desc[600];
	size_t l = 0;

	pick_range(r, range);
	if (extreme && vf_chance(r, 1, 3)) range[vf_below(r, 2)] = vf_chance(r, 1, 2) ? INFINITY : (vf_chance(r, 1, 2) ? -INFINITY : NAN);
	if (extreme && vf_chance(r, 1, 3)) { range[0] = -1e308; range[1] = 1e308; }
	prev = range[0];
	for (size_t i = 0; i < n; i++) v[i] = prev = pick_value(r, range, prev, extreme && vf_chance(r, 1, 4));
	chunks[0] = 1 + vf_below(r, 6);
	chunks[1] = 1 + vf_below(r, (uint32_t) n + 2);
	vf_fp(v, n * sizeof(*v)); vf_fp(range, sizeof(range));
	if (c18_crossings(v, n, range) && !c18_nonfinite(v, n, range)) vf_nontrivial();
	l += snprintf(desc + l, sizeof(desc) - l, "prng: range [%.17g,%.17g] chunks %zu,%zu n=%zu:", range[0], range[1], chunks[0], chunks[1], n);
	for (size_t i = 0; i < n && l + 30 < sizeof(desc); i++) l += snprintf(desc + l, sizeof(desc) - l, " %.17g", v[i]);
	if (vf_logging) vf_log("%s", desc);
	vf_count("prng:crossings", c18_crossings(v, n, range));
	run_data(v, n, range, chunks, 2);
	vf_xfree(v, n * sizeof(*v));
	vf_sample("%s", desc);
}

/* ------------------------------------------------------------- long runs */
/* values of one class, varied by position */
static void fill(double *v, size_t n, int cls, size_t pos)
{
	for (size_t i = 0; i < n; i++, pos++) {
		double k = 1 + pos % 7;
		switch (cls) {
		case Below: v[i] = -k; break;
		case AtMin: v[i] = 0; break;
		case Inside: v[i] = k / 8; break;
		case AtMax: v[i] = 1; break;
		default: v[i] = 1 + k; break;
		}
	}
}
static unsigned run_tails(void) { return vf_thorough ? 125 : 25; }
#define RUN_KINDS 5
#define RUN_HEADS 3
static uint64_t run_count(void) { return 6 * RUN_KINDS * RUN_HEADS * run_tails(); }
static void case_run(uint64_t idx, vf_rng *r)
{
	static const double range[2] = { 0, 1 };
	size_t R = 65533 + idx % 6; idx /= 6;
	int kind = idx % RUN_KINDS; idx /= RUN_KINDS;
	int head = idx % RUN_HEADS; idx /= RUN_HEADS;
	unsigned tail = (unsigned) idx, ntail = vf_thorough ? 3 : 2;
	size_t nhead = head ? 1 : 0, n = nhead + R + ntail, chunks[2];
	double *v = vf_xalloc(n * sizeof(*v));
	char desc[200], tl[4];

	if (head) fill(v, 1, head == 1 ? Below : Inside, 0);
	switch (kind) {
	case 0: fill(v + nhead, R, Inside, 1); break;
	case 1: fill(v + nhead, R, Below, 1); break;
	case 2: for (size_t i = 0; i < R; i++) fill(v + nhead + i, 1, (i & 1) ? Above : Below, i); break;
	case 3: fill(v + nhead, R, AtMin, 1); break;
	default: /* visible run, one invisible point in the middle of the second window */
		fill(v + nhead, R, Inside, 1);
		fill(v + nhead + R / 2, 1, Above, 0);
	}
	for (unsigned i = 0; i < ntail; i++) { int c = tail % 5; tail /= 5; fill(v + nhead + R + i, 1, c, i); tl[i] = cname[c]; }
	tl[ntail] = 0;
	chunks[0] = 65535;
	chunks[1] = 65000 + vf_below(r, 1000);
	snprintf(desc, sizeof(desc), "run: head=%s, %zu x %s, tail classes %s; range [0,1]", head == 0 ? "none" : head == 1 ? "below" : "inside", R,
	         kind == 0 ? "inside" : kind == 1 ? "below" : kind == 2 ? "below/above alternating" : kind == 3 ? "at-min" : "inside with one point above in the middle", tl);
	if (vf_logging) vf_log("%s", desc);
	vf_fp_u64(0x4e18); vf_fp_u64(R); vf_fp_u64(kind); vf_fp_u64(head); vf_fp(tl, ntail);
	vf_nontrivial();
	run_data(v, n, range, chunks, 2);
	vf_count("run:cases", 1);
	vf_xfree(v, n * sizeof(*v));
	vf_sample("%s", desc);
}
/* several runs of PRNG lengths */
static uint64_t mix_count(void) { return vf_thorough ? 2000 : 150; }
static void case_mix(vf_rng *r)
{
	static const double range[2] = { 0, 1 };
	static const size_t lens[] = { 1, 2, 3, 100, 30000, 65533, 65534, 65535, 65536, 65537, 65538 };
	size_t cap = 150000, n = 0, chunks[1];
	double *tmp = malloc(cap * sizeof(*tmp)), *v;
	char desc[400];
	size_t l = 0;

	if (!tmp) vf_inconclusive("out of memory");
	l += snprintf(desc, sizeof(desc), "mixed runs, range [0,1]:");
	vf_fp_u64(0x3118);
	while (n < 132000) {
		size_t len = lens[vf_below(r, sizeof(lens) / sizeof(*lens))];
		int cls = (int) vf_below(r, 5);
		if (n + len > cap) break;
		fill(tmp + n, len, cls, n);
		n += len;
		vf_fp_u64(len * 8 + cls);
		if (l + 20 < sizeof(desc)) l += snprintf(desc + l, sizeof(desc) - l, " %zux%c", len, cname[cls]);
	}
	v = vf_xalloc(n * sizeof(*v));
	memcpy(v, tmp, n * sizeof(*v));
	free(tmp);
	chunks[0] = 60000 + vf_below(r, 6000);
	if (vf_logging) vf_log("%s", desc);
	vf_nontrivial();
	run_data(v, n, range, chunks, 1);
	vf_count("run:cases", 1);
	vf_xfree(v, n * sizeof(*v));
	vf_sample("%s", desc);
}

/* -------------------------------------------------------- synthetic joins */
static const uint16_t jv[] = { 0, 1, 2, 3, 32767, 32768, 65532, 65533, 65534, 65535 };
#define NJV (sizeof(jv) / sizeof(*jv))
static uint64_t join_count(void) { return NJV * NJV; }
static void case_join(uint64_t idx)
{
	uint16_t a = jv[idx % NJV], b = jv[idx / NJV];
	static const uint16_t fr[] = { 0, 1, 40000 };
	unsigned acc = 0;
	vf_fp_u64(0x7018); vf_fp_u64(idx);
	if ((unsigned) a + b > 65530) vf_nontrivial();
	/* usr variants: equal to raw, one less, zero; cut/trim set or not */
	for (int ua = 0; ua < 3; ua++) for (int ub = 0; ub < 3; ub++)
	for (int f = 0; f < 81; f++) {
		MPT_STRUCT(linepart) to, post, before, *ret;
		to.raw = a; to.usr = ua == 0 ? a : ua == 1 ? (a ? a - 1 : 0) : 0;
		post.raw = b; post.usr = ub == 0 ? b : ub == 1 ? (b ? b - 1 : 0) : 0;
		to._cut = fr[f % 3]; to._trim = fr[f / 3 % 3]; post._cut = fr[f / 9 % 3]; post._trim = fr[f / 27 % 3];
		before = to;
		vf_at("mpt_linepart_join");
		ret = mpt_linepart_join(&to, post);
		vf_count("mpt_linepart_join", 1);
		if (ret) {
			acc++;
			VF_CHECK((unsigned) to.raw == (unsigned) before.raw + post.raw, "model:join:raw-total", "join {raw=%u usr=%u} + {raw=%u usr=%u} gives raw=%u", before.raw, before.usr, post.raw, post.usr, to.raw);
			VF_CHECK((unsigned) to.usr == (unsigned) before.usr + post.usr, "model:join:usr-total", "join {raw=%u usr=%u} + {raw=%u usr=%u} gives usr=%u", before.raw, before.usr, post.raw, post.usr, to.usr);
			vf_count("join:accepted", 1);
		} else {
			VF_CHECK(to.raw == before.raw && to.usr == before.usr && to._cut == before._cut && to._trim == before._trim,
			         "model:join:refused-modified", "refused join changed target {%u,%u,%u,%u} -> {%u,%u,%u,%u}",
			         before.raw, before.usr, before._cut, before._trim, to.raw, to.usr, to._cut, to._trim);
			vf_count("join:refused", 1);
		}
	}
	vf_sample("synthetic joins: to.raw=%u post.raw=%u, usr in {raw, raw-1, 0}, cut/trim in {0,1,40000}: %u accepted", a, b, acc);
}

/* ------------------------------------------- crossing quotient underflow */
/*
 * A point one denormal step outside a bound at 0 and a partner of magnitude
 * > 1: the crossing quotient underflows double to exactly 0.  The part still
 * starts / ends on an out-of-range point, which its cut / trim must show by
 * being non-zero.  Only the split is checked here (no joins).
 */
static uint64_t under_count(void) { return 96; }
static void case_underflow(uint64_t idx)
{
	static const double partner[] = { 1.5, 5, 1000, 1e6 };
	static const double tiny[] = { 4.9406564584124654e-324, 1e-323, 1e-310 };
	int side = (int) (idx % 2), pi = (int) (idx / 2 % 4), ti = (int) (idx / 8 % 3), shape = (int) (idx / 24 % 4);
	double range[2], v[5], out, in;
	size_t n;
	/* side 0: range [0, M], point just below 0; side 1: range [-M, 0], point just above 0 */
	if (!side) { range[0] = 0; range[1] = 2 * partner[pi]; out = -tiny[ti]; in = partner[pi]; }
	else { range[0] = -2 * partner[pi]; range[1] = 0; out = tiny[ti]; in = -partner[pi]; }
	switch (shape) {
	case 0: v[0] = out; v[1] = in; n = 2; break;                          /* cut */
	case 1: v[0] = in; v[1] = out; n = 2; break;                          /* trim */
	case 2: v[0] = in; v[1] = in / 2; v[2] = out; v[3] = out * 2; v[4] = in; n = 5; break;
	default: v[0] = out; v[1] = in; v[2] = out; n = 3; break;              /* cut and trim */
	}
	double *d = vf_xalloc(n * sizeof(*d));
	memcpy(d, v, n * sizeof(*d));
	vf_fp_u64(0xd18); vf_fp_u64(idx);
	vf_nontrivial();
	if (vf_logging) vf_log("underflow witness: range [%g,%g], out %g, partner %g, shape %d", range[0], range[1], out, in, shape);
	size_t np = split(d, n, range, 0);
	c18_check_parts("linear", d, n, range, parts, np, windows, C18_COMPLETE);
	vf_count("monitor:underflow-witnesses", 1);
	vf_xfree(d, n * sizeof(*d));
	vf_sample("crossing quotient underflow: range [%g,%g], point %g next to %g, shape %d", range[0], range[1], out, in, shape);
}

/* ----------------------------------------------------------------- entry */
static uint64_t n_prng(void) { return vf_thorough ? 5000000 : 100000; }

uint64_t vf_cases(void) { return ex_count() + n_prng() + run_count() + mix_count() + join_count() + under_count(); }

void vf_case(uint64_t idx, vf_rng *r)
{
	if (idx < ex_count()) { case_exhaustive(idx); return; }
	idx -= ex_count();
	if (idx < n_prng()) { case_prng(r); return; }
	idx -= n_prng();
	if (idx < run_count()) { case_run(idx, r); return; }
	idx -= run_count();
	if (idx < mix_count()) { case_mix(r); return; }
	idx -= mix_count();
	if (idx < join_count()) { case_join(idx); return; }
	case_underflow(idx - join_count());
}
