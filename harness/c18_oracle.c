/*
 * C18 oracle: written from the property text, not from the library code.
 *
 * Part k covers the raw points [o_k, o_k + raw_k) with o_0 = 0 and
 * o_(k+1) = o_k + raw_k; its drawn portion is [o_k, o_k + usr_k).
 *
 *  progress     raw_k >= 1 while input is left, raw_k/usr_k within the data given
 *  totals       sum raw_k == n
 *  drawn        interior points of a drawn portion are in range; its first
 *               point may be out of range only as start of a cut segment
 *               (second point in range), its last only as end of a trimmed
 *               segment (previous point in range)
 *  coverage     every in-range index is in the drawn portion of exactly one part
 *  fractions    decoded _cut (from the first point) / _trim (from the last
 *               point, backwards) within 2^-16 of the true crossing computed
 *               in long double; zero where the end point is in range
 *  complete     (only when each call saw all remaining data and n <= 65535)
 *               every segment with exactly one end in range is drawn as cut
 *               or trimmed segment of some part
 */
#include <math.h>
#include <stdlib.h>

#include "vf.h"
#include "c18_oracle.h"

static char keybuf[96];
static const char *key(const char *pfx, const char *what)
{
	snprintf(keybuf, sizeof(keybuf), "model:%s:%s", pfx, what);
	return keybuf;
}
static int inr(double x, const double *range)
{
	return x >= range[0] && x <= range[1];
}
int c18_nonfinite(const double *v, size_t n, const double *range)
{
	double lo = 0, hi = 0;
	volatile double span;
	if (range && (!isfinite(range[0]) || !isfinite(range[1]))) return 1;
	if (range) { lo = range[0] < range[1] ? range[0] : range[1]; hi = range[0] < range[1] ? range[1] : range[0]; }
	for (size_t i = 0; i < n; i++) {
		if (!isfinite(v[i])) return 1;
		if (v[i] < lo) lo = v[i];
		if (v[i] > hi) hi = v[i];
	}
	/* differences of values/bounds overflow double: crossing fractions cannot be
	 * formed by the documented formula (see notes/C18.md), totals/progress only */
	span = hi - lo;
	return !isfinite(span);
}
size_t c18_crossings(const double *v, size_t n, const double *range)
{
	size_t c = 0;
	if (!range) return 0;
	for (size_t i = 0; i + 1 < n; i++) if (inr(v[i], range) != inr(v[i + 1], range)) c++;
	return c;
}
/* rendering of the data around a part for violation texts */
static const char *around(const double *v, size_t n, size_t o, size_t usr, size_t raw)
{
	static char buf[700];
	size_t from = o, to = o + (usr > raw ? usr : raw) + 1, l = 0;
	if (to > n) to = n;
	if (to - from > 12) {
		/* head and tail */
		for (size_t i = from; i < from + 5 && l + 40 < sizeof(buf); i++) l += snprintf(buf + l, sizeof(buf) - l, "%s[%zu]=%.17g", i > from ? " " : "", i, v[i]);
		l += snprintf(buf + l, sizeof(buf) - l, " ...");
		for (size_t i = to - 5; i < to && l + 40 < sizeof(buf); i++) l += snprintf(buf + l, sizeof(buf) - l, " [%zu]=%.17g", i, v[i]);
	} else {
		for (size_t i = from; i < to && l + 40 < sizeof(buf); i++) l += snprintf(buf + l, sizeof(buf) - l, "%s[%zu]=%.17g", i > from ? " " : "", i, v[i]);
	}
	if (!l) buf[0] = 0;
	return buf;
}
/* true crossing fraction measured from the out-of-range point `out` towards the in-range point `in` */
static int crossing(double out, double in, const double *range, long double *t)
{
	double bound = (out < range[0]) ? range[0] : range[1];
	/* the quotient cannot be formed in double when the differences overflow */
	volatile double d1 = bound - out, d2 = in - out;
	if (!isfinite(d1) || !isfinite(d2)) return 0;
	*t = ((long double) bound - (long double) out) / ((long double) in - (long double) out);
	return 1;
}
#define TOL (1.0L / 65536 * (1 + 1e-9L) + 1e-15L)

void c18_check_parts(const char *pfx, const double *v, size_t n, const double *range,
                     const struct c18_part *p, size_t np, const size_t *window, int flags)
{
	uint8_t *cover = calloc(n + 1, 1), *seg = calloc(n + 1, 1);
	size_t o = 0;

	if (!cover || !seg) vf_inconclusive("out of memory");
	for (size_t k = 0; k < np; k++) {
		size_t raw = p[k].raw, usr = p[k].usr, left = n - o;
		size_t w = window ? window[k] : left, we = w > 65535 ? 65535 : w;
		char pd[96];

		snprintf(pd, sizeof(pd), "part %zu at %zu {raw=%zu usr=%zu cut=%u trim=%u} of n=%zu", k, o, raw, usr, p[k].cut, p[k].trim, n);
		vf_count("monitor:parts", 1);
		if (left && w) VF_CHECK(raw >= 1, key(pfx, "no-progress"), "%s: raw == 0 with %zu values left; %s", pd, left, around(v, n, o, 3, 3));
		VF_CHECK(raw <= we, key(pfx, "raw-exceeds-input"), "%s: consumes more than the %zu values given", pd, we);
		VF_CHECK(usr <= we, key(pfx, "usr-exceeds-input"), "%s: draws more than the %zu values given", pd, we);
		if (raw == 65535 || usr == 65535) vf_count("state:part-at-limit-65535", 1);
		if (!range) {
			VF_CHECK(raw == we && usr == we && !p[k].cut && !p[k].trim, key(pfx, "norange"), "%s: without range all %zu values are drawn unmodified", pd, we);
			o += raw;
			continue;
		}
		if (flags & C18_STRUCT_ONLY) { o += raw; continue; }
		if (usr) {
			double first = v[o], last = v[o + usr - 1];
			long double t;
			for (size_t i = o + 1; i + 1 < o + usr; i++) {
				if (!inr(v[i], range)) vf_fail(key(pfx, "interior-out-of-range"), "%s: interior drawn point [%zu]=%.17g outside [%.17g,%.17g]; %s", pd, i, v[i], range[0], range[1], around(v, n, o, usr, raw));
			}
			vf_count("monitor:drawn-portions", 1);
			if (flags & C18_ENDS_FREE) ;
			else if (inr(first, range)) {
				VF_CHECK(!p[k].cut, key(pfx, "cut-without-crossing"), "%s: first drawn point %.17g is in range but cut = %u; %s", pd, first, p[k].cut, around(v, n, o, usr, raw));
			} else {
				VF_CHECK(usr >= 2 && inr(v[o + 1], range), key(pfx, "drawn-start-out-of-range"), "%s: first drawn point out of range and no in-range successor; range [%.17g,%.17g]; %s", pd, range[0], range[1], around(v, n, o, usr, raw));
				seg[o] |= 1;
				/* a fraction of 0 is what marks "starts on a drawn point" for join / polyline::part::points() */
				if (!p[k].cut && !vf_known(key(pfx, "zero-fraction-at-out-of-range-end"))) vf_fail(key(pfx, "zero-fraction-at-out-of-range-end"), "%s: first drawn point %.17g is outside [%.17g,%.17g] but cut == 0 (next point %.17g)", pd, first, range[0], range[1], v[o + 1]);
				if (crossing(first, v[o + 1], range, &t)) {
					long double dec = p[k].cut / 65536.0L;
					vf_count("monitor:cut-fraction", 1);
					if (fabsl(dec - t) > TOL) vf_fail(key(pfx, "cut-fraction"), "%s: cut decodes to %.9Lf, line from %.17g to %.17g crosses [%.17g,%.17g] at %.9Lf", pd, dec, first, v[o + 1], range[0], range[1], t);
				} else vf_count("monitor:fraction-skipped-overflow", 1);
			}
			if (flags & C18_ENDS_FREE) ;
			else if (inr(last, range)) {
				VF_CHECK(!p[k].trim, key(pfx, "trim-without-crossing"), "%s: last drawn point %.17g is in range but trim = %u; %s", pd, last, p[k].trim, around(v, n, o, usr, raw));
			} else if (usr >= 2) {
				/* usr == 1 with the point out of range was refused above */
				VF_CHECK(inr(v[o + usr - 2], range), key(pfx, "drawn-end-out-of-range"), "%s: last drawn point out of range and predecessor too; range [%.17g,%.17g]; %s", pd, range[0], range[1], around(v, n, o, usr, raw));
				seg[o + usr - 2] |= 2;
				if (!p[k].trim && !vf_known(key(pfx, "zero-fraction-at-out-of-range-end"))) vf_fail(key(pfx, "zero-fraction-at-out-of-range-end"), "%s: last drawn point %.17g is outside [%.17g,%.17g] but trim == 0 (previous point %.17g)", pd, last, range[0], range[1], v[o + usr - 2]);
				if (crossing(last, v[o + usr - 2], range, &t)) {
					long double dec = p[k].trim / 65536.0L;
					vf_count("monitor:trim-fraction", 1);
					if (fabsl(dec - t) > TOL) vf_fail(key(pfx, "trim-fraction"), "%s: trim decodes to %.9Lf, line from %.17g back to %.17g crosses [%.17g,%.17g] at %.9Lf (from the end)", pd, dec, last, v[o + usr - 2], range[0], range[1], t);
				} else vf_count("monitor:fraction-skipped-overflow", 1);
			}
			for (size_t i = o; i < o + usr; i++) if (cover[i] < 3) cover[i]++;
		}
		o += raw;
	}
	VF_CHECK(o == n, key(pfx, "sum-raw"), "parts consume %zu of %zu values", o, n);
	if (range && !(flags & C18_STRUCT_ONLY)) {
		for (size_t i = 0; i < n; i++) {
			if (!inr(v[i], range)) continue;
			vf_count("monitor:coverage-points", 1);
			if (cover[i] == 0) vf_fail(key(pfx, "in-range-point-not-drawn"), "[%zu]=%.17g is inside [%.17g,%.17g] but in no drawn portion (n=%zu, %zu parts)", i, v[i], range[0], range[1], n, np);
			if (cover[i] > 1) vf_fail(key(pfx, "in-range-point-drawn-twice"), "[%zu]=%.17g is in the drawn portion of %u parts (n=%zu, %zu parts)", i, v[i], cover[i], n, np);
		}
		if ((flags & C18_COMPLETE) && n <= 65535) {
			for (size_t i = 0; i + 1 < n; i++) {
				int a = inr(v[i], range), b = inr(v[i + 1], range);
				if (a == b) continue;
				vf_count("monitor:crossings-complete", 1);
				if (!a && !(seg[i] & 1)) vf_fail(key(pfx, "crossing-not-drawn"), "segment [%zu]=%.17g -> [%zu]=%.17g enters [%.17g,%.17g] but no part starts with it as cut segment", i, v[i], i + 1, v[i + 1], range[0], range[1]);
				if (!b && !(seg[i] & 2)) vf_fail(key(pfx, "crossing-not-drawn"), "segment [%zu]=%.17g -> [%zu]=%.17g leaves [%.17g,%.17g] but no part ends with it as trimmed segment", i, v[i], i + 1, v[i + 1], range[0], range[1]);
			}
		}
	}
	free(cover); free(seg);
}

/* ------------------------------------------------------ several dimensions */
void c18_check_parts_nd(const char *pfx, const double * const *v, int dims, size_t n, const double (*range)[2],
                        const struct c18_part *p, size_t np)
{
	uint8_t *cover = calloc(n + 1, 1);
	size_t o = 0;

	if (!cover) vf_inconclusive("out of memory");
	for (size_t k = 0; k < np; k++) {
		size_t raw = p[k].raw, usr = p[k].usr, left = n - o;
		char pd[96];

		snprintf(pd, sizeof(pd), "part %zu at %zu {raw=%zu usr=%zu cut=%u trim=%u} of n=%zu", k, o, raw, usr, p[k].cut, p[k].trim, n);
		vf_count("monitor:nd-parts", 1);
		if (left) VF_CHECK(raw >= 1, key(pfx, "no-progress"), "%s: raw == 0 with %zu values left", pd, left);
		VF_CHECK(raw <= left, key(pfx, "raw-exceeds-input"), "%s: consumes more than the %zu values left", pd, left);
		VF_CHECK(usr <= left, key(pfx, "usr-exceeds-input"), "%s: draws more than the %zu values left", pd, left);
		if (usr) {
			long double cut = 0, trim = 0;
			int cut_known = 1, trim_known = 1;
			for (int d = 0; d < dims; d++) {
				const double *x = v[d], *r = range[d];
				long double t;
				for (size_t i = o + 1; i + 1 < o + usr; i++) {
					if (!inr(x[i], r)) vf_fail(key(pfx, "interior-out-of-range"), "%s: interior drawn point [%zu] is %.17g in dimension %d, outside [%.17g,%.17g]", pd, i, x[i], d, r[0], r[1]);
				}
				if (!inr(x[o], r)) {
					VF_CHECK(usr >= 2 && inr(x[o + 1], r), key(pfx, "drawn-start-out-of-range"), "%s: first drawn point is %.17g in dimension %d (range [%.17g,%.17g]) and has no in-range successor; %s", pd, x[o], d, r[0], r[1], around(x, n, o, usr, raw));
					if (crossing(x[o], x[o + 1], r, &t)) { if (t > cut) cut = t; }
					else cut_known = 0;
				}
				if (usr >= 2 && !inr(x[o + usr - 1], r)) {
					VF_CHECK(inr(x[o + usr - 2], r), key(pfx, "drawn-end-out-of-range"), "%s: last drawn point is %.17g in dimension %d (range [%.17g,%.17g]) and its predecessor is out of range, too; %s", pd, x[o + usr - 1], d, r[0], r[1], around(x, n, o, usr, raw));
					if (crossing(x[o + usr - 1], x[o + usr - 2], r, &t)) { if (t > trim) trim = t; }
					else trim_known = 0;
				}
			}
			if (cut_known) {
				long double dec = p[k].cut / 65536.0L;
				vf_count(cut > 0 ? "monitor:nd-cut-fraction" : "monitor:nd-cut-zero", 1);
				if (fabsl(dec - cut) > TOL) {
					char det[300];
					size_t l = 0;
					for (int d = 0; d < dims && l + 60 < sizeof(det); d++) l += snprintf(det + l, sizeof(det) - l, " dim %d: %.17g -> %.17g in [%.17g,%.17g];", d, v[d][o], usr >= 2 ? v[d][o + 1] : v[d][o], range[d][0], range[d][1]);
					const char *kk = key(pfx, dec < cut ? "cut-fraction-too-small" : "cut-fraction-too-large");
					if (!vf_known(kk)) vf_fail(kk, "%s: cut decodes to %.9Lf, the line enters the visible box at %.9Lf of its first segment;%s", pd, dec, cut, det);
				}
			}
			if (trim_known) {
				long double dec = p[k].trim / 65536.0L;
				vf_count(trim > 0 ? "monitor:nd-trim-fraction" : "monitor:nd-trim-zero", 1);
				if (fabsl(dec - trim) > TOL) {
					char det[300];
					size_t l = 0;
					for (int d = 0; d < dims && l + 60 < sizeof(det); d++) l += snprintf(det + l, sizeof(det) - l, " dim %d: %.17g <- %.17g in [%.17g,%.17g];", d, usr >= 2 ? v[d][o + usr - 2] : v[d][o], v[d][o + usr - 1], range[d][0], range[d][1]);
					/* two directions, two keys: a leaving crossing that is not represented (line drawn beyond the
					 * boundary) / a fraction that belongs to no crossing of the last segment (visible line removed) */
					const char *kk = key(pfx, dec < trim ? "trim-fraction-too-small" : "trim-fraction-too-large");
					if (!vf_known(kk)) vf_fail(kk, "%s: trim decodes to %.9Lf, the line leaves the visible box at %.9Lf of its last segment (from the end);%s", pd, dec, trim, det);
				}
			}
			for (size_t i = o; i < o + usr; i++) if (cover[i] < 3) cover[i]++;
		}
		o += raw;
	}
	VF_CHECK(o == n, key(pfx, "sum-raw"), "parts consume %zu of %zu values", o, n);
	for (size_t i = 0; i < n; i++) {
		int in = 1;
		for (int d = 0; d < dims; d++) if (!inr(v[d][i], range[d])) in = 0;
		if (!in) continue;
		vf_count("monitor:nd-coverage-points", 1);
		if (cover[i] == 0) vf_fail(key(pfx, "in-range-point-not-drawn"), "point %zu is in range in all %d dimensions but in no drawn portion (n=%zu, %zu parts)", i, dims, n, np);
		if (cover[i] > 1) vf_fail(key(pfx, "in-range-point-drawn-twice"), "point %zu is in the drawn portion of %u parts (n=%zu, %zu parts)", i, cover[i], n, np);
	}
	free(cover);
}
